#!/bin/sh
# Builds the framework from files on disk only (offline).
cd "$(dirname "$0")" || exit 2
export CARGO_NET_OFFLINE=true
python3 - <<'PY'
import sys
sys.path.insert(0, ".")
from vp import common as C
try:
    C.ensure_harness()
    C.ensure_ucg()
except C.ToolError as e:
    print(e, file=sys.stderr)
    sys.exit(2)
PY
