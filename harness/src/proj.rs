// Projections of ucglib data to the JSON shapes of DESIGN.md Appendix B.
use std::rc::Rc;

use serde_json::{json, Value as J};

use ucglib::ast::{
    BinaryExprType, ConstraintArm, Expression, FormatArgs, FuncOpDef, Position, Statement, Token,
    TokenType, Value,
};
use ucglib::build::ir::{ConstraintBound, ConstraintVal, ConstraintValArm};
use ucglib::build::opcode::{ConstraintArmType, Hook, Op, Primitive};
use ucglib::build::Val;
use ucglib::error::BuildError;
use ucglib::tokenizer::CommentMap;

pub fn float_json(f: f64) -> J {
    json!({"t":"float","bits":format!("{:016x}", f.to_bits()),"r":format!("{:?}", f)})
}

pub fn tok_json(t: &Token) -> J {
    json!({"ty":format!("{:?}", t.typ),"fr":t.fragment.to_string(),
           "off":t.pos.offset,"ln":t.pos.line,"col":t.pos.column})
}

pub fn comment_map_json(cm: &CommentMap) -> J {
    let mut groups = Vec::new();
    for (line, grp) in cm.iter() {
        let toks: Vec<J> = grp.iter().map(tok_json).collect();
        groups.push(json!({"line":line,"toks":toks}));
    }
    J::Array(groups)
}

pub fn build_err_json(e: &BuildError) -> J {
    let mut o = json!({"msg":format!("{}", e),"etype":format!("{}", e.err_type)});
    if let Some(ref p) = e.pos {
        o["ln"] = json!(p.line);
        o["col"] = json!(p.column);
        o["off"] = json!(p.offset);
    }
    o
}

fn with_pos(mut j: J, p: &Position, pos: bool) -> J {
    if pos {
        j["ln"] = json!(p.line);
        j["col"] = json!(p.column);
        j["off"] = json!(p.offset);
    }
    j
}

pub fn binop_name(k: &BinaryExprType) -> &'static str {
    match k {
        BinaryExprType::Add => "add",
        BinaryExprType::Sub => "sub",
        BinaryExprType::Mul => "mul",
        BinaryExprType::Div => "div",
        BinaryExprType::Mod => "mod",
        BinaryExprType::AND => "and",
        BinaryExprType::OR => "or",
        BinaryExprType::Equal => "eq",
        BinaryExprType::GT => "gt",
        BinaryExprType::LT => "lt",
        BinaryExprType::NotEqual => "ne",
        BinaryExprType::GTEqual => "ge",
        BinaryExprType::LTEqual => "le",
        BinaryExprType::REMatch => "re",
        BinaryExprType::NotREMatch => "nre",
        BinaryExprType::IN => "in",
        BinaryExprType::IS => "is",
        BinaryExprType::DOT => "dot",
    }
}

fn fields_json(fl: &Vec<(Token, Option<Expression>, Expression)>, pos: bool) -> J {
    let mut v = Vec::new();
    for (t, c, e) in fl.iter() {
        let mut o = json!({"nm":t.fragment.to_string(),"q":t.typ == TokenType::QUOTED,
                           "ex":expr_json(e, pos)});
        if let Some(c) = c {
            o["con"] = json!([expr_json(c, pos)]);
        }
        v.push(with_pos(o, &t.pos, pos));
    }
    J::Array(v)
}

pub fn value_json(v: &Value, pos: bool) -> J {
    let j = match v {
        Value::Empty(_) => json!({"e":"lit","val":{"t":"null"}}),
        Value::Boolean(b) => json!({"e":"lit","val":{"t":"bool","b":b.val}}),
        Value::Int(i) => json!({"e":"lit","val":{"t":"int","i":i.val}}),
        Value::Float(f) => json!({"e":"lit","val":float_json(f.val)}),
        Value::Str(s) => json!({"e":"lit","val":{"t":"str","s":s.val.to_string()}}),
        Value::Symbol(s) => json!({"e":"sym","nm":s.val.to_string()}),
        Value::Tuple(t) => json!({"e":"tuple","flds":fields_json(&t.val, pos)}),
        Value::List(l) => {
            let xs: Vec<J> = l.elems.iter().map(|e| expr_json(e, pos)).collect();
            json!({"e":"list","xs":xs})
        }
    };
    with_pos(j, v.pos(), pos)
}

pub fn expr_json(e: &Expression, pos: bool) -> J {
    let j = match e {
        Expression::Simple(v) => return value_json(v, pos),
        Expression::Not(d) => json!({"e":"not","x":expr_json(&d.expr, pos)}),
        Expression::Binary(d) => json!({"e":"bin","op":binop_name(&d.kind),
            "l":expr_json(&d.left, pos),"r":expr_json(&d.right, pos)}),
        Expression::Copy(d) => json!({"e":"copy","sel":value_json(&d.selector, pos),
            "flds":fields_json(&d.fields, pos)}),
        Expression::Range(d) => {
            let step: Vec<J> = d.step.iter().map(|s| expr_json(s, pos)).collect();
            json!({"e":"range","lo":expr_json(&d.start, pos),"step":step,"hi":expr_json(&d.end, pos)})
        }
        Expression::Grouped(x, _) => json!({"e":"grp","x":expr_json(x, pos)}),
        Expression::Format(d) => match &d.args {
            FormatArgs::List(a) => {
                let args: Vec<J> = a.iter().map(|x| expr_json(x, pos)).collect();
                json!({"e":"fmt","tpl":d.template.clone(),"form":"list","args":args})
            }
            FormatArgs::Single(x) => {
                json!({"e":"fmt","tpl":d.template.clone(),"form":"single","args":[expr_json(x, pos)]})
            }
        },
        Expression::Include(d) => json!({"e":"include","ty":d.typ.fragment.to_string(),
            "path":d.path.fragment.to_string()}),
        Expression::Import(d) => json!({"e":"import","path":d.path.fragment.to_string()}),
        Expression::Call(d) => {
            let args: Vec<J> = d.arglist.iter().map(|x| expr_json(x, pos)).collect();
            json!({"e":"call","fn":value_json(&d.funcref, pos),"args":args})
        }
        Expression::Cast(d) => json!({"e":"cast","ty":format!("{}", d.cast_type),
            "x":expr_json(&d.target, pos)}),
        Expression::Func(d) => {
            let mut ps = Vec::new();
            for (p, c) in d.argdefs.iter() {
                let mut o = json!({"nm":p.val.to_string()});
                if let Some(c) = c {
                    o["con"] = json!([expr_json(c, pos)]);
                }
                ps.push(o);
            }
            json!({"e":"func","ps":ps,"body":expr_json(&d.fields, pos)})
        }
        Expression::Select(d) => {
            let dflt: Vec<J> = d.default.iter().map(|s| expr_json(s, pos)).collect();
            json!({"e":"select","x":expr_json(&d.val, pos),"dflt":dflt,
                   "flds":fields_json(&d.tuple, pos)})
        }
        Expression::FuncOp(d) => match d {
            FuncOpDef::Map(m) => json!({"e":"fop","kind":"map","fn":expr_json(&m.func, pos),
                "acc":[],"tgt":expr_json(&m.target, pos)}),
            FuncOpDef::Filter(m) => json!({"e":"fop","kind":"filter","fn":expr_json(&m.func, pos),
                "acc":[],"tgt":expr_json(&m.target, pos)}),
            FuncOpDef::Reduce(m) => json!({"e":"fop","kind":"reduce","fn":expr_json(&m.func, pos),
                "acc":[expr_json(&m.acc, pos)],"tgt":expr_json(&m.target, pos)}),
        },
        Expression::Module(d) => {
            let out: Vec<J> = d.out_expr.iter().map(|s| expr_json(s, pos)).collect();
            let outcon: Vec<J> = d.out_constraint.iter().map(|s| expr_json(s, pos)).collect();
            let body: Vec<J> = d.statements.iter().map(|s| stmt_json(s, pos)).collect();
            json!({"e":"module","ps":fields_json(&d.arg_set, pos),"out":out,"outcon":outcon,"body":body})
        }
        Expression::Fail(d) => json!({"e":"fail","x":expr_json(&d.message, pos)}),
        Expression::Debug(d) => json!({"e":"trace","x":expr_json(&d.expr, pos)}),
        Expression::Convert(d) => json!({"e":"convert","fmt":d.converter.fragment.to_string(),
            "x":expr_json(&d.target, pos)}),
        Expression::Constraint(d) => {
            let mut arms = Vec::new();
            for a in d.arms.iter() {
                match a {
                    ConstraintArm::Range(r) => {
                        let lo: Vec<J> = r.start.iter().map(|s| expr_json(s, pos)).collect();
                        let hi: Vec<J> = r.end.iter().map(|s| expr_json(s, pos)).collect();
                        arms.push(json!({"a":"range","lo":lo,"hi":hi}));
                    }
                    ConstraintArm::Shape(x) => arms.push(json!({"a":"shape","x":expr_json(x, pos)})),
                }
            }
            json!({"e":"constraint","arms":arms})
        }
    };
    with_pos(j, e.pos(), pos)
}

pub fn stmt_json(s: &Statement, pos: bool) -> J {
    match s {
        Statement::Expression(e) => with_pos(json!({"s":"expr","x":expr_json(e, pos)}), e.pos(), pos),
        Statement::Let(d) => {
            let con: Vec<J> = d.constraint.iter().map(|c| expr_json(c, pos)).collect();
            with_pos(
                json!({"s":"let","nm":d.name.fragment.to_string(),"con":con,"x":expr_json(&d.value, pos)}),
                &d.pos,
                pos,
            )
        }
        Statement::Constraint(d) => with_pos(
            json!({"s":"constraint","nm":d.name.fragment.to_string(),"x":expr_json(&d.value, pos)}),
            &d.pos,
            pos,
        ),
        Statement::Assert(p, e) => with_pos(json!({"s":"assert","x":expr_json(e, pos)}), p, pos),
        Statement::Output(p, t, e) => with_pos(
            json!({"s":"out","fmt":t.fragment.to_string(),"x":expr_json(e, pos)}),
            p,
            pos,
        ),
    }
}

pub fn prim_json(p: &Primitive) -> J {
    match p {
        Primitive::Int(i) => json!({"t":"int","i":i}),
        Primitive::Float(f) => float_json(*f),
        Primitive::Str(s) => json!({"t":"str","s":s.to_string()}),
        Primitive::Bool(b) => json!({"t":"bool","b":b}),
        Primitive::Empty => json!({"t":"null"}),
    }
}

pub fn op_json(op: &Op) -> J {
    match op {
        Op::Val(p) => json!({"op":"Val","val":prim_json(p)}),
        Op::Sym(s) => json!({"op":"Sym","nm":s.to_string()}),
        Op::DeRef(s) => json!({"op":"DeRef","nm":s.to_string()}),
        Op::Cast(t) => json!({"op":"Cast","ty":format!("{}", t)}),
        Op::NewScope(j) => json!({"op":"NewScope","jp":j}),
        Op::Jump(j) => json!({"op":"Jump","jp":j}),
        Op::JumpIfTrue(j) => json!({"op":"JumpIfTrue","jp":j}),
        Op::JumpIfFalse(j) => json!({"op":"JumpIfFalse","jp":j}),
        Op::SelectJump(j) => json!({"op":"SelectJump","jp":j}),
        Op::And(j) => json!({"op":"And","jp":j}),
        Op::Or(j) => json!({"op":"Or","jp":j}),
        Op::InitThunk(j) => json!({"op":"InitThunk","jp":j}),
        Op::Module(j) => json!({"op":"Module","jp":j}),
        Op::Func(j) => json!({"op":"Func","jp":j}),
        Op::Runtime(h) => {
            let name = match h {
                Hook::Map => "Map",
                Hook::Include => "Include",
                Hook::Filter => "Filter",
                Hook::Reduce => "Reduce",
                Hook::Import => "Import",
                Hook::Out => "Out",
                Hook::Assert => "Assert",
                Hook::Convert => "Convert",
                Hook::Regex => "Regex",
                Hook::Range => "Range",
                Hook::Trace(_) => "Trace",
            };
            json!({"op":"Runtime","hook":name})
        }
        Op::BuildConstraint(arms) => {
            let a: Vec<J> = arms
                .iter()
                .map(|a| match a {
                    ConstraintArmType::Range => json!("range"),
                    ConstraintArmType::Exact => json!("exact"),
                })
                .collect();
            json!({"op":"BuildConstraint","arms":a})
        }
        other => json!({"op":format!("{:?}", other)}),
    }
}

pub fn val_json(v: &Val) -> J {
    match v {
        Val::Empty => json!({"t":"null"}),
        Val::Boolean(b) => json!({"t":"bool","b":b}),
        Val::Int(i) => json!({"t":"int","i":i}),
        Val::Float(f) => float_json(*f),
        Val::Str(s) => json!({"t":"str","s":s.to_string()}),
        Val::List(l) => {
            let es: Vec<J> = l.iter().map(|x| val_json(x)).collect();
            json!({"t":"list","es":es})
        }
        Val::Tuple(fs) => {
            let v: Vec<J> = fs
                .iter()
                .map(|(k, x)| json!({"nm":k.to_string(),"val":val_json(x)}))
                .collect();
            json!({"t":"tuple","fs":v})
        }
        Val::Env(fs) => {
            let v: Vec<J> = fs
                .iter()
                .map(|(k, x)| json!({"nm":k.to_string(),"val":{"t":"str","s":x.to_string()}}))
                .collect();
            json!({"t":"tuple","fs":v,"envtuple":true})
        }
        Val::Constraint(c) => {
            let mut arms = Vec::new();
            for a in c.arms.iter() {
                match a {
                    ConstraintValArm::Range(ConstraintBound::Int(lo, hi)) => {
                        let l: Vec<J> = lo.iter().map(|x| json!(x)).collect();
                        let h: Vec<J> = hi.iter().map(|x| json!(x)).collect();
                        arms.push(json!({"a":"irange","lo":l,"hi":h}));
                    }
                    ConstraintValArm::Range(ConstraintBound::Float(lo, hi)) => {
                        let l: Vec<J> = lo.iter().map(|x| float_json(*x)).collect();
                        let h: Vec<J> = hi.iter().map(|x| float_json(*x)).collect();
                        arms.push(json!({"a":"frange","lo":l,"hi":h}));
                    }
                    ConstraintValArm::Exact(x) => arms.push(json!({"a":"exact","val":val_json(x)})),
                }
            }
            json!({"t":"constraint","arms":arms})
        }
    }
}

fn float_from_json(j: &J) -> Result<f64, String> {
    if let Some(b) = j.get("bits").and_then(|b| b.as_str()) {
        return u64::from_str_radix(b, 16)
            .map(f64::from_bits)
            .map_err(|e| format!("bad float bits: {}", e));
    }
    if let Some(r) = j.get("r").and_then(|b| b.as_str()) {
        return r.parse::<f64>().map_err(|e| format!("bad float: {}", e));
    }
    Err("float without bits/r".to_string())
}

pub fn val_from_json(j: &J) -> Result<Val, String> {
    let t = j.get("t").and_then(|t| t.as_str()).ok_or("val without t")?;
    Ok(match t {
        "null" => Val::Empty,
        "bool" => Val::Boolean(j["b"].as_bool().ok_or("bool without b")?),
        "int" => {
            if let Some(i) = j["i"].as_i64() {
                Val::Int(i)
            } else if let Some(s) = j["i"].as_str() {
                Val::Int(s.parse::<i64>().map_err(|e| format!("{}", e))?)
            } else {
                return Err("int without i".to_string());
            }
        }
        "float" => Val::Float(float_from_json(j)?),
        "str" => Val::Str(j["s"].as_str().ok_or("str without s")?.into()),
        "list" => {
            let mut v = Vec::new();
            for e in j["es"].as_array().ok_or("list without es")? {
                v.push(Rc::new(val_from_json(e)?));
            }
            Val::List(v)
        }
        "tuple" => {
            let mut v: Vec<(Rc<str>, Rc<Val>)> = Vec::new();
            for f in j["fs"].as_array().ok_or("tuple without fs")? {
                let nm = f["nm"].as_str().ok_or("field without nm")?;
                v.push((nm.into(), Rc::new(val_from_json(&f["val"])?)));
            }
            Val::Tuple(v)
        }
        "constraint" => {
            let mut arms = Vec::new();
            for a in j["arms"].as_array().ok_or("constraint without arms")? {
                match a["a"].as_str().unwrap_or("") {
                    "irange" => {
                        let lo = a["lo"].as_array().and_then(|v| v.first()).and_then(|x| x.as_i64());
                        let hi = a["hi"].as_array().and_then(|v| v.first()).and_then(|x| x.as_i64());
                        arms.push(ConstraintValArm::Range(ConstraintBound::Int(lo, hi)));
                    }
                    "exact" => arms.push(ConstraintValArm::Exact(Rc::new(val_from_json(&a["val"])?))),
                    other => return Err(format!("unknown arm {}", other)),
                }
            }
            Val::Constraint(ConstraintVal { arms })
        }
        other => return Err(format!("unknown val tag {}", other)),
    })
}
