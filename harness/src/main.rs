// ndjson request/response server binding the TLA+ specifications to ucglib.
// One JSON object per line on stdin, one per line on stdout, `id` echoed.
// A panic of the code under test is data: {"id":..,"crash":"panic","msg":..}.
use std::cell::RefCell;
use std::collections::BTreeMap;
use std::io::{BufRead, Write};
use std::panic::{catch_unwind, AssertUnwindSafe};
use std::path::PathBuf;
use std::rc::Rc;

use serde_json::{json, Map, Value as J};

use ucglib::ast::printer::AstPrinter;
use ucglib::ast::{
    BinaryExprType, ConstraintArm, Expression, FormatArgs, FuncOpDef, Position, Statement, Token,
    TokenType, Value,
};
use ucglib::build::ir::{ConstraintBound, ConstraintVal, ConstraintValArm};
use ucglib::build::opcode::translate::AST;
use ucglib::build::opcode::{ConstraintArmType, Environment, Hook, Op, Primitive};
use ucglib::build::FileBuilder;
use ucglib::convert::{ConverterRegistry, ImporterRegistry};
use ucglib::iter::OffsetStrIter;
use ucglib::parse::parse;
use ucglib::tokenizer::{tokenize, CommentMap};

mod proj;
use proj::*;

#[derive(Clone)]
struct Buf(Rc<RefCell<Vec<u8>>>);
impl Buf {
    fn new() -> Self {
        Buf(Rc::new(RefCell::new(Vec::new())))
    }
    fn take(&self) -> String {
        let v = std::mem::take(&mut *self.0.borrow_mut());
        String::from_utf8_lossy(&v).to_string()
    }
}
impl Write for Buf {
    fn write(&mut self, b: &[u8]) -> std::io::Result<usize> {
        self.0.borrow_mut().extend_from_slice(b);
        Ok(b.len())
    }
    fn flush(&mut self) -> std::io::Result<()> {
        Ok(())
    }
}

type Env = Environment<Buf, Buf>;

struct Ctx {
    out: Buf,
    err: Buf,
    env: RefCell<Env>,
    import_paths: Vec<PathBuf>,
}

impl Ctx {
    fn new() -> Self {
        let out = Buf::new();
        let err = Buf::new();
        let env = RefCell::new(Environment::new_with_vars(
            out.clone(),
            err.clone(),
            BTreeMap::new(),
        ));
        Ctx {
            out,
            err,
            env,
            import_paths: Vec::new(),
        }
    }
    fn reset(&self, vars: BTreeMap<Rc<str>, Rc<str>>) {
        let mut e = self.env.borrow_mut();
        e.env_vars = vars;
        e.val_cache.clear();
        e.out_lock.clear();
        e.assert_results = ucglib::build::AssertCollector::new();
        e.shape_cache.borrow_mut().clear();
        self.out.take();
        self.err.take();
    }
}

fn get_vars(req: &J) -> BTreeMap<Rc<str>, Rc<str>> {
    let mut m: BTreeMap<Rc<str>, Rc<str>> = BTreeMap::new();
    if let Some(arr) = req.get("env").and_then(|e| e.as_array()) {
        for kv in arr {
            let k = kv.get("nm").and_then(|x| x.as_str()).unwrap_or("");
            let v = kv.get("sval").and_then(|x| x.as_str()).unwrap_or("");
            m.insert(k.into(), v.into());
        }
    }
    m
}

fn err_json(e: &dyn std::fmt::Display) -> J {
    json!({"k":"fail","msg": format!("{}", e)})
}

fn do_tokens(req: &J) -> J {
    let src = req["src"].as_str().unwrap_or("");
    let want_comments = req.get("comments").and_then(|b| b.as_bool()).unwrap_or(false);
    let mut cm: CommentMap = BTreeMap::new();
    let r = if want_comments {
        tokenize(OffsetStrIter::new(src), Some(&mut cm))
    } else {
        tokenize(OffsetStrIter::new(src), None)
    };
    match r {
        Ok(toks) => {
            let ts: Vec<J> = toks.iter().map(tok_json).collect();
            let mut o = json!({"ok":true,"toks":ts});
            if want_comments {
                o["comments"] = comment_map_json(&cm);
            }
            o
        }
        Err(e) => json!({"ok":false,"err":build_err_json(&e)}),
    }
}

fn do_parse(req: &J) -> J {
    let src = req["src"].as_str().unwrap_or("");
    let pos = req.get("pos").and_then(|b| b.as_bool()).unwrap_or(false);
    match parse(OffsetStrIter::new(src), None) {
        Ok(stmts) => {
            let ss: Vec<J> = stmts.iter().map(|s| stmt_json(s, pos)).collect();
            json!({"ok":true,"stmts":ss})
        }
        Err(e) => json!({"ok":false,"err":build_err_json(&e)}),
    }
}

fn do_fmt(req: &J) -> J {
    let src = req["src"].as_str().unwrap_or("");
    let indent = req.get("indent").and_then(|b| b.as_u64()).unwrap_or(4) as usize;
    let mut cm: CommentMap = BTreeMap::new();
    match parse(OffsetStrIter::new(src), Some(&mut cm)) {
        Ok(stmts) => {
            let mut buf: Vec<u8> = Vec::new();
            let r = {
                let mut p = AstPrinter::new(indent, &mut buf).with_comment_map(&cm);
                p.render(&stmts)
            };
            match r {
                Ok(()) => {
                    json!({"ok":true,"text":String::from_utf8_lossy(&buf).to_string(),
                           "comments": comment_map_json(&cm)})
                }
                Err(e) => json!({"ok":false,"err":{"msg":format!("{}", e)}}),
            }
        }
        Err(e) => json!({"ok":false,"err":build_err_json(&e)}),
    }
}

fn do_ops(req: &J) -> J {
    let src = req["src"].as_str().unwrap_or("");
    let root = PathBuf::from(req.get("root").and_then(|s| s.as_str()).unwrap_or("/"));
    match parse(OffsetStrIter::new(src), None) {
        Ok(stmts) => {
            let om = AST::translate(stmts, &root);
            let mut ops = Vec::new();
            for (i, op) in om.ops.iter().enumerate() {
                let mut o = op_json(op);
                let p = &om.pos[i];
                o["ln"] = json!(p.line);
                o["col"] = json!(p.column);
                ops.push(o);
            }
            let links: Vec<J> = om.links.keys().map(|k| json!(k.to_string())).collect();
            json!({"ok":true,"ops":ops,"links":links})
        }
        Err(e) => json!({"ok":false,"err":build_err_json(&e)}),
    }
}

fn do_eval(req: &J, shared: &Ctx) -> J {
    let src = req["src"].as_str().unwrap_or("");
    let strict = req.get("strict").and_then(|b| b.as_bool()).unwrap_or(true);
    let fresh = req.get("fresh").and_then(|b| b.as_bool()).unwrap_or(false);
    let cwd = PathBuf::from(req.get("cwd").and_then(|s| s.as_str()).unwrap_or("/"));
    let owned;
    let ctx = if fresh {
        owned = Ctx::new();
        &owned
    } else {
        shared
    };
    ctx.reset(get_vars(req));
    #[cfg(feature = "hooks")]
    {
        ucglib::verif::take();
        ucglib::verif::enable(req.get("trace").and_then(|b| b.as_bool()).unwrap_or(false));
    }
    let mut b = FileBuilder::new(cwd, &ctx.import_paths, &ctx.env);
    b.set_strict(strict);
    if req.get("validate").and_then(|b| b.as_bool()).unwrap_or(false) {
        b.enable_validate_mode();
    }
    let out = match b.eval_string(src) {
        Ok(v) => json!({"k":"ok","val":val_json(&v)}),
        Err(e) => err_json(&e),
    };
    let mut r = json!({"out":out,"stdout":ctx.out.take(),"stderr":ctx.err.take()});
    {
        let e = ctx.env.borrow();
        r["asserts"] = json!({"success":e.assert_results.success,"counter":e.assert_results.counter,
            "summary":e.assert_results.summary.clone()});
    }
    #[cfg(feature = "hooks")]
    {
        if req.get("trace").and_then(|b| b.as_bool()).unwrap_or(false) {
            r["trace"] = J::Array(ucglib::verif::take());
        }
        ucglib::verif::enable(false);
    }
    r
}

fn do_build(req: &J, shared: &Ctx) -> J {
    let strict = req.get("strict").and_then(|b| b.as_bool()).unwrap_or(true);
    let fresh = req.get("fresh").and_then(|b| b.as_bool()).unwrap_or(true);
    let cwd = PathBuf::from(req.get("cwd").and_then(|s| s.as_str()).unwrap_or("/"));
    let owned;
    let ctx = if fresh {
        owned = Ctx::new();
        &owned
    } else {
        shared
    };
    ctx.reset(get_vars(req));
    #[cfg(feature = "hooks")]
    ucglib::verif::take();
    let paths: Vec<String> = match req.get("paths").and_then(|p| p.as_array()) {
        Some(a) => a.iter().filter_map(|s| s.as_str().map(|s| s.to_string())).collect(),
        None => vec![req["path"].as_str().unwrap_or("").to_string()],
    };
    let validate = req.get("validate").and_then(|b| b.as_bool()).unwrap_or(false);
    let mut results = Vec::new();
    for p in paths.iter() {
        let mut b = FileBuilder::new(cwd.clone(), &ctx.import_paths, &ctx.env);
        b.set_strict(strict);
        if validate {
            b.enable_validate_mode();
        }
        let out = match b.build(PathBuf::from(p)) {
            Ok(()) => match b.out.clone() {
                Some(v) => json!({"k":"ok","val":val_json(&v)}),
                None => json!({"k":"ok"}),
            },
            Err(e) => err_json(&e),
        };
        let mut r = json!({"path":p,"out":out,"stdout":ctx.out.take(),"stderr":ctx.err.take()});
        let e = ctx.env.borrow();
        r["asserts"] = json!({"success":e.assert_results.success,"counter":e.assert_results.counter,
            "summary":e.assert_results.summary.clone()});
        results.push(r);
    }
    let mut r = if req.get("paths").is_some() {
        json!({"results":results})
    } else {
        results.pop().unwrap()
    };
    #[cfg(feature = "hooks")]
    if req.get("trace").and_then(|b| b.as_bool()).unwrap_or(false) {
        r["trace"] = J::Array(ucglib::verif::take());
    }
    let _ = &mut r;
    r
}

fn do_convert(req: &J) -> J {
    let fmt = req["fmt"].as_str().unwrap_or("");
    let val = match val_from_json(&req["val"]) {
        Ok(v) => v,
        Err(m) => return json!({"toolerr":m}),
    };
    let reg = ConverterRegistry::make_registry();
    match reg.get_converter(fmt) {
        None => json!({"ok":false,"err":"no such converter"}),
        Some(c) => {
            let mut buf: Vec<u8> = Vec::new();
            match c.convert(Rc::new(val), &mut buf) {
                Ok(()) => {
                    use base64::Engine;
                    let b = base64::engine::general_purpose::STANDARD.encode(&buf);
                    json!({"ok":true,"bytes_b64":b,"ext":c.file_ext()})
                }
                Err(e) => {
                    use base64::Engine;
                    let b = base64::engine::general_purpose::STANDARD.encode(&buf);
                    json!({"ok":false,"err":format!("{}", e),"partial_b64":b})
                }
            }
        }
    }
}

fn do_import(req: &J) -> J {
    use base64::Engine;
    let fmt = req["fmt"].as_str().unwrap_or("");
    let bytes = base64::engine::general_purpose::STANDARD
        .decode(req["bytes_b64"].as_str().unwrap_or(""))
        .unwrap_or_default();
    let reg = ImporterRegistry::make_registry();
    match reg.get_importer(fmt) {
        None => json!({"ok":false,"err":"no such importer"}),
        Some(c) => match c.import(&bytes) {
            Ok(v) => json!({"ok":true,"val":val_json(&v)}),
            Err(e) => json!({"ok":false,"err":format!("{}", e)}),
        },
    }
}

fn do_converters() -> J {
    let reg = ConverterRegistry::make_registry();
    let mut v: Vec<J> = reg
        .get_converter_list()
        .iter()
        .map(|(k, c)| json!({"name":k.to_string(),"ext":c.file_ext()}))
        .collect();
    v.sort_by_key(|j| j["name"].as_str().unwrap_or("").to_string());
    json!({"converters":v})
}

// The evaluation context is built on first use (inside the panic capture of the
// request that needs it): Environment::new parses the standard library and panics
// if that fails, which must be data of an eval/build request, not a dead harness.
/// C04: one text through every stage, each under its own panic capture.  The
/// answer names, per stage, "ok", "err" (a diagnostic) or "panic: <msg>"; the
/// first panic ends the pipeline (the process is restarted by the caller).
fn do_pipeline(req: &J, shared: &Ctx) -> J {
    let src = req["src"].as_str().unwrap_or("").to_string();
    let path = req.get("path").and_then(|p| p.as_str()).map(|s| s.to_string());
    let mut stages = serde_json::Map::new();
    let mut vals: Vec<Rc<ucglib::build::Val>> = Vec::new();
    macro_rules! stage {
        ($name:expr, $body:expr) => {{
            match catch_unwind(AssertUnwindSafe(|| $body)) {
                Ok(v) => {
                    stages.insert($name.to_string(), v);
                }
                Err(p) => {
                    stages.insert($name.to_string(), json!(format!("panic: {}", panic_msg(&p))));
                    return json!({"stages": stages, "crash_stage": $name, "restart": true});
                }
            }
        }};
    }
    stage!("tokens", {
        let mut cm: CommentMap = BTreeMap::new();
        match tokenize(OffsetStrIter::new(&src), Some(&mut cm)) {
            Ok(_) => json!("ok"),
            Err(e) => json!(if format!("{}", e).is_empty() { "err-empty" } else { "err" }),
        }
    });
    let mut parsed = false;
    stage!("parse", {
        match parse(OffsetStrIter::new(&src), None) {
            Ok(_) => {
                parsed = true;
                json!("ok")
            }
            Err(e) => json!(if format!("{}", e).is_empty() { "err-empty" } else { "err" }),
        }
    });
    if parsed {
        stage!("fmt", {
            let r = do_fmt(&json!({"src": src}));
            if r["ok"].as_bool().unwrap_or(false) {
                // formatting the formatted text must not crash either
                let t = r["text"].as_str().unwrap_or("").to_string();
                let _ = do_fmt(&json!({"src": t}));
                json!("ok")
            } else {
                json!("err")
            }
        });
        stage!("translate", {
            let r = do_ops(&json!({"src": src}));
            json!(if r["ok"].as_bool().unwrap_or(false) { "ok" } else { "err" })
        });
    }
    for (name, strict) in [("eval-strict", true), ("eval-nostrict", false)] {
        stage!(name, {
            shared.reset(BTreeMap::new());
            let mut b = FileBuilder::new(PathBuf::from("/"), &shared.import_paths, &shared.env);
            b.set_strict(strict);
            b.enable_validate_mode();
            match b.eval_string(&src) {
                Ok(v) => {
                    if strict {
                        vals.push(v);
                    }
                    json!("ok")
                }
                Err(e) => json!(if format!("{}", e).trim().is_empty() { "err-empty" } else { "err" }),
            }
        });
    }
    if let Some(v) = vals.first() {
        // every converter on the whole result and on each bound value
        let mut targets: Vec<Rc<ucglib::build::Val>> = vec![v.clone()];
        if let ucglib::build::Val::Tuple(fs) = v.as_ref() {
            for (_, x) in fs.iter() {
                targets.push(x.clone());
            }
        }
        let reg = ConverterRegistry::make_registry();
        let mut names: Vec<String> = reg.get_converter_list().iter().map(|(k, _)| k.to_string()).collect();
        names.sort();
        for name in names {
            let label = format!("convert-{}", name);
            stage!(label.as_str(), {
                let c = reg.get_converter(&name).unwrap();
                let mut n_ok = 0;
                for t in targets.iter() {
                    let mut buf: Vec<u8> = Vec::new();
                    if c.convert(t.clone(), &mut buf).is_ok() {
                        n_ok += 1;
                    }
                }
                json!(format!("ok:{}", n_ok))
            });
        }
    }
    if let Some(p) = path {
        stage!("build-file", {
            if std::fs::write(&p, &src).is_err() {
                json!("skipped")
            } else {
                shared.reset(BTreeMap::new());
                let mut b = FileBuilder::new(PathBuf::from("/"), &shared.import_paths, &shared.env);
                b.set_strict(true);
                let r = b.build(PathBuf::from(&p));
                let _ = std::fs::remove_file(&p);
                match r {
                    Ok(()) => json!("ok"),
                    Err(e) => json!(if format!("{}", e).trim().is_empty() { "err-empty" } else { "err" }),
                }
            }
        });
    }
    json!({"stages": stages})
}

type Shared = std::cell::OnceCell<Ctx>;

fn handle(req: &J, shared: &Shared) -> J {
    match req["op"].as_str().unwrap_or("") {
        "ping" => json!({"pong":true,"hooks":cfg!(feature = "hooks")}),
        "tokens" => do_tokens(req),
        "parse" => do_parse(req),
        "fmt" => do_fmt(req),
        "ops" => do_ops(req),
        "eval" => do_eval(req, shared.get_or_init(Ctx::new)),
        "build" => do_build(req, shared.get_or_init(Ctx::new)),
        "convert" => do_convert(req),
        "import" => do_import(req),
        "converters" => do_converters(),
        "pipeline" => do_pipeline(req, shared.get_or_init(Ctx::new)),
        "batch" => {
            // every sub-request under its own panic capture; a crashed item is data
            let mut out = Vec::new();
            let mut crashed = false;
            if let Some(reqs) = req.get("reqs").and_then(|r| r.as_array()) {
                for r in reqs {
                    if crashed {
                        out.push(json!({"skipped":true}));
                        continue;
                    }
                    match catch_unwind(AssertUnwindSafe(|| handle(r, shared))) {
                        Ok(j) => out.push(j),
                        Err(p) => {
                            crashed = true;
                            out.push(json!({"crash":"panic","msg":panic_msg(&p)}));
                        }
                    }
                }
            }
            let mut o = json!({"resps":out});
            if crashed {
                o["restart"] = json!(true);
            }
            o
        }
        other => json!({"toolerr":format!("unknown op {}", other)}),
    }
}

fn panic_msg(p: &Box<dyn std::any::Any + Send>) -> String {
    if let Some(s) = p.downcast_ref::<&str>() {
        s.to_string()
    } else if let Some(s) = p.downcast_ref::<String>() {
        s.clone()
    } else {
        "panic".to_string()
    }
}

fn serve() {
    let stdin = std::io::stdin();
    let stdout = std::io::stdout();
    let shared: Shared = std::cell::OnceCell::new();
    for line in stdin.lock().lines() {
        let line = match line {
            Ok(l) => l,
            Err(_) => break,
        };
        if line.trim().is_empty() {
            continue;
        }
        let req: J = match serde_json::from_str(&line) {
            Ok(j) => j,
            Err(e) => {
                let mut o = stdout.lock();
                let _ = writeln!(o, "{}", json!({"toolerr":format!("bad json: {}", e)}));
                let _ = o.flush();
                continue;
            }
        };
        let id = req.get("id").cloned().unwrap_or(J::Null);
        let res = catch_unwind(AssertUnwindSafe(|| handle(&req, &shared)));
        let mut resp = match res {
            Ok(j) => j,
            Err(p) => {
                // The shared environment may be mid-borrow; it is only a cache.
                json!({"crash":"panic","msg":panic_msg(&p)})
            }
        };
        if let J::Object(ref mut m) = resp {
            m.insert("id".to_string(), id);
        }
        let mut o = stdout.lock();
        let _ = writeln!(o, "{}", resp);
        let _ = o.flush();
        if resp.get("crash").is_some() || resp.get("restart").is_some() {
            // leave with a distinguishable status: the orchestrator restarts us so
            // that no state of the interrupted request leaks into the next one
            std::process::exit(86);
        }
    }
}

fn main() {
    std::panic::set_hook(Box::new(|_| {}));
    // same stack budget as the main thread of the ucg binary (8 MiB)
    let h = std::thread::Builder::new()
        .stack_size(8 * 1024 * 1024)
        .spawn(serve)
        .unwrap();
    let _ = h.join();
}

// keep otherwise-unused imports referenced for both feature sets
#[allow(dead_code)]
fn _unused(
    _: Option<BinaryExprType>,
    _: Option<ConstraintArm>,
    _: Option<Expression>,
    _: Option<FormatArgs>,
    _: Option<FuncOpDef>,
    _: Option<Position>,
    _: Option<Statement>,
    _: Option<Token>,
    _: Option<TokenType>,
    _: Option<Value>,
    _: Option<ConstraintBound>,
    _: Option<ConstraintVal>,
    _: Option<ConstraintValArm>,
    _: Option<ConstraintArmType>,
    _: Option<Hook>,
    _: Option<Op>,
    _: Option<Primitive>,
    _: Option<Map<String, J>>,
) {
}
