------------------------------- MODULE Stdlib -------------------------------
(* C19.  The helpers of std/{lists,tuples,strings,functional,schema}.ucg as   *)
(* REFERENCE DEFINITIONS on TLA+ sequences, written from their documentation  *)
(* (the doc comments in std/*.ucg, docsite/site/content/stdlib/*.md and the   *)
(* calls std/tests/*.ucg document), not from their code:                       *)
(*                                                                            *)
(*   lists     len reverse head tail enumerate zip slice str_join             *)
(*   tuples    fields values iter strip_nulls has_fields                      *)
(*   strings   len chars split_on split_at substr parse_int                   *)
(*   functional.maybe  (do / or / is_null / unwrap / expect)                  *)
(*   schema    shaped any all base_type_of                                    *)
(*                                                                            *)
(* A reference operator yields an OUTCOME: the set of admissible results of a *)
(* call - [ok |-> <<values>>, mayfail |-> BOOLEAN]:                            *)
(*   Must(v)   the call must build and yield v                                *)
(*   MustFail  the call is outside the documented domain: the build must fail *)
(*   Open(v) / Either(v, w)   the documentation leaves the choice open        *)
(*             (don't-care; listed in the evidence file)                      *)
(*                                                                            *)
(* Laws* are the algebraic laws of the property statement (reverse is an      *)
(* involution that preserves length, zip truncates to the shorter list, slice *)
(* is the inclusive index range, split_on followed by str_join restores the   *)
(* string, ...) checked by TLC on every generated input as sanity of the      *)
(* reference itself.  They are stated on the *O operators, which take the set *)
(* of DEVIATIONS (recorded defects of the code, by name): with Deviations =   *)
(* {} they are the reference and every law holds; with a deviation switched   *)
(* on TLC refutes the law the defect breaks (Stdlib_dev*.cfg).                *)
(*                                                                            *)
(* The generator machine enumerates calls: it grows the first operand `xs`    *)
(* (list / tuple / string / maybe chain / value), then the second `ys`        *)
(* (second list / separator / field list / shapes), then chooses the helper   *)
(* and its integer arguments.  Every finished call is printed as one REPLAY   *)
(* line with the abstract arguments, the predicted outcome, and - where a     *)
(* recorded deviation predicts something else - the deviation's name and      *)
(* outcome (for keying known findings).                                       *)
(*                                                                            *)
(* Abstraction (DESIGN 3.6): list elements are ids [t|->"elem",k] refined to  *)
(* mixed-type values; characters "c1".."c4" are ids refined to ASCII/Unicode  *)
(* characters (digits, " " and the characters of rendered numbers/booleans    *)
(* are concrete one-character strings); field names "n1".. are ids refined    *)
(* to identifiers.  The reference uses only equality on ids.                  *)
EXTENDS Values, Json

CONSTANTS Families,     \* set of family names enumerated by this configuration
          Size,         \* "quick" | "thorough" | "sim" | "src" | "srcq": the bounds table below
          Sim,          \* TRUE: target lengths drawn in Init (for -simulate)
          Deviations,   \* deviations the laws are checked under ({} = the reference)
          KnownDevs     \* recorded deviations of the code: code-side prediction in REPLAY lines

VARIABLES fam, xs, ys, call, phase, tx, ty
vars == << fam, xs, ys, call, phase, tx, ty >>

(* ------------------------------------------------------------------------- *)
(* values beyond Values.tla                                                   *)
(* ------------------------------------------------------------------------- *)
Dflt     == 0 - 99                       \* call descriptor: "argument not given"
DfltV    == [t |-> "dflt"]
ArgV(a)  == IF a = Dflt THEN DfltV ELSE IntV(a)
ElemV(k) == [t |-> "elem", k |-> k]      \* abstract list element / tuple value (never NULL)
FuncLeaf == [t |-> "func"]
ModLeaf  == [t |-> "module"]
BigIntV(ds) == [t |-> "bigint", ds |-> ds]   \* an integer by its decimal digits (TLC ints are 32-bit)
NameS(n) == StrV(<< n >>)                \* the string spelling field name id n

RECURSIVE XEq(_, _)
XEq(a, b) ==
  IF a.t # b.t THEN FALSE
  ELSE CASE a.t = "elem"   -> a.k = b.k
         [] a.t = "bigint" -> a.ds = b.ds
         [] a.t \in {"func", "module", "dflt", "null"} -> TRUE
         [] a.t = "list"   -> /\ Len(a.es) = Len(b.es)
                              /\ \A j \in 1..Len(a.es) : XEq(a.es[j], b.es[j])
         [] a.t = "tuple"  -> /\ Len(a.fs) = Len(b.fs)
                              /\ \A j \in 1..Len(a.fs) :
                                    a.fs[j].nm = b.fs[j].nm /\ XEq(a.fs[j].val, b.fs[j].val)
         [] OTHER -> VEq(a, b)
SeqEq(s, u) == Len(s) = Len(u) /\ \A j \in 1..Len(s) : XEq(s[j], u[j])

Must(v)      == [ok |-> << v >>, mayfail |-> FALSE]
MustFail     == [ok |-> << >>, mayfail |-> TRUE]
Open(v)      == [ok |-> << v >>, mayfail |-> TRUE]
Either(v, w) == [ok |-> << v, w >>, mayfail |-> FALSE]
OutEq(o, p)  == o.mayfail = p.mayfail /\ SeqEq(o.ok, p.ok)
IsMust(o)    == ~o.mayfail /\ Len(o.ok) = 1

Min2(a, b) == IF a < b THEN a ELSE b
Max2(a, b) == IF a < b THEN b ELSE a

(* ------------------------------------------------------------------------- *)
(* lists                                                                      *)
(* ------------------------------------------------------------------------- *)
(* "Reverses the provided list."                                              *)
RevSeq(s) == [i \in 1..Len(s) |-> s[Len(s) + 1 - i]]
(* "head returns the first item in a list as a list of one item. This         *)
(*  function is safe for empty list inputs"                                   *)
HeadSeq(s) == IF Len(s) = 0 THEN << >> ELSE << s[1] >>
(* "tail returns the tail of a list without the head. This function is safe   *)
(*  for empty lists"                                                          *)
TailSeq(s) == IF Len(s) = 0 THEN << >> ELSE SubSeq(s, 2, Len(s))
TailO(D, s) == IF "TailEmptyFails" \in D /\ Len(s) = 0 THEN MustFail ELSE Must(ListV(TailSeq(s)))
(* "Produces a list of pairs with the enumeration and the list item."         *)
(* start defaults to 0, step to 1                                             *)
EnumSeq(s, start, step) == [i \in 1..Len(s) |-> ListV(<< IntV(start + (i - 1) * step), s[i] >>)]
(* "zips two lists together. The result list is only as long as the shortest  *)
(*  list."                                                                    *)
ZipSeq(a, b) == [i \in 1..Min2(Len(a), Len(b)) |-> ListV(<< a[i], b[i] >>)]
ZipO(D, a, b) == IF "ZipLongerRange" \in D /\ Len(a) # Len(b) THEN MustFail ELSE Must(ListV(ZipSeq(a, b)))

(* "slice returns a slice of a list starting at index start up to and         *)
(*  including index end, inclusive."  start defaults to 0, end to the last    *)
(* index.  The module documents its domain by its own checks ("Slice must be  *)
(* positive", "Slice start cannot be larger than the list len", "Slice end    *)
(* cannot be larger than list len") and an inclusive range cannot contain an  *)
(* index the list does not have:                                              *)
(*   range    0 <= s <= e <= n-1        the elements s..e                     *)
(*   empty    e = s-1, 0 <= s <= n      the empty list (std/tests: slice of   *)
(*                                       [] is [])                            *)
(*   out      s < 0, s > n or e >= n    must fail                             *)
(*   reversed e < s-1 (s, e otherwise fine): an empty index range - [] or a   *)
(*            failure, left open                                              *)
SliceClass(n, s, e) ==
  IF s < 0 \/ s > n \/ e >= n THEN "out"
  ELSE IF e >= s THEN "range"
  ELSE IF e = s - 1 THEN "empty"
  ELSE "reversed"
SliceSeq(l, s, e) == SubSeq(l, s + 1, e + 1)
SliceO(l, a1, a2) ==
  LET n == Len(l)
      s == IF a1 = Dflt THEN 0 ELSE a1
      e == IF a2 = Dflt THEN n - 1 ELSE a2
      c == SliceClass(n, s, e)
  IN CASE c = "out" -> MustFail
       [] c = "reversed" -> Open(ListV(<< >>))
       [] OTHER -> Must(ListV(SliceSeq(l, s, e)))

(* "The str_join module joins a list with the string representation of each   *)
(*  element."  sep defaults to a single space.  Pieces are char sequences.    *)
RECURSIVE JoinCs(_, _)
JoinCs(ps, sep) ==
  IF Len(ps) = 0 THEN << >>
  ELSE IF Len(ps) = 1 THEN ps[1]
  ELSE ps[1] \o sep \o JoinCs(Tail(ps), sep)
(* deviation: the separator is left out as long as the text joined so far is  *)
(* empty (a leading "" element disappears)                                    *)
RECURSIVE JoinSkip(_, _, _)
JoinSkip(ps, sep, out) ==
  IF Len(ps) = 0 THEN out
  ELSE JoinSkip(Tail(ps), sep, IF Len(out) = 0 THEN Head(ps) ELSE out \o sep \o Head(ps))
JoinD(D, ps, sep) == IF "JoinSepSkippedWhileEmpty" \in D THEN JoinSkip(ps, sep, << >>) ELSE JoinCs(ps, sep)
Pieces(items) == [j \in 1..Len(items) |-> Render(items[j])]
SpaceSep == << " " >>

(* ------------------------------------------------------------------------- *)
(* tuples (a tuple is its ordered field sequence)                             *)
(* ------------------------------------------------------------------------- *)
FieldsSeq(fs) == [j \in 1..Len(fs) |-> NameS(fs[j].nm)]
ValuesSeq(fs) == [j \in 1..Len(fs) |-> fs[j].val]
IterSeq(fs)   == [j \in 1..Len(fs) |-> ListV(<< NameS(fs[j].nm), fs[j].val >>)]
(* "Strip all the null fields from a tuple."                                  *)
StripNulls(fs) == SelectSeq(fs, LAMBDA f : f.val.t # "null")
(* "Check if a tuple has all the fields in a given list."                     *)
HasFields(fs, names) == \A j \in 1..Len(names) : \E m \in 1..Len(fs) : fs[m].nm = names[j]

(* ------------------------------------------------------------------------- *)
(* strings (character sequences, indices 0-based)                             *)
(* ------------------------------------------------------------------------- *)
CharsSeq(s) == [j \in 1..Len(s) |-> StrV(<< s[j] >>)]
(* split_on: the pieces between the non-overlapping occurrences of `on`,      *)
(* found from the left; empty pieces are kept (std/tests: "" splits to [""])  *)
IsPrefix(p, s) == Len(p) <= Len(s) /\ SubSeq(s, 1, Len(p)) = p
RECURSIVE SplitAcc(_, _, _)
SplitAcc(s, sep, buf) ==
  IF Len(s) = 0 THEN << buf >>
  ELSE IF IsPrefix(sep, s) THEN << buf >> \o SplitAcc(SubSeq(s, Len(sep) + 1, Len(s)), sep, << >>)
  ELSE SplitAcc(Tail(s), sep, Append(buf, Head(s)))
Split(s, sep) == SplitAcc(s, sep, << >>)          \* sep non-empty
StrList(ps) == ListV([j \in 1..Len(ps) |-> StrV(ps[j])])
(* "split_at - function splits the wrapped string at a character index":      *)
(* left = the characters before index k, right = those from k on.  k outside  *)
(* 0..len is not an index of a split point: left open (clamped or failure)    *)
SplitAtV(s, k) ==
  LET c == Min2(Max2(k, 0), Len(s))
  IN TupleV(<< Fld("left", StrV(SubSeq(s, 1, c))), Fld("right", StrV(SubSeq(s, c + 1, Len(s)))) >>)
SplitAtO(s, k) == IF k < 0 \/ k > Len(s) THEN Open(SplitAtV(s, k)) ELSE Must(SplitAtV(s, k))
(* "substr - start is the index at which the substr starts (defaults to 0),   *)
(*  end is the index at which the substr ends (defaults to end of string)":   *)
(* the characters whose index i has start <= i <= end (std/tests: end is      *)
(* inclusive, an end beyond the string is the end of the string)              *)
Substr(s, a, b) == SubSeq(s, Max2(a, 0) + 1, Min2(b, Len(s) - 1) + 1)
SubstrO(s, a1, a2) ==
  LET a == IF a1 = Dflt THEN 0 ELSE a1
      b == IF a2 = Dflt THEN Len(s) ELSE a2
  IN IF a < 0 \/ b < 0 THEN Open(StrV(Substr(s, a, b)))     \* a negative number is not an index
     ELSE Must(StrV(Substr(s, a, b)))

(* "parse_int - function that parses an integer from the beginning of a       *)
(*  string", returned in a maybe.  The integer is the longest run of decimal  *)
(* digits at the start.  No digit at the start: nothing to parse - a NULL     *)
(* maybe or a failure, left open.  A run beyond i64: must fail.               *)
IsDigitC(c) == c \in {"0", "1", "2", "3", "4", "5", "6", "7", "8", "9"}
RECURSIVE DigitPrefix(_)
DigitPrefix(s) == IF Len(s) = 0 \/ ~IsDigitC(Head(s)) THEN << >> ELSE << Head(s) >> \o DigitPrefix(Tail(s))
RECURSIVE StripZeros(_)
StripZeros(ds) == IF Len(ds) > 1 /\ Head(ds) = "0" THEN StripZeros(Tail(ds)) ELSE ds
I64Max == << "9", "2", "2", "3", "3", "7", "2", "0", "3", "6", "8", "5", "4", "7", "7", "5", "8", "0", "7" >>
DigitIdx(c) == CHOOSE j \in 1..10 : Digits[j] = c
RECURSIVE DsLeq(_, _)
DsLeq(a, b) == IF Len(a) = 0 THEN TRUE
               ELSE IF Head(a) = Head(b) THEN DsLeq(Tail(a), Tail(b))
               ELSE DigitIdx(Head(a)) < DigitIdx(Head(b))
FitsI64(z) == Len(z) < 19 \/ (Len(z) = 19 /\ DsLeq(z, I64Max))
ParseIntO(s, observer) ==
  LET ds == DigitPrefix(s)
      z  == StripZeros(ds)
  IN IF Len(ds) = 0 THEN Open(IF observer = "unwrap" THEN Null ELSE BoolV(TRUE))
     ELSE IF ~FitsI64(z) THEN MustFail
     ELSE Must(IF observer = "unwrap" THEN BigIntV(z) ELSE BoolV(FALSE))

(* ------------------------------------------------------------------------- *)
(* functional.maybe                                                           *)
(* ------------------------------------------------------------------------- *)
(* do(op): "runs op ... against the wrapped value if it is not null. Returns  *)
(*   the result or NULL wrapped in another maybe"; or(op): "runs op ... if    *)
(*   the wrapped value is null"; is_null(); unwrap(); expect(msg): "returns   *)
(*   the wrapped value if it is not null. Throws a compile error otherwise".  *)
(* The user functions are drawn from a fixed pool; *_fail ones fail the build *)
(* when (and only when) they are run.                                         *)
Failed == [t |-> "failed"]
MaybeStep(v, op) ==
  IF v.t = "failed" THEN v
  ELSE CASE op = "do_wrap"  -> IF v.t # "null" THEN ListV(<< v >>) ELSE Null     \* func (x) => [x]
         [] op = "do_const" -> IF v.t # "null" THEN ElemV(2) ELSE Null           \* func (x) => e2
         [] op = "do_null"  -> Null                                               \* func (x) => NULL
         [] op = "do_fail"  -> IF v.t # "null" THEN Failed ELSE Null             \* func (x) => fail ".."
         [] op = "or_const" -> IF v.t = "null" THEN ElemV(3) ELSE v              \* func () => e3
         [] op = "or_null"  -> v                                                  \* func () => NULL
         [] op = "or_fail"  -> IF v.t = "null" THEN Failed ELSE v                \* func () => fail ".."
RECURSIVE MaybeRun(_, _)
MaybeRun(v, ops) == IF Len(ops) = 0 THEN v ELSE MaybeRun(MaybeStep(v, Head(ops)), Tail(ops))
MaybeO(v0, ops, observer) ==
  LET v == MaybeRun(v0, ops)
  IN IF v.t = "failed" THEN MustFail
     ELSE CASE observer = "maybe_unwrap"  -> Must(v)
            [] observer = "maybe_is_null" -> Must(BoolV(v.t = "null"))
            [] observer = "maybe_expect"  -> IF v.t = "null" THEN MustFail ELSE Must(v)

(* ------------------------------------------------------------------------- *)
(* schema                                                                     *)
(* ------------------------------------------------------------------------- *)
(* "Computes the base type of a value."                                       *)
BaseTypeOf(v) == StrV(TypeChars(v))
(* shaped: "The base type must be the same as the base type of the shape.     *)
(*  For tuples any field in the shape tuple must be present in the source     *)
(*  value and must be of the same base type and shape.  This module will      *)
(*  recurse into nested tuples.  Lists must contain types from the list shape *)
(*  they are compared against, an empty list shape means the list val can     *)
(*  have any types it wants inside."  partial (default true): "the source     *)
(*  value can have fields in tuples that are not present in the shape".       *)
(* The documentation does not say whether the elements of a list are matched  *)
(* partially or exactly against the list shape's members (`any` "does not do  *)
(* partial matches by default"): lp = "same" | "exact" are both admitted.     *)
RECURSIVE Shaped(_, _, _, _)
Shaped(v, sh, p, lp) ==
  IF v.t # sh.t THEN FALSE
  ELSE CASE v.t = "tuple" ->
              /\ \A j \in 1..Len(sh.fs) : \E m \in 1..Len(v.fs) :
                    v.fs[m].nm = sh.fs[j].nm /\ Shaped(v.fs[m].val, sh.fs[j].val, p, lp)
              /\ (p \/ \A m \in 1..Len(v.fs) : \E j \in 1..Len(sh.fs) : sh.fs[j].nm = v.fs[m].nm)
         [] v.t = "list" ->
              \/ Len(sh.es) = 0
              \/ \A m \in 1..Len(v.es) : \E j \in 1..Len(sh.es) :
                    Shaped(v.es[m], sh.es[j], IF lp = "same" THEN p ELSE FALSE, lp)
         [] OTHER -> TRUE
BoolO(a, b) == IF a = b THEN Must(BoolV(a)) ELSE Either(BoolV(a), BoolV(b))
ShapedO(v, sh, p) == BoolO(Shaped(v, sh, p, "same"), Shaped(v, sh, p, "exact"))
(* any: "If the value fits any of the candidate shapes"; exact unless         *)
(* partial=true.  all: every shape, partially.                                *)
AnyO(v, types, p) == BoolO(\E j \in 1..Len(types) : Shaped(v, types[j], p, "same"),
                          \E j \in 1..Len(types) : Shaped(v, types[j], p, "exact"))
AllO(v, types) == BoolO(\A j \in 1..Len(types) : Shaped(v, types[j], TRUE, "same"),
                        \A j \in 1..Len(types) : Shaped(v, types[j], TRUE, "exact"))

(* ---- the code's shaped, transcribed (std/schema.ucg), as a deviation -------- *)
(* "ShapedTupleLastFieldDecides": the two reducers over the tuple's fields     *)
(* overwrite `ok` instead of accumulating it and start from false, so that     *)
(* (1) only the LAST field of the shape and the LAST field of the value decide,*)
(* (2) an empty shape tuple / empty value tuple never matches, and the shape   *)
(* side is checked with value and shape swapped (exactly).  Lists: elements    *)
(* through `any` (exact).                                                      *)
RECURSIVE ShapedCode(_, _, _)
ShapedCode(v, sh, p) ==
  CASE v.t = "tuple" ->
         /\ sh.t = "tuple"
         /\ Len(sh.fs) > 0
         /\ LET f == sh.fs[Len(sh.fs)]                    \* match_shape_fields: last shape field
            IN \E m \in 1..Len(v.fs) : /\ v.fs[m].nm = f.nm
                                       /\ \A q \in 1..(m - 1) : v.fs[q].nm # f.nm
                                       /\ ShapedCode(f.val, v.fs[m].val, FALSE)
         /\ Len(v.fs) > 0
         /\ LET g == v.fs[Len(v.fs)]                      \* match_tuple_fields: last value field
            IN IF \E j \in 1..Len(sh.fs) : sh.fs[j].nm = g.nm
                 THEN LET j == CHOOSE j \in 1..Len(sh.fs) : sh.fs[j].nm = g.nm /\ \A q \in 1..(j - 1) : sh.fs[q].nm # g.nm
                      IN ShapedCode(g.val, sh.fs[j].val, p)
                 ELSE p
    [] v.t = "list" ->
         /\ sh.t = "list"
         /\ \/ Len(sh.es) = 0
            \/ \A m \in 1..Len(v.es) : \E j \in 1..Len(sh.es) : ShapedCode(v.es[m], sh.es[j], FALSE)
    [] OTHER -> v.t = sh.t
ShapedD(D, v, sh, p) ==
  IF "ShapedTupleLastFieldDecides" \in D THEN Must(BoolV(ShapedCode(v, sh, p))) ELSE ShapedO(v, sh, p)
AnyD(D, v, types, p) ==
  IF "ShapedTupleLastFieldDecides" \in D THEN Must(BoolV(\E j \in 1..Len(types) : ShapedCode(v, types[j], p)))
  ELSE AnyO(v, types, p)
AllD(D, v, types) ==
  IF "ShapedTupleLastFieldDecides" \in D THEN Must(BoolV(\A j \in 1..Len(types) : ShapedCode(v, types[j], TRUE)))
  ELSE AllO(v, types)

(* ------------------------------------------------------------------------- *)
(* bounds and pools of the generator machine                                  *)
(* ------------------------------------------------------------------------- *)
AllFamilies == { "list1", "enum", "zip", "slice", "join", "tuple", "str1", "split", "splitat",
                 "substr", "parseint", "maybe", "basetype", "shaped", "anyall" }

(* T(q, t, g): the bound for Size = "quick" (the bounds of DESIGN 4.11), "thorough" (one more), and the  *)
(* simulation ("sim": lengths to 12 / 8 / 20, separators to 3); "src" and "srcq" are reduced bounds for *)
(* StdlibSrc.tla (the std sources evaluated by Eval.tla, which costs ~5 ms per call in TLC)             *)
T(q, t, g) == CASE Size = "quick" -> q [] Size = "thorough" -> t
                [] Size = "src" -> (IF q > 2 THEN q - 1 ELSE q)
                [] Size = "srcq" -> (IF q > 2 THEN q - 2 ELSE q) [] OTHER -> g
MaxX(f) ==
  CASE f \in {"list1", "slice", "enum", "join"} -> T(4, 5, 12)
    [] f = "zip"   -> T(4, 4, 12)
    [] f = "tuple" -> T(3, 4, 8)
    [] f \in {"str1", "split", "splitat", "substr", "parseint"} -> T(4, 5, 20)
    [] f = "maybe" -> T(2, 4, 6)
    [] OTHER -> 1
MaxY(f) ==
  CASE f = "zip"   -> MaxX(f)
    [] f \in {"join", "split"} -> T(2, 3, 3)
    [] f = "tuple" -> T(2, 2, 4)
    [] f = "shaped" -> 1
    [] f = "anyall" -> (IF Size = "srcq" THEN 1 ELSE T(2, 2, 3))
    [] OTHER -> 0
MinY(f) == IF f \in {"split", "shaped"} THEN 1 ELSE 0

NEl(f) == 3
Elems(n) == [k \in 1..n |-> ElemV(k)]
CharPool == << "c1", "c2", "c3", "c4" >>
SepPool  == << "c3", "c4" >>
JoinItems == << StrV(<< >>), StrV(<< "c1" >>), StrV(<< "c2", "c3" >>), IntV(12), BoolV(FALSE) >>
MaybeOps == << "do_wrap", "do_const", "do_null", "do_fail", "or_const", "or_null", "or_fail" >>
NNames == T(3, 4, 8)
NameId(k) == CASE k = 1 -> "n1" [] k = 2 -> "n2" [] k = 3 -> "n3" [] k = 4 -> "n4" [] k = 5 -> "n5"
               [] k = 6 -> "n6" [] k = 7 -> "n7" [] k = 8 -> "n8" [] k = 9 -> "n9"
TupVals == << Null, ElemV(1), ElemV(2) >>
TupFields == [k \in 1..(NNames * 3) |-> Fld(NameId(((k - 1) \div 3) + 1), TupVals[((k - 1) % 3) + 1])]
AskNames == [k \in 1..(NNames + 1) |-> NameId(k)]            \* one name no tuple has

(* value trees for the schema helpers (typed: the helpers look at types)      *)
SLeaves == << IntV(1), StrV(<< "c1" >>), BoolV(TRUE), FloatV(3, 1), Null >>
SL3     == << IntV(1), StrV(<< "c1" >>), Null >>
Pairs(P, Q) == [k \in 1..(Len(P) * Len(Q)) |-> << P[((k - 1) \div Len(Q)) + 1], Q[((k - 1) % Len(Q)) + 1] >>]
ListsOf1(P) == [i \in 1..Len(P) |-> ListV(<< P[i] >>)]
ListsOf2(P) == [k \in 1..(Len(P) * Len(P)) |-> ListV(Pairs(P, P)[k])]
TupsOf1(n, P) == [i \in 1..Len(P) |-> TupleV(<< Fld(n, P[i]) >>)]
TupsOf2(n, m, P) == [k \in 1..(Len(P) * Len(P)) |-> TupleV(<< Fld(n, Pairs(P, P)[k][1]), Fld(m, Pairs(P, P)[k][2]) >>)]
SD1 == SLeaves \o << ListV(<< >>) >> \o ListsOf1(SL3) \o ListsOf2(SL3)
         \o << TupleV(<< >>) >> \o TupsOf1("n1", SL3) \o TupsOf1("n2", SL3) \o TupsOf2("n1", "n2", SL3)
         \o << TupleV(<< Fld("n2", StrV(<< "c1" >>)), Fld("n1", IntV(1)) >>),
               TupleV(<< Fld("n2", IntV(1)), Fld("n1", IntV(1)) >>) >>
SC2 == << IntV(1), ListV(<< >>), ListV(<< IntV(1) >>), ListV(<< IntV(1), StrV(<< "c1" >>) >>),
          TupleV(<< >>), TupleV(<< Fld("n1", IntV(1)) >>), TupleV(<< Fld("n1", StrV(<< "c1" >>)) >>),
          TupleV(<< Fld("n1", IntV(1)), Fld("n2", StrV(<< "c1" >>)) >>) >>
SD2a == ListsOf1(SC2) \o TupsOf1("n1", SC2)
SD2b == ListsOf2(SC2) \o TupsOf2("n1", "n2", SC2) \o TupsOf1("n2", SC2)
SC3 == << TupleV(<< Fld("n1", ListV(<< TupleV(<< Fld("n1", IntV(1)), Fld("n2", IntV(1)) >>) >>)) >>),
          TupleV(<< Fld("n1", ListV(<< TupleV(<< Fld("n1", IntV(1)) >>) >>)) >>),
          TupleV(<< Fld("n1", TupleV(<< Fld("n1", TupleV(<< Fld("n1", IntV(1)), Fld("n2", IntV(1)) >>)) >>)) >>),
          TupleV(<< Fld("n1", TupleV(<< Fld("n1", TupleV(<< Fld("n2", IntV(1)) >>)) >>)) >>),
          ListV(<< ListV(<< TupleV(<< Fld("n1", IntV(1)), Fld("n2", IntV(1)) >>) >>) >>),
          ListV(<< ListV(<< TupleV(<< Fld("n1", IntV(1)) >>) >>) >>) >>
SVals ==   CASE Size = "srcq" -> SD1
             [] Size \in {"quick", "src"} -> SD1 \o SD2a
             [] Size = "thorough" -> SD1 \o SD2a \o SD2b \o SC3
             [] OTHER -> SD1 \o SD2a \o SD2b \o SC3
SValsSmall == SD1
SShapes == << IntV(1), StrV(<< "c1" >>), FloatV(3, 1), Null, ListV(<< >>), ListV(<< IntV(1) >>),
              TupleV(<< >>), TupleV(<< Fld("n1", IntV(1)) >>), TupleV(<< Fld("n2", StrV(<< "c1" >>)) >>),
              TupleV(<< Fld("n1", IntV(1)), Fld("n2", StrV(<< "c1" >>)) >>) >>

SShapesQ == << IntV(1), StrV(<< "c1" >>), ListV(<< IntV(1) >>), TupleV(<< >>), TupleV(<< Fld("n1", IntV(1)) >>),
               TupleV(<< Fld("n1", IntV(1)), Fld("n2", StrV(<< "c1" >>)) >>) >>

PoolX(f) ==
  CASE f \in {"list1", "enum", "zip", "slice"} -> Elems(NEl(f))
    [] f = "join" -> JoinItems
    [] f = "tuple" -> TupFields
    [] f \in {"str1", "split"} -> CharPool
    [] f \in {"splitat", "substr"} -> CharPool
    [] f = "parseint" -> << "0", "1", "9", "c1" >>
    [] f = "maybe" -> MaybeOps
    [] f = "basetype" -> SVals \o << FuncLeaf, ModLeaf >>
    [] f = "shaped" -> SVals
    [] f = "anyall" -> SValsSmall
PoolY(f) ==
  CASE f = "zip" -> Elems(NEl(f))
    [] f \in {"join", "split"} -> SepPool
    [] f = "tuple" -> AskNames
    [] f = "shaped" -> SVals
    [] f = "anyall" -> (IF Size \in {"quick", "src", "srcq"} THEN SShapesQ ELSE SShapes)
    [] OTHER -> << >>
(* may item be appended to x?  (tuples: distinct field names)                 *)
OkX(f, x, item) == f = "tuple" => \A j \in 1..Len(x) : x[j].nm # item.nm
(* xs must be complete (not a prefix) for these families                      *)
ExactX(f) == f \in {"basetype", "shaped", "anyall"}

IdxRange(n) == (0 - 1)..(n + 1)
Calls(f, x, y) ==
  CASE f = "list1" -> { << h, Dflt, Dflt >> : h \in {"len", "reverse", "head", "tail"} }
    [] f = "enum"  -> { << "enumerate", s, st >> : s \in {Dflt, 0, 2, 0 - 1}, st \in {Dflt, 1, 3, 0} }
    [] f = "zip"   -> { << "zip", Dflt, Dflt >> }
    [] f = "slice" -> { << "slice", s, e >> : s \in {Dflt} \cup IdxRange(Len(x)),
                                              e \in {Dflt} \cup ((0 - 2)..(Len(x) + 1)) }
    [] f = "join"  -> { << "str_join", 0, Dflt >> } \cup (IF Len(y) = 0 THEN { << "str_join", Dflt, Dflt >> } ELSE {})
    [] f = "tuple" -> { << "has_fields", Dflt, Dflt >> } \cup
                      (IF Len(y) = 0 \/ Sim THEN { << h, Dflt, Dflt >> : h \in {"fields", "values", "iter", "strip_nulls"} } ELSE {})
    [] f = "str1"  -> { << "strlen", Dflt, Dflt >>, << "chars", Dflt, Dflt >> }
    [] f = "split" -> { << "split_on", 0, Dflt >>, << "split_join", 0, Dflt >> } \cup
                      (IF y = << "c3" >> THEN { << "split_on", Dflt, Dflt >> } ELSE {})
    [] f = "splitat" -> { << "split_at", k, Dflt >> : k \in IdxRange(Len(x)) }
    [] f = "substr" -> { << "substr", s, e >> : s \in {Dflt} \cup IdxRange(Len(x)), e \in {Dflt} \cup IdxRange(Len(x)) }
    [] f = "parseint" -> { << "parse_int_unwrap", Dflt, Dflt >>, << "parse_int_is_null", Dflt, Dflt >> }
    [] f = "maybe" -> { << h, v0, Dflt >> : h \in {"maybe_unwrap", "maybe_is_null", "maybe_expect"}, v0 \in 0..1 }
    [] f = "basetype" -> { << "base_type_of", Dflt, Dflt >> }
    [] f = "shaped" -> { << "shaped", p, Dflt >> : p \in {Dflt, 0, 1} }
    [] f = "anyall" -> { << "any", p, Dflt >> : p \in {Dflt, 0, 1} } \cup { << "all", Dflt, Dflt >> }

(* ------------------------------------------------------------------------- *)
(* arguments and outcome of a call                                            *)
(* ------------------------------------------------------------------------- *)
SpaceFor(s) == [j \in 1..Len(s) |-> IF s[j] = "c3" THEN " " ELSE s[j]]   \* default separator calls: c3 is the space
SepOf(c, y) == IF c[2] = Dflt THEN SpaceSep ELSE y
StrOf(c, x) == IF c[2] = Dflt THEN SpaceFor(x) ELSE x
PartialOf(a) == IF a = Dflt THEN DfltV ELSE BoolV(a = 1)
MaybeV0(a) == IF a = 0 THEN Null ELSE ElemV(a)

(* the abstract arguments, as values, in the order the driver's call table uses *)
Args(f, c, x, y) ==
  LET h == c[1] IN
  CASE f \in {"list1"} -> << ListV(x) >>
    [] f = "enum"  -> << ListV(x), ArgV(c[2]), ArgV(c[3]) >>
    [] f = "zip"   -> << ListV(x), ListV(y) >>
    [] f = "slice" -> << ListV(x), ArgV(c[2]), ArgV(c[3]) >>
    [] f = "join"  -> << ListV(x), IF c[2] = Dflt THEN DfltV ELSE StrV(y) >>
    [] f = "tuple" -> IF h = "has_fields" THEN << TupleV(x), ListV([j \in 1..Len(y) |-> NameS(y[j])]) >> ELSE << TupleV(x) >>
    [] f = "str1"  -> << StrV(x) >>
    [] f = "split" -> << StrV(StrOf(c, x)), IF c[2] = Dflt THEN DfltV ELSE StrV(y) >>
    [] f = "splitat" -> << StrV(x), IntV(c[2]) >>
    [] f = "substr" -> << StrV(x), ArgV(c[2]), ArgV(c[3]) >>
    [] f = "parseint" -> << StrV(x) >>
    [] f = "maybe" -> << MaybeV0(c[2]), [t |-> "ops", os |-> x] >>
    [] f = "basetype" -> << x[1] >>
    [] f = "shaped" -> << x[1], y[1], PartialOf(c[2]) >>
    [] f = "anyall" -> << x[1], ListV(y), PartialOf(c[2]) >>

(* the outcome under the deviation set D (D = {}: the reference)              *)
Outcome(D, f, c, x, y) ==
  LET h == c[1] IN
  CASE h = "len"       -> Must(IntV(Len(x)))
    [] h = "reverse"   -> Must(ListV(RevSeq(x)))
    [] h = "head"      -> Must(ListV(HeadSeq(x)))
    [] h = "tail"      -> TailO(D, x)
    [] h = "enumerate" -> Must(ListV(EnumSeq(x, IF c[2] = Dflt THEN 0 ELSE c[2], IF c[3] = Dflt THEN 1 ELSE c[3])))
    [] h = "zip"       -> ZipO(D, x, y)
    [] h = "slice"     -> SliceO(x, c[2], c[3])
    [] h = "str_join"  -> Must(StrV(JoinD(D, Pieces(x), SepOf(c, y))))
    [] h = "fields"    -> Must(ListV(FieldsSeq(x)))
    [] h = "values"    -> Must(ListV(ValuesSeq(x)))
    [] h = "iter"      -> Must(ListV(IterSeq(x)))
    [] h = "strip_nulls" -> Must(TupleV(StripNulls(x)))
    [] h = "has_fields" -> Must(BoolV(HasFields(x, y)))
    [] h = "strlen"    -> Must(IntV(Len(x)))
    [] h = "chars"     -> Must(ListV(CharsSeq(x)))
    [] h = "split_on"  -> Must(StrList(Split(StrOf(c, x), SepOf(c, y))))
    [] h = "split_join" -> Must(StrV(JoinD(D, Split(x, y), y)))      \* the reference: JoinCs(Split(s,sep),sep) = s
    [] h = "split_at"  -> SplitAtO(x, c[2])
    [] h = "substr"    -> SubstrO(x, c[2], c[3])
    [] h = "parse_int_unwrap"  -> ParseIntO(x, "unwrap")
    [] h = "parse_int_is_null" -> ParseIntO(x, "is_null")
    [] h \in {"maybe_unwrap", "maybe_is_null", "maybe_expect"} -> MaybeO(MaybeV0(c[2]), x, h)
    [] h = "base_type_of" -> Must(BaseTypeOf(x[1]))
    [] h = "shaped"    -> ShapedD(D, x[1], y[1], c[2] # 0)           \* partial defaults to true
    [] h = "any"       -> AnyD(D, x[1], y, c[2] = 1)                  \* partial defaults to false
    [] h = "all"       -> AllD(D, x[1], y)

DevNameOf(h) ==
  CASE h = "tail" -> "TailEmptyFails"
    [] h = "zip" -> "ZipLongerRange"
    [] h \in {"str_join", "split_join"} -> "JoinSepSkippedWhileEmpty"
    [] h \in {"shaped", "any", "all"} -> "ShapedTupleLastFieldDecides"
    [] OTHER -> ""

(* is the code-side outcome admitted by the reference outcome? *)
Admits(ref, o) == /\ (o.mayfail => ref.mayfail)
                  /\ \A j \in 1..Len(o.ok) : \E m \in 1..Len(ref.ok) : XEq(o.ok[j], ref.ok[m])

Case(f, c, x, y) ==
  LET ref == Outcome({}, f, c, x, y)
      cod == Outcome(KnownDevs, f, c, x, y)
      dv  == IF Admits(ref, cod) THEN "" ELSE DevNameOf(c[1])
  IN [fam |-> f, h |-> c[1], args |-> Args(f, c, x, y),
      ok |-> ref.ok, mayfail |-> ref.mayfail,
      dev |-> dv,
      devok |-> IF dv = "" THEN << >> ELSE cod.ok,
      devfail |-> IF dv = "" THEN FALSE ELSE cod.mayfail]

(* ------------------------------------------------------------------------- *)
(* the generator machine                                                      *)
(* ------------------------------------------------------------------------- *)
NoCall == << "", 0, 0 >>

Init ==
  /\ fam \in Families
  /\ xs = << >> /\ ys = << >> /\ call = NoCall
  /\ phase = (IF Sim THEN "plan" ELSE "x")
  /\ tx = 0 /\ ty = 0

(* simulation: the target lengths are drawn here (not in Init, so that every   *)
(* family is equally likely to be walked) and later choices are drawn with     *)
(* RandomElement (TLC's simulator evaluates the invariants on every successor  *)
(* it generates, which would print every possible call of the state)           *)
Plan ==
  /\ phase = "plan"
  /\ tx' = (IF ExactX(fam) THEN MaxX(fam) ELSE RandomElement(0..MaxX(fam)))
  /\ ty' = RandomElement(MinY(fam)..MaxY(fam))
  /\ phase' = "x"
  /\ UNCHANGED << fam, xs, ys, call >>

GrowX ==
  /\ phase = "x"
  /\ Len(xs) < (IF Sim THEN tx ELSE MaxX(fam))
  /\ \E j \in 1..Len(PoolX(fam)) :
        /\ OkX(fam, xs, PoolX(fam)[j])
        /\ xs' = Append(xs, PoolX(fam)[j])
  /\ UNCHANGED << fam, ys, call, phase, tx, ty >>

DoneX ==
  /\ phase = "x"
  /\ (Sim => Len(xs) >= tx)
  /\ (ExactX(fam) => Len(xs) = MaxX(fam))
  /\ phase' = "y"
  /\ UNCHANGED << fam, xs, ys, call, tx, ty >>

GrowY ==
  /\ phase = "y"
  /\ Len(ys) < (IF Sim THEN ty ELSE MaxY(fam))
  /\ \E j \in 1..Len(PoolY(fam)) : ys' = Append(ys, PoolY(fam)[j])
  /\ UNCHANGED << fam, xs, call, phase, tx, ty >>

Choose ==
  /\ phase = "y"
  /\ Len(ys) >= (IF Sim THEN ty ELSE MinY(fam))
  /\ Calls(fam, xs, ys) # {}
  /\ \E c \in (IF Sim THEN {RandomElement(Calls(fam, xs, ys))} ELSE Calls(fam, xs, ys)) : call' = c
  /\ phase' = "done"
  /\ UNCHANGED << fam, xs, ys, tx, ty >>

Next == Plan \/ GrowX \/ DoneX \/ GrowY \/ Choose
Spec == Init /\ [][Next]_vars

(* one REPLAY line per finished call *)
Emit == phase = "done" => PrintT(<< "REPLAY", ToJson(Case(fam, call, xs, ys)) >>)

(* ------------------------------------------------------------------------- *)
(* the laws (sanity of the reference; under Deviations = {} all must hold)    *)
(* ------------------------------------------------------------------------- *)
DV == Deviations
OkVal(o) == o.ok[1]

(* reverse is an involution that preserves length and mirrors positions;      *)
(* head ++ tail = list                                                         *)
LawsList ==
  fam = "list1" =>
    /\ SeqEq(RevSeq(RevSeq(xs)), xs)
    /\ Len(RevSeq(xs)) = Len(xs)
    /\ \A i \in 1..Len(xs) : XEq(RevSeq(xs)[i], xs[Len(xs) + 1 - i])
    /\ IsMust(TailO(DV, xs))
    /\ SeqEq(HeadSeq(xs) \o OkVal(TailO(DV, xs)).es, xs)
    /\ Len(HeadSeq(xs)) = Min2(1, Len(xs))
(* enumerate keeps the items, in order, numbered start, start+step, ...        *)
LawsEnum ==
  fam = "enum" =>
    \A s \in {0, 2, 0 - 1}, st \in {0, 1, 3} :
      LET r == EnumSeq(xs, s, st)
      IN /\ Len(r) = Len(xs)
         /\ \A i \in 1..Len(xs) : XEq(r[i].es[2], xs[i]) /\ r[i].es[1].i = s + (i - 1) * st
(* zip truncates to the shorter list and pairs positionally                    *)
LawsZip ==
  (fam = "zip" /\ phase # "x") =>
    LET z == ZipO(DV, xs, ys)
    IN /\ IsMust(z)
       /\ Len(OkVal(z).es) = Min2(Len(xs), Len(ys))
       /\ \A i \in 1..Len(OkVal(z).es) : XEq(OkVal(z).es[i].es[1], xs[i]) /\ XEq(OkVal(z).es[i].es[2], ys[i])
       /\ SeqEq([i \in 1..Len(OkVal(z).es) |-> OkVal(z).es[i].es[1]], SubSeq(xs, 1, Min2(Len(xs), Len(ys))))
(* slice is the inclusive index range; adjacent slices concatenate             *)
LawsSlice ==
  fam = "slice" =>
    LET n == Len(xs) IN
    /\ \A s \in 0..(n - 1), e \in 0..(n - 1) :
         s <= e =>
           LET o == SliceO(xs, s, e)
           IN /\ IsMust(o)
              /\ Len(OkVal(o).es) = e - s + 1
              /\ \A i \in 0..(e - s) : XEq(OkVal(o).es[i + 1], xs[s + i + 1])
              /\ \A m \in s..e : SeqEq(SliceSeq(xs, s, m) \o SliceSeq(xs, m + 1, e), SliceSeq(xs, s, e))
    /\ OutEq(SliceO(xs, Dflt, Dflt), Must(ListV(xs)))
    /\ \A s \in 0..n : OutEq(SliceO(xs, s, s - 1), Must(ListV(<< >>)))
    /\ \A s \in IdxRange(n), e \in IdxRange(n) :
         (s < 0 \/ s > n \/ e >= n) => OutEq(SliceO(xs, s, e), MustFail)
(* split_on followed by str_join with the same separator restores the string;  *)
(* no piece contains the separator; k occurrences give k+1 pieces               *)
Occurs(sep, s) == \E j \in 0..(Len(s) - Len(sep)) : SubSeq(s, j + 1, j + Len(sep)) = sep
LawsSplit ==
  (fam = "split" /\ phase # "x" /\ Len(ys) >= 1) =>
    LET ps == Split(xs, ys)
    IN /\ JoinD(DV, ps, ys) = xs
       /\ \A j \in 1..Len(ps) : ~Occurs(ys, ps[j])
       /\ Len(ps) >= 1
       /\ (~Occurs(ys, xs)) <=> (ps = << xs >>)
       /\ Len(xs) = (Len(ps) - 1) * Len(ys) + Len(JoinCs(ps, << >>))
(* join: length; joining with "" concatenates; a join of pieces free of the    *)
(* separator's characters splits back into the pieces                          *)
LawsJoin ==
  (fam = "join" /\ phase # "x") =>
    LET ps == Pieces(xs)
        j  == JoinD(DV, ps, ys)
    IN /\ Len(j) = Len(JoinCs(ps, << >>)) + (IF Len(ps) = 0 THEN 0 ELSE (Len(ps) - 1) * Len(ys))
       /\ ((Len(ys) >= 1 /\ Len(ps) >= 1 /\ \A q \in 1..Len(ps) : \A m \in 1..Len(ps[q]) : \A r \in 1..Len(ys) : ps[q][m] # ys[r])
             => Split(j, ys) = ps)
(* split_at: left ++ right = s, |left| = k;  substr: index range, adjacent      *)
(* substrings concatenate, the defaults give the whole string                   *)
LawsStr ==
  /\ fam = "splitat" =>
       \A k \in 0..Len(xs) :
         LET v == OkVal(SplitAtO(xs, k))
         IN v.fs[1].val.s \o v.fs[2].val.s = xs /\ Len(v.fs[1].val.s) = k /\ IsMust(SplitAtO(xs, k))
  /\ fam = "substr" =>
       LET n == Len(xs) IN
       /\ OutEq(SubstrO(xs, Dflt, Dflt), Must(StrV(xs)))
       /\ \A a \in 0..n, b \in 0..(n + 1) :
            /\ IsMust(SubstrO(xs, a, b))
            /\ Len(Substr(xs, a, b)) = Max2(0, Min2(b, n - 1) - a + 1)
            /\ \A i \in 1..Len(Substr(xs, a, b)) : Substr(xs, a, b)[i] = xs[a + i]
            /\ \A m \in a..b : Substr(xs, a, m) \o Substr(xs, m + 1, b) = Substr(xs, a, b)
  /\ fam = "str1" => Len(CharsSeq(xs)) = Len(xs) /\ JoinCs([j \in 1..Len(xs) |-> CharsSeq(xs)[j].s], << >>) = xs
(* parse_int of the decimal spelling of n followed by a non-digit is n          *)
LawsParse ==
  fam = "parseint" =>
    /\ \A n \in {0, 7, 10, 905} : OutEq(ParseIntO(NatChars(n) \o << "c1" >> \o xs, "unwrap"), Must(BigIntV(NatChars(n))))
    /\ (Len(xs) > 0 /\ IsDigitC(xs[1])) => ~OutEq(ParseIntO(xs, "is_null"), Must(BoolV(TRUE)))
    /\ OutEq(ParseIntO(I64Max, "unwrap"), Must(BigIntV(I64Max)))
    /\ OutEq(ParseIntO(<< "9", "2", "2", "3", "3", "7", "2", "0", "3", "6", "8", "5", "4", "7", "7", "5", "8", "0", "8" >>, "unwrap"), MustFail)
    /\ OutEq(ParseIntO(<< "0" >> \o I64Max \o xs, "unwrap"),
             IF Len(xs) > 0 /\ IsDigitC(xs[1]) THEN MustFail ELSE Must(BigIntV(I64Max)))
(* tuples: fields/values/iter are aligned; strip_nulls is idempotent, keeps     *)
(* order and removes exactly the NULL fields; a tuple has its own fields        *)
LawsTuple ==
  fam = "tuple" =>
    /\ Len(FieldsSeq(xs)) = Len(xs) /\ Len(ValuesSeq(xs)) = Len(xs)
    /\ \A j \in 1..Len(xs) : XEq(IterSeq(xs)[j], ListV(<< FieldsSeq(xs)[j], ValuesSeq(xs)[j] >>))
    /\ StripNulls(StripNulls(xs)) = StripNulls(xs)
    /\ \A j \in 1..Len(StripNulls(xs)) : StripNulls(xs)[j].val.t # "null"
    /\ Len(StripNulls(xs)) = Cardinality({j \in 1..Len(xs) : xs[j].val.t # "null"})
    /\ HasFields(xs, [j \in 1..Len(xs) |-> xs[j].nm])
    /\ HasFields(xs, << >>)
    /\ ~HasFields(xs, << NameId(NNames + 1) >>)
(* maybe: unit laws                                                             *)
LawsMaybe ==
  fam = "maybe" =>
    \A v0 \in 0..1 :
      /\ (v0 # 0 /\ \A j \in 1..Len(xs) : xs[j] \in {"or_const", "or_null", "or_fail"})
            => OutEq(MaybeO(MaybeV0(v0), xs, "maybe_unwrap"), Must(ElemV(v0)))
      /\ (v0 = 0 /\ \A j \in 1..Len(xs) : xs[j] \in {"do_wrap", "do_const", "do_null", "do_fail"})
            => OutEq(MaybeO(Null, xs, "maybe_is_null"), Must(BoolV(TRUE)))
      /\ LET u == MaybeO(MaybeV0(v0), xs, "maybe_unwrap")
             n == MaybeO(MaybeV0(v0), xs, "maybe_is_null")
             e == MaybeO(MaybeV0(v0), xs, "maybe_expect")
         IN /\ u.mayfail = n.mayfail
            /\ (IsMust(u) => (OkVal(n).b <=> OkVal(u).t = "null"))
            /\ (IsMust(u) /\ OkVal(u).t # "null") => OutEq(e, u)
            /\ (IsMust(u) /\ OkVal(u).t = "null") => OutEq(e, MustFail)
(* schema: a function-free value has its own shape exactly; exact implies       *)
(* partial; any over one shape is shaped; all over no shape holds               *)
LawsSchema ==
  /\ (fam \in {"shaped", "anyall", "basetype"} /\ Len(xs) = 1 /\ ~HasFn(xs[1])) =>
       /\ OutEq(ShapedD(DV, xs[1], xs[1], FALSE), Must(BoolV(TRUE)))
       /\ OutEq(ShapedD(DV, xs[1], xs[1], TRUE), Must(BoolV(TRUE)))
       /\ OutEq(AllD(DV, xs[1], << >>), Must(BoolV(TRUE)))
       /\ OutEq(AnyD(DV, xs[1], << >>, FALSE), Must(BoolV(FALSE)))
       /\ BaseTypeOf(xs[1]).s = TypeChars(xs[1])
  /\ (fam = "shaped" /\ Len(xs) = 1 /\ Len(ys) = 1) =>
       /\ \A lp \in {"same", "exact"} : Shaped(xs[1], ys[1], FALSE, lp) => Shaped(xs[1], ys[1], TRUE, lp)
       /\ Shaped(xs[1], ys[1], TRUE, "exact") => Shaped(xs[1], ys[1], TRUE, "same")
       /\ OutEq(AnyO(xs[1], ys, FALSE), ShapedO(xs[1], ys[1], FALSE))
       /\ OutEq(AllO(xs[1], ys), ShapedO(xs[1], ys[1], TRUE))
       /\ (xs[1].t # ys[1].t) => OutEq(ShapedO(xs[1], ys[1], TRUE), Must(BoolV(FALSE)))

Laws == phase = "y" =>
        /\ LawsList /\ LawsEnum /\ LawsZip /\ LawsSlice /\ LawsSplit /\ LawsJoin /\ LawsStr
        /\ LawsParse /\ LawsTuple /\ LawsMaybe /\ LawsSchema

(* every emitted prediction is well formed: at least one admissible outcome    *)
WellFormed ==
  phase = "done" =>
    LET o == Outcome({}, fam, call, xs, ys) IN o.mayfail \/ Len(o.ok) >= 1
=============================================================================
