------------------------------ MODULE Values ------------------------------
(* Abstract value domain shared by Eval.tla (reference semantics) and        *)
(* VM.tla (the stack machine).  DESIGN.md §3.1-§3.3.                         *)
(*                                                                           *)
(* One payload field name per primitive kind (TLC compares records field by  *)
(* field; same-named fields of different kinds would be a run-time error):   *)
(*   [t|->"null"]  [t|->"bool",b]  [t|->"int",i]  [t|->"float",fn,fk]        *)
(*   [t|->"str",s]  (s: sequence of 1-character strings)                     *)
(*   [t|->"list",es]   [t|->"tuple",fs]  (fs: sequence of [nm,val])          *)
(* Functions and modules differ between the two semantics (closure over an   *)
(* environment vs. code pointer + snapshot) and are defined there; both use  *)
(* the tags "func" and "module".  Names are character sequences as well.     *)
EXTENDS Integers, Sequences, FiniteSets, TLC

Null        == [t |-> "null"]
BoolV(b)     == [t |-> "bool", b |-> b]
IntV(i)      == [t |-> "int", i |-> i]
StrV(s)      == [t |-> "str", s |-> s]
ListV(es)    == [t |-> "list", es |-> es]
TupleV(fs)   == [t |-> "tuple", fs |-> fs]
Fld(n, v)   == [nm |-> n, val |-> v]

(* ---- floats: dyadic rationals fn / 2^fk, normalised (fn odd or fk = 0) -- *)
RECURSIVE Pow2(_)
Pow2(k) == IF k = 0 THEN 1 ELSE 2 * Pow2(k - 1)

RECURSIVE NormF(_, _)
NormF(n, k) == IF k > 0 /\ n % 2 = 0 THEN NormF(n \div 2, k - 1) ELSE [t |-> "float", fn |-> n, fk |-> k]
FloatV(n, k) == NormF(n, k)

FAdd(a, b) == LET k == IF a.fk > b.fk THEN a.fk ELSE b.fk
              IN NormF(a.fn * Pow2(k - a.fk) + b.fn * Pow2(k - b.fk), k)
FNeg(a)    == [t |-> "float", fn |-> 0 - a.fn, fk |-> a.fk]
FSub(a, b) == FAdd(a, FNeg(b))
FMul(a, b) == NormF(a.fn * b.fn, a.fk + b.fk)
FLess(a, b) == LET k == IF a.fk > b.fk THEN a.fk ELSE b.fk
               IN a.fn * Pow2(k - a.fk) < b.fn * Pow2(k - b.fk)
FIsInt(a)  == a.fk = 0
(* truncation toward zero, as `f as i64` *)
TDiv(a, b) == IF (a >= 0) = (b > 0) THEN (IF a >= 0 THEN a \div b ELSE (0 - a) \div (0 - b))
              ELSE 0 - ((IF a >= 0 THEN a ELSE 0 - a) \div (IF b > 0 THEN b ELSE 0 - b))
TMod(a, b) == a - b * TDiv(a, b)
FTrunc(a)  == TDiv(a.fn, Pow2(a.fk))

(* ---- type names ---------------------------------------------------------- *)
(* the eight names of the `is` operator (reference: "Type test expressions") *)
TypeName(v) == v.t   \* "null" "bool" "int" "float" "str" "list" "tuple" "func" "module"
IsPrim(v) == v.t \in {"null", "bool", "int", "float", "str"}
TypeChars(v) ==
  CASE v.t = "null"   -> << "n", "u", "l", "l" >>
    [] v.t = "bool"   -> << "b", "o", "o", "l" >>
    [] v.t = "int"    -> << "i", "n", "t" >>
    [] v.t = "float"  -> << "f", "l", "o", "a", "t" >>
    [] v.t = "str"    -> << "s", "t", "r" >>
    [] v.t = "list"   -> << "l", "i", "s", "t" >>
    [] v.t = "tuple"  -> << "t", "u", "p", "l", "e" >>
    [] v.t = "func"   -> << "f", "u", "n", "c" >>
    [] v.t = "module" -> << "m", "o", "d", "u", "l", "e" >>

(* ---- characters and names ------------------------------------------------ *)
Digits == << "0", "1", "2", "3", "4", "5", "6", "7", "8", "9" >>
RECURSIVE NatChars(_)
NatChars(n) == IF n < 10 THEN << Digits[n + 1] >> ELSE NatChars(n \div 10) \o << Digits[(n % 10) + 1] >>
IntChars(i) == IF i < 0 THEN << "-" >> \o NatChars(0 - i) ELSE NatChars(i)

(* decimal expansion of a dyadic: exact, and for the small denominators used *)
(* (fk <= 6) identical to Rust's shortest round-trip `{}` rendering; a float *)
(* with zero fraction renders without ".0"                                   *)
RECURSIVE FracChars(_, _)
FracChars(num, k) ==   \* digits of num / 2^k, 0 <= num < 2^k, k > 0 or num = 0
  IF num = 0 THEN << >>
  ELSE LET d == (num * 10) \div Pow2(k) IN << Digits[d + 1] >> \o FracChars((num * 10) % Pow2(k), k)
FloatChars(a) ==
  LET neg == a.fn < 0
      n   == IF neg THEN 0 - a.fn ELSE a.fn
      ip  == n \div Pow2(a.fk)
      fr  == n % Pow2(a.fk)
  IN (IF neg THEN << "-" >> ELSE << >>) \o NatChars(ip)
       \o (IF fr = 0 THEN << >> ELSE << "." >> \o FracChars(fr, a.fk))

Chars(str) == str   \* documentation only: a TLA+ "string value" here IS a char sequence

(* total order on names/strings: lexicographic over this alphabet (byte      *)
(* order of the ASCII characters the pools use)                              *)
Alphabet == << " ", "\"", "%", "(", ")", ",", "-", ".", "0", "1", "2", "3", "4", "5", "6", "7", "8", "9",
               ":", "<", "=", ">", "@", "F", "L", "M", "N", "U", "[", "\\", "]", "_",
               "a", "b", "c", "d", "e", "f", "g", "h", "i", "j", "k", "l", "m", "n", "o", "p", "q",
               "r", "s", "t", "u", "v", "w", "x", "y", "z", "{", "}" >>
CharIdx(c) == CHOOSE j \in 1..Len(Alphabet) : Alphabet[j] = c
RECURSIVE NameLess(_, _)
NameLess(a, b) ==
  IF a = << >> THEN b # << >>
  ELSE IF b = << >> THEN FALSE
  ELSE IF Head(a) = Head(b) THEN NameLess(Tail(a), Tail(b))
  ELSE CharIdx(Head(a)) < CharIdx(Head(b))

(* substring test (the `in` operator on strings) *)
IsSubstr(part, s) ==
  \E j \in 0..(Len(s) - Len(part)) : SubSeq(s, j + 1, j + Len(part)) = part

(* does a value contain a function or module anywhere?  (their comparison is a *)
(* don't-care: the generators never rely on it)                                *)
RECURSIVE HasFn(_)
HasFn(v) ==
  CASE v.t \in {"func", "module"} -> TRUE
    [] v.t = "list"  -> \E j \in 1..Len(v.es) : HasFn(v.es[j])
    [] v.t = "tuple" -> \E j \in 1..Len(v.fs) : HasFn(v.fs[j].val)
    [] OTHER -> FALSE

(* ---- structural equality, tag-guarded ------------------------------------- *)
(* Positional on lists; on tuples the REFERENCE demands same fields in the    *)
(* same order (expressions.md: "both tuples in a comparison must have their   *)
(* fields in the same order to compare as equal").  Functions and modules are *)
(* never compared by the generators (don't-care).                             *)
RECURSIVE VEq(_, _)
VEq(a, b) ==
  IF a.t # b.t THEN FALSE
  ELSE CASE a.t = "null"  -> TRUE
         [] a.t = "bool"  -> a.b = b.b
         [] a.t = "int"   -> a.i = b.i
         [] a.t = "float" -> a.fn = b.fn /\ a.fk = b.fk
         [] a.t = "str"   -> a.s = b.s
         [] a.t = "list"  -> /\ Len(a.es) = Len(b.es)
                             /\ \A j \in 1..Len(a.es) : VEq(a.es[j], b.es[j])
         [] a.t = "tuple" -> /\ Len(a.fs) = Len(b.fs)
                             /\ \A j \in 1..Len(a.fs) :
                                   a.fs[j].nm = b.fs[j].nm /\ VEq(a.fs[j].val, b.fs[j].val)
         [] OTHER -> FALSE

(* tuple equality as the CODE has it (opcode/mod.rs PartialEq for Value):     *)
(* same length and every left field found on the right with an equal value,   *)
(* whatever the order.  Used by VM.tla under the deviation "TupleEqUnordered". *)
RECURSIVE VEqUnordered(_, _)
VEqUnordered(a, b) ==
  IF a.t # b.t THEN FALSE
  ELSE CASE a.t = "null"  -> TRUE
         [] a.t = "bool"  -> a.b = b.b
         [] a.t = "int"   -> a.i = b.i
         [] a.t = "float" -> a.fn = b.fn /\ a.fk = b.fk
         [] a.t = "str"   -> a.s = b.s
         [] a.t = "list"  -> /\ Len(a.es) = Len(b.es)
                             /\ \A j \in 1..Len(a.es) : VEqUnordered(a.es[j], b.es[j])
         [] a.t = "tuple" -> /\ Len(a.fs) = Len(b.fs)
                             /\ \A j \in 1..Len(a.fs) :
                                   /\ \E m \in 1..Len(b.fs) : b.fs[m].nm = a.fs[j].nm
                                   /\ \A m \in 1..Len(b.fs) : b.fs[m].nm = a.fs[j].nm =>
                                          VEqUnordered(a.fs[j].val, b.fs[m].val)
         [] OTHER -> FALSE

(* ---- default string representation (format expressions) ------------------ *)
(* Primitives as the reference says; composites, functions and modules as the *)
(* code renders them (opcode/convert.rs:198-238) - an assumption, see DESIGN.  *)
RECURSIVE Render(_), RenderEls(_), RenderFlds(_)
Render(v) ==
  CASE v.t = "null"   -> << "N", "U", "L", "L" >>
    [] v.t = "bool"   -> IF v.b THEN << "t", "r", "u", "e" >> ELSE << "f", "a", "l", "s", "e" >>
    [] v.t = "int"    -> IntChars(v.i)
    [] v.t = "float"  -> FloatChars(v)
    [] v.t = "str"    -> v.s
    [] v.t = "list"   -> << "[" >> \o RenderEls(v.es) \o << "]" >>
    [] v.t = "tuple"  -> << "{" >> \o RenderFlds(v.fs) \o << "}" >>
    [] v.t = "func"   -> << "<", "F", "u", "n", "c", ">" >>
    [] v.t = "module" -> << "<", "M", "o", "d", "u", "l", "e", ">" >>
RenderEls(es) == IF es = << >> THEN << >> ELSE Render(Head(es)) \o << "," >> \o RenderEls(Tail(es))
RenderFlds(fs) ==
  IF fs = << >> THEN << >>
  ELSE Head(fs).nm \o << " ", "=", " " >> \o Render(Head(fs).val) \o << "," >> \o RenderFlds(Tail(fs))

(* ---- projection on which specification and implementation are compared -- *)
(* closures and modules carry semantics-specific internals; drop them        *)
RECURSIVE Abs(_)
Abs(v) ==
  CASE v.t = "list"   -> ListV([j \in 1..Len(v.es) |-> Abs(v.es[j])])
    [] v.t = "tuple"  -> TupleV([j \in 1..Len(v.fs) |-> Fld(v.fs[j].nm, Abs(v.fs[j].val))])
    [] v.t = "func"   -> [t |-> "func"]
    [] v.t = "module" -> [t |-> "module"]
    [] OTHER -> v
=============================================================================
