CONSTANTS
  DomSize = 0
  Blocks = 1
  MaxL = 4
  MaxStmts = 3
  MaxCmts = 4
  Spices = {"frag", "glue", "look"}
  Deviations = {"KeywordSwallowsComment"}
  KnownDevs = {"BlankCommentPadded", "KeywordSwallowsComment"}
  EmitEvery = 50
  EmitPhase = 0
INIT PlaceInit
NEXT PlaceNext
CHECK_DEADLOCK FALSE
INVARIANTS Deterministic EachOnce InOrder BeforeLaterCode FixedPoint PlaceEmit
