------------------------------- MODULE Shell -------------------------------
(* C08.  What a POSIX shell makes of the text the env, flags and exec        *)
(* converters of ucg write.                                                   *)
(*                                                                            *)
(*  1. The ENVIRONMENT: the word parser of a POSIX shell (dash, bash) as a   *)
(*     state machine over characters, one action per consumed character.     *)
(*  2. The escaping helpers of src/convert/mod.rs:29-44 and the three        *)
(*     converters (env.rs:37-91, flags.rs:46-125, exec.rs:134-171)           *)
(*     transcribed clause by clause into functions from an abstract value to *)
(*     text -- as the property requires them to be; where the code is known  *)
(*     to deviate, the deviation is a named member of Deviations.            *)
(*  3. The REFERENCE: which words the property says must arrive.             *)
(*  4. A generator machine whose behaviours are exactly the strings of       *)
(*     length <= MaxLen over Alphabet and the tuples of <= MaxFields fields  *)
(*     over Kinds; OneWord and EveryScalarOnceInOrder are invariants of it.  *)
(*                                                                            *)
(* Configurations: Shell_mc.cfg (generator, the property, REPLAY emission;   *)
(* the driver runs it as MC_Shell with the seeded strings as Extra),         *)
(* Shell_machine.cfg (the stepwise machine equals Parse, every action        *)
(* taken), Shell_dev.cfg (recorded deviations on: the property must fail),   *)
(* ShellTrace.tla/.cfg (the machine reads the text the REAL converters       *)
(* wrote).                                                                    *)
(*                                                                            *)
(* A character is a TLA+ string used as an atom: "a", "'", "\n", or a token  *)
(* such as "U+00E9" standing for one character outside printable ASCII.  The *)
(* machine only ever asks whether a character is one of the listed special   *)
(* characters; every other atom is an ordinary character (the class whose    *)
(* representative in the exhaustive alphabet is "a").                        *)
EXTENDS Naturals, Sequences, SequencesExt, TLC, Json

CONSTANTS
  Deviations,  \* named deviations of the code that are switched on (design: {})
  MaxLen,      \* exhaustive family: strings of length <= MaxLen over Alphabet
  MaxFields,   \* exhaustive family: tuples of <= MaxFields fields over Kinds
  Extra,       \* seeded family: a sequence of further strings (character sequences)
  NTexts,      \* the shell machine reads the texts TextOf(1) .. TextOf(NTexts)
  TextOf(_),   \* (character sequences)
  MachineLen,  \* Shell_machine.cfg: converter texts of all strings up to this length
  MachineRaw   \* Shell_machine.cfg: and all raw strings up to this length as shell text

SQ  == "'"
DQ  == "\""
BS  == "\\"
DOL == "$"
BQ  == "`"
SP  == " "
TAB == "\t"
NL  == "\n"

(* the alphabet of the property's quantifier *)
Alphabet == << SQ, DQ, BS, DOL, BQ, SP, NL, "*", "a" >>
AlphabetSet == { Alphabet[i] : i \in 1..Len(Alphabet) }

(* ======================================================================= *)
(* 1. The shell word parser                                                 *)
(* ======================================================================= *)
(* POSIX.1-2017 XCU 2.2 (quoting), 2.3 (token recognition), 2.6 (word       *)
(* expansions).  Characters that mean something when they are not quoted:   *)
Blank    == { SP, TAB }                              \* separate words
Expand   == { DOL, BQ }                              \* parameter / command substitution
Glob     == { "*", "?", "[" }                        \* pathname expansion
Operator == { ";", "&", "|", "<", ">", "(", ")" }    \* control and redirection operators
(* further: NL ends the command, # starts a comment at the start of a word, *)
(* ~ is a tilde-prefix at the start of a word or after an unquoted = or :,  *)
(* { starts a brace expansion in bash.                                      *)
(* Inside "..." only $ ` \ and " are special; \ escapes exactly $ ` " \ and *)
(* newline there and is kept otherwise.  Inside '...' nothing is special.   *)

(* mode: plain | single | double | dqEsc (after \ inside "...") | esc (after *)
(* an unquoted \) | comment.  word/inword: the word being assembled (inword *)
(* tells '' from no word at all).  words: finished words of the current     *)
(* command.  cmds: finished commands.  exp: the expansions counter -- how   *)
(* many characters were given a meaning other than themselves or a          *)
(* delimiter.  tp: an unquoted ~ here would be a tilde-prefix.              *)
St0 == [mode |-> "plain", word |-> << >>, inword |-> FALSE, words |-> << >>,
        cmds |-> << >>, exp |-> 0, tp |-> TRUE]

Put(st, c) == [st EXCEPT !.word = Append(@, c), !.inword = TRUE, !.tp = FALSE]
Bump(st)   == [st EXCEPT !.exp = @ + 1]
EndWord(st) ==
  IF st.inword
    THEN [st EXCEPT !.words = Append(@, st.word), !.word = << >>, !.inword = FALSE, !.tp = TRUE]
    ELSE [st EXCEPT !.tp = TRUE]
EndCmd(st) ==
  LET w == EndWord(st)
  IN IF w.words = << >> THEN w ELSE [w EXCEPT !.cmds = Append(@, w.words), !.words = << >>]

(* every character that is not simply itself when unquoted *)
PlainSpecial == {SQ, DQ, BS, NL, "#", "~", "{", "=", ":"} \cup Blank \cup Expand \cup Glob \cup Operator

(* which rule consumes character c in state st: exactly one per (st, c) *)
BranchOf(m, inw, tpx, c) ==
  IF m = "plain" THEN
         IF c \notin PlainSpecial THEN "PlainChar"      \* (the common case first)
    ELSE IF c = SQ              THEN "PlainOpenSingle"
    ELSE IF c = DQ              THEN "PlainOpenDouble"
    ELSE IF c = BS              THEN "PlainBackslash"
    ELSE IF c \in Blank         THEN "PlainBlank"
    ELSE IF c = NL              THEN "PlainNewline"
    ELSE IF c \in Expand        THEN "PlainExpand"
    ELSE IF c \in Glob          THEN "PlainGlob"
    ELSE IF c \in Operator      THEN "PlainOperator"
    ELSE IF c = "#" /\ ~inw    THEN "PlainComment"
    ELSE IF c = "~" /\ tpx     THEN "PlainTilde"
    ELSE IF c = "{"             THEN "PlainBrace"
    ELSE IF c \in {"=", ":"}    THEN "PlainAssignSep"
    ELSE "PlainChar"
  ELSE IF m = "single" THEN
         IF c = SQ              THEN "SingleClose"
    ELSE "SingleChar"
  ELSE IF m = "double" THEN
         IF c = DQ              THEN "DoubleClose"
    ELSE IF c = BS              THEN "DoubleBackslash"
    ELSE IF c \in Expand        THEN "DoubleExpand"
    ELSE "DoubleChar"
  ELSE IF m = "dqEsc" THEN
         IF c \in {DOL, BQ, DQ, BS} THEN "DqEscSpecial"
    ELSE IF c = NL              THEN "DqEscNewline"
    ELSE "DqEscOther"
  ELSE IF m = "esc" THEN
         IF c = NL              THEN "EscNewline"
    ELSE "EscChar"
  ELSE (* comment *)
         IF c = NL              THEN "CommentEnd"
    ELSE "CommentChar"
Branch(st, c) == BranchOf(st.mode, st.inword, st.tp, c)

(* the effect of each rule *)
Apply(b, st, c) ==
  CASE b = "PlainChar"       -> Put(st, c)
    [] b = "CommentChar"     -> st
    [] b = "SingleChar"      -> Put(st, c)
    [] b = "PlainBlank"      -> EndWord(st)
    [] b = "DoubleChar"      -> Put(st, c)
    [] b = "PlainOpenSingle" -> [st EXCEPT !.mode = "single", !.inword = TRUE, !.tp = FALSE]
    [] b = "SingleClose"     -> [st EXCEPT !.mode = "plain"]
    [] b = "EscChar"         -> [Put(st, c) EXCEPT !.mode = "plain"]
    [] b = "PlainBackslash"  -> [st EXCEPT !.mode = "esc"]
    [] b = "PlainNewline"    -> EndCmd(st)
    [] b = "PlainAssignSep"  -> [Put(st, c) EXCEPT !.tp = TRUE]
    [] b = "CommentEnd"      -> EndCmd([st EXCEPT !.mode = "plain"])
    [] b = "PlainComment"    -> [st EXCEPT !.mode = "comment"]
    [] b = "PlainOpenDouble" -> [st EXCEPT !.mode = "double", !.inword = TRUE, !.tp = FALSE]
    [] b = "DoubleClose"     -> [st EXCEPT !.mode = "plain"]
    [] b = "DoubleBackslash" -> [st EXCEPT !.mode = "dqEsc"]
    [] b = "DqEscSpecial"    -> [Put(st, c) EXCEPT !.mode = "double"]
    [] b = "PlainExpand"     -> Bump(Put(st, c))
    [] b = "PlainGlob"       -> Bump(Put(st, c))
    [] b = "PlainOperator"   -> Bump(EndWord(st))
    [] b = "PlainTilde"      -> Bump(Put(st, c))
    [] b = "PlainBrace"      -> Bump(Put(st, c))
    [] b = "DoubleExpand"    -> Bump(Put(st, c))
    [] b = "DqEscNewline"    -> [st EXCEPT !.mode = "double"]           \* line continuation
    [] b = "DqEscOther"      -> [Put(Put(st, BS), c) EXCEPT !.mode = "double"]
    [] b = "EscNewline"      -> [st EXCEPT !.mode = "plain"]            \* line continuation

Step(st, c) == Apply(Branch(st, c), st, c)

(* end of input: an open quote or a dangling backslash leaves it incomplete *)
Complete(st) == st.mode \in {"plain", "comment"}
Result(st) == [cmds |-> EndCmd(st).cmds, exp |-> st.exp, complete |-> Complete(st)]

RECURSIVE Run(_, _, _)
Run(st, text, i) == IF i > Len(text) THEN st ELSE Run(Step(st, text[i]), text, i + 1)
ParseFold(text) == Result(Run(St0, text, 1))

(* the text means exactly these commands/words, and nothing was expanded *)
Clean(r, want) == r.complete /\ r.exp = 0 /\ r.cmds = want

(* ======================================================================= *)
(* 2. The helpers and converters                                            *)
(* ======================================================================= *)
RECURSIVE ReplaceCh(_, _, _)
ReplaceCh(s, c, rep) ==                 \* str::replace(char, &str)
  IF s = << >> THEN << >>
  ELSE (IF Head(s) = c THEN rep ELSE << Head(s) >>) \o ReplaceCh(Tail(s), c, rep)

(* mod.rs:32-34   s.replace('\'', "'\\''")                                   *)
Sq(s) == ReplaceCh(s, SQ, << SQ, BS, SQ, SQ >>)
(* mod.rs:39-44   four replace passes, in this order                         *)
Dq(s) == ReplaceCh(ReplaceCh(ReplaceCh(ReplaceCh(s,
            BS,  << BS, BS >>),
            DQ,  << BS, DQ >>),
            DOL, << BS, DOL >>),
            BQ,  << BS, BQ >>)

(* ---- abstract values ---------------------------------------------------- *)
(* k: str | int | float | bool | null | list | tuple.  s: the string itself  *)
(* (str) or the text Rust's Display prints for the number / boolean.         *)
(* es: list items.  fs: tuple fields [nm, v].  Every record has every field. *)
StrV(s)    == [k |-> "str",   s |-> s, es |-> << >>, fs |-> << >>]
IntV(s)    == [k |-> "int",   s |-> s, es |-> << >>, fs |-> << >>]
FloatV(s)  == [k |-> "float", s |-> s, es |-> << >>, fs |-> << >>]
BoolV(s)   == [k |-> "bool",  s |-> s, es |-> << >>, fs |-> << >>]
NullV      == [k |-> "null",  s |-> << >>, es |-> << >>, fs |-> << >>]
ListV(es)  == [k |-> "list",  s |-> << >>, es |-> es, fs |-> << >>]
TupleV(fs) == [k |-> "tuple", s |-> << >>, es |-> << >>, fs |-> fs]
F(nm, v)  == [nm |-> nm, v |-> v]
Scalar(v) == v.k \in {"str", "int", "float", "bool"}

KnownDeviations == << "EnvStopsAtSkipped", "EnvListNoNewline" >>
NoExtra == << >>

(* ---- env: env.rs:37-91 -------------------------------------------------- *)
(* write(): Boolean/Float/Int -> writeln "{}", Str -> writeln "'{}'" with Sq     *)
EnvScalarLine(v) ==
  IF v.k = "str" THEN << SQ >> \o Sq(v.s) \o << SQ, NL >> ELSE v.s \o << NL >>

(* convert_tuple(): one `NAME=` + value line per scalar field.  The help     *)
(* text: "All other values are ignored" -- a tuple, NULL or list field       *)
(* contributes nothing and the loop goes on.                                 *)
(* Dev EnvStopsAtSkipped: the code `return`s at the first tuple / NULL field *)
(* (env.rs:39-46).  Dev EnvListNoNewline: for a list field the code has      *)
(* already written `NAME=` when convert_list writes nothing (env.rs:47-48).  *)
RECURSIVE EnvFields(_, _, _)
EnvFields(fs, i, D) ==
  IF i > Len(fs) THEN << >>
  ELSE LET nm == fs[i].nm
           v  == fs[i].v
       IN IF v.k \in {"tuple", "null"}
            THEN (IF "EnvStopsAtSkipped" \in D THEN << >> ELSE EnvFields(fs, i + 1, D))
          ELSE IF v.k = "list"
            THEN (IF "EnvListNoNewline" \in D THEN nm \o << "=" >> ELSE << >>)
                 \o EnvFields(fs, i + 1, D)
          ELSE nm \o << "=" >> \o EnvScalarLine(v) \o EnvFields(fs, i + 1, D)
EnvOutD(t, D) == EnvFields(t.fs, 1, D)
EnvOut(t) == EnvOutD(t, Deviations)

(* ---- flags: flags.rs:46-125 --------------------------------------------- *)
(* write_flag_name(): pfx is "" at top level *)
FlagName(nm) ==
  IF Len(nm) > 1 THEN << "-", "-" >> \o nm \o << SP >> ELSE << "-" >> \o nm \o << SP >>
(* write_simple_value() *)
FlagSimple(v) ==
  IF v.k = "str" THEN << SQ >> \o Sq(v.s) \o << SQ, SP >>
  ELSE IF v.k \in {"int", "float", "bool"} THEN v.s \o << SP >>
  ELSE << >>                                  \* Empty: no-op; list/tuple: skipped
(* write_list_flag(): one flag per primitive item *)
RECURSIVE FlagList(_, _, _)
FlagList(nm, es, j) ==
  IF j > Len(es) THEN << >>
  ELSE (IF es[j].k \in {"list", "tuple"} THEN << >> ELSE FlagName(nm) \o FlagSimple(es[j]))
       \o FlagList(nm, es, j + 1)
(* write() *)
RECURSIVE FlagFields(_, _)
FlagFields(fs, i) ==
  IF i > Len(fs) THEN << >>
  ELSE LET nm == fs[i].nm
           v  == fs[i].v
       IN (IF v.k = "null" THEN FlagName(nm)
           ELSE IF v.k = "tuple" THEN << >>
           ELSE IF v.k = "list" THEN FlagList(nm, v.es, 1)
           ELSE FlagName(nm) \o FlagSimple(v))
          \o FlagFields(fs, i + 1)
FlagsOut(t) == FlagFields(t.fs, 1)

(* ---- exec: exec.rs:134-171 ---------------------------------------------- *)
NmCommand == << "c", "o", "m", "m", "a", "n", "d" >>
NmArgs    == << "a", "r", "g", "s" >>
NmEnv     == << "e", "n", "v" >>
Get(t, nm) == t.fs[CHOOSE i \in 1..Len(t.fs) : t.fs[i].nm = nm].v
Has(t, nm) == \E i \in 1..Len(t.fs) : t.fs[i].nm = nm

Line1 == << "#", "!", "/", "u", "s", "r", "/", "b", "i", "n", "/", "e", "n", "v", SP, "b", "a", "s", "h" >>
Line2 == << "#", SP, "T", "u", "r", "n", SP, "o", "n", SP, "u", "n", "o", "f", "f", "i", "c", "i", "a", "l",
            SP, "B", "a", "s", "h", "-", "S", "t", "r", "i", "c", "t", "-", "M", "o", "d", "e" >>
Line3 == << "s", "e", "t", SP, "-", "e", "u", "o", SP, "p", "i", "p", "e", "f", "a", "i", "l" >>
Prologue == Line1 \o << NL >> \o Line2 \o << NL >> \o Line3 \o << NL >>

(* Parse: the fold of Step over the text.  Run is a left fold, so            *)
(* Run(St0, p \o r) = Run(Run(St0, p), r); the state after the fixed         *)
(* prologue of every exec script is computed once (TLC keeps constant        *)
(* definitions).  MachineEqualsParse (Shell_machine.cfg) checks Parse        *)
(* against the stepwise machine, which takes no such shortcut.               *)
AfterPrologue == Run(St0, Prologue, 1)
Parse(text) ==
  IF Len(text) >= Len(Prologue) /\ SubSeq(text, 1, Len(Prologue)) = Prologue
    THEN Result(Run(AfterPrologue, text, Len(Prologue) + 1))
    ELSE ParseFold(text)

(* step 3: NAME="value" per field of env (strings only; anything else is an  *)
(* error of the converter and not generated here)                            *)
RECURSIVE ExecEnv(_, _)
ExecEnv(fs, i) ==
  IF i > Len(fs) THEN << >>
  ELSE fs[i].nm \o << "=", DQ >> \o Dq(fs[i].v.s) \o << DQ, NL >> \o ExecEnv(fs, i + 1)
(* step 4: each argument: a string, or a tuple through the flags converter   *)
RECURSIVE ExecArgs(_, _)
ExecArgs(es, j) ==
  IF j > Len(es) THEN << >>
  ELSE (IF es[j].k = "str" THEN << SQ >> \o Sq(es[j].s) \o << SQ, SP >> ELSE FlagsOut(es[j]))
       \o ExecArgs(es, j + 1)
ExecOut(t) ==
  Prologue
  \o (IF Has(t, NmEnv) THEN ExecEnv(Get(t, NmEnv).fs, 1) ELSE << >>)
  \o << NL >>
  \o << "e", "x", "e", "c", SP, SQ >> \o Sq(Get(t, NmCommand).s) \o << SQ, SP >>
  \o (IF Has(t, NmArgs) THEN ExecArgs(Get(t, NmArgs).es, 1) ELSE << >>)

(* ======================================================================= *)
(* 3. The reference: the words the property says must arrive                *)
(* ======================================================================= *)
(* env: every scalar field is one assignment NAME=value, once, in order;    *)
(* tuple, NULL and list fields are skipped.                                  *)
RECURSIVE EnvWant(_, _)
EnvWant(fs, i) ==
  IF i > Len(fs) THEN << >>
  ELSE (IF Scalar(fs[i].v) THEN << << fs[i].nm \o << "=" >> \o fs[i].v.s >> >> ELSE << >>)
       \o EnvWant(fs, i + 1)
EnvExpected(t) == EnvWant(t.fs, 1)

(* flags (flags_help.txt): -n / --name then the value as one word; NULL:    *)
(* the name only; list: one flag per item; tuples are ignored.               *)
FlagWord(nm) == IF Len(nm) > 1 THEN << "-", "-" >> \o nm ELSE << "-" >> \o nm
FlagItem(nm, v) ==
  IF Scalar(v) THEN << FlagWord(nm), v.s >>
  ELSE IF v.k = "null" THEN << FlagWord(nm) >>
  ELSE << >>
RECURSIVE FlagItems(_, _, _)
FlagItems(nm, es, j) ==
  IF j > Len(es) THEN << >> ELSE FlagItem(nm, es[j]) \o FlagItems(nm, es, j + 1)
RECURSIVE FlagWant(_, _)
FlagWant(fs, i) ==
  IF i > Len(fs) THEN << >>
  ELSE (IF fs[i].v.k = "list" THEN FlagItems(fs[i].nm, fs[i].v.es, 1)
        ELSE FlagItem(fs[i].nm, fs[i].v))
       \o FlagWant(fs, i + 1)
FlagWords(t) == FlagWant(t.fs, 1)
FlagsExpected(t) == IF FlagWords(t) = << >> THEN << >> ELSE << FlagWords(t) >>

(* exec: the strict-mode line, one assignment per env field, then one        *)
(* command: exec, the command, every argument as one word.                   *)
RECURSIVE ExecEnvWant(_, _)
ExecEnvWant(fs, i) ==
  IF i > Len(fs) THEN << >>
  ELSE << << fs[i].nm \o << "=" >> \o fs[i].v.s >> >> \o ExecEnvWant(fs, i + 1)
RECURSIVE ExecArgWant(_, _)
ExecArgWant(es, j) ==
  IF j > Len(es) THEN << >>
  ELSE (IF es[j].k = "str" THEN << es[j].s >> ELSE FlagWords(es[j])) \o ExecArgWant(es, j + 1)
ExecExpected(t) ==
  << << << "s", "e", "t" >>, << "-", "e", "u", "o" >>, << "p", "i", "p", "e", "f", "a", "i", "l" >> >> >>
  \o (IF Has(t, NmEnv) THEN ExecEnvWant(Get(t, NmEnv).fs, 1) ELSE << >>)
  \o << << << "e", "x", "e", "c" >>, Get(t, NmCommand).s >>
        \o (IF Has(t, NmArgs) THEN ExecArgWant(Get(t, NmArgs).es, 1) ELSE << >>) >>

(* ======================================================================= *)
(* 4. The quantifier domain                                                 *)
(* ======================================================================= *)
(* a string s in the six positions (three conversions) *)
EnvCase(s)   == TupleV(<< F(<< "V" >>, StrV(s)) >>)                       \* env value
FlagsCase(s) == TupleV(<< F(<< "x" >>, StrV(s)),                          \* flag value
                         F(<< "y", "y" >>, ListV(<< StrV(s), StrV(s) >>)) >>)   \* list-flag items
ExecCase(s)  == TupleV(<< F(NmEnv, TupleV(<< F(<< "E" >>, StrV(s)) >>)),   \* exec env value
                         F(NmCommand, StrV(s)),                          \* exec command
                         F(NmArgs, ListV(<< StrV(s),                      \* exec argument
                                           TupleV(<< F(<< "k" >>, StrV(s)) >>) >>)) >>)  \* ... as a tuple

(* tuples: field i of kind k *)
Kinds == << "str", "int", "float", "bool", "null", "list", "tuple" >>
KindSet == { Kinds[i] : i \in 1..Len(Kinds) }
Digit == << "1", "2", "3", "4", "5", "6", "7", "8", "9" >>
Names == << << "A" >>, << "B", "b" >>, << "C" >>, << "D", "d" >>, << "E" >>,
            << "F", "f" >>, << "G" >>, << "H", "h" >>, << "I" >> >>
FieldVal(k, i) ==
  CASE k = "str"   -> StrV(<< "s", Digit[i], SP, SQ, DOL, "a" >>)
    [] k = "int"   -> IF i % 2 = 1 THEN IntV(<< "4", Digit[i] >>) ELSE IntV(<< "-", Digit[i] >>)
    [] k = "float" -> FloatV(<< Digit[i], ".", "5" >>)
    [] k = "bool"  -> IF i % 2 = 1 THEN BoolV(<< "t", "r", "u", "e" >>) ELSE BoolV(<< "f", "a", "l", "s", "e" >>)
    [] k = "null"  -> NullV
    [] k = "list"  -> ListV(<< StrV(<< "l", Digit[i] >>), StrV(<< "l", SP, DQ, Digit[i] >>) >>)
    [] k = "tuple" -> TupleV(<< F(<< "x" >>, StrV(<< "t", Digit[i] >>)) >>)
CaseTuple(ks) == TupleV([i \in 1..Len(ks) |-> F(Names[i], FieldVal(ks[i], i))])
ExecTupCase(t) == TupleV(<< F(NmCommand, StrV(<< "c", SP, "d" >>)),
                           F(NmArgs, ListV(<< StrV(<< "p", "r", "e" >>), t, StrV(<< "p", "o", "s", "t" >>) >>)) >>)

(* ---- the property ------------------------------------------------------- *)
OneWordHelper(s) ==       \* the two helpers by themselves
  /\ Clean(Parse(<< SQ >> \o Sq(s) \o << SQ >>), << << s >> >>)
  /\ Clean(Parse(<< "N", "=", DQ >> \o Dq(s) \o << DQ >>), << << << "N", "=" >> \o s >> >>)
OneWordIn(s) ==           \* the six positions
  /\ Clean(Parse(EnvOut(EnvCase(s))),     EnvExpected(EnvCase(s)))
  /\ Clean(Parse(FlagsOut(FlagsCase(s))), FlagsExpected(FlagsCase(s)))
  /\ Clean(Parse(ExecOut(ExecCase(s))),   ExecExpected(ExecCase(s)))
ScalarsOnceInOrder(t) ==
  /\ Clean(Parse(EnvOut(t)),   EnvExpected(t))
  /\ Clean(Parse(FlagsOut(t)), FlagsExpected(t))
  /\ Clean(Parse(ExecOut(ExecTupCase(t))), ExecExpected(ExecTupCase(t)))

(* ======================================================================= *)
(* State: the generator (gen) and the shell machine (the rest)              *)
(* ======================================================================= *)
VARIABLES gen,                                             \* the case under construction
          tid, pos, done,                                  \* which text the shell reads, cursor
          mode, word, inword, words, cmds, expansions, tp  \* the shell
mvars == << tid, pos, done, mode, word, inword, words, cmds, expansions, tp >>
text == TextOf(tid)
vars  == << gen, mvars >>

Cur == [mode |-> mode, word |-> word, inword |-> inword, words |-> words,
        cmds |-> cmds, exp |-> expansions, tp |-> tp]
SetCur(n) == /\ mode' = n.mode /\ word' = n.word /\ inword' = n.inword /\ words' = n.words
             /\ cmds' = n.cmds /\ expansions' = n.exp /\ tp' = n.tp
StartOn(t) == /\ tid = t /\ pos = 1 /\ done = FALSE
              /\ mode = St0.mode /\ word = St0.word /\ inword = St0.inword /\ words = St0.words
              /\ cmds = St0.cmds /\ expansions = St0.exp /\ tp = St0.tp

(* ---- the shell machine: one action per consumed character -------------- *)
Ready(m, b) == ~done /\ mode = m /\ pos <= Len(text) /\ BranchOf(mode, inword, tp, text[pos]) = b
Take(b)  == /\ SetCur(Apply(b, Cur, text[pos]))
            /\ pos' = pos + 1
            /\ UNCHANGED << gen, tid, done >>

PlainOpenSingle == Ready("plain", "PlainOpenSingle")  /\ Take("PlainOpenSingle")
PlainOpenDouble == Ready("plain", "PlainOpenDouble")  /\ Take("PlainOpenDouble")
PlainBackslash  == Ready("plain", "PlainBackslash")   /\ Take("PlainBackslash")
PlainBlank      == Ready("plain", "PlainBlank")       /\ Take("PlainBlank")
PlainNewline    == Ready("plain", "PlainNewline")     /\ Take("PlainNewline")
PlainExpand     == Ready("plain", "PlainExpand")      /\ Take("PlainExpand")
PlainGlob       == Ready("plain", "PlainGlob")        /\ Take("PlainGlob")
PlainOperator   == Ready("plain", "PlainOperator")    /\ Take("PlainOperator")
PlainComment    == Ready("plain", "PlainComment")     /\ Take("PlainComment")
PlainTilde      == Ready("plain", "PlainTilde")       /\ Take("PlainTilde")
PlainBrace      == Ready("plain", "PlainBrace")       /\ Take("PlainBrace")
PlainAssignSep  == Ready("plain", "PlainAssignSep")   /\ Take("PlainAssignSep")
PlainChar       == Ready("plain", "PlainChar")        /\ Take("PlainChar")
SingleClose     == Ready("single", "SingleClose")      /\ Take("SingleClose")
SingleChar      == Ready("single", "SingleChar")       /\ Take("SingleChar")
DoubleClose     == Ready("double", "DoubleClose")      /\ Take("DoubleClose")
DoubleBackslash == Ready("double", "DoubleBackslash")  /\ Take("DoubleBackslash")
DoubleExpand    == Ready("double", "DoubleExpand")     /\ Take("DoubleExpand")
DoubleChar      == Ready("double", "DoubleChar")       /\ Take("DoubleChar")
DqEscSpecial    == Ready("dqEsc", "DqEscSpecial")     /\ Take("DqEscSpecial")
DqEscNewline    == Ready("dqEsc", "DqEscNewline")     /\ Take("DqEscNewline")
DqEscOther      == Ready("dqEsc", "DqEscOther")       /\ Take("DqEscOther")
EscNewline      == Ready("esc", "EscNewline")       /\ Take("EscNewline")
EscChar         == Ready("esc", "EscChar")          /\ Take("EscChar")
CommentEnd      == Ready("comment", "CommentEnd")       /\ Take("CommentEnd")
CommentChar     == Ready("comment", "CommentChar")      /\ Take("CommentChar")
EndOfInput ==
  /\ ~done /\ pos > Len(text)
  /\ SetCur(EndCmd(Cur))
  /\ done' = TRUE
  /\ UNCHANGED << gen, tid, pos >>

MachineNext ==
  \/ PlainOpenSingle \/ PlainOpenDouble \/ PlainBackslash \/ PlainBlank \/ PlainNewline
  \/ PlainExpand \/ PlainGlob \/ PlainOperator \/ PlainComment \/ PlainTilde \/ PlainBrace
  \/ PlainAssignSep \/ PlainChar \/ SingleClose \/ SingleChar \/ DoubleClose
  \/ DoubleBackslash \/ DoubleExpand \/ DoubleChar \/ DqEscSpecial \/ DqEscNewline
  \/ DqEscOther \/ EscNewline \/ EscChar \/ CommentEnd \/ CommentChar \/ EndOfInput

MachineResult == [cmds |-> cmds, exp |-> expansions, complete |-> mode \in {"plain", "comment"}]

(* ---- the generator ------------------------------------------------------ *)
Idle == [fam |-> "run", x |-> 0, str |-> << >>, kinds |-> << >>]
GenInit ==
  /\ gen \in {[fam |-> "str", x |-> 0, str |-> << >>, kinds |-> << >>],
              [fam |-> "tup", x |-> 0, str |-> << >>, kinds |-> << >>]}
             \cup {[fam |-> "str", x |-> i, str |-> Extra[i], kinds |-> << >>] : i \in 1..Len(Extra)}
  /\ StartOn(0)
AddChar(c) ==
  /\ gen.fam = "str" /\ gen.x = 0 /\ Len(gen.str) < MaxLen
  /\ gen' = [gen EXCEPT !.str = Append(@, c)]
  /\ UNCHANGED mvars
AddField(k) ==
  /\ gen.fam = "tup" /\ Len(gen.kinds) < MaxFields
  /\ gen' = [gen EXCEPT !.kinds = Append(@, k)]
  /\ UNCHANGED mvars
GenNext == (\E c \in AlphabetSet : AddChar(c)) \/ (\E k \in KindSet : AddField(k))

(* C08, checked in every state of the generator (Deviations = {}) *)
HelpersOneWord         == gen.fam = "str" => OneWordHelper(gen.str)
OneWord                == gen.fam = "str" => OneWordIn(gen.str)
EveryScalarOnceInOrder == gen.fam = "tup" => ScalarsOnceInOrder(CaseTuple(gen.kinds))

(* ---- emission for replay ------------------------------------------------ *)
RECURSIVE Cat(_)
Cat(s) == IF s = << >> THEN "" ELSE Head(s) \o Cat(Tail(s))
(* strings of the exhaustive families travel as JSON strings; strings of the *)
(* seeded family contain multi-letter atoms and travel as arrays of atoms    *)
TxJ(x, s) == IF x THEN s ELSE Cat(s)
CmdsJ(x, cs) == [i \in 1..Len(cs) |-> [j \in 1..Len(cs[i]) |-> TxJ(x, cs[i][j])]]
RECURSIVE ValJ(_, _)
ValJ(x, v) ==
  CASE v.k = "str"   -> [t |-> "str", s |-> TxJ(x, v.s)]
    [] v.k = "int"   -> [t |-> "int", i |-> Cat(v.s)]
    [] v.k = "float" -> [t |-> "float", r |-> Cat(v.s)]
    [] v.k = "bool"  -> [t |-> "bool", b |-> (v.s = << "t", "r", "u", "e" >>)]
    [] v.k = "null"  -> [t |-> "null"]
    [] v.k = "list"  -> [t |-> "list", es |-> [j \in 1..Len(v.es) |-> ValJ(x, v.es[j])]]
    [] v.k = "tuple" -> [t |-> "tuple", fs |-> [j \in 1..Len(v.fs) |->
                           [nm |-> Cat(v.fs[j].nm), val |-> ValJ(x, v.fs[j].v)]]]

(* what the code is predicted to produce with the deviations of D on, where  *)
(* that differs from the design (for keying known findings)                  *)
DevSets == << {"EnvStopsAtSkipped"}, {"EnvListNoNewline"}, {"EnvStopsAtSkipped", "EnvListNoNewline"} >>
DevNames == << << "EnvStopsAtSkipped" >>, << "EnvListNoNewline" >>,
               << "EnvStopsAtSkipped", "EnvListNoNewline" >> >>
EnvAlts(t) ==
  LET differs == { i \in 1..Len(DevSets) : EnvOutD(t, DevSets[i]) # EnvOutD(t, {}) }
      Alt(i) == LET r == Parse(EnvOutD(t, DevSets[i]))
                IN [devs |-> DevNames[i], pred |-> CmdsJ(FALSE, r.cmds),
                    clean |-> (r.complete /\ r.exp = 0)]
  IN [i \in 1..Len(DevSets) |-> IF i \in differs THEN Alt(i)
                                 ELSE [devs |-> << >>, pred |-> << >>, clean |-> TRUE]]

SetDashDash == << "s", "e", "t", SP, "-", "-", SP >>
RawJ(s) ==          \* `set -- ` + the string itself as shell text: validates the shell machine against sh
  LET r == Parse(SetDashDash \o s)
  IN [clean |-> (r.complete /\ r.exp = 0), exp |-> r.exp, complete |-> r.complete,
      pred |-> CmdsJ(FALSE, r.cmds)]

CaseJ ==
  IF gen.fam = "str"
    THEN LET x == gen.x > 0
             s == gen.str
         IN [fam |-> "str", x |-> gen.x, s |-> TxJ(x, s),
             env   |-> [val |-> ValJ(x, EnvCase(s)),   pred |-> CmdsJ(x, EnvExpected(EnvCase(s)))],
             flags |-> [val |-> ValJ(x, FlagsCase(s)), pred |-> CmdsJ(x, FlagsExpected(FlagsCase(s)))],
             exec  |-> [val |-> ValJ(x, ExecCase(s)),  pred |-> CmdsJ(x, ExecExpected(ExecCase(s)))],
             raw   |-> IF x THEN [clean |-> FALSE, exp |-> 0, complete |-> FALSE, pred |-> << >>]
                       ELSE RawJ(s)]
    ELSE LET t == CaseTuple(gen.kinds)
         IN [fam |-> "tup", kinds |-> gen.kinds,
             env   |-> [val |-> ValJ(FALSE, t), pred |-> CmdsJ(FALSE, EnvExpected(t)), alts |-> EnvAlts(t)],
             flags |-> [val |-> ValJ(FALSE, t), pred |-> CmdsJ(FALSE, FlagsExpected(t))],
             exec  |-> [val |-> ValJ(FALSE, ExecTupCase(t)),
                        pred |-> CmdsJ(FALSE, ExecExpected(ExecTupCase(t)))]]
Emit == PrintT(<< "REPLAY", ToJson(CaseJ) >>)

(* ---- Shell_machine.cfg: the stepwise machine equals Parse --------------- *)
RECURSIVE Strs(_)
Strs(n) == IF n = 0 THEN { << >> }
           ELSE LET p == Strs(n - 1)
                IN p \cup { Append(s, c) : s \in { q \in p : Len(q) = n - 1 }, c \in AlphabetSet }
ConverterTexts == UNION { { EnvOut(EnvCase(s)), FlagsOut(FlagsCase(s)), ExecOut(ExecCase(s)) }
                          : s \in Strs(MachineLen) }
RawTexts == { SetDashDash \o s : s \in Strs(MachineRaw) }
             \cup { << "~", "a", SP, "a", "=", "~", SP, "{", "a", "}", SP, "a", "#", SP, "#", "a", NL,
                       "a", ";", "a", SP, DQ, BS, NL, BS, "a", DQ, BS >> }
MachineTexts == SetToSeq(ConverterTexts \cup RawTexts)
MachineNTexts == Len(MachineTexts)
MachineTextOf(t) == MachineTexts[t]
NoTextOf(t) == << >>
MachineInit == /\ gen = Idle
               /\ \E t \in 1..NTexts : StartOn(t)
MachineEqualsParse == done => MachineResult = Parse(text)
MachineCleanOnConverterTexts == (done /\ text \in ConverterTexts) => (MachineResult.complete /\ expansions = 0)

=============================================================================
