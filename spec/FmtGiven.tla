------------------------------ MODULE FmtGiven ------------------------------
(* Canon of spec/Fmt.tla applied to GIVEN programs (one JSON object {"prog":   *)
(* [stmt...]} per line of the file named by the environment variable          *)
(* C05_GIVEN): the programs of the C01 generator families, converted by the   *)
(* driver to the AST shape of Fmt.tla.  For each, the canonical text by the   *)
(* design, by the code-faithful printer (recorded deviations on), and the     *)
(* deviations that make them differ or the text unreadable.                   *)
EXTENDS Fmt, IOUtils

Given == ndJsonDeserialize(IOEnv.C05_GIVEN)
NGiven == Len(Given)

GivenInit == blk = 0 /\ idx = 0 /\ m = 0
GivenNext == /\ \/ blk = 0 /\ blk' \in 1..Blocks /\ idx' = 0
                \/ blk > 0 /\ idx = 0 /\ idx' \in { i \in 1..NGiven : i % Blocks = blk % Blocks } /\ blk' = blk
             /\ UNCHANGED m

GivenEmit == idx > 0 =>
  LET p == Given[idx].prog
      design == Canon(p, {})
      code == Canon(p, KnownDevs)
      hit == { d \in KnownDevs : Canon(p, {d}) # design \/ ~RelexesP(p, {d}) }
  IN PrintT(<< "REPLAY", ToJson([part |-> "given", n |-> idx, design |-> design, code |-> code,
                                 readable |-> RelexesP(p, {}), devs |-> SetToSeq(hit)]) >>)
=============================================================================
