\* The recorded deviations switched on: TLC must REFUTE ConvAgrees (demonstrates at
\* model level that the recorded defects break the property).
CONSTANTS
  MaxDepth = 3
  MaxKids = 2
  MaxNodes = 3
  MaxRare = 1
  CoreFeat = {"n:e1", "tf:bare", "t:plain"}
  RareFeat = {"bad:nameless", "root:str", "t:cr", "av:tab", "ns:damp", "t:ctrl", "enc:utf16"}
  Deviations = {"nameless-node-skipped", "root-text-node-written", "text-cr-unescaped", "attr-tab-unescaped",
                "ns-uri-unescaped", "ns-redeclaration-dropped", "forbidden-char-written-raw",
                "encoding-label-not-honoured"}
INIT Init
NEXT Next
CHECK_DEADLOCK FALSE
INVARIANTS XmlDocTotal ErrorIffMalformed ConvAgrees
