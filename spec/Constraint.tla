---------------------------- MODULE Constraint ----------------------------
(* C06.  A `::` constraint on a let binding admits exactly the conforming  *)
(* values.                                                                 *)
(*                                                                         *)
(*   Conforms(con, v)  the rule, written from the property statement and   *)
(*                     docsite/.../reference/typechecking.md;              *)
(*   Builds(prog, D)   what the code does with the program                 *)
(*                       [constraint n = C;] let v :: C|n = V;             *)
(*                     the static checker (typecheck/mod.rs visit_statement,*)
(*                     derive_shape, ast/mod.rs Shape::narrow_cached, the  *)
(*                     parser's unwrapping of a single shape arm) followed *)
(*                     by the VM (translate.rs Let/Constraint statements,  *)
(*                     vm.rs op_build_constraint / op_check_constraint,    *)
(*                     ir.rs ConstraintVal::check, Val::equal);            *)
(*   a generator machine whose behaviours are the (constraint, value       *)
(*   expression) pairs of the bounded grammar.                             *)
(*                                                                         *)
(* D is a set of named deviations: places where the code is known to leave *)
(* the design.  The design (D = {}) must satisfy the property; the replay  *)
(* prediction is also computed with every deviation on (CodeDevs).         *)
EXTENDS Integers, Sequences, FiniteSets, TLC, Json

CONSTANTS Deviations,  \* deviations switched on for the checked invariant ({} = the design)
          Family,      \* slice of the domain: "ex2" "ex3" "range" "alt" "rec"
          Tier         \* "quick" | "thorough" (bounds of the slice)

(* ======================================================================= *)
(* Values (also the literal part of the AST: ast::Value incl. Symbol)      *)
(* one payload field per kind: b bool, i int, h float in halves, s string  *)
(* ======================================================================= *)
Null     == [t |-> "null"]
B(x)     == [t |-> "bool", b |-> x]
I(x)     == [t |-> "int", i |-> x]
F(x)     == [t |-> "float", h |-> x]        \* the float x/2
S(x)     == [t |-> "str", s |-> x]
L(x)     == [t |-> "list", es |-> x]
T(x)     == [t |-> "tuple", fs |-> x]       \* Seq([nm, val]), ordered
Sym(n)   == [t |-> "sym", nm |-> n]         \* ast::Value::Symbol
Fld(n, v) == [nm |-> n, val |-> v]
K(arms)  == [t |-> "con", arms |-> arms]    \* run-time ir::ConstraintVal
PrimT    == {"bool", "int", "float", "str"}

SeqRange(q) == {q[j] : j \in 1..Len(q)}

(* structural equality, tag-guarded (never `=` on values) *)
RECURSIVE VEq(_, _)
VEq(a, b) ==
  /\ a.t = b.t
  /\ CASE a.t = "null"  -> TRUE
       [] a.t = "bool"  -> a.b = b.b
       [] a.t = "int"   -> a.i = b.i
       [] a.t = "float" -> a.h = b.h
       [] a.t = "str"   -> a.s = b.s
       [] a.t = "list"  -> /\ Len(a.es) = Len(b.es)
                           /\ \A j \in 1..Len(a.es) : VEq(a.es[j], b.es[j])
       [] a.t = "tuple" -> /\ Len(a.fs) = Len(b.fs)
                           /\ \A j \in 1..Len(a.fs) : /\ a.fs[j].nm = b.fs[j].nm
                                                      /\ VEq(a.fs[j].val, b.fs[j].val)

(* ======================================================================= *)
(* Constraints (abstract): a sequence of arms                              *)
(*   [a |-> "shape", x |-> value]                                          *)
(*   [a |-> "range", ty |-> "int"|"float", lo |-> Seq(n), hi |-> Seq(n)]   *)
(* (optional bounds are 0/1-element sequences; float bounds in halves).    *)
(* One shape arm alone is an EXEMPLAR (the grammar of typechecking.md: an  *)
(* alternation needs `|`); everything else is a range / alternation.       *)
(* ======================================================================= *)
ShapeArm(x)         == [a |-> "shape", x |-> x]
RangeArm(ty, lo, hi) == [a |-> "range", ty |-> ty, lo |-> lo, hi |-> hi]
IsExemplar(con)     == Len(con) = 1 /\ con[1].a = "shape"

(* ======================================================================= *)
(* THE RULE (property statement + typechecking.md)                         *)
(* ======================================================================= *)
FieldNames(v) == {v.fs[j].nm : j \in 1..Len(v.fs)}
FieldOf(v, n) == v.fs[CHOOSE j \in 1..Len(v.fs) : v.fs[j].nm = n].val

(* "an exemplar admits values of the same shape (same primitive type;      *)
(*  tuples agreeing on the types of the fields they share with one field   *)
(*  set contained in the other; lists where every element type of one side *)
(*  is admitted by the other)"; "NULL values are compatible with any       *)
(*  constraint (they represent any type)".                                 *)
RECURSIVE SameShape(_, _)
SameShape(x, v) ==
  IF v.t = "null" THEN TRUE
  ELSE IF x.t \in PrimT THEN v.t = x.t
  ELSE IF x.t = "tuple" THEN
    /\ v.t = "tuple"
    /\ FieldNames(x) \subseteq FieldNames(v) \/ FieldNames(v) \subseteq FieldNames(x)
    /\ \A n \in FieldNames(x) \cap FieldNames(v) : SameShape(FieldOf(x, n), FieldOf(v, n))
  ELSE \* list
    /\ v.t = "list"
    /\ \/ \A j \in 1..Len(v.es) : \E m \in 1..Len(x.es) : SameShape(x.es[m], v.es[j])
       \/ \A m \in 1..Len(x.es) : \E j \in 1..Len(v.es) : SameShape(x.es[m], v.es[j])

(* "a range admits numbers of the bound's type between the inclusive bounds" *)
Num(v) == IF v.t = "int" THEN v.i ELSE v.h
InRange(arm, v) ==
  /\ v.t = arm.ty
  /\ \A lo \in SeqRange(arm.lo) : lo <= Num(v)
  /\ \A hi \in SeqRange(arm.hi) : Num(v) <= hi

(* "an alternation admits a value equal to one of its alternatives or      *)
(*  inside one of its ranges"                                              *)
Conforms(con, v) ==
  IF IsExemplar(con) THEN SameShape(con[1].x, v)
  ELSE \E j \in 1..Len(con) :
         IF con[j].a = "range" THEN InRange(con[j], v) ELSE VEq(v, con[j].x)

(* Left open (DESIGN §5/C06): NULL against a range or alternation — the    *)
(* statement rejects it, the reference admits it.  Masked.                 *)
DontCare(con, v) == v.t = "null" /\ ~IsExemplar(con)

(* ======================================================================= *)
(* THE CODE, part 1: shapes and narrowing (ast/mod.rs:526-950)             *)
(* ======================================================================= *)
ShPrim(k)   == [k |-> k]                    \* Boolean Int Float Str
ShAny       == [k |-> "any"]                \* Narrowed(Any): NULL
ShErr       == [k |-> "err"]                \* TypeErr
ShList(ts)  == [k |-> "list", ts |-> ts]    \* List(Narrowed(ts))
ShTuple(f)  == [k |-> "tuple", sfs |-> f]   \* Seq([nm, sh])
ShAlts(ts)  == [k |-> "alts", ts |-> ts]    \* Narrowed(Narrowed(ts)): candidates
ShRef(n)    == [k |-> "cref", nm |-> n]     \* ConstraintRef
IsErr(s)    == s.k = "err"
(* Hole (an unbound symbol) does not occur: every name of a generated      *)
(* program is bound before use.  `seen` is a memo table of a pure function *)
(* in the Hole-free fragment and is modelled by plain recursion.           *)

RECURSIVE Narrow(_, _, _), TupleSubset(_, _, _), ListSubset(_, _, _)
Narrow(l, r, st) ==                         \* self = l, right = r; match arms in source order
  IF l.k = "err" THEN l
  ELSE IF r.k = "err" THEN r
  ELSE IF l.k = "cref" /\ r.k = "cref" /\ l.nm = r.nm THEN l
  ELSE IF l.k = "cref" \/ r.k = "cref" THEN
    LET cref  == IF l.k = "cref" THEN l ELSE r
        other == IF l.k = "cref" THEN r ELSE l
    IN IF cref.nm \notin DOMAIN st THEN ShErr                 \* Unknown constraint
       ELSE LET ex == st[cref.nm]
            IN IF ex.k = "cref" /\ ex.nm = cref.nm THEN other \* cycle: compatible
               ELSE Narrow(other, ex, st)
  ELSE IF l.k \in PrimT /\ l.k = r.k THEN l
  ELSE IF l.k = "any" THEN r
  ELSE IF r.k = "any" THEN l
  ELSE IF l.k = "alts" /\ Len(l.ts) = 0 THEN r
  ELSE IF r.k = "alts" /\ Len(r.ts) = 0 THEN l
  ELSE IF l.k = "alts" THEN
    (IF \E j \in 1..Len(l.ts) : ~IsErr(Narrow(l.ts[j], r, st)) THEN r ELSE ShErr)
  ELSE IF r.k = "alts" THEN
    (IF \E j \in 1..Len(r.ts) : ~IsErr(Narrow(l, r.ts[j], st)) THEN l ELSE ShErr)
  ELSE IF l.k = "list" /\ r.k = "list" THEN                   \* narrow_list_shapes_cached
    (IF ListSubset(l.ts, r.ts, st) THEN l
     ELSE IF ListSubset(r.ts, l.ts, st) THEN r ELSE ShErr)
  ELSE IF l.k = "tuple" /\ r.k = "tuple" THEN                 \* narrow_tuple_shapes_cached
    (IF TupleSubset(l.sfs, r.sfs, st) THEN l
     ELSE IF TupleSubset(r.sfs, l.sfs, st) THEN r ELSE ShErr)
  ELSE ShErr                                                  \* Expected .. but got ..

(* is_tuple_subset_cached: every field of xs has a same-named, compatible field in ys *)
TupleSubset(xs, ys, st) ==
  \A j \in 1..Len(xs) : \E m \in 1..Len(ys) :
     ys[m].nm = xs[j].nm /\ ~IsErr(Narrow(xs[j].sh, ys[m].sh, st))

(* is_list_subset_cached: every element type of xs narrows against some element type of ys *)
ListSubset(xs, ys, st) ==
  \A j \in 1..Len(xs) : \E m \in 1..Len(ys) : ~IsErr(Narrow(xs[j], ys[m], st))

(* ======================================================================= *)
(* THE CODE, part 2: derive_shape (typecheck/mod.rs)                       *)
(* ======================================================================= *)
(* program-level expressions                                               *)
(*   [e |-> "val", val |-> value]              Expression::Simple          *)
(*   [e |-> "add", l |-> expr, r |-> expr]     Binary Add                  *)
(*   [e |-> "copy", sel |-> name, flds |-> Seq(Fld)]                       *)
(* program-level constraint arms                                           *)
(*   [a |-> "shape", x |-> value]                                          *)
(*   [a |-> "brange", lob |-> Seq(value), hib |-> Seq(value)]              *)
(* statements                                                              *)
(*   [s |-> "let", nm, pc |-> Seq(arm) (<<>> = unconstrained), x |-> expr] *)
(*   [s |-> "constraint", nm, pc |-> Seq(arm)]                             *)
EVal(v)          == [e |-> "val", val |-> v]
EAdd(l, r)       == [e |-> "add", l |-> l, r |-> r]
ECopy(n, flds)   == [e |-> "copy", sel |-> n, flds |-> flds]
BRange(lob, hib) == [a |-> "brange", lob |-> lob, hib |-> hib]
SLet(n, pc, x)   == [s |-> "let", nm |-> n, pc |-> pc, x |-> x]
SCon(n, pc)      == [s |-> "constraint", nm |-> n, pc |-> pc]

(* the two recorded deviations of the code from the design *)
DevConcat == "concat-shape-by-narrow"   \* shape of `l + r` on lists is narrow(l, r), which keeps one side only
DevCopy   == "copy-override-keeps-base-field" \* shape of t{f = x} keeps the base's f next to the override
CodeDevs  == {DevConcat, DevCopy}

RECURSIVE ShapeOfValue(_, _)
ShapeOfValue(v, st) ==
  CASE v.t = "null"  -> ShAny
    [] v.t \in PrimT -> ShPrim(v.t)
    [] v.t = "sym"   -> IF v.nm \in DOMAIN st THEN st[v.nm]
                        ELSE Assert(FALSE, <<"unbound symbol (Hole) outside the modelled domain", v.nm>>)
    [] v.t = "list"  -> ShList([j \in 1..Len(v.es) |-> ShapeOfValue(v.es[j], st)])
    [] v.t = "tuple" -> ShTuple([j \in 1..Len(v.fs) |->
                                   [nm |-> v.fs[j].nm, sh |-> ShapeOfValue(v.fs[j].val, st)]])

(* design of a copy: an override replaces the base's field in place, new fields are appended *)
RECURSIVE MergeShapes(_, _)
MergeShapes(base, new) ==
  IF Len(new) = 0 THEN base
  ELSE LET f == Head(new)
           b == IF \E j \in 1..Len(base) : base[j].nm = f.nm
                  THEN [j \in 1..Len(base) |-> IF base[j].nm = f.nm THEN f ELSE base[j]]
                  ELSE Append(base, f)
       IN MergeShapes(b, Tail(new))

ShapeOfExpr(x, st, D) ==
  CASE x.e = "val"  -> ShapeOfValue(x.val, st)
    [] x.e = "add"  ->
         LET ls == ShapeOfValue(x.l.val, st)
             rs == ShapeOfValue(x.r.val, st)
         IN IF DevConcat \notin D /\ ls.k = "list" /\ rs.k = "list"
              THEN ShList(ls.ts \o rs.ts)                 \* the design: the elements of both
              ELSE Narrow(ls, rs, st)                     \* typecheck/mod.rs:632
    [] x.e = "copy" ->                                    \* derive_copy_shape, Shape::Tuple base
         LET base == st[x.sel]
             new  == [j \in 1..Len(x.flds) |->
                        [nm |-> x.flds[j].nm, sh |-> ShapeOfValue(x.flds[j].val, st)]]
         IN IF DevCopy \in D THEN ShTuple(base.sfs \o new)   \* base_fields.val.extend(..)
            ELSE ShTuple(MergeShapes(base.sfs, new))

(* Expression::Constraint (typecheck/mod.rs:675-711) after the parser      *)
(* (parse/mod.rs:336-368): a lone shape arm is no Constraint at all.       *)
BoundShape(arm, st) ==
  LET b == IF Len(arm.lob) > 0 THEN arm.lob[1] ELSE arm.hib[1]
      s == ShapeOfValue(b, st)
  IN IF s.k \in {"int", "float"} THEN s ELSE ShErr
DeriveCon(pc, st) ==
  IF Len(pc) = 1 /\ pc[1].a = "shape" THEN ShapeOfValue(pc[1].x, st)
  ELSE LET shapes == [j \in 1..Len(pc) |->
                        IF pc[j].a = "brange" THEN BoundShape(pc[j], st)
                        ELSE ShapeOfValue(pc[j].x, st)]
       IN IF \E j \in 1..Len(pc) : pc[j].a = "brange" /\ IsErr(shapes[j]) THEN ShErr
          ELSE IF Len(shapes) = 1 THEN shapes[1] ELSE ShAlts(shapes)

(* validate_recursive_constraint (typecheck/mod.rs:1213-1288) *)
RECURSIVE ContainsRef(_, _), BadRef(_, _, _)
ContainsRef(n, sh) ==
  CASE sh.k = "cref"  -> sh.nm = n
    [] sh.k = "tuple" -> \E j \in 1..Len(sh.sfs) : ContainsRef(n, sh.sfs[j].sh)
    [] sh.k \in {"list", "alts"} -> \E j \in 1..Len(sh.ts) : ContainsRef(n, sh.ts[j])
    [] OTHER -> FALSE
BadRef(n, sh, guarded) ==
  CASE sh.k = "cref"  -> sh.nm = n /\ ~guarded
    [] sh.k = "tuple" -> \E j \in 1..Len(sh.sfs) : BadRef(n, sh.sfs[j].sh, guarded)
    [] sh.k = "list"  -> \E j \in 1..Len(sh.ts) : BadRef(n, sh.ts[j], TRUE)
    [] sh.k = "alts"  -> LET base == \E j \in 1..Len(sh.ts) : ~ContainsRef(n, sh.ts[j])
                         IN \E j \in 1..Len(sh.ts) : BadRef(n, sh.ts[j], guarded \/ base)
    [] OTHER -> FALSE

(* Checker::visit_statement over the statement list; TRUE iff err_stack stays empty *)
RECURSIVE CheckFrom(_, _, _, _)
CheckFrom(prog, j, st, D) ==
  IF j > Len(prog) THEN TRUE
  ELSE LET s == prog[j] IN
    IF s.s = "let" THEN
      LET sh0 == ShapeOfExpr(s.x, st, D)
          sh  == IF Len(s.pc) = 0 THEN sh0
                 ELSE Narrow(sh0, DeriveCon(s.pc, st), st)    \* shape.narrow(&constraint_shape)
      IN IF IsErr(sh) THEN FALSE
         ELSE CheckFrom(prog, j + 1, (s.nm :> sh) @@ st, D)
    ELSE \* constraint statement: pre-seed with a ConstraintRef, derive, validate, bind
      LET st1 == (s.nm :> ShRef(s.nm)) @@ st
          sh  == DeriveCon(s.pc, st1)
      IN IF IsErr(sh) \/ BadRef(s.nm, sh, FALSE) THEN FALSE
         ELSE CheckFrom(prog, j + 1, (s.nm :> sh) @@ st1, D)

(* ======================================================================= *)
(* THE CODE, part 3: the VM                                                *)
(* ======================================================================= *)
RECURSIVE EvalValue(_, _)
EvalValue(v, env) ==
  CASE v.t = "sym"   -> env[v.nm]
    [] v.t = "list"  -> L([j \in 1..Len(v.es) |-> EvalValue(v.es[j], env)])
    [] v.t = "tuple" -> T([j \in 1..Len(v.fs) |-> Fld(v.fs[j].nm, EvalValue(v.fs[j].val, env))])
    [] OTHER -> v

(* Op::Cp on a tuple: overrides replace in place (same type, or NULL on    *)
(* either side), new fields are appended in order                          *)
RECURSIVE MergeFields(_, _)
MergeFields(base, new) ==
  IF Len(new) = 0 THEN base
  ELSE LET f == Head(new)
           b == IF \E j \in 1..Len(base) : base[j].nm = f.nm
                  THEN [j \in 1..Len(base) |-> IF base[j].nm = f.nm THEN f ELSE base[j]]
                  ELSE Append(base, f)
       IN MergeFields(b, Tail(new))

EvalExpr(x, env) ==
  CASE x.e = "val"  -> EvalValue(x.val, env)
    [] x.e = "add"  ->
         LET l == EvalValue(x.l.val, env)
             r == EvalValue(x.r.val, env)
         IN (CASE l.t = "int"   /\ r.t = "int"   -> I(l.i + r.i)
              [] l.t = "float" /\ r.t = "float" -> F(l.h + r.h)
              [] l.t = "str"   /\ r.t = "str"   -> S(l.s \o r.s)
              [] l.t = "list"  /\ r.t = "list"  -> L(l.es \o r.es))
    [] x.e = "copy" -> T(MergeFields(env[x.sel].fs,
                          [j \in 1..Len(x.flds) |-> Fld(x.flds[j].nm, EvalValue(x.flds[j].val, env))]))

(* op_build_constraint: run-time arms                                      *)
(*   [a |-> "krange", ty, lo, hi]   [a |-> "exact", val]                   *)
KRange(arm, env) ==
  LET lo == [j \in 1..Len(arm.lob) |-> EvalValue(arm.lob[j], env)]
      hi == [j \in 1..Len(arm.hib) |-> EvalValue(arm.hib[j], env)]
      b  == IF Len(lo) > 0 THEN lo[1] ELSE hi[1]
      ok == /\ b.t \in {"int", "float"}
            /\ \A j \in 1..Len(lo) : lo[j].t = b.t
            /\ \A j \in 1..Len(hi) : hi[j].t = b.t
  IN IF ok THEN [a |-> "krange", ty |-> b.t, lo |-> [j \in 1..Len(lo) |-> Num(lo[j])],
                 hi |-> [j \in 1..Len(hi) |-> Num(hi[j])]]
     ELSE Assert(FALSE, "mixed or non-numeric range bounds are outside the modelled domain")

EvalCon(pc, env) ==
  IF Len(pc) = 1 /\ pc[1].a = "shape" THEN EvalValue(pc[1].x, env)   \* an ordinary expression
  ELSE K([j \in 1..Len(pc) |->
            IF pc[j].a = "brange" THEN KRange(pc[j], env)
            ELSE [a |-> "exact", val |-> EvalValue(pc[j].x, env)]])

(* ir.rs Val::equal: "t" | "f" | "e" (Err), with the `?` propagation order *)
RECURSIVE IrEqual(_, _), IrListEq(_, _, _), IrTupEq(_, _, _)
IrEqual(a, b) ==
  IF a.t = "null" /\ b.t = "null" THEN "t"
  ELSE IF a.t = "int" /\ b.t = "int" THEN (IF a.i = b.i THEN "t" ELSE "f")
  ELSE IF a.t = "float" /\ b.t = "float" THEN (IF a.h = b.h THEN "t" ELSE "f")
  ELSE IF a.t = "bool" /\ b.t = "bool" THEN (IF a.b = b.b THEN "t" ELSE "f")
  ELSE IF a.t = "str" /\ b.t = "str" THEN (IF a.s = b.s THEN "t" ELSE "f")
  ELSE IF a.t = "list" /\ b.t = "list" THEN
    (IF Len(a.es) # Len(b.es) THEN "f" ELSE IrListEq(a.es, b.es, 1))
  ELSE IF a.t = "tuple" /\ b.t = "tuple" THEN
    (IF Len(a.fs) # Len(b.fs) THEN "f" ELSE IrTupEq(a.fs, b.fs, 1))
  ELSE IF a.t = "null" \/ b.t = "null" THEN "f"
  ELSE "e"            \* (constraint values are never bound by `let` in the domain)
IrListEq(xs, ys, j) ==
  IF j > Len(xs) THEN "t"
  ELSE LET r == IrEqual(xs[j], ys[j]) IN IF r = "t" THEN IrListEq(xs, ys, j + 1) ELSE r
IrTupEq(xs, ys, j) ==
  IF j > Len(xs) THEN "t"
  ELSE IF xs[j].nm # ys[j].nm THEN "f"
  ELSE LET r == IrEqual(xs[j].val, ys[j].val) IN IF r = "t" THEN IrTupEq(xs, ys, j + 1) ELSE r

(* Val::contains_empty_constraint / ConstraintVal::contains_self_ref *)
RECURSIVE HasEmptyCon(_)
HasEmptyCon(v) ==
  CASE v.t = "con"   -> Len(v.arms) = 0
    [] v.t = "list"  -> \E j \in 1..Len(v.es) : HasEmptyCon(v.es[j])
    [] v.t = "tuple" -> \E j \in 1..Len(v.fs) : HasEmptyCon(v.fs[j].val)
    [] OTHER -> FALSE
SelfRef(cv) == \E j \in 1..Len(cv.arms) : cv.arms[j].a = "exact" /\ HasEmptyCon(cv.arms[j].val)

(* ConstraintVal::check (ir.rs:44-67) *)
KCheck(cv, val) ==
  IF Len(cv.arms) = 0 THEN TRUE
  ELSE \E j \in 1..Len(cv.arms) :
    LET arm == cv.arms[j] IN
    IF arm.a = "krange"
      THEN /\ val.t = arm.ty
           /\ \A lo \in SeqRange(arm.lo) : Num(val) >= lo
           /\ \A hi \in SeqRange(arm.hi) : Num(val) <= hi
      ELSE IrEqual(val, arm.val) = "t"                       \* .unwrap_or(false)

(* op_check_constraint (vm.rs:806-841) *)
CheckConstraint(cv, val) ==
  IF cv.t # "con" THEN TRUE            \* a non-constraint in constraint position: no run-time check
  ELSE IF SelfRef(cv) THEN TRUE        \* recursive constraints are left to the checker
  ELSE KCheck(cv, val)

(* translate.rs:104-127: Let = Sym, value, [constraint, CheckConstraint], Bind;     *)
(* Constraint = Sym, BuildConstraint([]), Bind, Sym, value, BindOver                *)
RECURSIVE RunFrom(_, _, _)
RunFrom(prog, j, env) ==
  IF j > Len(prog) THEN TRUE
  ELSE LET s == prog[j] IN
    IF s.s = "let" THEN
      LET val == EvalExpr(s.x, env)
      IN IF Len(s.pc) > 0 /\ ~CheckConstraint(EvalCon(s.pc, env), val) THEN FALSE
         ELSE RunFrom(prog, j + 1, (s.nm :> val) @@ env)
    ELSE LET env1 == (s.nm :> K(<< >>)) @@ env
         IN RunFrom(prog, j + 1, (s.nm :> EvalCon(s.pc, env1)) @@ env1)

NoBindings == [x \in {} |-> Null]
(* FileBuilder::build: parse, check, translate, run *)
Builds(prog, D) == CheckFrom(prog, 1, NoBindings, D) /\ RunFrom(prog, 1, NoBindings)

(* ======================================================================= *)
(* Programs: the three spellings, the value forms                          *)
(* ======================================================================= *)
(* value forms (what is written right of `=`):                             *)
(*   [f |-> "lit",  val]           the literal                             *)
(*   [f |-> "name", val]           let w = <literal>; ... = w              *)
(*   [f |-> "add",  l, r]          <l> + <r>   (ints, floats, strings, lists) *)
(*   [f |-> "copy", base, flds]    let t = <base>; ... = t{flds}           *)
FLit(v)        == [f |-> "lit", val |-> v]
FName(v)       == [f |-> "name", val |-> v]
FAdd(l, r)     == [f |-> "add", l |-> l, r |-> r]
FCopy(b, flds) == [f |-> "copy", base |-> b, flds |-> flds]

FormPrelude(vf) ==
  CASE vf.f = "name" -> << SLet("w", << >>, EVal(vf.val)) >>
    [] vf.f = "copy" -> << SLet("t", << >>, EVal(vf.base)) >>
    [] OTHER -> << >>
FormExpr(vf) ==
  CASE vf.f = "lit"  -> EVal(vf.val)
    [] vf.f = "name" -> EVal(Sym("w"))
    [] vf.f = "add"  -> EAdd(EVal(vf.l), EVal(vf.r))
    [] vf.f = "copy" -> ECopy("t", vf.flds)
(* the value the expression denotes (reference semantics of + and copy) *)
FormValue(vf) ==
  CASE vf.f \in {"lit", "name"} -> vf.val
    [] vf.f = "add" -> EvalExpr(EAdd(EVal(vf.l), EVal(vf.r)), NoBindings)
    [] vf.f = "copy" -> T(MergeFields(vf.base.fs, vf.flds))

BoundLit(ty, n) == IF ty = "int" THEN I(n) ELSE F(n)
XName(j)  == "x" \o ToString(j)
LoName(j) == "lo" \o ToString(j)
HiName(j) == "hi" \o ToString(j)
(* inline: the arms as written *)
PCInline(con) ==
  [j \in 1..Len(con) |->
     IF con[j].a = "shape" THEN ShapeArm(con[j].x)
     ELSE BRange([m \in 1..Len(con[j].lo) |-> BoundLit(con[j].ty, con[j].lo[m])],
                 [m \in 1..Len(con[j].hi) |-> BoundLit(con[j].ty, con[j].hi[m])])]
(* let-bound: every exemplar / alternative / bound behind a let-bound name *)
PCLet(con) ==
  [j \in 1..Len(con) |->
     IF con[j].a = "shape" THEN ShapeArm(Sym(XName(j)))
     ELSE BRange([m \in 1..Len(con[j].lo) |-> Sym(LoName(j))],
                 [m \in 1..Len(con[j].hi) |-> Sym(HiName(j))])]
RECURSIVE LetPrelude(_, _)
LetPrelude(con, j) ==
  IF j > Len(con) THEN << >>
  ELSE (IF con[j].a = "shape" THEN << SLet(XName(j), << >>, EVal(con[j].x)) >>
        ELSE [m \in 1..Len(con[j].lo) |-> SLet(LoName(j), << >>, EVal(BoundLit(con[j].ty, con[j].lo[m])))]
             \o [m \in 1..Len(con[j].hi) |-> SLet(HiName(j), << >>, EVal(BoundLit(con[j].ty, con[j].hi[m])))])
       \o LetPrelude(con, j + 1)

Spellings == << "inline", "named", "let" >>
Prog(con, vf, sp) ==
  LET pre == CASE sp = "inline" -> << >>
               [] sp = "named"  -> << SCon("n", PCInline(con)) >>
               [] sp = "let"    -> LetPrelude(con, 1)
      pc  == CASE sp = "inline" -> PCInline(con)
               [] sp = "named"  -> << ShapeArm(Sym("n")) >>
               [] sp = "let"    -> PCLet(con)
  IN pre \o FormPrelude(vf) \o << SLet("v", pc, FormExpr(vf)) >>

(* ======================================================================= *)
(* The bounded grammar                                                     *)
(* ======================================================================= *)
Thorough == Tier = "thorough"

(* all tuples over the field names `names` (in this order), any subset of  *)
(* fields present, each field from `pool`                                  *)
RECURSIVE TupleFieldSeqs(_, _)
TupleFieldSeqs(names, pool) ==
  IF Len(names) = 0 THEN { << >> }
  ELSE LET rest == TupleFieldSeqs(Tail(names), pool)
       IN rest \cup { << Fld(Head(names), v) >> \o r : v \in pool, r \in rest }
Tuples(names, pool) == { T(fs) : fs \in TupleFieldSeqs(names, pool) }
RECURSIVE SeqsUpTo(_, _)
SeqsUpTo(n, pool) ==
  IF n = 0 THEN { << >> }
  ELSE LET shorter == SeqsUpTo(n - 1, pool)
       IN shorter \cup { Append(q, v) : q \in shorter, v \in pool }
Lists(n, pool) == { L(es) : es \in SeqsUpTo(n, pool) }

(* ---- exemplar families ------------------------------------------------- *)
ExInt == I(7)   ExFloat == F(1)   ExStr == S("a")   ExBool == B(TRUE)
VInt  == I(3)   VFloat  == F(5)   VStr  == S("b")   VBool  == B(FALSE)
ExPrimsAll == {ExInt, ExFloat, ExStr, ExBool}
VPrimsAll  == {VInt, VFloat, VStr, VBool, Null}

(* ex2: depth 2, three field names, lists up to 2 (thorough 3) *)
Ex2Names   == << "a", "b", "c" >>
Ex2TupEx   == Tuples(Ex2Names, IF Thorough THEN ExPrimsAll ELSE {ExInt, ExStr})
Ex2TupVal  == Tuples(Ex2Names, IF Thorough THEN VPrimsAll ELSE {VInt, VStr, VBool, Null})
Ex2LstEx   == Lists(IF Thorough THEN 3 ELSE 2, ExPrimsAll)
Ex2LstVal  == Lists(IF Thorough THEN 3 ELSE 2, VPrimsAll)
(* values of the other types shown to every exemplar *)
CrossVals  == VPrimsAll \cup { T(<< >>), T(<< Fld("a", VInt) >>), T(<< Fld("a", VStr), Fld("b", VInt) >>),
                               L(<< >>), L(<< VInt >>), L(<< VStr, VInt >>) }

(* ex3: depth 3, narrow *)
Ex3Names   == << "a", "b" >>
Ex3PrimsEx == IF Thorough THEN {ExInt, ExStr, ExBool} ELSE {ExInt, ExStr}
Ex3PrimsV  == {VInt, VStr}
Ex3Len     == 1
Ex3MidEx   == Ex3PrimsEx \cup Tuples(Ex3Names, Ex3PrimsEx) \cup Lists(Ex3Len, Ex3PrimsEx)
Ex3MidVal  == IF Thorough THEN Ex3PrimsV \cup Tuples(Ex3Names, Ex3PrimsV) \cup Lists(Ex3Len, Ex3PrimsV)
              ELSE { VInt, VStr, T(<< >>), T(<< Fld("a", VInt) >>), T(<< Fld("a", VStr) >>),
                     T(<< Fld("a", VInt), Fld("b", VInt) >>), T(<< Fld("b", VStr) >>),
                     L(<< >>), L(<< VInt >>), L(<< VStr >>) }
Ex3TupEx   == Tuples(Ex3Names, Ex3MidEx)
Ex3TupVal  == Tuples(Ex3Names, Ex3MidVal)
Ex3LstEx   == Lists(Ex3Len, Ex3MidEx)
Ex3LstVal  == Lists(Ex3Len, Ex3MidVal \cup {Null})

(* ---- forms of a value --------------------------------------------------- *)
AddForms(v) ==
  CASE v.t = "int"   -> { IF v.i >= 1 THEN FAdd(I(v.i - 1), I(1)) ELSE FAdd(I(0), I(0)) }
    [] v.t = "float" -> { IF v.h >= 1 THEN FAdd(F(v.h - 1), F(1)) ELSE FAdd(F(0), F(0)) }
    [] v.t = "str"   -> { FAdd(v, S("")) }
    [] v.t = "list"  ->
         \* every split l + r whose operands the checker accepts for `+` at all: `[1] + [1.0]` is a
         \* type error with or without a constraint (pinned by typecheck/test.rs simple_binary_typefail;
         \* the subject of C07, outside C06)
         { fm \in { FAdd(L(SubSeq(v.es, 1, k)), L(SubSeq(v.es, k + 1, Len(v.es)))) : k \in 0..Len(v.es) } :
             ~IsErr(Narrow(ShapeOfValue(fm.l, NoBindings), ShapeOfValue(fm.r, NoBindings), NoBindings)) }
    [] OTHER -> {}
CopyForms(v) ==
  IF v.t # "tuple" THEN {}
  ELSE { FCopy(T(SubSeq(v.fs, 1, k)), SubSeq(v.fs, k + 1, Len(v.fs))) : k \in 0..(Len(v.fs) - 1) }
       \cup { FCopy(T([j \in 1..Len(v.fs) |-> IF j = m THEN Fld(v.fs[j].nm, Null) ELSE v.fs[j]]),
                    << v.fs[m] >>) : m \in 1..Len(v.fs) }
AllForms(v) == {FLit(v), FName(v)} \cup AddForms(v) \cup CopyForms(v)
FormsOf(vals) == UNION { AllForms(v) : v \in vals }
LitsOf(vals)  == { FLit(v) : v \in vals }

(* ---- range family ------------------------------------------------------- *)
RangeBounds == { << <<2>>, <<4>> >>, << <<3>>, <<3>> >>, << <<4>>, <<2>> >>,
                 << <<2>>, << >> >>, << << >>, <<4>> >> }
FRangeBounds == { << <<3>>, <<7>> >>, << <<5>>, <<5>> >>, << <<7>>, <<3>> >>,
                  << <<3>>, << >> >>, << << >>, <<7>> >> }
RangeArms ==
  { RangeArm("int", b[1], b[2]) : b \in RangeBounds } \cup { RangeArm("int", <<1>>, <<65535>>) }
  \cup { RangeArm("float", b[1], b[2]) : b \in FRangeBounds }
RangeSecond == { ShapeArm(I(9)), ShapeArm(S("z")) }      \* optional second arm (checks the renderer too)
RangeVals ==
  { I(n) : n \in 0..6 } \cup { I(65535), I(65536) } \cup { F(n) : n \in 0..10 }
  \cup { S("z"), S(""), B(TRUE), Null, I(9),
         T(<< Fld("a", I(3)) >>), T(<< Fld("a", I(3)), Fld("b", S("z")) >>), L(<< I(3) >>), L(<< >>) }

(* ---- alternation family -------------------------------------------------- *)
AltArmSeq ==       \* ordered pool; the fourth arm of a quick alternation respects this order
  << ShapeArm(I(1)), ShapeArm(I(5)), ShapeArm(F(3)), ShapeArm(S("a")), ShapeArm(B(TRUE)),
     ShapeArm(T(<< Fld("a", I(1)) >>)), ShapeArm(L(<< I(1), I(2) >>)),
     RangeArm("int", <<2>>, <<4>>), RangeArm("float", <<3>>, <<7>>), RangeArm("int", <<6>>, << >>) >>
  \o (IF Thorough THEN << ShapeArm(I(2)), ShapeArm(S("b")), RangeArm("int", << >>, <<0>>) >> ELSE << >>)
ArmIndex(a) == CHOOSE j \in 1..Len(AltArmSeq) : AltArmSeq[j] = a
AltVals ==
  { I(n) : n \in 0..7 } \cup { F(n) : n \in {2, 3, 5, 7, 8} }
  \cup { S("a"), S("b"), S("c"), B(TRUE), B(FALSE), Null,
         T(<< Fld("a", I(1)) >>), T(<< Fld("a", I(2)) >>), T(<< Fld("a", I(1)), Fld("b", I(2)) >>),
         L(<< I(1), I(2) >>), L(<< I(1) >>), L(<< I(2), I(1) >>), L(<< >>) }
AltForms == LitsOf(AltVals)
            \cup UNION { {FName(v)} \cup AddForms(v) : v \in {I(1), I(3), I(5), F(3), F(5), S("a"), L(<< I(1), I(2) >>)} }
            \cup CopyForms(T(<< Fld("a", I(1)) >>))

(* ---- recursive named constraints (typechecking.md, "Recursive Constraints") -- *)
(* only spelled behind their name n:                                       *)
(*   constraint n = "" | {name = "", kids = [n]};     the xml_node pattern *)
(*   constraint n = "" | {next = n};                  self-reference as an arm with a base case *)
(*   constraint n = {kid = n};                        unconstructible: "rejected"               *)
RecXml  == << ShapeArm(S("")), ShapeArm(T(<< Fld("name", S("")), Fld("kids", L(<< Sym("n") >>)) >>)) >>
RecNext == << ShapeArm(S("")), ShapeArm(T(<< Fld("next", Sym("n")) >>)) >>
RecBad  == << ShapeArm(T(<< Fld("kid", Sym("n")) >>)) >>
RecCons == { RecXml, RecNext, RecBad }
Node(nm, kids) == T(<< Fld("name", nm), Fld("kids", L(kids)) >>)
Nxt(v)  == T(<< Fld("next", v) >>)
RecLeaves == { S("x"), I(4), Node(S("p"), << >>), Node(I(1), << >>), T(<< Fld("name", S("q")) >>),
               T(<< Fld("kids", L(<< >>)) >>), Node(S("p"), << S("y") >>), Node(S("p"), << I(4) >>) }
RecVals == RecLeaves \cup { Node(S("r"), << k >>) : k \in RecLeaves }
           \cup { Node(S("r"), << k1, k2 >>) : k1 \in {S("x"), Node(S("p"), << >>)}, k2 \in RecLeaves }
           \cup { B(TRUE), L(<< S("x") >>), Null, T(<< >>),
                  Nxt(S("x")), Nxt(I(4)), Nxt(Nxt(S("y"))), Nxt(Nxt(I(4))), Nxt(Null), T(<< Fld("kid", S("x")) >>) }
(* reference: each arm is an exemplar, the self-reference stands for "a    *)
(* value of this constraint"; the whole shape is checked statically; a     *)
(* constraint without a base case is an error whatever the value           *)
RECURSIVE RecConforms(_, _), RecSame(_, _, _)
RecConforms(c, v) == v.t = "null" \/ \E j \in 1..Len(c) : RecSame(c, c[j].x, v)
RecSame(c, x, v) ==
  IF x.t = "sym" THEN RecConforms(c, v)
  ELSE IF v.t = "null" THEN TRUE
  ELSE IF x.t \in PrimT THEN v.t = x.t
  ELSE IF x.t = "tuple" THEN
    /\ v.t = "tuple"
    /\ FieldNames(x) \subseteq FieldNames(v) \/ FieldNames(v) \subseteq FieldNames(x)
    /\ \A n \in FieldNames(x) \cap FieldNames(v) : RecSame(c, FieldOf(x, n), FieldOf(v, n))
  ELSE /\ v.t = "list"
       /\ \/ \A j \in 1..Len(v.es) : \E m \in 1..Len(x.es) : RecSame(c, x.es[m], v.es[j])
          \/ \A m \in 1..Len(x.es) : \E j \in 1..Len(v.es) : RecSame(c, x.es[m], v.es[j])
RecOracle(c, v) == IF c = RecBad THEN FALSE ELSE RecConforms(c, v)

(* ======================================================================= *)
(* Generator machine                                                       *)
(* ======================================================================= *)
VARIABLES con,     \* the constraint built so far (sequence of arms)
          stage,   \* "arms" | "done"
          vf       \* the value form chosen for the finished constraint
vars == << con, stage, vf >>

NoForm == [f |-> "none"]
Init == con = << >> /\ stage = "arms" /\ vf = NoForm

FirstArms ==
  CASE Family = "ex2"   -> { ShapeArm(x) : x \in ExPrimsAll \cup Ex2TupEx \cup Ex2LstEx }
    [] Family = "ex3"   -> { ShapeArm(x) : x \in Ex3TupEx \cup Ex3LstEx }
    [] Family = "range" -> RangeArms
    [] Family = "alt"   -> SeqRange(AltArmSeq)
    [] Family = "rec"   -> { c[1] : c \in RecCons }

NextArms ==
  IF Len(con) = 0 THEN FirstArms
  ELSE CASE Family = "range" -> IF Len(con) = 1 THEN RangeSecond ELSE {}
         [] Family = "alt"   ->
              IF Len(con) >= 4 THEN {}
              ELSE { a \in SeqRange(AltArmSeq) :
                       /\ \A j \in 1..Len(con) : con[j] # a
                       /\ (Len(con) = 3 /\ Thorough) =>      \* thorough: every 4-arm order over the first 10 arms
                            /\ ArmIndex(a) <= 10 /\ \A j \in 1..3 : ArmIndex(con[j]) <= 10
                       /\ (Len(con) = 3 /\ ~Thorough) =>     \* quick: 4-arm alternations in pool order only
                            /\ ArmIndex(con[1]) < ArmIndex(con[2]) /\ ArmIndex(con[2]) < ArmIndex(con[3])
                            /\ ArmIndex(con[3]) < ArmIndex(a) }
         [] Family = "rec"   -> { c[Len(con) + 1] : c \in { d \in RecCons : Len(d) > Len(con) /\ SubSeq(d, 1, Len(con)) = con } }
         [] OTHER -> {}

AddArm(a) ==
  /\ stage = "arms"                 \* a ranges over NextArms (see Next)
  /\ con' = Append(con, a)
  /\ UNCHANGED << stage, vf >>

(* the value forms shown to a finished constraint *)
ValueForms ==
  CASE Family = "ex2" ->
         LET x == con[1].x IN
         IF x.t = "tuple" THEN FormsOf(Ex2TupVal) \cup LitsOf(CrossVals)
         ELSE IF x.t = "list" THEN FormsOf(Ex2LstVal) \cup LitsOf(CrossVals)
         ELSE FormsOf(VPrimsAll) \cup LitsOf(CrossVals)
    [] Family = "ex3" ->
         LET x == con[1].x IN
         IF x.t = "tuple" THEN LitsOf(Ex3TupVal) \cup LitsOf({VInt, L(<< >>)})
         ELSE LitsOf(Ex3LstVal) \cup LitsOf({VStr, T(<< >>)})
    [] Family = "range" -> FormsOf(RangeVals)
    [] Family = "alt"   -> AltForms
    [] Family = "rec"   -> LitsOf(RecVals) \cup { FName(v) : v \in RecLeaves }

Complete == IF Family = "rec" THEN con \in RecCons ELSE Len(con) >= 1

PickValue(f) ==
  /\ stage = "arms" /\ Complete     \* f ranges over ValueForms (see Next)
  /\ vf' = f /\ stage' = "done"
  /\ UNCHANGED con

Next == \/ stage = "arms" /\ \E a \in NextArms : AddArm(a)
        \/ stage = "arms" /\ Complete /\ \E f \in ValueForms : PickValue(f)
Spec == Init /\ [][Next]_vars

(* ======================================================================= *)
(* Checked                                                                 *)
(* ======================================================================= *)
Done      == stage = "done"
Val       == FormValue(vf)
SpellSet  == IF Family = "rec" THEN {"named"} ELSE SeqRange(Spellings)
Oracle    == IF Family = "rec" THEN RecOracle(con, Val) ELSE Conforms(con, Val)
Masked    == Family # "rec" /\ DontCare(con, Val)
Admit(sp, D) == Builds(Prog(con, vf, sp), D)

(* C06 proper: under the design the binding builds iff the value conforms, in every spelling *)
AdmitEqualsConforms ==
  (Done /\ ~Masked) => \A sp \in SpellSet : Admit(sp, Deviations) = Oracle

(* a named constraint (and a let-bound exemplar) behaves exactly like the inline one — also where masked *)
NamedAsInline ==
  (Done /\ Family # "rec") => \A sp \in SpellSet : Admit(sp, Deviations) = Admit("inline", Deviations)

(* emission for replay: the abstract pair, the oracle, and what the code is predicted to do *)
DevKey ==
  LET bad(D) == \E sp \in SpellSet : Admit(sp, D) # Oracle
  IN IF ~bad(CodeDevs) THEN ""
     ELSE IF bad({DevConcat}) /\ ~bad({DevCopy}) THEN DevConcat
     ELSE IF bad({DevCopy}) /\ ~bad({DevConcat}) THEN DevCopy
     ELSE "combined"
Case ==
  [fam |-> Family, con |-> con, vf |-> vf, val |-> Val,
   conforms |-> Oracle, mask |-> Masked,
   code |-> [j \in 1..Len(Spellings) |->
               IF Spellings[j] \in SpellSet THEN Admit(Spellings[j], CodeDevs) ELSE Oracle],
   dev |-> IF Masked THEN "" ELSE DevKey,
   progs |-> IF Family \in {"range", "rec"}
               THEN [j \in 1..Len(Spellings) |->
                       IF Spellings[j] \in SpellSet THEN Prog(con, vf, Spellings[j]) ELSE << >>]
               ELSE << >>]
Emit == Done => PrintT(<< "REPLAY", ToJson(Case) >>)

=============================================================================
