CONSTANTS
  Deviations <- DevLock
  NF = 2
  Bodies <- Bodies16_2x2
  Layouts <- LayFlat2
  Cmds <- CmdBuild
  Cwds <- Cwd0
  Orders <- OrdersFull2
  Pres <- PreNone
  Repeat = 2
  EmitOn = FALSE
INIT Init
NEXT Next
CHECK_DEADLOCK FALSE
INVARIANTS ResolveRelToFile EvalOnce EvalOrder SameValue CycleIsDiagnostic VerdictIffAsserts ExitIffFail EachAssertOnce OneArtifact SecondOutIsError AllOrNothing BatchEqualsSolo
