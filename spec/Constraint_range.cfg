CONSTANTS Deviations = {} Family = "range" Tier = "quick"
INIT Init
NEXT Next
CHECK_DEADLOCK FALSE
INVARIANTS AdmitEqualsConforms NamedAsInline Emit
