CONSTANTS
  NDocs = 2
  ImpChoices <- Imp3
  DiskChoices <- AllDisks
  MinMsgs = 4
  MaxMsgs = 4
  MaxPending = 2
  MaxOutbox = 2
  MaxChanges = 2
  ViewDepth = 2
  Deviations <- NoDev
  EmitMode = "none"
INIT Init
NEXT Next
VIEW View
CHECK_DEADLOCK FALSE
INVARIANTS TypeOK Alive EveryRequestAnsweredOnceInOrder PublishAfterSync CloseClears CurrentTextOnly CurrentTextOnlyState
PROPERTIES HandleMeetsDue
