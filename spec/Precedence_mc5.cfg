CONSTANTS Lvl <- DefaultLvl MaxOps = 5 MaxDepth = 1 Reps <- AllOps MaxTotal = 5
INIT Init
NEXT Next
CHECK_DEADLOCK FALSE
INVARIANTS AlgEqualsRef RefKeepsOrder Emit
