------------------------------ MODULE DataModel ------------------------------
(* C03 / C15.  The data model of ucg's JSON / YAML / TOML converters and     *)
(* importers.                                                                *)
(*                                                                           *)
(*  - a generator machine whose behaviours are exactly the value trees of    *)
(*    the bounded domain (leaves are CLASSES, refined to concrete members    *)
(*    by the driver, DESIGN 3.6);                                            *)
(*  - the reference: Representable / Denote / Expect say which document(s)   *)
(*    a value denotes in a format, or that it denotes none (C03 as stated);  *)
(*    FromDoc says which value an included document denotes (C15);           *)
(*  - Conv: the converters of src/convert/{json,yaml,yamlmulti,toml}.rs      *)
(*    transcribed at the level of documents, arm by arm, with the recorded   *)
(*    defects as NAMED DEVIATIONS;                                           *)
(*  - Include: the include hook of src/build/opcode/runtime.rs:161-228 at    *)
(*    the level of outcomes.                                                 *)
(* Checked: ExpectWellFormed (ToDoc total), ErrorIffUnrepresentable,         *)
(* RoundTrip, ConvAgrees (with Deviations = {}), IncludeAgrees.              *)
(* What the module cannot decide (DESIGN 6): whether a byte string is valid  *)
(* YAML.  That is delegated to independent decoders by the drivers.          *)
EXTENDS Naturals, Sequences, FiniteSets, TLC, Json

CONSTANTS MaxDepth,     \* nesting: 1 = a leaf, 2 = a container of leaves, ...
          MaxKids,      \* children per container
          MaxNodes,     \* nodes (leaves + containers) per tree
          MaxRare,      \* leaves taken from RareLeaves per tree
          CoreLeaves,   \* leaf ids usable without limit
          RareLeaves,   \* leaf ids of which at most MaxRare occur in a tree
          Deviations    \* deviations switched on in the checked design ({})

Formats == << "json", "yaml", "yamlmulti", "toml" >>

(* ---- leaf classes ------------------------------------------------------ *)
(* Integers: zero, small positive / negative (|i| <= 2^53, exact in f64),   *)
(* p53 = within i64 but NOT exactly representable in f64 (2^53+1, ...),      *)
(* max = i64::MAX (not exact in f64), min = i64::MIN (= -2^63, exact).       *)
IntClasses == { "zero", "pos", "neg", "p53", "max", "min" }
F64Exact(ic) == ic \in { "zero", "pos", "neg", "min" }

(* Floats: 0.0, simple dyadics (1.5), negative dyadics (-2.25), large        *)
(* integral-valued (1e20), tiny / non-dyadic (2^-30, 0.1), and the three     *)
(* non-finite values.                                                        *)
FloatClasses == { "fzero", "f15", "fm225", "f1e20", "f2m30", "inf", "ninf", "nan" }
Finite(fc) == fc \notin { "inf", "ninf", "nan" }

(* Strings: empty, plain word, boolean-like ('true'), number-like ('1'),    *)
(* null-like ('~'), structure-like ('a: b'), multi-line, ending in a blank   *)
(* line, quotes/backslashes, control characters, non-ASCII, and spellings    *)
(* of floats beyond the f64 range ('1e400').                                 *)
StrClasses == { "empty", "plain", "true", "one", "tilde", "colon", "multi", "blankend",
                "quotes", "ctrl", "uni", "ovf" }

KeyClasses == << "ident", "quote", "numeric", "uni" >>

LeafTable ==
  [ null     |-> [t |-> "null"],
    true     |-> [t |-> "bool", b |-> TRUE],
    false    |-> [t |-> "bool", b |-> FALSE],
    i_zero   |-> [t |-> "int", ic |-> "zero"],
    i_pos    |-> [t |-> "int", ic |-> "pos"],
    i_neg    |-> [t |-> "int", ic |-> "neg"],
    i_p53    |-> [t |-> "int", ic |-> "p53"],
    i_max    |-> [t |-> "int", ic |-> "max"],
    i_min    |-> [t |-> "int", ic |-> "min"],
    f_fzero  |-> [t |-> "float", fc |-> "fzero"],
    f_f15    |-> [t |-> "float", fc |-> "f15"],
    f_fm225  |-> [t |-> "float", fc |-> "fm225"],
    f_f1e20  |-> [t |-> "float", fc |-> "f1e20"],
    f_f2m30  |-> [t |-> "float", fc |-> "f2m30"],
    f_inf    |-> [t |-> "float", fc |-> "inf"],
    f_ninf   |-> [t |-> "float", fc |-> "ninf"],
    f_nan    |-> [t |-> "float", fc |-> "nan"],
    s_empty  |-> [t |-> "str", sc |-> "empty"],
    s_plain  |-> [t |-> "str", sc |-> "plain"],
    s_true   |-> [t |-> "str", sc |-> "true"],
    s_one    |-> [t |-> "str", sc |-> "one"],
    s_tilde  |-> [t |-> "str", sc |-> "tilde"],
    s_colon  |-> [t |-> "str", sc |-> "colon"],
    s_multi  |-> [t |-> "str", sc |-> "multi"],
    s_blankend |-> [t |-> "str", sc |-> "blankend"],
    s_quotes |-> [t |-> "str", sc |-> "quotes"],
    s_ctrl   |-> [t |-> "str", sc |-> "ctrl"],
    s_uni    |-> [t |-> "str", sc |-> "uni"],
    s_ovf    |-> [t |-> "str", sc |-> "ovf"],
    elist    |-> [t |-> "list", es |-> << >>],
    etuple   |-> [t |-> "tuple", fs |-> << >>],
    con      |-> [t |-> "constraint"] ]

AllLeafIds == DOMAIN LeafTable

ASSUME /\ CoreLeaves \subseteq AllLeafIds /\ RareLeaves \subseteq AllLeafIds
       /\ CoreLeaves \cap RareLeaves = {}

(* ---- predicates on values ---------------------------------------------- *)
RECURSIVE HasNull(_), HasConstraint(_), HasNonFinite(_)
HasNull(v) ==
  CASE v.t = "null"  -> TRUE
    [] v.t = "list"  -> \E j \in 1..Len(v.es) : HasNull(v.es[j])
    [] v.t = "tuple" -> \E j \in 1..Len(v.fs) : HasNull(v.fs[j].val)
    [] OTHER -> FALSE
HasConstraint(v) ==
  CASE v.t = "constraint" -> TRUE
    [] v.t = "list"  -> \E j \in 1..Len(v.es) : HasConstraint(v.es[j])
    [] v.t = "tuple" -> \E j \in 1..Len(v.fs) : HasConstraint(v.fs[j].val)
    [] OTHER -> FALSE
HasNonFinite(v) ==
  CASE v.t = "float" -> ~Finite(v.fc)
    [] v.t = "list"  -> \E j \in 1..Len(v.es) : HasNonFinite(v.es[j])
    [] v.t = "tuple" -> \E j \in 1..Len(v.fs) : HasNonFinite(v.fs[j].val)
    [] OTHER -> FALSE

(* ---- documents --------------------------------------------------------- *)
(* [d|->"null"] [d|->"bool",b] [d|->"num",lex,nc,at,via] [d|->"str",sc,at,via] *)
(* [d|->"arr",xs] [d|->"obj",ms: Seq([kc,at,dv])] (a key SET: DocEq ignores   *)
(* member order) [d|->"error",why].  `at` is the path (1-based child        *)
(* indexes) of the value leaf / field the item stands for: the driver        *)
(* refines classes to concrete members per path, so value and predicted      *)
(* document are refined by the same map.  `via` names an alteration a        *)
(* deviation applies to the exact item ("exact" = none).                     *)
Err(why) == [d |-> "error", why |-> why]
IsErr(x) == x.d = "error"

(* ---- the reference (C03 as stated) ------------------------------------- *)
(* A value is representable unless it contains a constraint value, a NULL   *)
(* (TOML), a non-finite float (JSON), or is not a table at top level (TOML). *)
Representable(f, v) ==
  /\ ~HasConstraint(v)
  /\ (f = "json") => ~HasNonFinite(v)
  /\ (f = "toml") => (~HasNull(v) /\ v.t = "tuple")

(* YAML and TOML have spellings for inf/nan: the statement lists non-finite *)
(* floats among the values to reject; either reading is accepted (DESIGN     *)
(* 5/C03 don't-care).                                                        *)
Lenient(f, v) == f # "json" /\ HasNonFinite(v)

RECURSIVE Denote(_, _)
Denote(v, p) ==
  CASE v.t = "null"  -> [d |-> "null"]
    [] v.t = "bool"  -> [d |-> "bool", b |-> v.b]
    [] v.t = "int"   -> [d |-> "num", lex |-> "int", nc |-> v.ic, at |-> p, via |-> "exact"]
    [] v.t = "float" -> [d |-> "num", lex |-> "float", nc |-> v.fc, at |-> p, via |-> "exact"]
    [] v.t = "str"   -> [d |-> "str", sc |-> v.sc, at |-> p, via |-> "exact"]
    [] v.t = "list"  -> [d |-> "arr", xs |-> [j \in 1..Len(v.es) |-> Denote(v.es[j], Append(p, j))]]
    [] v.t = "tuple" -> [d |-> "obj", ms |-> [j \in 1..Len(v.fs) |->
                           [kc |-> v.fs[j].kc, at |-> Append(p, j),
                            dv |-> Denote(v.fs[j].val, Append(p, j))]]]
    [] OTHER -> Err("no document")

(* yamlmulti: a list denotes one document per element, anything else one.   *)
Docs(f, v) ==
  IF f = "yamlmulti" /\ v.t = "list"
    THEN [j \in 1..Len(v.es) |-> Denote(v.es[j], << j >>)]
    ELSE << Denote(v, << >>) >>

FmtOf(f) == IF f = "yamlmulti" THEN "yaml" ELSE f

Outcome(k, docs, len) == [k |-> k, docs |-> docs, lenient |-> len]
Expect(f, v) ==
  IF Representable(FmtOf(f), v) THEN Outcome("docs", Docs(f, v), Lenient(f, v))
  ELSE Outcome("error", << >>, FALSE)

(* ---- equality of documents / outcomes (tag-guarded, never `=`) --------- *)
(* Numbers are equal when they denote the same exact number: the lexical    *)
(* form (1 vs 1.0) is not compared (C03: "numbers of equal numeric value"), *)
(* but an integer sent through f64 is only the same number when its class   *)
(* is exactly representable.                                                 *)
NumEq(a, b) ==
  /\ a.nc = b.nc /\ a.at = b.at
  /\ \/ a.via = b.via
     \/ (a.lex = "int" /\ b.lex = "int" /\ F64Exact(a.nc) /\ {a.via, b.via} \subseteq {"exact", "f64"})

RECURSIVE DocEq(_, _)
DocEq(a, b) ==
  /\ a.d = b.d
  /\ CASE a.d = "null" -> TRUE
       [] a.d = "bool" -> a.b = b.b
       [] a.d = "num"  -> NumEq(a, b)
       [] a.d = "str"  -> a.sc = b.sc /\ a.at = b.at /\ a.via = b.via
       [] a.d = "arr"  -> /\ Len(a.xs) = Len(b.xs)
                          /\ \A j \in 1..Len(a.xs) : DocEq(a.xs[j], b.xs[j])
       [] a.d = "obj"  -> /\ Len(a.ms) = Len(b.ms)
                          /\ \A i \in 1..Len(a.ms) : \E j \in 1..Len(b.ms) :
                               /\ a.ms[i].kc = b.ms[j].kc /\ a.ms[i].at = b.ms[j].at
                               /\ DocEq(a.ms[i].dv, b.ms[j].dv)
       [] OTHER -> TRUE

DocsEq(x, y) == Len(x) = Len(y) /\ \A j \in 1..Len(x) : DocEq(x[j], y[j])

(* does an observed / transcribed outcome c satisfy the expectation e ? *)
Agree(c, e) ==
  IF e.k = "error" THEN c.k = "error"
  ELSE \/ c.k = "docs" /\ DocsEq(c.docs, e.docs)
       \/ e.lenient /\ c.k = "error"

RECURSIVE IsDoc(_)
IsDoc(x) ==
  CASE x.d = "null" -> TRUE
    [] x.d = "bool" -> x.b \in BOOLEAN
    [] x.d = "num"  -> x.nc \in IntClasses \cup FloatClasses /\ x.lex \in {"int", "float"}
    [] x.d = "str"  -> x.sc \in StrClasses
    [] x.d = "arr"  -> \A j \in 1..Len(x.xs) : IsDoc(x.xs[j])
    [] x.d = "obj"  -> /\ \A j \in 1..Len(x.ms) : IsDoc(x.ms[j].dv)
                       /\ \A i, j \in 1..Len(x.ms) : i # j => x.ms[i].kc # x.ms[j].kc
    [] OTHER -> FALSE

(* ---- the value an included document denotes (C15) ---------------------- *)
(* integers stay integers, every other number is a float; TOML has no null. *)
(* FromDocD(D, ..): the importers transcribed (json.rs:103-133, yaml.rs:     *)
(* 125-167, toml.rs:89-113: as_i64 first, else as_f64) with deviations D;    *)
(* `via` on a float leaf names an alteration ("exact" = none).               *)
RECURSIVE FromDocD(_, _, _)
FromDocD(D, f, x) ==
  CASE x.d = "null" -> IF f = "toml" THEN [t |-> "bad"] ELSE [t |-> "null"]
    [] x.d = "bool" -> [t |-> "bool", b |-> x.b]
    [] x.d = "num"  -> IF x.lex = "int" THEN [t |-> "int", ic |-> x.nc, at |-> x.at]
                       ELSE [t |-> "float", fc |-> x.nc, at |-> x.at,
                             via |-> IF f = "json" /\ Finite(x.nc) /\ "include-json-float-not-correctly-rounded" \in D
                                       THEN "fewulps" ELSE "exact"]
    [] x.d = "str"  -> [t |-> "str", sc |-> x.sc, at |-> x.at]
    [] x.d = "arr"  -> [t |-> "list", es |-> [j \in 1..Len(x.xs) |-> FromDocD(D, f, x.xs[j])]]
    [] x.d = "obj"  -> [t |-> "tuple", fs |-> [j \in 1..Len(x.ms) |->
                          [kc |-> x.ms[j].kc, at |-> x.ms[j].at, val |-> FromDocD(D, f, x.ms[j].dv)]]]
    [] OTHER -> [t |-> "bad"]
FromDoc(f, x) == FromDocD({}, f, x)

RECURSIVE VEq(_, _)
ViaOf(a) == IF "via" \in DOMAIN a THEN a.via ELSE "exact"
VEq(a, b) ==      \* key order is a don't-care of C15
  /\ a.t = b.t
  /\ CASE a.t = "bool"  -> a.b = b.b
       [] a.t = "int"   -> a.ic = b.ic
       [] a.t = "float" -> a.fc = b.fc /\ ViaOf(a) = ViaOf(b)
       [] a.t = "str"   -> a.sc = b.sc
       [] a.t = "list"  -> /\ Len(a.es) = Len(b.es)
                           /\ \A j \in 1..Len(a.es) : VEq(a.es[j], b.es[j])
       [] a.t = "tuple" -> /\ Len(a.fs) = Len(b.fs)
                           /\ \A i \in 1..Len(a.fs) : \E j \in 1..Len(b.fs) :
                                a.fs[i].kc = b.fs[j].kc /\ VEq(a.fs[i].val, b.fs[j].val)
       [] a.t = "bad"   -> FALSE
       [] OTHER -> TRUE

(* ---- the converters, transcribed --------------------------------------- *)
(* Named deviations (= keys of known_findings.jsonl).  The design is        *)
(* model-checked with Deviations = {}; Emit predicts with all of them on.    *)
AllDevSeq ==
  << "json-int-via-f64",                    \* json.rs:77  Number::from_f64(i as f64)
     "yamlmulti-no-document-separator",     \* yamlmulti.rs:37-42 documents concatenated
     "yaml-blank-line-after-keep-scalar",   \* yaml.rs:173 writeln after the document
     "yaml-float-overflow-str-unquoted",    \* serde_yaml leaves '1e400' plain
     "toml-top-level-not-table",            \* toml.rs:112-117 no check of the top level
     "toml-table-in-mixed-or-nested-array" >> \* toml 0.5 pretty printer, see TomlMisplacedTable
AllDeviations == { AllDevSeq[i] : i \in 1..Len(AllDevSeq) }

(* convert_value of json.rs:61-101, yaml.rs:57-92, toml.rs:67-87.           *)
(* Lists and tuples convert their items in order and stop at the first      *)
(* failing one (`?`).  Keys are unique in this domain, so "first duplicate  *)
(* wins" (json, toml) vs "last wins" (yaml) is not modelled.                 *)
FirstErr(s) == s[CHOOSE j \in 1..Len(s) : IsErr(s[j]) /\ \A i \in 1..(j - 1) : ~IsErr(s[i])]

RECURSIVE ConvVal(_, _, _, _)
ConvVal(D, f, v, p) ==
  CASE v.t = "bool"  -> [d |-> "bool", b |-> v.b]
    [] v.t = "null"  -> IF f = "toml" THEN Err("Nulls are not allowed in Toml Conversions!")
                        ELSE [d |-> "null"]
    [] v.t = "float" -> IF f = "json" /\ ~Finite(v.fc)
                          THEN Err("Float is too large or Not a Number")   \* Number::from_f64 = None
                          ELSE [d |-> "num", lex |-> "float", nc |-> v.fc, at |-> p, via |-> "exact"]
    [] v.t = "int"   -> IF f = "json" /\ "json-int-via-f64" \in D
                          THEN [d |-> "num", lex |-> "int", nc |-> v.ic, at |-> p, via |-> "f64"]
                          ELSE [d |-> "num", lex |-> "int", nc |-> v.ic, at |-> p, via |-> "exact"]
    [] v.t = "str"   -> IF f = "yaml" /\ v.sc = "ovf" /\ "yaml-float-overflow-str-unquoted" \in D
                          THEN [d |-> "str", sc |-> v.sc, at |-> p, via |-> "asfloat"]
                          ELSE [d |-> "str", sc |-> v.sc, at |-> p, via |-> "exact"]
    [] v.t = "constraint" -> Err("Constraint values cannot be converted")
    [] v.t = "list"  ->
         LET xs == [j \in 1..Len(v.es) |-> ConvVal(D, f, v.es[j], Append(p, j))]
         IN IF \E j \in 1..Len(xs) : IsErr(xs[j]) THEN FirstErr(xs) ELSE [d |-> "arr", xs |-> xs]
    [] v.t = "tuple" ->
         LET ds == [j \in 1..Len(v.fs) |-> ConvVal(D, f, v.fs[j].val, Append(p, j))]
         IN IF \E j \in 1..Len(ds) : IsErr(ds[j]) THEN FirstErr(ds)
            ELSE [d |-> "obj", ms |-> [j \in 1..Len(v.fs) |->
                    [kc |-> v.fs[j].kc, at |-> Append(p, j), dv |-> ds[j]]]]
    [] OTHER -> Err("unknown value")

(* yaml.rs:170-175: serde_yaml::to_writer, then one more newline.  The last *)
(* scalar of the document, when it is a block scalar with `keep` chomping   *)
(* (a string ending in a blank line), absorbs that newline.                  *)
RECURSIVE BumpLast(_)
BumpLast(x) ==
  CASE x.d = "arr" /\ Len(x.xs) > 0 ->
         [x EXCEPT !.xs = [@ EXCEPT ![Len(x.xs)] = BumpLast(@)]]
    [] x.d = "obj" /\ Len(x.ms) > 0 ->
         [x EXCEPT !.ms = [@ EXCEPT ![Len(x.ms)] = [@ EXCEPT !.dv = BumpLast(@)]]]
    [] x.d = "str" /\ x.sc = "blankend" -> [x EXCEPT !.via = "plusnl"]
    [] OTHER -> x

YamlWrite(D, v, p) ==
  LET x == ConvVal(D, "yaml", v, p)
  IN IF IsErr(x) THEN x
     ELSE IF "yaml-blank-line-after-keep-scalar" \in D THEN BumpLast(x) ELSE x

(* toml 0.5 `to_string_pretty` (toml.rs:112-117).  The printer knows tables  *)
(* in two places only: as the value of a key, and as the items of an array   *)
(* that holds nothing but tables and is itself the value of a key (printed   *)
(* as [[key]] sections).  A non-table at top level, and a table inside an    *)
(* array that also holds other items or that is itself an array item, come   *)
(* out as text that is not TOML, as TOML for different data, or as the       *)
(* error "values must be emitted before tables" (all three observed).        *)
RECURSIVE TomlMisplacedTable(_, _)
TomlMisplacedTable(x, asItem) ==
  CASE x.d = "arr" ->
         \/ /\ \E j \in 1..Len(x.xs) : x.xs[j].d = "obj"
            /\ (asItem \/ \E j \in 1..Len(x.xs) : x.xs[j].d # "obj")
         \/ \E j \in 1..Len(x.xs) : TomlMisplacedTable(x.xs[j], TRUE)
    [] x.d = "obj" -> \E j \in 1..Len(x.ms) : TomlMisplacedTable(x.ms[j].dv, FALSE)
    [] OTHER -> FALSE

Conv(D, f, v) ==
  CASE f = "json" ->
         LET x == ConvVal(D, f, v, << >>)
         IN IF IsErr(x) THEN Outcome("error", << >>, FALSE) ELSE Outcome("docs", << x >>, FALSE)
    [] f = "yaml" ->
         LET x == YamlWrite(D, v, << >>)
         IN IF IsErr(x) THEN Outcome("error", << >>, FALSE) ELSE Outcome("docs", << x >>, FALSE)
    [] f = "yamlmulti" ->       \* yamlmulti.rs:37-52
         LET xs == IF v.t = "list" THEN [j \in 1..Len(v.es) |-> YamlWrite(D, v.es[j], << j >>)]
                   ELSE << YamlWrite(D, v, << >>) >>
         IN IF \E j \in 1..Len(xs) : IsErr(xs[j]) THEN Outcome("error", << >>, FALSE)
            ELSE IF Len(xs) >= 2 /\ "yamlmulti-no-document-separator" \in D
                   THEN Outcome("okany", << >>, FALSE)    \* undelimited text: whatever it parses to
                   ELSE Outcome("docs", xs, FALSE)
    [] f = "toml" ->            \* toml.rs:112-117
         LET x == ConvVal(D, f, v, << >>)
         IN IF IsErr(x) THEN Outcome("error", << >>, FALSE)
            ELSE IF x.d # "obj"
                   THEN (IF "toml-top-level-not-table" \in D THEN Outcome("okany", << >>, FALSE)
                         ELSE Outcome("error", << >>, FALSE))
            ELSE IF TomlMisplacedTable(x, FALSE) /\ "toml-table-in-mixed-or-nested-array" \in D
                   THEN Outcome("any", << >>, FALSE)     \* garbage, other data, or a spurious error
                   ELSE Outcome("docs", << x >>, FALSE)

(* ---- the include hook (runtime.rs:161-228) at the level of outcomes ---- *)
IncludeTypes == { "str", "b64", "b64urlsafe", "json", "yaml", "toml" }
IncludeDeviations == { "include-empty-file-yields-null",   \* runtime.rs:205-207
                       "include-b64-needs-utf8",           \* runtime.rs:89-95 read_to_string
                       "include-json-float-not-correctly-rounded" }  \* serde_json without float_roundtrip
ContentKinds == { "doc", "empty", "malformed", "text", "binary", "missing" }

(* What the property says.  content: [c |-> kind, doc |-> document]         *)
(* "malformed" = the format's independent decoder rejects the bytes;         *)
(* "text" = arbitrary valid UTF-8 (only meaningful for str/b64);             *)
(* "binary" = bytes that are not UTF-8.                                      *)
IncOut(k, val) == [k |-> k, val |-> val]
NoVal == [t |-> "none"]
IncludeRef(typ, c) ==
  IF typ \notin IncludeTypes THEN IncOut("error", NoVal)
  ELSE IF c.c = "missing" THEN IncOut("error", NoVal)
  ELSE IF typ = "str" THEN (IF c.c = "binary" THEN IncOut("dontcare", NoVal)   \* no text to keep
                            ELSE IncOut("text", NoVal))
  ELSE IF typ = "b64" THEN IncOut("b64std", NoVal)
  ELSE IF typ = "b64urlsafe" THEN IncOut("b64url", NoVal)
  ELSE CASE c.c = "doc" -> IncOut("value", FromDoc(typ, c.doc))
         [] c.c = "empty" ->      \* what the format itself says about zero bytes
              IF typ = "json" THEN IncOut("error", NoVal)
              ELSE IF typ = "yaml" THEN IncOut("value", [t |-> "null"])
              ELSE IncOut("value", [t |-> "tuple", fs |-> << >>])
         [] c.c \in {"malformed", "binary"} -> IncOut("error", NoVal)
         [] OTHER -> IncOut("decoder", NoVal)   \* arbitrary text: the independent decoder decides

(* What the code does (runtime.rs:196-226), deviations as switches:        *)
(*   str: read the file as a String;                                         *)
(*   other types: importer lookup, read the file AS A STRING, an empty       *)
(*   string short-cuts to NULL, else the importer decides.                   *)
Importer(typ, c) ==
  IF typ = "b64" THEN IncOut("b64std", NoVal)
  ELSE IF typ = "b64urlsafe" THEN IncOut("b64url", NoVal)
  ELSE CASE c.c = "doc" -> IncOut("value", FromDoc(typ, c.doc))
         [] c.c = "empty" -> IF typ = "json" THEN IncOut("error", NoVal)       \* EOF while parsing
                             ELSE IF typ = "yaml" THEN IncOut("value", [t |-> "null"])
                             ELSE IncOut("value", [t |-> "tuple", fs |-> << >>])
         [] c.c \in {"malformed", "binary"} -> IncOut("error", NoVal)
         [] OTHER -> IncOut("decoder", NoVal)

IncludeImpl(D, typ, c) ==
  IF typ = "str"
    THEN CASE c.c = "missing" -> IncOut("error", NoVal)
           [] c.c = "binary"  -> IncOut("dontcare", NoVal)     \* read_to_string fails
           [] OTHER -> IncOut("text", NoVal)
  ELSE IF typ \notin IncludeTypes THEN IncOut("error", NoVal)               \* no importer
  ELSE IF c.c = "missing" THEN IncOut("error", NoVal)                       \* File::open
  ELSE IF c.c = "binary" /\ "include-b64-needs-utf8" \in D
         THEN IncOut("error", NoVal)                                        \* read_to_string
  ELSE IF c.c = "empty" /\ "include-empty-file-yields-null" \in D
         THEN IncOut("value", [t |-> "null"])
  ELSE Importer(typ, c)

IncEq(a, b) ==
  /\ a.k = b.k
  /\ a.k = "value" => VEq(a.val, b.val)

(* ---- generator machine -------------------------------------------------- *)
(* A postfix builder: a stack of open containers, innermost last.  Every    *)
(* value tree of the bounded domain is the result of exactly one behaviour. *)
(* Keys of a tuple are key CLASSES, pairwise distinct: the first is chosen   *)
(* freely, the following ones cyclically.                                    *)
VARIABLES stack, nodes, rare
vars == << stack, nodes, rare >>

Frame(k, pk) == [k |-> k, es |-> << >>, ks |-> << >>, pk |-> pk]
Top == stack[Len(stack)]

Init == stack = << Frame("top", 0) >> /\ nodes = 0 /\ rare = 0

CanAccept(fr) ==
  CASE fr.k = "top"   -> Len(fr.es) = 0
    [] fr.k = "tuple" -> Len(fr.es) < MaxKids /\ Len(fr.es) < Len(KeyClasses)
    [] OTHER          -> Len(fr.es) < MaxKids
KeyChoices(fr) ==
  IF fr.k # "tuple" THEN {0}
  ELSE IF Len(fr.ks) = 0 THEN 1..Len(KeyClasses)
  ELSE {(fr.ks[Len(fr.ks)] % Len(KeyClasses)) + 1}

Put(fr, v, key) == [fr EXCEPT !.es = Append(@, v), !.ks = IF key = 0 THEN @ ELSE Append(@, key)]

PushLeaf(id, key) ==
  /\ CanAccept(Top) /\ nodes < MaxNodes /\ key \in KeyChoices(Top)
  /\ \/ id \in CoreLeaves /\ rare' = rare
     \/ id \in RareLeaves /\ rare < MaxRare /\ rare' = rare + 1
  /\ stack' = [stack EXCEPT ![Len(stack)] = Put(@, LeafTable[id], key)]
  /\ nodes' = nodes + 1

Open(kind, key) ==
  /\ CanAccept(Top) /\ Len(stack) < MaxDepth /\ nodes + 2 <= MaxNodes
  /\ key \in KeyChoices(Top)
  /\ stack' = Append(stack, Frame(kind, key))
  /\ nodes' = nodes + 1 /\ UNCHANGED rare

Built(fr) ==
  IF fr.k = "list" THEN [t |-> "list", es |-> fr.es]
  ELSE [t |-> "tuple", fs |-> [j \in 1..Len(fr.es) |-> [kc |-> KeyClasses[fr.ks[j]], val |-> fr.es[j]]]]

Close ==
  /\ Len(stack) > 1 /\ Len(Top.es) >= 1
  /\ LET n == Len(stack)
     IN stack' = [SubSeq(stack, 1, n - 1) EXCEPT ![n - 1] = Put(@, Built(stack[n]), stack[n].pk)]
  /\ UNCHANGED << nodes, rare >>

Finished == Len(stack) = 1 /\ Len(stack[1].es) = 1
TheValue == stack[1].es[1]

Reset == Finished /\ stack' = << Frame("top", 0) >> /\ nodes' = 0 /\ rare' = 0   \* simulation: next tree

Next ==
  \/ \E id \in CoreLeaves \cup RareLeaves, key \in 0..Len(KeyClasses) : PushLeaf(id, key)
  \/ \E kind \in {"list", "tuple"}, key \in 0..Len(KeyClasses) : Open(kind, key)
  \/ Close
  \/ Reset

Spec == Init /\ [][Next]_vars

(* ---- checked ------------------------------------------------------------ *)
FmtSet == { Formats[j] : j \in 1..Len(Formats) }

(* ToDoc is total: every value has, per format, either well-formed          *)
(* document(s) or ERROR.                                                     *)
ExpectWellFormed == Finished =>
  \A f \in FmtSet : LET e == Expect(f, TheValue)
                    IN \/ e.k = "error" /\ Len(e.docs) = 0
                       \/ e.k = "docs" /\ \A j \in 1..Len(e.docs) : IsDoc(e.docs[j])

(* the structural map fails exactly on the unrepresentable values *)
ErrorIffUnrepresentable == Finished =>
  \A f \in FmtSet : (Expect(f, TheValue).k = "error") <=>
     \/ HasConstraint(TheValue)
     \/ f = "json" /\ HasNonFinite(TheValue)
     \/ f = "toml" /\ (HasNull(TheValue) \/ TheValue.t # "tuple")

(* including what was output gives the value back (model-level sanity) *)
RoundTrip == Finished =>
  \A f \in {"json", "yaml", "toml"} :
     LET e == Expect(f, TheValue)
     IN e.k = "docs" => VEq(FromDoc(f, e.docs[1]), TheValue)

(* C03 for the design: the transcribed converters, without the recorded     *)
(* deviations, produce what the property demands.                            *)
ConvAgrees == Finished =>
  \A f \in FmtSet : Agree(Conv(Deviations, f, TheValue), Expect(f, TheValue))

(* C15 for the design: the importers read every generated document as the   *)
(* value the reference says.                                                 *)
ImportAgrees == Finished =>
  \A f \in {"json", "yaml", "toml"} :
     LET e == Expect(f, TheValue)
     IN e.k = "docs" => VEq(FromDocD(Deviations, f, e.docs[1]), FromDoc(f, e.docs[1]))

(* C15 for the design: the include hook agrees with the property on every   *)
(* include type x content kind (a finite table, checked in the first state). *)
SomeDoc == [d |-> "arr", xs |-> << [d |-> "bool", b |-> TRUE] >>]
Contents == { [c |-> k, doc |-> SomeDoc] : k \in ContentKinds }
IncTypesProbed == IncludeTypes \cup { "xml", "nosuch" }
IncludeAgrees == (nodes = 0) =>
  \A typ \in IncTypesProbed, c \in Contents :
     (c.c = "doc" => typ \in {"json", "yaml", "toml"} \/ typ \notin IncludeTypes) =>
        IncEq(IncludeImpl(Deviations \cap IncludeDeviations, typ, c), IncludeRef(typ, c))

(* ---- emission for replay ------------------------------------------------ *)
(* Per format: the deviations that change the outcome of this value, and     *)
(* for every non-empty subset of them the outcome of an implementation that  *)
(* has exactly that subset (so that a finding stays keyed when another one   *)
(* that applies to the same value has been repaired).                        *)
DevKeySeq(f, v) == SelectSeq(AllDevSeq, LAMBDA dv : ~Agree(Conv({dv}, f, v), Expect(f, v)))
RECURSIVE Pow2(_)
Pow2(n) == IF n = 0 THEN 1 ELSE 2 * Pow2(n - 1)
Bit(m, j) == (m \div Pow2(j - 1)) % 2 = 1
DevEntry(f, v) ==
  LET ks == DevKeySeq(f, v)
      n  == Len(ks)
      Sub(m) == { ks[j] : j \in { i \in 1..n : Bit(m, i) } }
  IN [f |-> f, n |-> n,
      alts |-> [m \in 1..(Pow2(n) - 1) |-> [keys |-> Sub(m), imp |-> Conv(Sub(m), f, v)]]]

EmitC03 == Finished =>
  LET v == TheValue
  IN PrintT(<< "REPLAY", ToJson(
       [value |-> v,
        exp   |-> [j \in 1..Len(Formats) |-> [f |-> Formats[j], out |-> Expect(Formats[j], v)]],
        devs  |-> SelectSeq([j \in 1..Len(Formats) |-> DevEntry(Formats[j], v)],
                            LAMBDA e : e.n > 0)]) >>)

IncFormats == << "json", "yaml", "toml" >>
IncEntry(f, v) ==
  LET e  == Expect(f, v)
      ok == e.k = "docs"
      x  == IF ok THEN e.docs[1] ELSE [d |-> "none"]
      dv == IF ok THEN FromDocD(IncludeDeviations, f, x) ELSE [t |-> "none"]
      rv == IF ok THEN FromDoc(f, x) ELSE [t |-> "none"]
  IN [f |-> f, have |-> ok, doc |-> x, val |-> rv,
      keys |-> IF ok /\ ~VEq(dv, rv)
                 THEN { k \in IncludeDeviations : ~VEq(FromDocD({k}, f, x), rv) } ELSE {},
      devval |-> dv]

EmitC15 == Finished =>
  LET v == TheValue
  IN PrintT(<< "REPLAY", ToJson(
       [value |-> v,
        inc |-> SelectSeq([j \in 1..Len(IncFormats) |-> IncEntry(IncFormats[j], v)],
                          LAMBDA e : e.have)]) >>)

(* the include table, printed once (first state) *)
RuleRow(typ, k) ==
  LET c == [c |-> k, doc |-> SomeDoc]
  IN [typ |-> typ, content |-> k,
      exp |-> IncludeRef(typ, c).k,
      expval |-> IncludeRef(typ, c).val,
      imp |-> IncludeImpl(IncludeDeviations, typ, c).k,
      impval |-> IncludeImpl(IncludeDeviations, typ, c).val,
      keys |-> { D \in IncludeDeviations : ~IncEq(IncludeImpl({D}, typ, c), IncludeRef(typ, c)) }]
EmitRules == (nodes = 0) =>
  \A typ \in IncTypesProbed, k \in ContentKinds \ {"doc"} :
     PrintT(<< "REPLAY", ToJson([rule |-> RuleRow(typ, k)]) >>)

=============================================================================
