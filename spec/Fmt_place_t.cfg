CONSTANTS
  DomSize = 0
  Blocks = 1
  MaxL = 6
  MaxStmts = 4
  MaxCmts = 4
  Spices = {"frag", "glue", "look"}
  Deviations = {}
  KnownDevs = {"BlankCommentPadded", "KeywordSwallowsComment"}
  EmitEvery = 61
  EmitPhase = 0
INIT PlaceInit
NEXT PlaceNext
CHECK_DEADLOCK FALSE
INVARIANTS Deterministic EachOnce InOrder BeforeLaterCode FixedPoint PlaceEmit
