CONSTANTS Deviations = {} MaxLen = 0 MaxFields = 0 Extra <- NoExtra NTexts <- MachineNTexts TextOf <- MachineTextOf MachineLen = 2 MachineRaw = 4
INIT MachineInit
NEXT MachineNext
CHECK_DEADLOCK FALSE
INVARIANTS MachineEqualsParse MachineCleanOnConverterTexts
