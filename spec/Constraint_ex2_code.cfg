\* The code as it is (both recorded deviations on): AdmitEqualsConforms is EXPECTED to be violated.
CONSTANTS Deviations = {"concat-shape-by-narrow", "copy-override-keeps-base-field"} Family = "ex2" Tier = "quick"
INIT Init
NEXT Next
CHECK_DEADLOCK FALSE
INVARIANTS AdmitEqualsConforms NamedAsInline
