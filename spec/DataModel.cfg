\* quick-sized exhaustive configuration (the drivers generate their own cfgs)
CONSTANTS
  MaxDepth = 3
  MaxKids = 3
  MaxNodes = 4
  MaxRare = 1
  CoreLeaves = {"null", "true", "i_pos", "f_f15", "s_plain"}
  RareLeaves = {"false", "i_zero", "i_neg", "i_p53", "i_max", "i_min",
                "f_fzero", "f_fm225", "f_f1e20", "f_f2m30", "f_inf", "f_ninf", "f_nan",
                "s_empty", "s_true", "s_one", "s_tilde", "s_colon", "s_multi", "s_blankend",
                "s_quotes", "s_ctrl", "s_uni", "s_ovf", "elist", "etuple", "con"}
  Deviations = {}
INIT Init
NEXT Next
CHECK_DEADLOCK FALSE
INVARIANTS ExpectWellFormed ErrorIffUnrepresentable RoundTrip ConvAgrees ImportAgrees IncludeAgrees
