CONSTANTS
  NDocs = 2
  ImpChoices <- ImpDev
  DiskChoices <- DisksDev
  MinMsgs = 3
  MaxMsgs = 3
  MaxPending = 1
  MaxOutbox = 1
  MaxChanges = 1
  ViewDepth = 2
  Deviations <- DevU
  EmitMode = "none"
  ReqKinds <- DevKinds
  PosClasses <- DevPos
INIT Init
NEXT Next
CHECK_DEADLOCK FALSE
INVARIANTS TypeOK Alive EveryRequestAnsweredOnceInOrder CloseClears GhostFree CxCurrentTextOnly
