CONSTANTS
  Mode = "toks"
  Rand = FALSE
  MaxToks = 2
  MaxBody = 0
  MaxSep = 0
  SepSet = "six"
  TrailCmt = TRUE
  Stepwise = TRUE
  Deviations = {}
INIT Init
NEXT Next
CHECK_DEADLOCK FALSE
INVARIANTS PosTruth Progress Monotone LongestOp Layout AlgEqualsRef Emit
