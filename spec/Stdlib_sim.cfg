\* C19 simulation: lengths to 12 / 8 / 20, separators 1-3 (run with -simulate num=N -depth 50)
CONSTANTS
  Families = {"list1", "enum", "zip", "slice", "join", "tuple", "str1", "split", "splitat", "substr", "parseint", "maybe", "basetype", "shaped", "anyall"}
  Size = "sim"
  Sim = TRUE
  Deviations = {}
  KnownDevs = {"TailEmptyFails", "ZipLongerRange", "JoinSepSkippedWhileEmpty", "ShapedTupleLastFieldDecides"}
INIT Init
NEXT Next
CHECK_DEADLOCK FALSE
INVARIANTS Laws WellFormed Emit
