CONSTANTS Lvl <- DefaultLvl MaxOps = 3 MaxDepth = 2 Reps <- AllOps MaxTotal = 3
INIT Init
NEXT Next
CHECK_DEADLOCK FALSE
INVARIANTS AlgEqualsRef RefKeepsOrder Emit
