CONSTANTS
  Deviations <- DevAsrt
  NF = 2
  Bodies <- Bodies13_2x3
  Layouts <- LayFlat2
  Cmds <- CmdTest
  Cwds <- Cwd0
  Orders <- Orders2
  Pres <- PreNone
  Repeat = 1
  EmitOn = FALSE
INIT Init
NEXT Next
CHECK_DEADLOCK FALSE
INVARIANTS ResolveRelToFile EvalOnce EvalOrder SameValue CycleIsDiagnostic VerdictIffAsserts ExitIffFail EachAssertOnce OneArtifact SecondOutIsError AllOrNothing BatchEqualsSolo
