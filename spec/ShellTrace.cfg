CONSTANTS Deviations = {} MaxLen = 0 MaxFields = 0 Extra <- NoExtra NTexts <- TraceNTexts TextOf <- TraceTextOf MachineLen = 0 MachineRaw = 0
INIT MachineInit
NEXT MachineNext
CHECK_DEADLOCK FALSE
INVARIANTS Report
