CONSTANTS
  NDocs = 3
  ImpChoices <- Imp4b
  DiskChoices <- AllDisks
  MinMsgs = 5
  MaxMsgs = 5
  MaxPending = 1
  MaxOutbox = 1
  MaxChanges = 2
  ViewDepth = 2
  Deviations <- NoDev
  EmitMode = "none"
INIT Init
NEXT Next
VIEW View
CHECK_DEADLOCK FALSE
INVARIANTS TypeOK Alive EveryRequestAnsweredOnceInOrder PublishAfterSync CloseClears CurrentTextOnly CurrentTextOnlyState
PROPERTIES HandleMeetsDue
