CONSTANTS
  NDocs = 2
  ImpChoices <- Imp2
  DiskChoices <- AllDisks
  MinMsgs = 2
  MaxMsgs = 2
  MaxPending = 2
  MaxOutbox = 2
  MaxChanges = 2
  ViewDepth = 2
  Deviations <- NoDev
  EmitMode = "none"
INIT Init
NEXT Next
CHECK_DEADLOCK FALSE
INVARIANTS TypeOK Alive EveryRequestAnsweredOnceInOrder PublishAfterSync CloseClears CurrentTextOnly CurrentTextOnlyState GhostFree
PROPERTIES HandleMeetsDue
