-------------------------------- MODULE Gen --------------------------------
(* The program domain of C01/C04/C07/C10/C17 as a generator machine: a        *)
(* postfix builder whose behaviours are exactly the programs of the bounded   *)
(* grammar (DESIGN §4.1).  Typing is "by evaluation": every partial term      *)
(* carries the value the REFERENCE semantics (Eval.tla) gives it in the scope *)
(* it is built in (function parameters stand for example values), a join is   *)
(* well-typed iff that value is not an error, and the budget `ill` admits a   *)
(* bounded number of deliberately ill-typed or failing joins.                 *)
(* After Finish the machine runs the compiled program on VM.tla, one step per *)
(* opcode, so that TLC checks the VM's invariants in every reachable state    *)
(* and Agreement at the end.                                                  *)
EXTENDS VM, Json, SequencesExt

CONSTANTS Fam,        \* enabled generator actions (set of strings)
          LitPool,    \* sequence of literal values
          Names,      \* sequence of names for top-level let bindings
          ModNames,   \* sequence of names for bindings inside module bodies (increasing)
          FldNames,   \* sequence of field names
          KeyPool,    \* sequence of key-name sequences for select arms
          SigPool,    \* sequence of parameter lists: sequences of [nm, val] (example values)
          TplPool,    \* sequence of list-form templates (character sequences)
          SinglePool, \* sequence of single-form part lists
          BinOps,     \* set of binary operator names enabled
          CastTys,    \* set of cast types
          TyNames,    \* sequence of type-name strings for `is`
          Prelude,    \* fixed leading statements (definitions the generated part can use)
          ConPool,    \* sequence of constraints (what may follow `::` in a let)
          MaxD, MaxN, MaxStk, MaxStmts, MaxModStmts, MaxCtx, Ill0,
          EnvNames,   \* sequence of environment variable names programs read (set and unset ones)
          RunVM,      \* TRUE: step the VM after Finish (machine mode); FALSE: stop at Finish
          Deviations, \* deviations the model-checked machine runs under ({} = the design)
          KnownDevs   \* recorded deviations of the code (known findings): used for the code-faithful prediction

VARIABLES ctx, prog, ill, phase
gvars == << ctx, prog, ill, phase, vm >>

NGen == Len(prog) - Len(Prelude)                    \* statements generated so far
(* cl ("clean"): no sub-term evaluates to an error in its scope, even where   *)
(* short-circuiting or an untaken arm hides it, and both sides of && / || are  *)
(* boolean - the programs C07 quantifies over (nothing a static checker could  *)
(* legitimately object to)                                                     *)
Worse(a, b) == IF a = "dirty" \/ b = "dirty" THEN "dirty" ELSE IF a = "union" \/ b = "union" THEN "union" ELSE "clean"
Term(x, v, d, n, cl) == [x |-> x, v |-> v, d |-> d, n |-> n, cl |-> cl]
Ctx(kind, scope, base, ps, last) ==
  [kind |-> kind, scope |-> scope, stk |-> << >>, stmts |-> << >>, base |-> base, ps |-> ps, last |-> last,
   cl |-> "clean",  \* worst of the finished statements of this context: clean / union / dirty
   used |-> 0]      \* nodes spent on finished statements / parameters of this (module) context

Cur == ctx[Len(ctx)]
SetCur(c) == ctx' = [ctx EXCEPT ![Len(ctx)] = c]
Stk == Cur.stk
TopT(k) == Stk[Len(Stk) + 1 - k]           \* k = 1: top of the term stack

Lit(v)   == [e |-> "lit", v |-> v]
Sym(n)   == [e |-> "sym", nm |-> n]
Bin(o, l, r) == [e |-> "bin", op |-> o, l |-> l, r |-> r]

MaxOf(s) == IF s = << >> THEN 0 ELSE CHOOSE q \in {s[j] : j \in 1..Len(s)} : \A j \in 1..Len(s) : s[j] <= q
RECURSIVE SumOf(_)
SumOf(s) == IF s = << >> THEN 0 ELSE Head(s) + SumOf(Tail(s))

(* nodes already committed in the enclosing contexts: their terms, one join    *)
(* per term, and one node per open function / module                           *)
OuterCost == SumOf([q \in 1..(Len(ctx) - 1) |->
                      SumOf([j \in 1..Len(ctx[q].stk) |-> ctx[q].stk[j].n]) + Len(ctx[q].stk) + 1
                        + (IF ctx[q].kind = "mod" THEN ctx[q].used ELSE 0)])

(* two values have one shape: the same type, tuples field by field, lists element-wise   *)
(* (an empty list fits any list) - what the checker would give ONE shape, not a union   *)
RECURSIVE SameShape(_, _)
SameShape(a, b) ==
  IF a.t # b.t THEN FALSE
  ELSE IF a.t = "tuple" THEN /\ Len(a.fs) = Len(b.fs)
                             /\ \A j \in 1..Len(a.fs) : a.fs[j].nm = b.fs[j].nm /\ SameShape(a.fs[j].val, b.fs[j].val)
  ELSE IF a.t = "list" THEN \A i \in 1..Len(a.es) : \A j \in 1..Len(b.es) : SameShape(a.es[i], b.es[j])
  ELSE TRUE

(* push a term built from the top k terms; typing by evaluation *)
Join(k, x) ==
  LET c    == Cur
      kids == [j \in 1..k |-> c.stk[Len(c.stk) - k + j]]
      v    == EvalE(x, c.scope, << >>)
      d    == 1 + MaxOf([j \in 1..k |-> kids[j].d])
      n    == 1 + SumOf([j \in 1..k |-> kids[j].n])
      fresh == v.t = "err" /\ \A j \in 1..k : kids[j].v.t # "err"
      cl0 == /\ v.t # "err" /\ \A j \in 1..k : kids[j].cl # "dirty"
             /\ (x.e = "bin" /\ x.op \in {"and", "or"}) => \A j \in 1..k : kids[j].v.t = "bool"
      (* "uniform" selects: string/boolean selector, all arms and the default of one *)
      (* type - a select of mixed types is valid and evaluates, but it is where the   *)
      (* checker's union shapes come from; the flag keys that recorded finding        *)
      uni == x.e = "select" => /\ kids[1].v.t \in {"str", "bool"}
                               /\ \A j \in 2..k : SameShape(kids[j].v, kids[2].v)
      cl == IF ~cl0 THEN "dirty" ELSE IF uni /\ (\A j \in 1..k : kids[j].cl = "clean") THEN "clean" ELSE "union"
      rest == SubSeq(c.stk, 1, Len(c.stk) - k)
      (* every further term on the stack costs at least one more join node *)
      budget == n + SumOf([j \in 1..Len(rest) |-> rest[j].n]) + Len(rest) + OuterCost
                  + (IF c.kind = "mod" THEN c.used ELSE 0)
  IN /\ Len(c.stk) >= k
     /\ c.kind = "top" => NGen < MaxStmts               \* no term after the last statement
     /\ c.kind = "mod" => Len(c.stmts) <= MaxModStmts   \* (a module may still get its out expression)
     /\ Len(c.stk) - k + 1 <= MaxStk
     /\ v.t # "unm" /\ d <= MaxD /\ budget <= MaxN
     /\ fresh => ill > 0
     (* when the last unit of the budget is spent, `ill` remembers (negated) the   *)
     (* top-level statement in which the fault was planted (C17)                   *)
     /\ ill' = IF fresh THEN (IF ill = 1 THEN 0 - (Len(prog) + 1) ELSE ill - 1) ELSE ill
     /\ SetCur([c EXCEPT !.stk = Append(SubSeq(@, 1, Len(@) - k), Term(x, v, d, n, cl))])
     /\ UNCHANGED << prog, phase, vm >>

Building == phase = "gen"
On(a) == a \in Fam

(* ---- leaves --------------------------------------------------------------- *)
PushLit == On("lit") /\ Building /\ \E j \in 1..Len(LitPool) : Join(0, Lit(LitPool[j]))
(* (a name bound by a constraint statement is mentioned after `::` only - MkConLet's pool) *)
PushVar == On("var") /\ Building /\ \E j \in 1..Len(Cur.scope) : Cur.scope[j].val.t # "con" /\ Join(0, Sym(Cur.scope[j].nm))

(* ---- scope probes (C10): names that must NOT be visible ------------------- *)
(* inside a module body: a binding of the enclosing file *)
MkOuterRef == On("outerref") /\ Building /\ Cur.kind = "mod" /\ Len(ctx) >= 2 /\
              \E j \in 1..Len(ctx[Len(ctx) - 1].scope) : Join(0, Sym(ctx[Len(ctx) - 1].scope[j].nm))
(* at top level: a parameter name of some signature, or `item` (they must not leak) *)
ParamNames == UNION {{SigPool[q][z].nm : z \in 1..Len(SigPool[q])} : q \in 1..Len(SigPool)} \cup {N_item}
MkLeakRef == On("leakref") /\ Building /\ Cur.kind = "top" /\
             \E n \in ParamNames : ~Bound(Cur.scope, n) /\ Join(0, Sym(n))
(* inside a function body: a top-level name that is bound only later (or never) *)
MkFwdRef == On("fwdref") /\ Building /\ Cur.kind = "func" /\
            \E j \in 1..Len(Names) : ~Bound(Cur.scope, Names[j]) /\ Join(0, Sym(Names[j]))

(* the process environment (C18): env.NAME for set and unset names *)
MkEnvRead == On("env") /\ Building /\ \E j \in 1..Len(EnvNames) : Join(0, Bin("dot", Sym(N_env), Sym(EnvNames[j])))

(* ---- joins ---------------------------------------------------------------- *)
MkBin == On("bin") /\ Building /\ Len(Stk) >= 2 /\
         \E o \in BinOps : Join(2, Bin(o, TopT(2).x, TopT(1).x))
MkNot == On("not") /\ Building /\ Len(Stk) >= 1 /\ Join(1, [e |-> "not", x |-> TopT(1).x])
MkTrace == On("trace") /\ Building /\ Len(Stk) >= 1 /\ Join(1, [e |-> "trace", x |-> TopT(1).x])
MkFail == On("fail") /\ Building /\ Len(Stk) >= 1 /\ Join(1, [e |-> "fail", x |-> TopT(1).x])
MkCast == On("cast") /\ Building /\ Len(Stk) >= 1 /\
          \E ty \in CastTys : Join(1, [e |-> "cast", ty |-> ty, x |-> TopT(1).x])
MkIs == On("is") /\ Building /\ Len(Stk) >= 1 /\
        \E j \in 1..Len(TyNames) : Join(1, Bin("is", TopT(1).x, Lit(StrV(TyNames[j]))))
(* `name in <tuple>`: the bare-symbol form of the reference *)
MkInName == On("in") /\ Building /\ Len(Stk) >= 1 /\
            \E j \in 1..Len(FldNames) : Join(1, Bin("in", Sym(FldNames[j]), TopT(1).x))
MkList == On("list") /\ Building /\
          \E k \in 0..2 : Len(Stk) >= k /\ Join(k, [e |-> "list", xs |-> [j \in 1..k |-> Stk[Len(Stk) - k + j].x]])
MkTuple == On("tuple") /\ Building /\
           \E k \in 1..2 : Len(Stk) >= k /\ k <= Len(FldNames) /\
              \E off \in 0..(Len(FldNames) - k) :
                 Join(k, [e |-> "tuple",
                          flds |-> [j \in 1..k |-> [nm |-> FldNames[off + j], ex |-> Stk[Len(Stk) - k + j].x]]])
MkDotName == On("dot") /\ Building /\ Len(Stk) >= 1 /\
             \E j \in 1..Len(FldNames) : Join(1, Bin("dot", TopT(1).x, Sym(FldNames[j])))
MkDotIdx == On("dot") /\ Building /\ Len(Stk) >= 1 /\
            \E i \in 0..1 : Join(1, Bin("dot", TopT(1).x, Lit(IntV(i))))
(* `base.f(args)` and `base.t{overrides}`: call / copy through a tuple field *)
MkDotCall == On("dotcall") /\ Building /\
             \E k \in 0..2 : Len(Stk) >= k + 1 /\
                LET b == Stk[Len(Stk) - k]
                IN b.v.t = "tuple" /\
                   \E j \in 1..Len(b.v.fs) :
                      /\ b.v.fs[j].val.t = "func" /\ Len(b.v.fs[j].val.ps) = k
                      /\ Join(k + 1, Bin("dot", b.x, [e |-> "call", fn |-> b.v.fs[j].nm,
                                                      args |-> [q \in 1..k |-> Stk[Len(Stk) - k + q].x]]))
MkDotCopy == On("dotcopy") /\ Building /\
             \E k \in 0..1 : Len(Stk) >= k + 1 /\
                LET b == Stk[Len(Stk) - k]
                IN b.v.t = "tuple" /\
                   \E j \in 1..Len(b.v.fs) : \E off \in 0..(Len(FldNames) - k) :
                      /\ b.v.fs[j].val.t \in {"tuple", "module"}
                      /\ Join(k + 1, Bin("dot", b.x, [e |-> "copy", sel |-> b.v.fs[j].nm,
                                                      flds |-> [q \in 1..k |-> [nm |-> FldNames[off + q],
                                                                               ex |-> Stk[Len(Stk) - k + q].x]]]))
MkRange == On("range") /\ Building /\
           \/ Len(Stk) >= 2 /\ Join(2, [e |-> "range", lo |-> TopT(2).x, step |-> << >>, hi |-> TopT(1).x])
           \/ Len(Stk) >= 3 /\ Join(3, [e |-> "range", lo |-> TopT(3).x, step |-> << TopT(2).x >>, hi |-> TopT(1).x])
(* select: value, k arms, optional default *)
MkSelect == On("select") /\ Building /\
            \E kp \in 1..Len(KeyPool) : \E hd \in BOOLEAN :
               LET k == Len(KeyPool[kp])
                   tot == 1 + k + (IF hd THEN 1 ELSE 0)
               IN Len(Stk) >= tot /\
                  Join(tot, [e |-> "select", x |-> Stk[Len(Stk) - tot + 1].x,
                             dflt |-> IF hd THEN << TopT(1).x >> ELSE << >>,
                             flds |-> [j \in 1..k |-> [nm |-> KeyPool[kp][j], ex |-> Stk[Len(Stk) - tot + 1 + j].x]]])
(* call of a let-bound function *)
MkCall == On("call") /\ Building /\
          \E j \in 1..Len(Cur.scope) :
             LET f == Cur.scope[j].val
             IN f.t = "func" /\ Len(Stk) >= Len(f.ps) /\
                Join(Len(f.ps), [e |-> "call", fn |-> Cur.scope[j].nm,
                                 args |-> [q \in 1..Len(f.ps) |-> Stk[Len(Stk) - Len(f.ps) + q].x]])
(* a call with one argument too few / too many (arity diagnostics) *)
MkBadCall == On("badcall") /\ Building /\
          \E j \in 1..Len(Cur.scope) : \E k \in 0..2 :
             LET f == Cur.scope[j].val
             IN f.t = "func" /\ k # Len(f.ps) /\ Len(Stk) >= k /\
                Join(k, [e |-> "call", fn |-> Cur.scope[j].nm, args |-> [q \in 1..k |-> Stk[Len(Stk) - k + q].x]])
(* copy of a let-bound tuple (or module instantiation); with useSelf each      *)
(* override of an existing field becomes  self.<f> + <term>                    *)
MkCopy == On("copy") /\ Building /\
          \E j \in 1..Len(Cur.scope) : \E k \in 0..2 : \E off \in 0..(Len(FldNames) - k) : \E us \in BOOLEAN :
             LET b == Cur.scope[j].val
                 fx(q) == LET t == Stk[Len(Stk) - k + q].x
                              nm == FldNames[off + q]
                          IN IF us /\ b.t = "tuple" /\ HasField(b.fs, nm)
                               THEN Bin("add", Bin("dot", Sym(N_self), Sym(nm)), t) ELSE t
             (* the base is a tuple or a module - or, as a planted fault with no override, anything else *)
             IN (b.t \in {"tuple", "module"} \/ (ill > 0 /\ k = 0 /\ ~us)) /\ Len(Stk) >= k /\ (us => k > 0 /\ On("self")) /\
                Join(k, [e |-> "copy", sel |-> Cur.scope[j].nm,
                         flds |-> [q \in 1..k |-> [nm |-> FldNames[off + q], ex |-> fx(q)]]])
(* list-form format: arguments = number of placeholders *)
MkFmtList == On("fmt") /\ Building /\
             \E tp \in 1..Len(TplPool) :
                LET k == NumPh(TplParts(TplPool[tp], << >>, FALSE))
                IN k >= 1 /\ Len(Stk) >= k /\         \* the grammar wants at least one argument
                   Join(k, [e |-> "fmt", form |-> "list", tpl |-> TplPool[tp],
                            args |-> [q \in 1..k |-> Stk[Len(Stk) - k + q].x]])
(* placeholder / argument count mismatch: a build failure, never a crash (C04) *)
MkFmtBad == On("fmtbad") /\ Building /\
             \E tp \in 1..Len(TplPool) : \E k \in 1..2 :
                /\ k # NumPh(TplParts(TplPool[tp], << >>, FALSE)) /\ Len(Stk) >= k
                /\ Join(k, [e |-> "fmt", form |-> "list", tpl |-> TplPool[tp],
                            args |-> [q \in 1..k |-> Stk[Len(Stk) - k + q].x]])
MkFmtSingle == On("fmt1") /\ Building /\ Len(Stk) >= 1 /\
               \E sp \in 1..Len(SinglePool) :
                  Join(1, [e |-> "fmt", form |-> "single", parts |-> SinglePool[sp], args |-> << TopT(1).x >>])
(* map / filter / reduce: function term, [accumulator], target *)
MkFop == On("fop") /\ Building /\
         \/ \E kind \in {"map", "filter"} : Len(Stk) >= 2 /\
               Join(2, [e |-> "fop", kind |-> kind, fn |-> TopT(2).x, acc |-> << >>, tgt |-> TopT(1).x])
         \/ Len(Stk) >= 3 /\
               Join(3, [e |-> "fop", kind |-> "reduce", fn |-> TopT(3).x, acc |-> << TopT(2).x >>, tgt |-> TopT(1).x])

(* ---- functions: a context whose scope adds the parameters ------------------ *)
OpenFunc == On("func") /\ Building /\ Len(ctx) < MaxCtx /\ Stk = << >> /\   \* a function is a first operand (or alone)
            \E sg \in 1..Len(SigPool) :
               /\ ctx' = Append(ctx, Ctx("func", Cur.scope \o SigPool[sg], Cur.scope,
                                         [q \in 1..Len(SigPool[sg]) |-> SigPool[sg][q].nm], 0))
               /\ UNCHANGED << prog, ill, phase, vm >>
CloseFunc == On("func") /\ Building /\ Cur.kind = "func" /\ Len(Stk) = 1 /\
             LET c == Cur
                 b == c.stk[1]
                 x == [e |-> "func", ps |-> c.ps, body |-> b.x]
                 par == ctx[Len(ctx) - 1]
                 t == Term(x, FuncV(c.ps, b.x, c.base), b.d + 1, b.n + 1, b.cl)
             IN /\ t.d <= MaxD /\ t.n <= MaxN
                /\ ctx' = [SubSeq(ctx, 1, Len(ctx) - 1) EXCEPT ![Len(ctx) - 1].stk = Append(@, t)]
                /\ UNCHANGED << prog, ill, phase, vm >>

(* ---- modules: parameters (defaults from the stack), statements, out ------- *)
OpenMod == On("module") /\ Building /\ Len(ctx) < MaxCtx /\
           \E k \in 0..2 : \E off \in 0..(Len(FldNames) - k) :
              LET c == Cur
                  ps == [q \in 1..k |-> [nm |-> FldNames[off + q], ex |-> c.stk[Len(c.stk) - k + q].x]]
                  dv == [q \in 1..k |-> Fld(FldNames[off + q], c.stk[Len(c.stk) - k + q].v)]
              IN /\ Len(c.stk) = k /\ \A q \in 1..k : ~Bad(dv[q].val)    \* the stack holds exactly the defaults
                 /\ ctx' = Append([ctx EXCEPT ![Len(ctx)].stk = SubSeq(@, 1, Len(@) - k)],
                                  [Ctx("mod", << Fld(N_mod, TupleV(dv)) >>, << >>, ps, 0)
                                     EXCEPT !.used = SumOf([q \in 1..k |-> c.stk[Len(c.stk) - k + q].n]),
                                            (* the defaults' hidden errors are the module's (`a = true || {..}`) *)
                                            !.cl = IF k = 0 THEN @ ELSE IF k = 1 THEN Worse(@, c.stk[Len(c.stk)].cl)
                                                   ELSE Worse(Worse(@, c.stk[Len(c.stk) - 1].cl), c.stk[Len(c.stk)].cl)])
                 /\ UNCHANGED << prog, ill, phase, vm >>
CloseMod == On("module") /\ Building /\ Cur.kind = "mod" /\ Len(Stk) <= 1 /\ Len(Cur.stmts) >= 1 /\
            LET c == Cur
                out == IF Len(c.stk) = 1 THEN << c.stk[1].x >> ELSE << >>
                x == [e |-> "module", ps |-> c.ps, out |-> out, body |-> c.stmts]
                par == ctx[Len(ctx) - 1]
                v == EvalE(x, par.scope, << >>)
                t == Term(x, v, 2, 1 + c.used + (IF Len(c.stk) = 1 THEN c.stk[1].n ELSE 0),
                          IF Len(c.stk) = 1 THEN Worse(c.cl, c.stk[1].cl) ELSE c.cl)
             IN /\ ~Bad(v) /\ t.n <= MaxN
                /\ Len(par.stk) < MaxStk
                /\ ctx' = [SubSeq(ctx, 1, Len(ctx) - 1) EXCEPT ![Len(ctx) - 1].stk = Append(@, t)]
                /\ UNCHANGED << prog, ill, phase, vm >>

(* ---- statements ---------------------------------------------------------------- *)
StmtCtx == Cur.kind \in {"top", "mod"}
NStmts == IF Cur.kind = "top" THEN NGen ELSE Len(Cur.stmts) + (MaxStmts - MaxModStmts)

MkLet == (IF Cur.kind = "mod" THEN On("module") ELSE On("let")) /\ Building /\ StmtCtx /\ Len(Stk) = 1 /\ NStmts < MaxStmts /\
         LET c == Cur
             t == c.stk[1]
             pool == IF c.kind = "top" THEN Names ELSE ModNames
         IN \E j \in (c.last + 1)..Len(pool) :
              LET st == [s |-> "let", nm |-> pool[j], x |-> t.x]
                  ok == ~Bad(t.v)
              IN /\ IF c.kind = "top"
                      THEN /\ prog' = Append(prog, st)
                           /\ SetCur([c EXCEPT !.stk = << >>, !.last = j, !.cl = Worse(@, t.cl),
                                               !.scope = IF ok THEN Append(@, Fld(pool[j], t.v)) ELSE @])
                           /\ phase' = IF ok THEN "gen" ELSE "closing"      \* nothing runs after a failing statement
                      ELSE /\ SetCur([c EXCEPT !.stk = << >>, !.last = j, !.stmts = Append(@, st),
                                               !.used = @ + t.n + 1, !.cl = Worse(@, t.cl),
                                               !.scope = IF ok THEN Append(@, Fld(pool[j], t.v)) ELSE @])
                           /\ UNCHANGED << prog, phase >>
                 /\ UNCHANGED << ill, vm >>

(* define-and-use: a generated function is bound and called on the example     *)
(* values of its signature; a generated module is bound and instantiated       *)
(* (without overrides, and overriding its first parameter with its own default) *)
(* - this executes generated bodies without a product of two free statements   *)
(* the expression that writes a (data) value down: composite example values become list / tuple expressions *)
RECURSIVE ValExpr(_)
ValExpr(v) == CASE v.t = "list" -> [e |-> "list", xs |-> [j \in 1..Len(v.es) |-> ValExpr(v.es[j])]]
                [] v.t = "tuple" -> [e |-> "tuple", flds |-> [j \in 1..Len(v.fs) |-> [nm |-> v.fs[j].nm, ex |-> ValExpr(v.fs[j].val)]]]
                [] OTHER -> Lit(v)
SigArgs(ps) ==
  LET hits == {q \in 1..Len(SigPool) : [z \in 1..Len(SigPool[q]) |-> SigPool[q][z].nm] = ps}
      sg == SigPool[CHOOSE q \in hits : \A r \in hits : q <= r]
  IN [z \in 1..Len(sg) |-> ValExpr(sg[z].val)]
MkLetUse == On("letuse") /\ Building /\ Cur.kind = "top" /\ Len(Stk) = 1 /\ NGen + 2 <= MaxStmts /\ Len(Names) >= Cur.last + 2 /\
            LET c == Cur
                t == c.stk[1]
                n1 == Names[c.last + 1]
                n2 == Names[c.last + 2]
                st1 == [s |-> "let", nm |-> n1, x |-> t.x]
            IN /\ t.v.t \in {"func", "module"} /\ t.x.e \in {"func", "module"}     \* a definition, not a reference
               /\ \E ov \in BOOLEAN :
                    LET use == IF t.v.t = "func"
                                 THEN [e |-> "call", fn |-> n1, args |-> SigArgs(t.v.ps)]
                                 ELSE [e |-> "copy", sel |-> n1,
                                       flds |-> IF ov /\ t.x.ps # << >> THEN << t.x.ps[1] >> ELSE << >>]
                        sc1 == Append(c.scope, Fld(n1, t.v))
                        v2 == EvalE(use, sc1, << >>)
                    IN /\ (t.v.t = "func" => ~ov) /\ (ov => t.x.ps # << >>)
                       /\ ~IsUnm(v2)
                       /\ prog' = prog \o << st1, [s |-> "let", nm |-> n2, x |-> use] >>
                       /\ SetCur([c EXCEPT !.stk = << >>, !.last = c.last + 2, !.cl = IF Bad(v2) THEN "dirty" ELSE Worse(@, t.cl),
                                           !.scope = IF Bad(v2) THEN sc1 ELSE Append(sc1, Fld(n2, v2))])
                       /\ phase' = IF Bad(v2) THEN "closing" ELSE "gen"
               /\ UNCHANGED << ill, vm >>

(* rebinding an existing name / binding a reserved word (C10) *)
MkBadLet == On("badlet") /\ Building /\ Cur.kind = "top" /\ Len(Stk) = 1 /\ NGen < MaxStmts /\
            \E nm \in {Cur.scope[j].nm : j \in 1..Len(Cur.scope)} \cup (IF On("reserved") THEN Reserved ELSE {})
                     \cup (IF On("envlet") THEN {N_env} ELSE {}) :
               /\ prog' = Append(prog, [s |-> "let", nm |-> nm, x |-> Cur.stk[1].x])
               /\ SetCur([Cur EXCEPT !.stk = << >>, !.cl = "dirty"])
               /\ phase' = "closing"
               /\ UNCHANGED << ill, vm >>

(* `let name :: constraint = value` with a constraint of ConPool: a fresh name, or - with   *)
(* "badlet" - a name that is already bound (the annotation must not turn the let into an     *)
(* overwrite).  A value that does not pass ends the program like any failing statement.     *)
MkConLet == On("conlet") /\ Building /\ Cur.kind = "top" /\ Len(Stk) = 1 /\ NGen < MaxStmts /\
            LET c == Cur
                t == c.stk[1]
            IN \E q \in 1..Len(ConPool) : \E j \in 0..Len(Names) :
                 LET rebind == j = 0
                     cands == IF rebind THEN {c.scope[z].nm : z \in 1..Len(c.scope)} ELSE {Names[j]}
                     r == IF Bad(t.v) THEN "fail" ELSE ConFails(t.v, EvalE(ConPool[q], c.scope, << >>))
                     ok == r = "ok" /\ ~rebind
                     planted == ~ok /\ ~Bad(t.v)          \* this statement is where the program goes wrong: a planted fault
                 IN /\ (rebind => On("badlet")) /\ (~rebind => j > c.last)
                    /\ r # "unm"
                    /\ planted => ill > 0
                    /\ ill' = IF planted THEN (IF ill = 1 THEN 0 - (Len(prog) + 1) ELSE ill - 1) ELSE ill
                    /\ \E nm \in cands :
                         /\ prog' = Append(prog, [s |-> "clet", nm |-> nm, x |-> t.x, con |-> ConPool[q]])
                         /\ SetCur([c EXCEPT !.stk = << >>, !.last = IF rebind THEN @ ELSE j,
                                             !.cl = IF ok THEN Worse(@, t.cl) ELSE "dirty",
                                             !.scope = IF ok THEN Append(@, Fld(nm, t.v)) ELSE @])
                    /\ phase' = IF ok THEN "gen" ELSE "closing"
                    /\ UNCHANGED vm

(* `constraint name = c;` with a genuine constraint of ConPool (ranges, alternatives): a fresh name, *)
(* or - with "badlet" - one that is taken                                                           *)
MkConStmt == On("constmt") /\ Building /\ Cur.kind = "top" /\ Stk = << >> /\ NGen < MaxStmts /\
             LET c == Cur
             IN \E q \in 1..Len(ConPool) : \E j \in 0..Len(Names) :
                  LET rebind == j = 0
                      cands == IF rebind THEN {c.scope[z].nm : z \in 1..Len(c.scope)} ELSE {Names[j]}
                  IN /\ ConPool[q].e = "con"
                     /\ (rebind => On("badlet")) /\ (~rebind => j > c.last)
                     /\ \E nm \in cands :
                          LET v == EvalE(ConPool[q], Append(c.scope, Fld(nm, ConV(<< >>))), << >>)
                              ok == ~rebind /\ ~Bad(v)
                          IN /\ ~IsUnm(v)
                             /\ ~ok => ill > 0
                             /\ ill' = IF ~ok THEN (IF ill = 1 THEN 0 - (Len(prog) + 1) ELSE ill - 1) ELSE ill
                             /\ prog' = Append(prog, [s |-> "cstmt", nm |-> nm, x |-> ConPool[q]])
                             /\ SetCur([c EXCEPT !.last = IF rebind THEN @ ELSE j, !.cl = IF ok THEN @ ELSE "dirty",
                                                 !.scope = IF ok THEN Append(@, Fld(nm, v)) ELSE @])
                             /\ phase' = IF ok THEN "gen" ELSE "closing"
                     /\ UNCHANGED vm

MkExprStmt == On("exprstmt") /\ Building /\ Cur.kind = "top" /\ Len(Stk) = 1 /\ NGen < MaxStmts /\
              /\ prog' = Append(prog, [s |-> "expr", x |-> Cur.stk[1].x])
              /\ SetCur([Cur EXCEPT !.stk = << >>, !.cl = Worse(@, Cur.stk[1].cl)])
              /\ phase' = IF Bad(Cur.stk[1].v) THEN "closing" ELSE "gen"
              /\ UNCHANGED << ill, vm >>

Finish == phase \in {"gen", "closing"} /\ Len(ctx) = 1 /\ Stk = << >> /\ NGen >= 1 /\
          /\ phase' = IF RunVM THEN "run" ELSE "done"
          /\ vm' = InitVM(Translate(prog), Deviations)
          /\ UNCHANGED << ctx, prog, ill >>

RunStep == phase = "run" /\ Running(vm) /\ vm' = Step(vm) /\ UNCHANGED << ctx, prog, ill, phase >>
RunEnd  == phase = "run" /\ ~Running(vm) /\ phase' = "done" /\ UNCHANGED << ctx, prog, ill, vm >>

GenInit == /\ ctx = << Ctx("top", Run(Prelude).env, << >>, << >>, 0) >>
           /\ prog = Prelude /\ ill = Ill0 /\ phase = "gen"
           /\ vm = InitVM(<< >>, Deviations)

GenNext == \/ PushLit \/ PushVar \/ MkEnvRead \/ MkOuterRef \/ MkLeakRef \/ MkFwdRef \/ MkBin \/ MkNot \/ MkTrace \/ MkFail \/ MkCast \/ MkIs \/ MkInName
           \/ MkList \/ MkTuple \/ MkDotName \/ MkDotIdx \/ MkDotCall \/ MkDotCopy \/ MkRange \/ MkSelect \/ MkCall \/ MkBadCall
           \/ MkCopy \/ MkFmtList \/ MkFmtBad \/ MkFmtSingle \/ MkFop \/ OpenFunc \/ CloseFunc \/ OpenMod \/ CloseMod
           \/ MkLet \/ MkLetUse \/ MkBadLet \/ MkConLet \/ MkConStmt \/ MkExprStmt \/ Finish \/ RunStep \/ RunEnd

(* ---- what is checked ------------------------------------------------------------ *)
Done == phase = "done"
Final == IF RunVM THEN vm ELSE RunToEnd(vm, 4000)

(* parse/mod.rs: a let statement may not bind `env` (the parser aborts) - such a *)
(* program never reaches the translator                                         *)
ParserRejects(p) == \E j \in 1..Len(p) : p[j].s \in {"let", "clet", "cstmt"} /\ p[j].nm = N_env
Compiled(m) == IF ParserRejects(prog) THEN [k |-> "fail"] ELSE VMOut(m)

(* C01: executing the compiled form ends as the reference semantics says *)
Expected == AbsOut(Run(prog))
Agreement == Done => ((Final.res.k \notin {"unm", "fuel"} /\ Expected.k # "unm") =>
                        \/ Compiled(Final) = Expected
                        \/ ~PrintT(<< "DISAGREE", ToJson([prog |-> prog, expect |-> Expected, vm |-> Compiled(Final),
                                                          blame |-> IF Final.res.k = "fail" THEN << Final.res.p >> ELSE << >>]) >>))
(* C04: no panic site is reachable; the main stack is empty at the end *)
NoPanicAtEnd == Done => Final.res.k # "panic"
CleanAtEnd == Done => (Final.res.k = "ok" => Final.res.clean)
NoFuel == Done => Final.res.k # "fuel"

(* C10 (model level): the bindings of every prefix survive unchanged *)
RECURSIVE IsPrefixEnv(_, _)
IsPrefixEnv(a, b) == Len(a) <= Len(b) /\ \A j \in 1..Len(a) : a[j] = b[j]
PrefixStable ==
  Done => \A k \in 1..Len(prog) :
            LET pre == AbsOut(Run(SubSeq(prog, 1, k)))
            IN (pre.k = "ok" /\ Expected.k = "ok") => IsPrefixEnv(pre.env, Expected.env)

(* emission for replay: program, expected outcome (reference), the outcome of   *)
(* the code-faithful machine (known deviations on) and, when they differ, the  *)
(* deviations each of which alone explains a difference; predicted ops         *)
CodeRun(devs) == RunToEnd(InitVM(vm.code, devs), 4000)
Emit == Done =>
  LET cf == CodeRun(KnownDevs)
      hit == IF Compiled(cf) = Expected THEN {} ELSE {d \in KnownDevs : Compiled(CodeRun({d})) # Expected}
  IN PrintT(<< "REPLAY", ToJson([prog |-> prog, expect |-> Expected, code |-> Compiled(cf),
                                 devs |-> SetToSeq(hit), clean |-> ctx[1].cl,
                                 fault |-> IF ill < 0 THEN 0 - ill ELSE 0, npre |-> Len(Prelude),
                                 at |-> IF cf.res.k = "fail" THEN cf.res.at ELSE 0,
                                 prefix |-> [k \in 1..(Len(prog) - 1) |-> AbsOut(Run(SubSeq(prog, 1, k)))],
                                 ops |-> [j \in 1..Len(vm.code) |-> OpView(vm.code[j])],
                                 pos |-> [j \in 1..Len(vm.code) |-> vm.code[j].p],
                                 blame |-> IF cf.res.k = "fail" THEN << cf.res.p >> \o cf.res.via ELSE << >>]) >>)
=============================================================================
