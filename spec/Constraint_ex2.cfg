CONSTANTS Deviations = {} Family = "ex2" Tier = "quick"
INIT Init
NEXT Next
CHECK_DEADLOCK FALSE
INVARIANTS AdmitEqualsConforms NamedAsInline Emit
