------------------------------ MODULE MC_Build ------------------------------
(* Model-checking configurations of Build.tla: statement alphabets, project  *)
(* sets and invocation sets named by the .cfg files Build_*.cfg.             *)
EXTENDS Build

SeqsUpTo(A, n) == UNION { [1..k -> A] : k \in 0..n }
SeqsFrom(A, lo, hi) == UNION { [1..k -> A] : k \in lo..hi }
RECURSIVE PermsOf(_)
PermsOf(S) == IF S = {} THEN { << >> } ELSE UNION { { << x >> \o p : p \in PermsOf(S \ {x}) } : x \in S }
NonEmptySubsets(S) == { T \in SUBSET S : T # {} }
AllOrders(S) == UNION { PermsOf(T) : T \in NonEmptySubsets(S) }     \* every order of every non-empty subset
FullOrders(S) == PermsOf(S)

DevNone == {}
DevAll  == DevNames
DevPush == {"PushAfterCompletion"}
DevWalk == {"WalkerSkips"}
DevAsrt == {"SharedAsserts"}
DevConv == {"CreateBeforeConvert"}
DevLock == {"OutLockNeverReset"}
DevRaw  == {"RawPathKeys"}

One == 1
Two == 2
Three == 3

LayFlat2 == { [dir |-> << 0, 0 >>, nm |-> << "a", "b" >>] }
LayNest2 == { [dir |-> << 0, 0 >>, nm |-> << "a", "b" >>], [dir |-> << 0, 1 >>, nm |-> << "a", "b" >>],
              [dir |-> << 1, 0 >>, nm |-> << "a", "b" >>] }
LayFlat3 == { [dir |-> << 0, 0, 0 >>, nm |-> << "a", "b", "c" >>] }
LayNest3 == { [dir |-> << 0, 1, 0 >>, nm |-> << "a", "b", "c" >>], [dir |-> << 0, 0, 1 >>, nm |-> << "a", "b", "b" >>] }
LayTwin3 == { [dir |-> << 0, 0, 1 >>, nm |-> << "a", "b", "b" >>] }     \* p/b and p/s/b: same name in both directories
LayFlat1 == { [dir |-> << 0 >>, nm |-> << "a" >>] }

(* ---- C13: `ucg test` ------------------------------------------------------------ *)
A13 == { Asrt("ok"), Asrt("fail"), Asrt("mal"), RtErr, TyErr }
(* a type error anywhere makes the whole file unbuildable: keep it as the only
   statement or after assertions (the "build error after" case is RtErr/TyErr last) *)
B13(n) == SeqsUpTo(A13, n)
A13a == { Asrt("ok"), Asrt("fail"), Asrt("mal") }
B13x == B13(2) \cup [1..3 -> A13a]          \* <=2 statements of any kind, or 3 assertions
Bodies13_2x3 == [1..2 -> B13x]
Bodies13_3x1 == [1..3 -> B13(1)]
Bodies13_3x2 == [1..3 -> B13(2)]
Bodies13_1x3 == [1..1 -> B13(3)]
Orders2 == FullOrders({1, 2}) \cup { << 1, 1 >>, << 1, 2, 1 >> }
Orders3 == AllOrders({1, 2, 3})
Orders1 == { << 1 >> }

(* ---- C14: out ---------------------------------------------------------------------- *)
A14 == { Out(fm, "ok") : fm \in 1..Len(Fmts) } \cup { Out(fm, "bad") : fm \in Failable } \cup { RtErr }
Bodies14_2 == [1..1 -> SeqsUpTo(A14, 2)]
Bodies14_3 == [1..1 -> { b \in SeqsUpTo(A14 \cup {Lit}, 3) : \E i \in 1..Len(b) : b[i].k = "out" } \cup { << >>, << Lit >> }]

(* ---- C09: imports ------------------------------------------------------------------- *)
ImpA(G, SP, POS) == { Imp(g, sp, pos) : g \in G, sp \in SP, pos \in POS }
IncA(G, SP, POS) == { Inc(g, sp, pos) : g \in G, sp \in SP, pos \in POS }
(* positions x spellings x cwds on a two-file project *)
Big09   == ImpA({1, 2}, {1, 2, 3}, Positions) \cup IncA({2}, {1, 2}, {"top", "callback", "moduleOut", "failMsg", "fmtExpr"})
Small09 == ImpA({2}, {0, 2}, {"top", "nested", "callback"})
Lib09   == { << >> } \cup { << s >> : s \in ImpA({1}, {1}, {"top", "nested"}) }
WithOut(b) == b \o << Out(1, "ok") >>          \* the entry file writes what it imported
Bodies09_pos == { [f \in 1..2 |-> IF f = 1 THEN WithOut(b1) ELSE b2] :
                    b1 \in { << s >> : s \in Big09 } \cup { << s, t >> : s \in Big09, t \in Small09 }, b2 \in Lib09 }
(* every import graph on three files (out-degree <= 2 quick: first file <= 2, others <= 1) *)
G09 == ImpA({1, 2, 3}, {1}, {"top", "nested"})
G09s == ImpA({1, 2, 3}, {1, 2}, {"top", "nested", "funcBody", "moduleBody"})
Bodies09_graph_q == { [f \in 1..3 |-> IF f = 1 THEN WithOut(b1) ELSE IF f = 2 THEN b2 ELSE b3] :
                        b1 \in SeqsFrom(G09, 1, 2), b2 \in SeqsUpTo(G09, 1), b3 \in SeqsUpTo(G09, 1) }
Bodies09_graph_t == { [f \in 1..3 |-> IF f = 1 THEN WithOut(b[1]) ELSE b[f]] : b \in [1..3 -> SeqsUpTo(G09, 2)] }
(* same name in two directories: a path resolved against the wrong base finds the wrong file *)
Bodies09_twin == { [f \in 1..3 |-> IF f = 1 THEN WithOut(b1) ELSE << >>] :
                     b1 \in SeqsFrom(ImpA({2, 3}, {1, 2}, Positions), 1, 2) }
(* file names that begin with the letters of the standard library's directory: only the path *)
(* component `std` is special (ast/rewrite.rs), a sibling stdb.ucg is an ordinary relative path *)
LayStd2 == { [dir |-> << 0, 0 >>, nm |-> << "a", "stdb" >>], [dir |-> << 1, 1 >>, nm |-> << "stda", "stdb" >>] }
Bodies09_std == { [f \in 1..2 |-> IF f = 1 THEN WithOut(<< s >>) ELSE << >>] :
                    s \in ImpA({2}, {0, 1}, Positions) \cup IncA({2}, {0}, {"top"}) }
(* four files: the entry <= 2 imports, the others <= 1 *)
G09x4 == ImpA({1, 2, 3, 4}, {1}, {"top", "nested"})
Bodies09_graph4 == { [f \in 1..4 |-> IF f = 1 THEN WithOut(b1) ELSE b[f]] :
                       b1 \in SeqsFrom(G09x4, 1, 2), b \in [1..4 -> SeqsUpTo(G09x4, 1)] }
LayNest4 == { [dir |-> << 0, 1, 0, 1 >>, nm |-> << "a", "b", "c", "d" >>] }
CwdAll == {0, 1, 2}
Cwd0 == {0}
OrdersFirst == { << 1 >> }

(* ---- C16: batches -------------------------------------------------------------------- *)
A16n(G) == ImpA(G, {1}, {"top", "nested"}) \cup { Out(1, "ok"), Out(4, "bad"), RtErr, TyErr }
A16(G) == A16n(G) \cup { Lit }
Bodies16_2x2 == [1..2 -> SeqsUpTo(A16n({1, 2}), 2)]
Bodies16_3x1 == [1..3 -> SeqsUpTo(A16({1, 2, 3}), 1)]
Bodies16_3mix == { [f \in 1..3 |-> IF f = 1 THEN b1 ELSE IF f = 2 THEN b2 ELSE b3] :
                     b1 \in SeqsUpTo(A16({2, 3}), 2), b2 \in SeqsUpTo(A16({3}), 2), b3 \in SeqsUpTo({ Out(1, "ok"), RtErr, Lit }, 1) }
OrdersFull2 == FullOrders({1, 2}) \cup { << 1, 1 >> }
OrdersFull3 == FullOrders({1, 2, 3})

CmdBuild == {"build"}
CmdTest  == {"test"}
PreNone == {"none"}
PreBoth == {"none", "all"}
=============================================================================
