CONSTANTS
  DomSize = 0
  Blocks = 1
  MaxL = 5
  MaxStmts = 3
  MaxCmts = 3
  Spices = {"frag", "glue", "look"}
  Deviations = {}
  KnownDevs = {"BlankCommentPadded", "KeywordSwallowsComment"}
  EmitEvery = 41
  EmitPhase = 0
INIT PlaceInit
NEXT PlaceNext
CHECK_DEADLOCK FALSE
INVARIANTS Deterministic EachOnce InOrder BeforeLaterCode FixedPoint PlaceEmit
