CONSTANTS
  Deviations <- DevNone
  NF = 3
  Bodies <- Bodies16_3x1
  Layouts <- LayFlat3
  Cmds <- CmdBuild
  Cwds <- Cwd0
  Orders <- OrdersFull3
  Pres <- PreNone
  Repeat = 2
  EmitOn = TRUE
INIT Init
NEXT Next
CHECK_DEADLOCK FALSE
INVARIANTS ResolveRelToFile EvalOnce EvalOrder SameValue CycleIsDiagnostic VerdictIffAsserts ExitIffFail EachAssertOnce OneArtifact SecondOutIsError AllOrNothing BatchEqualsSolo Emit
