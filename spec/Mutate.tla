------------------------------ MODULE Mutate ------------------------------
(* Token-level mutations of a text (DESIGN §4.13): the quantifier domain of   *)
(* C04 ("token-level mutations (delete/duplicate/swap/replace a token)"), of  *)
(* C17's syntax faults (a mutation confined to one statement) and of C20's    *)
(* mutated texts.  The state is a sequence over original token indices        *)
(* 1..N (positive) and replacement-vocabulary indices (negative).  Behaviours *)
(* of at most MaxMut steps; every state reached after >= 1 mutation is a case.*)
EXTENDS Integers, Sequences, TLC, Json

CONSTANTS Ns,       \* set of token counts
          MaxMut,   \* mutations per behaviour
          Vocab     \* size of the replacement vocabulary

VARIABLES n, seq, log
vars == << n, seq, log >>

Init == /\ n \in Ns /\ seq = [j \in 1..n |-> j] /\ log = << >>

RemoveAt(s, j) == [q \in 1..(Len(s) - 1) |-> IF q < j THEN s[q] ELSE s[q + 1]]
InsertAt(s, j, x) == [q \in 1..(Len(s) + 1) |-> IF q < j THEN s[q] ELSE IF q = j THEN x ELSE s[q - 1]]

Delete(j) == /\ Len(seq) >= 1 /\ seq' = RemoveAt(seq, j)
             /\ log' = Append(log, [m |-> "delete", j |-> j])
Duplicate(j) == /\ seq' = InsertAt(seq, j, seq[j])
                /\ log' = Append(log, [m |-> "duplicate", j |-> j])
Swap(j, k) == /\ j < k /\ seq' = [seq EXCEPT ![j] = seq[k], ![k] = seq[j]]
              /\ log' = Append(log, [m |-> "swap", j |-> j, k |-> k])
Replace(j, v) == /\ seq' = [seq EXCEPT ![j] = 0 - v]
                 /\ log' = Append(log, [m |-> "replace", j |-> j, v |-> v])

Next == /\ Len(log) < MaxMut /\ UNCHANGED n
        /\ \E j \in 1..Len(seq) :
              \/ Delete(j) \/ Duplicate(j)
              \/ \E k \in 1..Len(seq) : Swap(j, k)
              \/ \E v \in 1..Vocab : Replace(j, v)

(* sanity of the machine: lengths move by at most one per step, every entry   *)
(* is an original token or a vocabulary item                                  *)
WellFormed == /\ Len(seq) \in (n - Len(log))..(n + Len(log))
              /\ \A j \in 1..Len(seq) : seq[j] \in (1..n) \cup {0 - v : v \in 1..Vocab}

Emit == Len(log) >= 1 => PrintT(<< "REPLAY", ToJson([n |-> n, seq |-> seq, log |-> log]) >>)
=============================================================================
