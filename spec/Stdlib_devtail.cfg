\* C19 sanity of the laws: with the recorded deviation "TailEmptyFails" switched on TLC must refute LawsList
CONSTANTS
  Families = {"list1"}
  Size = "quick"
  Sim = FALSE
  Deviations = {"TailEmptyFails"}
  KnownDevs = {"TailEmptyFails", "ZipLongerRange", "JoinSepSkippedWhileEmpty", "ShapedTupleLastFieldDecides"}
INIT Init
NEXT Next
CHECK_DEADLOCK FALSE
INVARIANTS LawsList
