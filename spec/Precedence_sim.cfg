CONSTANTS Lvl <- DefaultLvl MaxOps = 10 MaxDepth = 3 Reps <- AllOps MaxTotal = 10
INIT Init
NEXT Next
CHECK_DEADLOCK FALSE
INVARIANTS AlgEqualsRef RefKeepsOrder Emit
