----------------------------- MODULE Translate -----------------------------
(* src/build/opcode/translate.rs:93-733 transcribed arm by arm: AST -> op     *)
(* sequence.  Every op carries `p`, the index of the top-level statement whose *)
(* source position the Rust code copies onto it (DESIGN §3.4).  Jump offsets   *)
(* are written as the closed form of the code's Noop-placeholder patching      *)
(* (`ops.len() - 1 - idx`, i.e. the number of ops emitted after the            *)
(* placeholder).  Where the Rust code unwraps an iterator that may be empty    *)
(* the transcription emits the pseudo-op PANIC(site).                          *)
EXTENDS Eval

O(name, p)        == [op |-> name, p |-> p]
OVal(v, p)        == [op |-> "Val", v |-> v, p |-> p]
OSym(n, p)        == [op |-> "Sym", nm |-> n, p |-> p]
ODeRef(n, p)      == [op |-> "DeRef", nm |-> n, p |-> p]
OJ(name, j, p)    == [op |-> name, jp |-> j, p |-> p]
OCast(ty, p)      == [op |-> "Cast", ty |-> ty, p |-> p]
OHook(h, p)       == [op |-> "Runtime", hook |-> h, p |-> p]
OPanic(site, p)   == [op |-> "PANIC", site |-> site, p |-> p]

Rev(s) == [j \in 1..Len(s) |-> s[Len(s) + 1 - j]]
RECURSIVE Flat(_)
Flat(ss) == IF ss = << >> THEN << >> ELSE Head(ss) \o Flat(Tail(ss))

S_tuple == << "t", "u", "p", "l", "e" >>
S_userdef == << "U", "s", "e", "r", "D", "e", "f", "i", "n", "e", "d", ":", " " >>
(* the message text of an unhandled select is irrelevant to every property;   *)
(* the driver masks the immediate of this one Val                              *)
S_unhandled == << "u", "n", "h", "a", "n", "d", "l", "e", "d" >>
S_fmtcount == << "f", "m", "t", "c", "o", "u", "n", "t" >>       \* likewise masked

BinOpName(op) ==
  CASE op = "add" -> "Add" [] op = "sub" -> "Sub" [] op = "mul" -> "Mul" [] op = "div" -> "Div"
    [] op = "mod" -> "Mod" [] op = "eq" -> "Equal" [] op = "gt" -> "Gt" [] op = "lt" -> "Lt"
    [] op = "ge" -> "GtEq" [] op = "le" -> "LtEq"

(* ExpressionTemplate::parse (format.rs:138-163) as seen through the AST parts: *)
(* every embedded expression is preceded by a (possibly empty) literal part,   *)
(* a trailing literal is kept only when non-empty                              *)
RECURSIVE CodeParts(_, _)
CodeParts(parts, buf) ==
  IF parts = << >> THEN (IF buf = << >> THEN << >> ELSE << [pk |-> "s", s |-> buf] >>)
  ELSE IF Head(parts).pk = "s" THEN CodeParts(Tail(parts), buf \o Head(parts).s)
  ELSE << [pk |-> "s", s |-> buf], Head(parts) >> \o CodeParts(Tail(parts), << >>)

RECURSIVE TE(_, _), TFlds(_, _), TStmts(_, _), TListParts(_, _, _, _), TSingleParts(_, _, _)

TFlds(flds, p) ==   \* Sym name, value, Field   per field
  Flat([j \in 1..Len(flds) |-> << OSym(flds[j].nm, p) >> \o TE(flds[j].ex, p) \o << O("Field", p) >>])

TCopy(flds, p) ==   \* translate_copy
  << O("PushSelf", p), O("InitTuple", p) >> \o TFlds(flds, p) \o << O("Cp", p), O("PopSelf", p) >>

(* list-form parts, both lists already reversed; `first` = no Add after it *)
TListParts(rparts, relems, first, p) ==
  IF rparts = << >> THEN << >>
  ELSE LET part == Head(rparts)
           tail == IF first THEN << >> ELSE << O("Add", p) >>
       IN IF part.pk = "s"
            THEN << OVal(StrV(part.s), p) >> \o tail \o TListParts(Tail(rparts), relems, FALSE, p)
            ELSE IF relems = << >>
                   THEN << OPanic("fmt-args", p) >>                         \* elems.next().unwrap()
                   ELSE TE(Head(relems), p) \o << O("Render", p) >> \o tail
                          \o TListParts(Tail(rparts), Tail(relems), FALSE, p)

TSingleParts(rparts, first, p) ==
  IF rparts = << >> THEN << >>
  ELSE LET part == Head(rparts)
           tail == IF first THEN << >> ELSE << O("Add", p) >>
       (* an embedded @{expr} is tokenised and parsed from the template text on its   *)
       (* own (format.rs consume_expr): its ops carry positions inside that text,     *)
       (* not in the file - modelled as position 0 ("not a statement of the file")    *)
       IN (IF part.pk = "s" THEN << OVal(StrV(part.s), p) >> ELSE TE(part.x, 0) \o << O("Render", p) >>)
            \o tail \o TSingleParts(Tail(rparts), FALSE, p)

TE(e, p) ==
  CASE e.e = "lit"   -> << OVal(e.v, p) >>
    [] e.e = "sym"   -> << ODeRef(e.nm, p) >>
    [] e.e = "tuple" -> << O("InitTuple", p) >> \o TFlds(e.flds, p)
    [] e.e = "list"  -> << O("InitList", p) >>
                          \o Flat([j \in 1..Len(e.xs) |-> TE(e.xs[j], p) \o << O("Element", p) >>])
    [] e.e = "grp"   -> TE(e.x, p)
    [] e.e = "con"   ->        \* translate.rs Expression::Constraint: each arm's operands, then BuildConstraint(arm kinds)
         Flat([j \in 1..Len(e.arms) |->
                 IF e.arms[j].a = "shape" THEN TE(e.arms[j].x, p)
                 ELSE (IF e.arms[j].lo = << >> THEN << OVal(Null, p) >> ELSE TE(e.arms[j].lo[1], p))
                        \o (IF e.arms[j].hi = << >> THEN << OVal(Null, p) >> ELSE TE(e.arms[j].hi[1], p))])
           \o << [op |-> "BuildConstraint", p |-> p,
                  arms |-> [j \in 1..Len(e.arms) |-> IF e.arms[j].a = "shape" THEN "exact" ELSE "range"]] >>
    [] e.e = "not"   -> TE(e.x, p) \o << O("Not", p) >>
    [] e.e = "fail"  -> TE(e.x, p) \o << OVal(StrV(S_userdef), p), O("Add", p), O("Bang", p) >>
    [] e.e = "trace" -> << OVal(StrV(<< >>), p) >> \o TE(e.x, p) \o << OHook("Trace", p) >>
    [] e.e = "cast"  -> TE(e.x, p) \o << OCast(e.ty, p) >>
    [] e.e = "range" -> TE(e.hi, p) \o (IF e.step = << >> THEN << OVal(Null, p) >> ELSE TE(e.step[1], p))
                          \o TE(e.lo, p) \o << OHook("Range", p) >>
    [] e.e = "call"  -> Flat([j \in 1..Len(e.args) |-> TE(e.args[j], p)])
                          \o << OVal(IntV(Len(e.args)), p), ODeRef(e.fn, p), O("FCall", p) >>
    [] e.e = "copy"  -> << ODeRef(e.sel, p) >> \o TCopy(e.flds, p)
    [] e.e = "func"  ->
         LET body == TE(e.body, p)
         IN << O("InitList", p) >>
              \o Flat([j \in 1..Len(e.ps) |-> << OSym(e.ps[j], p), O("Element", p) >>])
              \o << OJ("Func", Len(body) + 1, p) >> \o body \o << O("Return", p) >>
    [] e.e = "fop"   ->
         TE(e.fn, p) \o (IF e.kind = "reduce" THEN TE(e.acc[1], p) ELSE << >>) \o TE(e.tgt, p)
           \o << OHook(CASE e.kind = "map" -> "Map" [] e.kind = "filter" -> "Filter"
                         [] e.kind = "reduce" -> "Reduce", p) >>
    [] e.e = "module" ->
         LET out  == IF e.out = << >> THEN << >>
                     ELSE LET ob == TE(e.out[1], p)
                          IN << OJ("InitThunk", Len(ob) + 1, p) >> \o ob \o << O("Return", p) >>
             body == TStmts(e.body, p)
         IN << O("InitTuple", p) >> \o TFlds(e.ps, p) \o out
              \o << OJ("Module", Len(body) + 2, p), O("Bind", p) >> \o body \o << O("Return", p) >>
    [] e.e = "select" ->
         LET arms == [j \in 1..Len(e.flds) |-> TE(e.flds[j].ex, p)]
             dflt == IF e.dflt # << >> THEN TE(e.dflt[1], p)
                     ELSE << OVal(StrV(S_unhandled), p), O("Bang", p) >>
             (* ops after arm j's trailing Jump up to the last op of the select *)
             RECURSIVE After(_)
             After(j) == IF j > Len(arms) THEN 1 + Len(dflt)     \* Pop + default
                         ELSE 2 + Len(arms[j]) + 1 + After(j + 1)
         IN TE(e.x, p)
              \o Flat([j \in 1..Len(arms) |->
                         << OSym(e.flds[j].nm, p), OJ("SelectJump", Len(arms[j]) + 1, p) >>
                           \o arms[j] \o << OJ("Jump", After(j + 1), p) >>])
              \o << O("Pop", p) >> \o dflt
    [] e.e = "fmt" ->
         IF e.form = "list"
           THEN LET parts == TplParts(e.tpl, << >>, FALSE)
                IN IF NumPh(parts) # Len(e.args)
                     THEN << OVal(StrV(S_fmtcount), p), O("Bang", p) >>     \* placeholder/argument count mismatch
                   ELSE IF parts = << >> THEN << OVal(StrV(<< >>), p) >>
                   ELSE TListParts(Rev(parts), Rev(e.args), TRUE, p)
           ELSE LET parts == CodeParts(e.parts, << >>)
                    inner == << OSym(N_item, p) >> \o TE(e.args[1], p) \o << O("BindOver", p) >>
                               \o (IF parts = << >> THEN << OVal(StrV(<< >>), p) >>
                                   ELSE TSingleParts(Rev(parts), TRUE, p))
                               \o << O("Return", p) >>
                IN << OJ("NewScope", Len(inner), p) >> \o inner
    [] e.e = "bin" ->
         CASE e.op \in {"add", "sub", "mul", "div", "mod", "eq", "gt", "lt", "ge", "le"} ->
                TE(e.r, p) \o TE(e.l, p) \o << O(BinOpName(e.op), p) >>
           [] e.op = "ne"  -> TE(e.r, p) \o TE(e.l, p) \o << O("Equal", p), O("Not", p) >>
           [] e.op = "re"  -> TE(e.r, p) \o TE(e.l, p) \o << OHook("Regex", p) >>
           [] e.op = "nre" -> TE(e.r, p) \o TE(e.l, p) \o << OHook("Regex", p), O("Not", p) >>
           [] e.op = "is"  -> TE(e.r, p) \o TE(e.l, p) \o << O("Typ", p), O("Equal", p) >>
           [] e.op = "and" -> LET r == TE(e.r, p) IN TE(e.l, p) \o << OJ("And", Len(r), p) >> \o r
           [] e.op = "or"  -> LET r == TE(e.r, p) IN TE(e.l, p) \o << OJ("Or", Len(r), p) >> \o r
           [] e.op = "in"  ->
                (* a bare symbol on the left becomes                                   *)
                (*   select (<right> is "tuple", <sym>) => { true = "<sym>" }          *)
                TE(e.r, p)
                  \o (IF e.l.e = "sym"
                        THEN TE([e |-> "select",
                                 x |-> [e |-> "bin", op |-> "is", l |-> e.r,
                                        r |-> [e |-> "lit", v |-> StrV(S_tuple)]],
                                 dflt |-> << [e |-> "sym", nm |-> e.l.nm] >>,
                                 flds |-> << [nm |-> N_true, ex |-> [e |-> "lit", v |-> StrV(e.l.nm)]] >>], p)
                        ELSE TE(e.l, p))
                  \o << O("Exist", p) >>
           [] e.op = "dot" ->
                CASE e.r.e = "copy" ->
                       TE(e.l, p) \o << OVal(StrV(e.r.sel), p), O("Index", p) >> \o TCopy(e.r.flds, p)
                  [] e.r.e = "call" ->
                       Flat([j \in 1..Len(e.r.args) |-> TE(e.r.args[j], p)])
                         \o << OVal(IntV(Len(e.r.args)), p) >> \o TE(e.l, p)
                         \o << OVal(StrV(e.r.fn), p), O("Index", p), O("FCall", p) >>
                  [] e.r.e = "sym" -> TE(e.l, p) \o << OVal(StrV(e.r.nm), p), O("Index", p) >>
                  [] OTHER -> TE(e.l, p) \o TE(e.r, p) \o << O("Index", p) >>

TStmt(st, p) ==
  IF st.s = "expr" THEN TE(st.x, p) \o << O("Pop", p) >>
  ELSE IF st.s = "cstmt"       \* constraint name = c;  pre-bind an empty constraint, evaluate, overwrite
         THEN << OSym(st.nm, p), [op |-> "BuildConstraint", p |-> p, arms |-> << >>], O("Bind", p), OSym(st.nm, p) >>
                \o TE(st.x, p) \o << O("BindOver", p) >>
  ELSE IF st.s = "clet"        \* let name :: constraint = value
         THEN << OSym(st.nm, p) >> \o TE(st.x, p) \o TE(st.con, p) \o << O("CheckConstraint", p), O("Bind", p) >>
  ELSE << OSym(st.nm, p) >> \o TE(st.x, p) \o << O("Bind", p) >>       \* let

TStmts(stmts, p) == Flat([j \in 1..Len(stmts) |-> TStmt(stmts[j], p)])

(* top level: statement j carries position j *)
Translate(prog) == Flat([j \in 1..Len(prog) |-> TStmt(prog[j], j)])

(* projection for comparison with the real translator's output *)
OpView(o) ==
  CASE o.op = "Val" -> [op |-> "Val", v |-> o.v]
    [] o.op \in {"Sym", "DeRef"} -> [op |-> o.op, nm |-> o.nm]
    [] o.op \in {"Jump", "SelectJump", "And", "Or", "Func", "Module", "InitThunk", "NewScope"} -> [op |-> o.op, jp |-> o.jp]
    [] o.op = "Cast" -> [op |-> "Cast", ty |-> o.ty]
    [] o.op = "Runtime" -> [op |-> "Runtime", hook |-> o.hook]
    [] o.op = "PANIC" -> [op |-> "PANIC", site |-> o.site]
    [] o.op = "BuildConstraint" -> [op |-> "BuildConstraint", arms |-> o.arms]
    [] OTHER -> [op |-> o.op]
=============================================================================
