CONSTANTS Deviations = {} Family = "ex3" Tier = "quick"
INIT Init
NEXT Next
CHECK_DEADLOCK FALSE
INVARIANTS AdmitEqualsConforms NamedAsInline Emit
