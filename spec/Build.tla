------------------------------- MODULE Build -------------------------------
(* C09, C13, C14, C16.  The build session of ucg at the grain of the code:  *)
(*   main.rs (build/test commands, per-file verdict, exit status),          *)
(*   build/mod.rs (FileBuilder::build: ops for the file, link, run;         *)
(*                 AssertCollector),                                         *)
(*   opcode/environment.rs + cache.rs (op cache, value cache, shape cache,   *)
(*                 out locks, assertion collector of ONE Environment),       *)
(*   opcode/runtime.rs (import / include / out / assert hooks),              *)
(*   opcode/vm.rs (import stack handed to child VMs),                        *)
(*   ast/typecheck/mod.rs (resolve_import: static resolution, shape cache,   *)
(*                 its own cycle check), ast/rewrite.rs + walk.rs (relative  *)
(*                 paths made absolute before translation).                  *)
(* Projects are INITIAL STATES (a generator in the sense of DESIGN §1 (G)): *)
(* a layout of <=3 files in two nested directories, per file a sequence of  *)
(* abstract statements, an invocation (build|test, argument list, working   *)
(* directory), pre-existing artifacts, and the number of times the same     *)
(* invocation is repeated (a repetition is a fresh process on the disk the  *)
(* previous one left).  The machine is deterministic for a given project.   *)
(*                                                                          *)
(* Solo(f) -- what building f alone in a fresh process must yield -- is a   *)
(* big-step denotation without caches, frames or locks; the invariants bind *)
(* the machine to it.  Known defects of the code are NAMED DEVIATIONS: with *)
(* Deviations = {} the machine is the design the properties demand and all  *)
(* invariants must hold; with a deviation switched on the machine is the    *)
(* code as it is, and TLC produces the failing project.                     *)
EXTENDS Integers, Sequences, FiniteSets, TLC, Json

CONSTANTS Deviations,  \* subset of DevNames
          NF,          \* number of files
          Bodies,      \* set of [1..NF -> Seq(Stmt)]
          Layouts,     \* set of [dir : [1..NF -> {0,1}], nm : [1..NF -> STRING]]
          Cmds,        \* subset of {"build","test"}
          Cwds,        \* subset of {0,1,2}: project root p, p/s, elsewhere (q)
          Orders,      \* set of argument lists (sequences over 1..NF)
          Pres,        \* subset of {"none","all"}: pre-existing artifacts
          Repeat,      \* how many times the invocation is run (1 or 2)
          EmitOn       \* print REPLAY lines

DevNames == {"PushAfterCompletion",  \* runtime.rs:153 / vm.rs:199: a path enters the import stack only after its evaluation ended
             "WalkerSkips",          \* walk.rs: func-op callbacks, fail messages, module out-expressions are not visited by the Rewriter
             "SharedAsserts",        \* main.rs/build/mod.rs: one AssertCollector for all files, never reset
             "CreateBeforeConvert",  \* runtime.rs:331: File::create before the conversion
             "OutLockNeverReset",    \* environment.rs: out_lock entries live for the whole invocation, shared by built and imported evaluations
             "RawPathKeys"}          \* typecheck resolve_import / link_ops: paths compared as spelled (not normalised), so `d/../x` defeats the static cycle check
Dev(d) == d \in Deviations
F == 1..NF

(* ---- converters (the published table: name -> extension) ---------------- *)
Fmts  == << "json", "yaml", "yamlmulti", "toml", "xml", "env", "flags", "exec" >>
ExtOf == << "json", "yaml", "yaml",      "toml", "xml", "env", "txt",   "sh" >>
Failable == {4, 5, 7, 8}     \* converters that reject some values (NULL for toml, non-tuples for xml/flags/exec)

(* ---- abstract statements (uniform records: one kind per field name) ----- *)
Stmt(k, tgt, sp, pos, r) == [k |-> k, tgt |-> tgt, sp |-> sp, pos |-> pos, r |-> r]
Lit          == Stmt("lit", 0, 0, "", "")
Imp(g, sp, pos) == Stmt("imp", g, sp, pos, "")     \* import of file g, spelling sp, syntactic position pos
Inc(g, sp, pos) == Stmt("inc", g, sp, pos, "")     \* include str of the data file that sits next to file g
Out(fm, r)   == Stmt("out", fm, 0, "", r)          \* r = "ok" (convertible) | "bad"
Asrt(r)      == Stmt("assert", 0, 0, "", r)        \* r = "ok" | "fail" | "mal"
RtErr        == Stmt("rterr", 0, 0, "", "")        \* a statement that fails at run time (fail "...")
TyErr        == Stmt("tyerr", 0, 0, "", "")        \* a statement the static checker rejects

Positions == {"top", "nested", "funcBody", "callback", "failMsg", "moduleBody", "moduleOut", "fmtExpr", "conAnn"}
(* the let whose derived shape is an unresolved import is resolved statically
   (typecheck/mod.rs:1473): direct import, call result, func-op result, module
   out-expression -- as rendered by vp/buildproj.py *)
StaticVisible(pos) == pos \in {"top", "funcBody", "callback", "moduleOut"}
(* positions the AST walker does not descend into (walk.rs:128-141,150-155,189-192) *)
(* "fmtExpr": inside the @{...} of a format string - parsed out of the template while translating,  *)
(* after the walk (translate.rs translate_template_part); rewritten there since its own fix commit *)
(* "conAnn": inside the constraint annotation of a let (`let x :: (import "f").s = v`) - walk.rs does *)
(* not descend there; the Rewriter does on its own since a fix commit                              *)
WalkerBlind(pos) == pos \in {"callback", "failMsg", "moduleOut", "fmtExpr", "conAnn"}

(* ---- paths: sequences of components ------------------------------------- *)
(* "/" is the scratch root; the project lives in /p and /p/s; /q is elsewhere *)
DirPath(d) == CASE d = 0 -> << "/", "p" >> [] d = 1 -> << "/", "p", "s" >> [] OTHER -> << "/", "q" >>
ExistingDirs == { << "/" >>, << "/", "p" >>, << "/", "p", "s" >>, << "/", "q" >> }
DataName(n) == n \o "_d"
FilePath(lay, f) == DirPath(lay.dir[f]) \o << lay.nm[f] >>
DataPath(lay, f) == DirPath(lay.dir[f]) \o << DataName(lay.nm[f]) >>
Rel(a, b)  == IF a = b THEN << >> ELSE IF a = 0 THEN << "s" >> ELSE << ".." >>
Detour(a)  == IF a = 0 THEN << "s", ".." >> ELSE << "..", "s" >>
Spell(lay, f, s) ==     \* the relative path as written in the source of file f
  LET g == s.tgt
      n == IF s.k = "inc" THEN DataName(lay.nm[g]) ELSE lay.nm[g]
      r == Rel(lay.dir[f], lay.dir[g]) \o << n >>
  IN CASE s.sp = 0 -> r
       [] s.sp = 1 -> << "." >> \o r
       [] s.sp = 2 -> Detour(lay.dir[f]) \o r
       [] OTHER    -> << ".", "." >> \o r
IsAbs(p) == Len(p) > 0 /\ p[1] = "/"
(* Path::parent works on components: `.` components that end up last are dropped *)
RECURSIVE TrimDots(_)
TrimDots(p) == IF Len(p) > 1 /\ p[Len(p)] = "." THEN TrimDots(SubSeq(p, 1, Len(p) - 1)) ELSE p
Parent(p) == TrimDots(SubSeq(p, 1, Len(p) - 1))
Up(p) == IF p = << >> \/ p = << "/" >> THEN p ELSE Parent(p)
(* path.rs:22-34 normalize: lexical, `..` pops, `.` dropped *)
RECURSIVE NormFrom(_, _)
NormFrom(out, p) ==
  IF p = << >> THEN out
  ELSE LET c == Head(p)
       IN NormFrom(IF c = "." THEN out ELSE IF c = ".." THEN Up(out) ELSE Append(out, c), Tail(p))
Normalize(p) == NormFrom(<< >>, p)
(* PathBuf equality: interior `.` components do not count, a leading one does *)
PKey(p) == IF p # << >> /\ p[1] = "."
           THEN << "." >> \o SelectSeq(Tail(p), LAMBDA c : c # ".")
           ELSE SelectSeq(p, LAMBDA c : c # ".")
(* what the operating system opens: relative paths against the process cwd,
   every intermediate directory must exist *)
RECURSIVE Walk(_, _)
Walk(cur, p) ==
  IF p = << >> THEN cur
  ELSE LET c == Head(p)
           nxt == IF c = "." THEN cur ELSE IF c = ".." THEN Up(cur) ELSE Append(cur, c)
       IN IF Tail(p) # << >> /\ nxt \notin ExistingDirs THEN << "!" >> ELSE Walk(nxt, Tail(p))
MaxPath == 12       \* PATH_MAX, scaled to the model: longer paths are refused by the operating system
OSResolve(cwd, p) == LET q == IF IsAbs(p) THEN p ELSE DirPath(cwd) \o p
                     IN IF Len(q) > MaxPath THEN << "!" >> ELSE Walk(<< "/" >>, Tail(q))
FileAt(lay, w)  == IF \E f \in F : FilePath(lay, f) = w THEN CHOOSE f \in F : FilePath(lay, f) = w ELSE 0
DataAt(lay, w)  == IF \E f \in F : DataPath(lay, f) = w THEN CHOOSE f \in F : DataPath(lay, f) = w ELSE 0

(* ---- the project graph (reference level) -------------------------------- *)
Stmts(body, f) == { body[f][i] : i \in 1..Len(body[f]) }
AllE(body) == { e \in F \X F : \E s \in Stmts(body, e[1]) : s.k = "imp" /\ s.tgt = e[2] }
SvE(body)  == { e \in F \X F : \E s \in Stmts(body, e[1]) : s.k = "imp" /\ s.tgt = e[2] /\ StaticVisible(s.pos) }
RECURSIVE Grow(_, _)
Grow(S, E) == LET T == S \cup { e[2] : e \in { x \in E : x[1] \in S } } IN IF T = S THEN S ELSE Grow(T, E)
ReachStar(f, E) == Grow({f}, E)                                 \* reflexive-transitive
ReachPlus(f, E) == Grow({ e[2] : e \in { x \in E : x[1] = f } }, E)   \* at least one edge
HasTyErr(body, f) == \E s \in Stmts(body, f) : s.k = "tyerr"

(* classes a static failure of building f may carry (every transitively linked
   file is type-checked as a root; a root fails on its own type error, on a type
   error or a cycle met along statically visible imports) *)
StaticFail(body, f) ==
  LET R == ReachStar(f, AllE(body))
  IN (IF \E x \in R : HasTyErr(body, x) THEN {"TypeErr"} ELSE {})
     \cup (IF \E x \in R : x \in ReachPlus(x, SvE(body)) THEN {"ImportCycle"} ELSE {})

(* ---- Solo: the denotation of building one file in a fresh process ------- *)
(* Big-step, no caches, no frames, no locks: statements in order; an import  *)
(* names the file relative to the importing file (tgt by construction),     *)
(* is evaluated at most once per build (done), and a chain that re-enters a  *)
(* file being imported is the ImportCycle diagnostic; every out writes one   *)
(* artifact <stem>.<ext> or fails without touching the disk; a second out of *)
(* the same evaluation is an error; assertions are recorded once each.       *)
Acc0 == [err |-> "", done |-> {}, arts |-> << >>, alog |-> << >>, evs |-> << >>]
RECURSIVE DStmts(_, _, _, _, _, _)
DStmts(body, f, i, chain, nout, acc) ==
  IF acc.err # "" \/ i > Len(body[f]) THEN acc
  ELSE LET s == body[f][i]
           next(a, no) == DStmts(body, f, i + 1, chain, no, a)
       IN CASE s.k = "lit"    -> next(acc, nout)
            [] s.k = "inc"    -> IF s.pos = "failMsg" THEN [acc EXCEPT !.err = "UserFail"] ELSE next(acc, nout)
            [] s.k = "assert" -> next([acc EXCEPT !.alog = Append(@, [af |-> f, ai |-> i, okay |-> s.r = "ok"])], nout)
            [] s.k = "rterr"  -> [acc EXCEPT !.err = "UserFail"]
            [] s.k = "tyerr"  -> [acc EXCEPT !.err = "TypeErr"]
            [] s.k = "out"    ->
                 IF nout >= 1 THEN [acc EXCEPT !.err = "TwoOuts"]
                 ELSE IF s.r = "bad" THEN [acc EXCEPT !.err = "Convert"]
                 ELSE next([acc EXCEPT !.arts = Append(@, [af |-> f, ext |-> ExtOf[s.tgt], ci |-> i])], 1)
            [] s.k = "imp"    ->
                 LET g == s.tgt
                     after(a) == IF a.err # "" THEN a
                                 ELSE IF s.pos = "failMsg" THEN [a EXCEPT !.err = "UserFail"]
                                 ELSE next(a, nout)
                 IN IF g \in acc.done THEN after(acc)
                    ELSE IF \E j \in 1..Len(chain) : chain[j] = g THEN [acc EXCEPT !.err = "ImportCycle"]
                    ELSE LET a2 == DStmts(body, g, 1, Append(chain, g), 0, [acc EXCEPT !.evs = Append(@, g)])
                         IN after(IF a2.err # "" THEN a2 ELSE [a2 EXCEPT !.done = @ \cup {g}])
Solo(body, f) ==
  LET sf == StaticFail(body, f)
  IN IF sf # {} THEN [okay |-> FALSE, clss |-> sf, arts |-> << >>, alog |-> << >>, tr |-> << >>]
     ELSE LET a == DStmts(body, f, 1, << >>, 0, Acc0)
          IN [okay |-> a.err = "", clss |-> IF a.err = "" THEN {} ELSE {a.err}, arts |-> a.arts, alog |-> a.alog,
              tr |-> << f >> \o a.evs]        \* the evaluations that start, in order (each prints its TRACE line)

(* ---- the disk ------------------------------------------------------------ *)
(* an artifact is [af, ext, c, ci]: named like file af with extension ext;   *)
(* content c = "pre" (left by somebody earlier), "out" (the conversion of    *)
(* the out statement ci of file af) or "empty" (created, nothing written)    *)
Art(af, ext, c, ci) == [af |-> af, ext |-> ext, c |-> c, ci |-> ci]
WriteArt(d, a) == { x \in d : ~(x.af = a.af /\ x.ext = a.ext) } \cup {a}
RECURSIVE ApplyArts(_, _)
ApplyArts(d, ws) == IF ws = << >> THEN d ELSE ApplyArts(WriteArt(d, Art(Head(ws).af, Head(ws).ext, "out", Head(ws).ci)), Tail(ws))
OwnPre(body, pre) ==      \* artifacts named like a file that has an out statement for that extension
  IF pre = "none" THEN {}
  ELSE UNION { { Art(f, ExtOf[s.tgt], "pre", 0) : s \in { t \in Stmts(body, f) : t.k = "out" } } : f \in F }

VARIABLES proj,        \* [lay, body, cmd, cwd, ord, pre] -- constant along a behaviour
          round,       \* 1..Repeat
          argi, cur,   \* index into the argument list, file being built
          st,          \* control: pick, ops, static, link, run, fin, done
          fetch,       \* the pending get_ops_for_path: [key, ctx] ctx in entry|link|import
          chk,         \* static checker frames [f, wd, pc, stk, err, key]
          pend, found, \* link_ops work list
          frames,      \* VM frames of file evaluations [f, key, base, pc, istk, kind, sub]
          perr,        \* error class that ended the current file ("" = none)
          opCache, valCache, shapeCache, outLock, asserts,   \* the Environment
          disk, diskPre, verdicts, exit,
          evalCount, importResult, outSnap, convFailed, epoch, past, fired, trlog   \* history
vars == << proj, round, argi, cur, st, fetch, chk, pend, found, frames, perr, opCache, valCache,
           shapeCache, outLock, asserts, disk, diskPre, verdicts, exit, evalCount, importResult,
           outSnap, convFailed, epoch, past, fired, trlog >>

Lay  == proj.lay
Body == proj.body
NoFetch == [key |-> << >>, ctx |-> ""]
FreshAsserts == [counter |-> 0, success |-> TRUE, summary |-> << >>]

TypeOKProject(p) ==
  /\ \A f, g \in F : f # g => FilePath(p.lay, f) # FilePath(p.lay, g)
  /\ \A f \in F : \A s \in Stmts(p.body, f) :
        /\ s.k \in {"imp", "inc"} => s.tgt \in F
        /\ s.k = "out" => (s.r = "bad" => s.tgt \in Failable)
  /\ \A i \in 1..Len(p.ord) : p.ord[i] \in F

InitSession ==
  /\ argi = 0 /\ cur = 0 /\ st = "pick" /\ fetch = NoFetch /\ chk = << >> /\ pend = << >> /\ found = {}
  /\ frames = << >> /\ perr = ""
  /\ opCache = {} /\ valCache = {} /\ shapeCache = {} /\ outLock = {} /\ asserts = FreshAsserts
  /\ verdicts = << >> /\ exit = -1
  /\ evalCount = [f \in F |-> 0] /\ importResult = {} /\ outSnap = {} /\ convFailed = FALSE /\ epoch = 0

Init ==
  /\ \E lay \in Layouts, body \in Bodies, cmd \in Cmds, cwd \in Cwds, ord \in Orders, pre \in Pres :
        proj = [lay |-> lay, body |-> body, cmd |-> cmd, cwd |-> cwd, ord |-> ord, pre |-> pre]
  /\ TypeOKProject(proj)
  /\ round = 1 /\ past = << >> /\ fired = {} /\ trlog = << >>
  /\ disk = OwnPre(proj.body, proj.pre) /\ diskPre = disk
  /\ InitSession

(* ---- helpers -------------------------------------------------------------- *)
Top == frames[Len(frames)]
SetTop(fr) == [frames EXCEPT ![Len(frames)] = fr]
CurStmt == Body[Top.f][Top.pc]
ImpStmts(f) == { s \in Stmts(Body, f) : s.k = "imp" }
(* the path string a hook receives: made absolute against the directory the
   ops were translated for, unless the walker never saw the expression *)
(* the link work list and the strings in the ops hold paths as the Rewriter left them *)
LinkForm(p) == IF Dev("RawPathKeys") THEN p ELSE Normalize(p)
RtPath(base, f, s) ==
  IF Dev("WalkerSkips") /\ WalkerBlind(s.pos) THEN Spell(Lay, f, s) ELSE LinkForm(base \o Spell(Lay, f, s))
(* the op cache is keyed by PathBuf: `/p/./b` and `/p/b` are one entry *)
OpFileOf(key) == IF \E e \in opCache : e.key = PKey(key) THEN (CHOOSE e \in opCache : e.key = PKey(key)).f ELSE 0
KeyForm(p) == IF Dev("RawPathKeys") THEN PKey(p) ELSE Normalize(p)
(* the link work list holds path STRINGS (translate.rs OpsMap.links, mod.rs found) *)
(* byte order of path strings, component by component: `..` < `.` (the byte after `.` is `/`
   resp. `.`), `.` < `/` < letters; names are single letters, directories p, q, s *)
Rank(c) == CASE c = ".." -> 1 [] c = "." -> 2 [] c = "/" -> 3
             [] c = "a" -> 11 [] c = "b" -> 12 [] c = "c" -> 13 [] c = "d" -> 14 [] c = "e" -> 15 [] c = "f" -> 16
             [] c = "g" -> 17 [] c = "h" -> 18 [] c = "p" -> 26 [] c = "q" -> 27 [] c = "s" -> 29 [] OTHER -> 40
RECURSIVE PathLess(_, _)
PathLess(p, q) == IF p = << >> THEN q # << >>
                  ELSE IF q = << >> THEN FALSE
                  ELSE IF Rank(Head(p)) # Rank(Head(q)) THEN Rank(Head(p)) < Rank(Head(q))
                  ELSE PathLess(Tail(p), Tail(q))
RECURSIVE SortedSeq(_)
SortedSeq(S) == IF S = {} THEN << >>
                ELSE LET m == CHOOSE x \in S : \A y \in S : y = x \/ PathLess(x, y)
                     IN << m >> \o SortedSeq(S \ {m})
OpRootOf(key) == (CHOOSE e \in opCache : e.key = PKey(key)).root     \* the directory the cached ops were translated for
LinksOf(root, g) == { RtPath(root, g, s) : s \in ImpStmts(g) }
EntryKey(f) == FilePath(Lay, f)        \* cwd.join(argument); the driver passes arguments that need no normalisation

(* static checker: index of the next statement the checker reacts to *)
Relevant(s) == s.k = "tyerr" \/ (s.k = "imp" /\ StaticVisible(s.pos))
RECURSIVE SkipTo(_, _)
SkipTo(f, i) == IF i > Len(Body[f]) THEN i ELSE IF Relevant(Body[f][i]) THEN i ELSE SkipTo(f, i + 1)
CFrame(f, wd, stk, key) == [f |-> f, wd |-> wd, pc |-> SkipTo(f, 1), stk |-> stk, err |-> "", key |-> key]
CTop == chk[Len(chk)]

VFrame(f, key, root, istk, kind) ==
  [f |-> f, key |-> key, base |-> root, pc |-> 1, istk |-> istk, kind |-> kind, sub |-> ""]

(* the file fails: every VM unwinds, FileBuilder::build returns Err *)
FailFile(cls) ==
  /\ frames' = << >> /\ chk' = << >> /\ fetch' = NoFetch /\ pend' = << >> /\ found' = {}
  /\ perr' = cls /\ st' = "fin"

(* get_ops_for_path succeeded for `fetch` (hit, or parsed + checked + translated) *)
FetchOk(g, root) ==
  CASE fetch.ctx = "entry" ->
         /\ st' = "link" /\ pend' = SortedSeq(LinksOf(root, g)) /\ found' = {}
         /\ fetch' = NoFetch /\ UNCHANGED << frames, perr, evalCount, epoch >>
    [] fetch.ctx = "link" ->
         /\ st' = "link" /\ found' = found \cup {fetch.key} /\ pend' = pend \o SortedSeq(LinksOf(root, g))
         /\ fetch' = NoFetch /\ UNCHANGED << frames, perr, evalCount, epoch >>
    [] OTHER ->   \* import: VM::with_pointer(...).with_import_stack(import_stack.clone()); vm.run
         /\ st' = "run" /\ fetch' = NoFetch
         /\ frames' = Append(frames, VFrame(g, fetch.key, root,
                               IF Dev("PushAfterCompletion") THEN Top.istk ELSE Append(Top.istk, fetch.key),
                               "import"))
         /\ evalCount' = [evalCount EXCEPT ![g] = @ + 1] /\ epoch' = epoch + 1
         /\ UNCHANGED << pend, found, perr >>

-----------------------------------------------------------------------------
(* ---- main.rs: the argument loop ------------------------------------------ *)
NextFile ==                       \* silent
  /\ st = "pick" /\ argi < Len(proj.ord) /\ cur = 0
  /\ argi' = argi + 1 /\ cur' = proj.ord[argi + 1]
  /\ UNCHANGED << proj, round, st, fetch, chk, pend, found, frames, perr, opCache, valCache, shapeCache,
                  outLock, asserts, disk, diskPre, verdicts, exit, evalCount, importResult, outSnap,
                  convFailed, epoch, past >>

BeginFile ==                      \* event file_begin: FileBuilder::build entered
  /\ st = "pick" /\ cur # 0
  /\ st' = "ops" /\ fetch' = [key |-> EntryKey(cur), ctx |-> "entry"]
  /\ diskPre' = disk /\ perr' = ""
  /\ asserts' = IF Dev("SharedAsserts") THEN asserts ELSE FreshAsserts
  /\ outLock' = IF Dev("OutLockNeverReset") THEN outLock ELSE outLock \ {EntryKey(cur)}
  /\ evalCount' = [f \in F |-> 0] /\ importResult' = {} /\ convFailed' = FALSE /\ outSnap' = disk
  /\ UNCHANGED << proj, round, argi, cur, chk, pend, found, frames, opCache, valCache, shapeCache, disk,
                  verdicts, exit, epoch, past >>

(* ---- environment.rs get_ops_for_path -------------------------------------- *)
OpsHit ==                         \* event ops_cache{hit:true}
  /\ st \in {"ops", "link"} /\ fetch.ctx # "" /\ OpFileOf(fetch.key) # 0
  /\ FetchOk(OpFileOf(fetch.key), OpRootOf(fetch.key))
  /\ UNCHANGED << proj, round, argi, cur, chk, opCache, valCache, shapeCache, outLock, asserts, disk, diskPre,
                  verdicts, exit, importResult, outSnap, convFailed, past >>

OpsMiss ==                        \* event ops_cache{hit:false}: open, parse, start the checker
  /\ st \in {"ops", "link"} /\ fetch.ctx # "" /\ OpFileOf(fetch.key) = 0
  /\ LET g == FileAt(Lay, OSResolve(proj.cwd, fetch.key))
     IN IF g = 0
        THEN /\ FailFile(IF Len(fetch.key) > MaxPath THEN "NameTooLong" ELSE "NotFound")
             /\ UNCHANGED << opCache >>
        ELSE /\ chk' = << CFrame(g, Parent(fetch.key), << >>, fetch.key) >> /\ st' = "static"
             /\ UNCHANGED << fetch, pend, found, frames, perr, opCache >>
  /\ UNCHANGED << proj, round, argi, cur, valCache, shapeCache, outLock, asserts, disk, diskPre, verdicts, exit,
                  evalCount, importResult, outSnap, convFailed, epoch, past >>

(* ---- typecheck/mod.rs: Checker walk with resolve_import ------------------- *)
StaticUnch == << proj, round, argi, cur, valCache, outLock, asserts, disk, diskPre, verdicts, exit,
                 importResult, outSnap, convFailed, past >>
Advance(fr) == [fr EXCEPT !.pc = SkipTo(fr.f, fr.pc + 1)]
SetCTop(fr) == [chk EXCEPT ![Len(chk)] = fr]
AtStatic == st = "static" /\ chk # << >> /\ CTop.pc <= Len(Body[CTop.f])
SKeyOf(fr) == KeyForm(fr.wd \o Spell(Lay, fr.f, Body[fr.f][fr.pc]))      \* working_dir.join(path)

StaticTyErr ==                    \* silent: a statement the checker rejects; the first error is the one reported
  /\ AtStatic /\ Body[CTop.f][CTop.pc].k = "tyerr"
  /\ chk' = SetCTop(Advance([CTop EXCEPT !.err = IF @ = "" THEN "TypeErr" ELSE @]))
  /\ UNCHANGED << st, fetch, pend, found, frames, perr, opCache, shapeCache, evalCount, epoch >>
  /\ UNCHANGED StaticUnch

StaticHit ==                      \* event shape_cache{hit:true}
  /\ AtStatic /\ Body[CTop.f][CTop.pc].k = "imp" /\ SKeyOf(CTop) \in shapeCache
  /\ chk' = SetCTop(Advance(CTop))
  /\ UNCHANGED << st, fetch, pend, found, frames, perr, opCache, shapeCache, evalCount, epoch >>
  /\ UNCHANGED StaticUnch

StaticCycle ==                    \* event static_cycle: the path is being resolved further up
  /\ AtStatic /\ Body[CTop.f][CTop.pc].k = "imp" /\ SKeyOf(CTop) \notin shapeCache
  /\ \E j \in 1..Len(CTop.stk) : CTop.stk[j] = SKeyOf(CTop)
  /\ chk' = SetCTop(Advance([CTop EXCEPT !.err = IF @ = "" THEN "ImportCycle" ELSE @]))
  /\ UNCHANGED << st, fetch, pend, found, frames, perr, opCache, shapeCache, evalCount, epoch >>
  /\ UNCHANGED StaticUnch

StaticBegin ==                    \* event shape_cache{hit:false}: read, parse, check with a child Checker
  /\ AtStatic /\ Body[CTop.f][CTop.pc].k = "imp" /\ SKeyOf(CTop) \notin shapeCache
  /\ ~ \E j \in 1..Len(CTop.stk) : CTop.stk[j] = SKeyOf(CTop)
  /\ LET k == SKeyOf(CTop)
         g == FileAt(Lay, OSResolve(proj.cwd, k))
     IN IF g = 0
        THEN chk' = SetCTop(Advance(CTop))          \* unreadable: stays Unresolved, no error
        ELSE chk' = Append(chk, CFrame(g, Parent(k), Append(CTop.stk, k), k))
  /\ UNCHANGED << st, fetch, pend, found, frames, perr, opCache, shapeCache, evalCount, epoch >>
  /\ UNCHANGED StaticUnch

StaticEnd ==                      \* silent: a Checker finished its statement list
  /\ st = "static" /\ chk # << >> /\ CTop.pc > Len(Body[CTop.f])
  /\ IF Len(chk) > 1
     THEN LET par == chk[Len(chk) - 1]
              rest == SubSeq(chk, 1, Len(chk) - 1)
          IN /\ IF CTop.err = ""
                THEN /\ shapeCache' = shapeCache \cup {CTop.key}           \* only successes are cached
                     /\ chk' = [rest EXCEPT ![Len(rest)] = Advance(par)]
                ELSE /\ shapeCache' = shapeCache
                     /\ chk' = [rest EXCEPT ![Len(rest)] = Advance([par EXCEPT !.err = IF @ = "" THEN CTop.err ELSE @])]
             /\ UNCHANGED << st, fetch, pend, found, frames, perr, opCache, evalCount, epoch >>
     ELSE IF CTop.err = ""
          THEN /\ opCache' = opCache \cup {[key |-> PKey(fetch.key), f |-> CTop.f, root |-> Parent(fetch.key)]}
               /\ chk' = << >> /\ shapeCache' = shapeCache
               /\ FetchOk(CTop.f, Parent(fetch.key))
          ELSE /\ FailFile(CTop.err)
               /\ UNCHANGED << opCache, shapeCache, evalCount, epoch >>
  /\ UNCHANGED StaticUnch

(* ---- build/mod.rs link_ops -------------------------------------------------- *)
(* links: a BTreeMap of path strings, pushed in ascending order on a Vec that is popped *)
(* from its end; the links of a freshly fetched file are pushed on top (depth first)     *)
Link ==                           \* silent: pop the next link; its ops_cache event follows
  /\ st = "link" /\ fetch.ctx = "" /\ pend # << >> /\ pend[Len(pend)] \notin found
  /\ fetch' = [key |-> pend[Len(pend)], ctx |-> "link"]
  /\ pend' = SubSeq(pend, 1, Len(pend) - 1)
  /\ UNCHANGED << proj, round, argi, cur, st, chk, found, frames, perr, opCache, valCache, shapeCache,
                  outLock, asserts, disk, diskPre, verdicts, exit, evalCount, importResult, outSnap,
                  convFailed, epoch, past >>

LinkSkip ==                       \* silent: `if found.contains(&link) { continue; }`
  /\ st = "link" /\ fetch.ctx = "" /\ pend # << >> /\ pend[Len(pend)] \in found
  /\ pend' = SubSeq(pend, 1, Len(pend) - 1)
  /\ UNCHANGED << proj, round, argi, cur, st, fetch, chk, found, frames, perr, opCache, valCache, shapeCache,
                  outLock, asserts, disk, diskPre, verdicts, exit, evalCount, importResult, outSnap,
                  convFailed, epoch, past >>

LinkDone ==                       \* silent: everything linked, the entry VM starts (eval_ops)
  /\ st = "link" /\ fetch.ctx = "" /\ pend = << >>
  /\ st' = "run" /\ frames' = << VFrame(cur, EntryKey(cur), OpRootOf(EntryKey(cur)), << >>, "entry") >>
  /\ found' = {}
  /\ UNCHANGED << proj, round, argi, cur, fetch, chk, pend, perr, opCache, valCache, shapeCache, outLock, asserts, disk,
                  diskPre, verdicts, exit, evalCount, importResult, outSnap, convFailed, epoch, past >>

(* ---- the VM of one file, statement by statement ------------------------------ *)
Running == st = "run" /\ frames # << >> /\ fetch.ctx = ""
AtStmt(k) == Running /\ Top.pc <= Len(Body[Top.f]) /\ CurStmt.k = k
RunUnch == << proj, round, argi, cur, chk, pend, found, opCache, shapeCache, diskPre, verdicts, exit, past >>
Step(fr) == [fr EXCEPT !.pc = @ + 1, !.sub = ""]

StmtStep ==                       \* silent: a statement without a session effect
  /\ Running /\ Top.pc <= Len(Body[Top.f]) /\ CurStmt.k = "lit"
  /\ frames' = SetTop(Step(Top))
  /\ UNCHANGED << st, fetch, perr, valCache, outLock, asserts, disk, evalCount, importResult, outSnap, convFailed, epoch >>
  /\ UNCHANGED RunUnch

StmtErr ==                        \* silent: the statement raises; every frame unwinds
  /\ Running /\ Top.pc <= Len(Body[Top.f])
  /\ \/ CurStmt.k \in {"rterr", "tyerr"}
     \/ CurStmt.k = "imp" /\ CurStmt.pos = "failMsg" /\ Top.sub = "got"
  /\ FailFile(IF CurStmt.k = "tyerr" THEN "TypeErr" ELSE "UserFail")
  /\ UNCHANGED << valCache, outLock, asserts, disk, evalCount, importResult, outSnap, convFailed, epoch >>
  /\ UNCHANGED << proj, round, argi, cur, opCache, shapeCache, diskPre, verdicts, exit, past >>

(* runtime.rs:97-159 *)
ImpNorm == Normalize(RtPath(Top.base, Top.f, CurStmt))
ImpWant == AtStmt("imp") /\ Top.sub = ""
ValOf(n) == CHOOSE e \in valCache : e.key = n
Cached(n) == \E e \in valCache : e.key = n
AfterImport(fr) == IF CurStmt.pos = "failMsg" THEN [fr EXCEPT !.sub = "got"] ELSE Step(fr)
Note(n, g, ep, how) == [af |-> Top.f, ai |-> Top.pc, tgt |-> CurStmt.tgt, got |-> g, ep |-> ep, how |-> how]

ImportHit ==                      \* event import{res:hit}: value cache, returns before the stack is touched
  /\ ImpWant /\ Cached(ImpNorm)
  /\ frames' = SetTop(AfterImport(Top))
  /\ importResult' = importResult \cup {Note(ImpNorm, ValOf(ImpNorm).f, ValOf(ImpNorm).ep, "hit")}
  /\ UNCHANGED << st, fetch, perr, valCache, outLock, asserts, disk, evalCount, outSnap, convFailed, epoch >>
  /\ UNCHANGED RunUnch

ImportCycle ==                    \* event import{res:cycle}
  /\ ImpWant /\ ~Cached(ImpNorm) /\ \E j \in 1..Len(Top.istk) : Top.istk[j] = ImpNorm
  /\ FailFile("ImportCycle")
  /\ UNCHANGED << valCache, outLock, asserts, disk, evalCount, importResult, outSnap, convFailed, epoch >>
  /\ UNCHANGED << proj, round, argi, cur, opCache, shapeCache, diskPre, verdicts, exit, past >>

ImportBegin ==                    \* event import{res:eval}; the ops_cache event of the fetch follows
  /\ ImpWant /\ ~Cached(ImpNorm) /\ ~ \E j \in 1..Len(Top.istk) : Top.istk[j] = ImpNorm
  /\ Len(frames) <= NF + 2        \* beyond that the real stack is gone: Crash
  /\ fetch' = [key |-> ImpNorm, ctx |-> "import"] /\ st' = "ops"
  /\ frames' = SetTop([Top EXCEPT !.sub = "eval"])
  /\ outLock' = IF Dev("OutLockNeverReset") THEN outLock ELSE outLock \ {ImpNorm}
  /\ UNCHANGED << perr, valCache, asserts, disk, evalCount, importResult, outSnap, convFailed, epoch >>
  /\ UNCHANGED RunUnch

Crash ==                          \* unbounded recursion: the process dies (stack overflow, SIGABRT)
  /\ ImpWant /\ ~Cached(ImpNorm) /\ ~ \E j \in 1..Len(Top.istk) : Top.istk[j] = ImpNorm
  /\ Len(frames) > NF + 2
  /\ exit' = 134 /\ st' = "done" /\ frames' = << >>
  /\ UNCHANGED << proj, round, argi, cur, fetch, chk, pend, found, perr, opCache, valCache, shapeCache, outLock,
                  asserts, disk, diskPre, verdicts, evalCount, importResult, outSnap, convFailed, epoch, past >>

ImportEnd ==                      \* event import_done: bindings cached, path pushed on the importer's stack
  /\ Running /\ Top.pc > Len(Body[Top.f]) /\ Top.kind = "import"
  /\ LET child == Top
         rest  == SubSeq(frames, 1, Len(frames) - 1)
         par   == rest[Len(rest)]
         ps    == Body[par.f][par.pc]
         par2  == [par EXCEPT !.istk = Append(@, child.key)]
     IN /\ valCache' = valCache \cup {[key |-> child.key, f |-> child.f, ep |-> epoch]}
        /\ frames' = [rest EXCEPT ![Len(rest)] = IF ps.pos = "failMsg" THEN [par2 EXCEPT !.sub = "got"] ELSE Step(par2)]
        /\ importResult' = importResult \cup {[af |-> par.f, ai |-> par.pc, tgt |-> ps.tgt, got |-> child.f, ep |-> epoch, how |-> "eval"]}
  /\ UNCHANGED << st, fetch, perr, outLock, asserts, disk, evalCount, outSnap, convFailed, epoch >>
  /\ UNCHANGED RunUnch

(* runtime.rs:161-228 *)
Include ==                        \* event include{okay}
  /\ AtStmt("inc")
  /\ LET p == RtPath(Top.base, Top.f, CurStmt)
         g == DataAt(Lay, OSResolve(proj.cwd, p))
     IN /\ importResult' = importResult \cup {[af |-> Top.f, ai |-> Top.pc, tgt |-> CurStmt.tgt, got |-> g, ep |-> 0, how |-> "inc"]}
        /\ IF g = 0 \/ CurStmt.pos = "failMsg"        \* unreadable, or read for the message of a fail
           THEN FailFile(IF g = 0 THEN "NotFound" ELSE "UserFail")
           ELSE /\ frames' = SetTop(Step(Top))
                /\ UNCHANGED << st, fetch, perr, chk, pend, found >>
  /\ UNCHANGED << valCache, outLock, asserts, disk, evalCount, outSnap, convFailed, epoch >>
  /\ UNCHANGED << proj, round, argi, cur, opCache, shapeCache, diskPre, verdicts, exit, past >>

(* runtime.rs:230-286 + build/mod.rs:73-84 *)
AssertRecord ==                   \* event assert{idx,okay,wellformed}
  /\ AtStmt("assert")
  /\ asserts' = [counter |-> asserts.counter + 1,
                 success |-> asserts.success /\ CurStmt.r = "ok",
                 summary |-> Append(asserts.summary, [af |-> Top.f, ai |-> Top.pc, okay |-> CurStmt.r = "ok"])]
  /\ frames' = SetTop(Step(Top))
  /\ UNCHANGED << st, fetch, perr, valCache, outLock, disk, evalCount, importResult, outSnap, convFailed, epoch >>
  /\ UNCHANGED RunUnch

(* runtime.rs:288-353 *)
ArtOf(fr, s) == Art(fr.f, ExtOf[s.tgt], "out", fr.pc)
OutLock ==                        \* event out_lock{already}: test and set on the path of the evaluation
  /\ AtStmt("out") /\ Top.sub = ""
  /\ IF Top.key \in outLock
     THEN /\ FailFile("TwoOuts") /\ UNCHANGED << outLock, outSnap >>
     ELSE /\ outLock' = outLock \cup {Top.key} /\ outSnap' = disk
          /\ frames' = SetTop([Top EXCEPT !.sub = "locked"])
          /\ UNCHANGED << st, fetch, perr, chk, pend, found >>
  /\ UNCHANGED << valCache, asserts, disk, evalCount, importResult, convFailed, epoch >>
  /\ UNCHANGED << proj, round, argi, cur, opCache, shapeCache, diskPre, verdicts, exit, past >>

OutCreate ==                      \* event out_create: <source>.with_extension(ext) created / truncated
  /\ AtStmt("out") /\ Top.sub = "locked"
  /\ CurStmt.r = "ok" \/ Dev("CreateBeforeConvert")
  /\ disk' = WriteArt(disk, Art(Top.f, ExtOf[CurStmt.tgt], "empty", Top.pc))
  /\ frames' = SetTop([Top EXCEPT !.sub = "created"])
  /\ UNCHANGED << st, fetch, perr, valCache, outLock, asserts, evalCount, importResult, outSnap, convFailed, epoch >>
  /\ UNCHANGED RunUnch

OutWriteOk ==                     \* event out_done{okay:true}
  /\ AtStmt("out") /\ Top.sub = "created" /\ CurStmt.r = "ok"
  /\ disk' = WriteArt(disk, ArtOf(Top, CurStmt))
  /\ frames' = SetTop(Step(Top))
  /\ UNCHANGED << st, fetch, perr, valCache, outLock, asserts, evalCount, importResult, outSnap, convFailed, epoch >>
  /\ UNCHANGED RunUnch

OutWriteFail ==                   \* event out_done{okay:false}: the converter rejects the value
  /\ AtStmt("out") /\ CurStmt.r = "bad"
  /\ Top.sub = IF Dev("CreateBeforeConvert") THEN "created" ELSE "locked"
  /\ FailFile("Convert") /\ convFailed' = TRUE
  /\ UNCHANGED << valCache, outLock, asserts, disk, evalCount, importResult, outSnap, epoch >>
  /\ UNCHANGED << proj, round, argi, cur, opCache, shapeCache, diskPre, verdicts, exit, past >>

(* ---- end of a file, end of the process ----------------------------------------- *)
Changed(d0, d1) == { a \in d1 : a \notin d0 } \cup { a \in d0 : a \notin d1 }
RunDone ==                        \* silent: the entry VM ran off its last statement
  /\ Running /\ Top.pc > Len(Body[Top.f]) /\ Top.kind = "entry"
  /\ frames' = << >> /\ st' = "fin"
  /\ UNCHANGED << proj, round, argi, cur, fetch, chk, pend, found, perr, opCache, valCache, shapeCache, outLock,
                  asserts, disk, diskPre, verdicts, exit, evalCount, importResult, outSnap, convFailed, epoch, past >>

EndFile ==                        \* event file_end{okay}: main.rs prints the verdict of this file
  /\ st = "fin" /\ cur # 0
  /\ LET okb == perr = ""
         res == IF proj.cmd = "test"
                THEN (IF ~okb THEN "err" ELSE IF asserts.success THEN "pass" ELSE "fail")
                ELSE (IF okb THEN "ok" ELSE "fail")
     IN verdicts' = Append(verdicts, [f |-> cur, res |-> res, cls |-> perr,
                                      alog |-> IF okb /\ proj.cmd = "test" THEN asserts.summary ELSE << >>,
                                      d0 |-> diskPre, d1 |-> disk, tr |-> trlog, imps |-> importResult])
  /\ st' = "pick" /\ cur' = 0
  /\ UNCHANGED << proj, round, argi, fetch, chk, pend, found, frames, perr, opCache, valCache, shapeCache, outLock,
                  asserts, disk, diskPre, exit, evalCount, importResult, outSnap, convFailed, epoch, past >>

Failed(v) == v.res \in {"fail", "err"}
Exit ==                           \* silent: process::exit
  /\ st = "pick" /\ cur = 0 /\ argi = Len(proj.ord)
  /\ exit' = IF \E i \in 1..Len(verdicts) : Failed(verdicts[i]) THEN 1 ELSE 0
  /\ st' = "done"
  /\ UNCHANGED << proj, round, argi, cur, fetch, chk, pend, found, frames, perr, opCache, valCache, shapeCache,
                  outLock, asserts, disk, diskPre, verdicts, evalCount, importResult, outSnap, convFailed, epoch, past >>

Restart ==                        \* the same invocation again: a fresh process on the disk as it is now
  /\ st = "done" /\ round < Repeat /\ exit # 134
  /\ round' = round + 1
  /\ past' = Append(past, [verdicts |-> verdicts, exit |-> exit, disk |-> disk])
  /\ argi' = 0 /\ cur' = 0 /\ st' = "pick" /\ fetch' = NoFetch /\ chk' = << >> /\ pend' = << >> /\ found' = {}
  /\ frames' = << >> /\ perr' = ""
  /\ opCache' = {} /\ valCache' = {} /\ shapeCache' = {} /\ outLock' = {} /\ asserts' = FreshAsserts
  /\ verdicts' = << >> /\ exit' = -1
  /\ evalCount' = [f \in F |-> 0] /\ importResult' = {} /\ outSnap' = {} /\ convFailed' = FALSE /\ epoch' = 0
  /\ diskPre' = disk
  /\ UNCHANGED << proj, disk >>

Static == StaticTyErr \/ StaticHit \/ StaticCycle \/ StaticBegin \/ StaticEnd
StaticResolve == Static
CoreNext ==
  \/ NextFile \/ BeginFile \/ OpsHit \/ OpsMiss \/ Static
  \/ Link \/ LinkSkip \/ LinkDone
  \/ StmtStep \/ StmtErr \/ ImportHit \/ ImportCycle \/ ImportBegin \/ Crash \/ ImportEnd \/ Include
  \/ AssertRecord \/ OutLock \/ OutCreate \/ OutWriteOk \/ OutWriteFail
  \/ RunDone \/ EndFile \/ Exit \/ Restart

(* history: which deviations took a branch the design would not have taken (a   *)
(* function of the current state: the machine is deterministic)                 *)
FiredNow ==
  LET beginFile == st = "pick" /\ cur # 0
      impBegin  == ImpWant /\ ~Cached(ImpNorm) /\ ~ \E j \in 1..Len(Top.istk) : Top.istk[j] = ImpNorm
      blindStmt == Running /\ Top.pc <= Len(Body[Top.f]) /\ CurStmt.k \in {"imp", "inc"} /\ Top.sub = ""
                   /\ WalkerBlind(CurStmt.pos)
  IN  (IF Dev("SharedAsserts") /\ beginFile /\ asserts # FreshAsserts THEN {"SharedAsserts"} ELSE {})
 \cup (IF Dev("OutLockNeverReset") /\ ((beginFile /\ EntryKey(cur) \in outLock) \/ (impBegin /\ ImpNorm \in outLock))
      THEN {"OutLockNeverReset"} ELSE {})
 \cup (IF Dev("CreateBeforeConvert") /\ AtStmt("out") /\ Top.sub = "locked" /\ CurStmt.r = "bad"
      THEN {"CreateBeforeConvert"} ELSE {})
 \cup (IF Dev("PushAfterCompletion") /\ impBegin
         /\ \E j \in 1..Len(frames) : frames[j].kind = "import" /\ frames[j].key = ImpNorm
      THEN {"PushAfterCompletion"} ELSE {})
 \cup (IF Dev("WalkerSkips") /\ ((blindStmt /\ ~IsAbs(RtPath(Top.base, Top.f, CurStmt)))
                                 \/ (fetch.ctx # "" /\ ~IsAbs(fetch.key)))
      THEN {"WalkerSkips"} ELSE {})
 \cup (IF Dev("RawPathKeys") /\ ((AtStatic /\ Body[CTop.f][CTop.pc].k = "imp"
                                   /\ SKeyOf(CTop) # Normalize(SKeyOf(CTop)))
                                 \/ (fetch.ctx = "link" /\ PKey(fetch.key) # Normalize(fetch.key)))
      THEN {"RawPathKeys"} ELSE {})
Hist ==
  /\ fired' = fired \cup FiredNow
  /\ trlog' = CASE (st = "pick" /\ cur # 0) \/ st = "done" -> << >>
                 [] st = "link" /\ st' = "run" -> << cur >>
                 [] \E g \in F : evalCount'[g] = evalCount[g] + 1 ->
                        Append(trlog, CHOOSE g \in F : evalCount'[g] = evalCount[g] + 1)
                 [] OTHER -> trlog
(* one named next-state action per action of the machine (TLC reports coverage per name) *)
N_NextFile == NextFile /\ Hist
N_BeginFile == BeginFile /\ Hist
N_OpsHit == OpsHit /\ Hist
N_OpsMiss == OpsMiss /\ Hist
N_StaticTyErr == StaticTyErr /\ Hist
N_StaticHit == StaticHit /\ Hist
N_StaticCycle == StaticCycle /\ Hist
N_StaticBegin == StaticBegin /\ Hist
N_StaticEnd == StaticEnd /\ Hist
N_LinkDone == LinkDone /\ Hist
N_StmtStep == StmtStep /\ Hist
N_StmtErr == StmtErr /\ Hist
N_ImportHit == ImportHit /\ Hist
N_ImportCycle == ImportCycle /\ Hist
N_ImportBegin == ImportBegin /\ Hist
N_Crash == Crash /\ Hist
N_ImportEnd == ImportEnd /\ Hist
N_Include == Include /\ Hist
N_AssertRecord == AssertRecord /\ Hist
N_OutLock == OutLock /\ Hist
N_OutCreate == OutCreate /\ Hist
N_OutWriteOk == OutWriteOk /\ Hist
N_OutWriteFail == OutWriteFail /\ Hist
N_RunDone == RunDone /\ Hist
N_EndFile == EndFile /\ Hist
N_Exit == Exit /\ Hist
N_Restart == Restart /\ Hist
N_Link == Link /\ Hist
N_LinkSkip == LinkSkip /\ Hist
Next ==
  \/ N_NextFile \/ N_BeginFile \/ N_OpsHit \/ N_OpsMiss \/ N_StaticTyErr \/ N_StaticHit
  \/ N_StaticCycle \/ N_StaticBegin \/ N_StaticEnd \/ N_LinkDone \/ N_StmtStep \/ N_StmtErr
  \/ N_ImportHit \/ N_ImportCycle \/ N_ImportBegin \/ N_Crash \/ N_ImportEnd \/ N_Include
  \/ N_AssertRecord \/ N_OutLock \/ N_OutCreate \/ N_OutWriteOk \/ N_OutWriteFail \/ N_RunDone
  \/ N_EndFile \/ N_Exit \/ N_Restart
  \/ N_Link \/ N_LinkSkip

Spec == Init /\ [][Next]_vars

-----------------------------------------------------------------------------
(* ---- what is checked ---------------------------------------------------------- *)
(* Invariants about a verdict are evaluated in the state right after EndFile    *)
(* appended it (every verdict passes through that state exactly once).          *)
JustEnded == st = "pick" /\ cur = 0 /\ verdicts # << >>
LastV == verdicts[Len(verdicts)]

(* C09: an import/include names the file relative to the directory of the file
   that contains the expression, wherever the expression sits, whatever the cwd *)
ResolveRelToFile == \A r \in importResult : r.got = r.tgt

(* C09: one evaluation per build, however often and however spelled *)
EvalOnce == \A f \in F : evalCount[f] <= 1

(* C09: the first build of a process evaluates exactly the files the denotation
   evaluates, in that order, each once (later builds of a batch legitimately reuse
   imported values: what they evaluate is a sub-sequence) *)
EvalOrder ==
  (JustEnded /\ Len(verdicts) = 1) =>
      LET s == Solo(Body, LastV.f) IN Cardinality(s.clss) <= 1 => LastV.tr = s.tr

(* C09: every import of a file within a build yields one and the same value *)
SameValue == \A r1, r2 \in importResult :
                (r1.how # "inc" /\ r2.how # "inc" /\ r1.tgt = r2.tgt) => (r1.got = r2.got /\ r1.ep = r2.ep)

(* C09: a chain that re-enters a file being imported ends in the diagnostic,
   never in unbounded recursion *)
CyclicFrom(f) == \E x \in ReachStar(f, AllE(Body)) : x \in ReachPlus(x, AllE(Body))
CycleIsDiagnostic ==
  /\ Len(frames) <= NF + 2
  /\ exit # 134
  /\ JustEnded =>
        LET v == LastV
        IN /\ CyclicFrom(v.f) => Failed(v)
           /\ Solo(Body, v.f).clss = {"ImportCycle"} => (Failed(v) /\ v.cls = "ImportCycle")

(* C13 *)
SoloPass(f) == LET s == Solo(Body, f) IN s.okay /\ \A j \in 1..Len(s.alog) : s.alog[j].okay
SoloOkOrPass(f) == IF proj.cmd = "test" THEN SoloPass(f) ELSE Solo(Body, f).okay
VerdictIffAsserts ==
  (proj.cmd = "test" /\ JustEnded) => ((LastV.res = "pass") <=> SoloPass(LastV.f))
ExitIffFail ==
  (st = "done" /\ exit # 134) => ((exit = 1) <=> \E i \in 1..Len(verdicts) : ~SoloOkOrPass(verdicts[i].f))
EachAssertOnce ==
  (proj.cmd = "test" /\ JustEnded) =>
      LET v == LastV s == Solo(Body, v.f)
      IN (s.okay /\ v.res \in {"pass", "fail"}) =>
            /\ Len(v.alog) = Len(s.alog)
            /\ \A j \in 1..Len(s.alog) : v.alog[j].af = s.alog[j].af /\ v.alog[j].ai = s.alog[j].ai
                                         /\ v.alog[j].okay = s.alog[j].okay

(* C14 *)
OutCount(f) == Cardinality({ i \in 1..Len(Body[f]) : Body[f][i].k = "out" })
NoImports(f) == ImpStmts(f) = {}
OneArtifact ==      \* one convertible out and nothing else that writes: exactly that artifact changes
  JustEnded =>
     LET v == LastV s == Solo(Body, v.f)
     IN (NoImports(v.f) /\ s.okay /\ OutCount(v.f) = 1) =>
          LET o == CHOOSE j \in 1..Len(Body[v.f]) : Body[v.f][j].k = "out"
              a == Art(v.f, ExtOf[Body[v.f][o].tgt], "out", o)
          IN /\ a \in v.d1
             /\ \A x \in v.d1 : x \notin v.d0 => x = a
             /\ \A x \in v.d0 : x \notin v.d1 => (x.af = a.af /\ x.ext = a.ext)
SecondOutIsError ==
  JustEnded =>
     LET v == LastV
     IN (NoImports(v.f) /\ Solo(Body, v.f).clss = {"TwoOuts"}) => (Failed(v) /\ v.cls = "TwoOuts")
AllOrNothing == convFailed => disk = outSnap

(* C16 (and the batch half of C13): every file of the batch ends as it does alone *)
BatchEqualsSolo ==
  JustEnded =>
     LET v == LastV s == Solo(Body, v.f)
     IN /\ Failed(v) <=> ~SoloOkOrPass(v.f)
        /\ (~s.okay) => (v.res \in {"fail", "err"} /\ v.cls \in s.clss)
        /\ v.d1 = ApplyArts(v.d0, s.arts)

(* ---- emission for replay against the ucg binary --------------------------------- *)
(* expect = what the properties demand (the denotation, folded over the argument   *)
(* list and the repetitions); got = what this machine did (equal to expect when     *)
(* Deviations = {}, the code's predicted misbehaviour otherwise)                    *)
RECURSIVE ExpectFiles(_, _, _)
ExpectFiles(ord, i, d) ==
  IF i > Len(ord) THEN << >>
  ELSE LET f == ord[i]
           s == Solo(Body, f)
           d2 == ApplyArts(d, s.arts)
       IN << [f |-> f, okay |-> s.okay, clss |-> s.clss, alog |-> s.alog, pass |-> SoloPass(f), disk |-> d2, tr |-> s.tr] >>
          \o ExpectFiles(ord, i + 1, d2)
RECURSIVE ExpectRounds(_, _)
ExpectRounds(r, d) ==
  IF r > Repeat THEN << >>
  ELSE LET fs == ExpectFiles(proj.ord, 1, d)
           d2 == IF fs = << >> THEN d ELSE fs[Len(fs)].disk
       IN << [files |-> fs, disk |-> d2,
              exit |-> IF \E i \in 1..Len(fs) : ~SoloOkOrPass(fs[i].f) THEN 1 ELSE 0] >> \o ExpectRounds(r + 1, d2)
GotRound(vs, ex, d) ==
  [files |-> [i \in 1..Len(vs) |-> [f |-> vs[i].f, res |-> vs[i].res, cls |-> vs[i].cls, alog |-> vs[i].alog,
                                     disk |-> vs[i].d1, tr |-> vs[i].tr, imps |-> vs[i].imps]],
   exit |-> ex, disk |-> d]
Finished == st = "done" /\ (round = Repeat \/ exit = 134)
Case ==
  [nf |-> NF, lay |-> proj.lay, body |-> proj.body, cmd |-> proj.cmd, cwd |-> proj.cwd, ord |-> proj.ord,
   pre |-> proj.pre, disk0 |-> OwnPre(proj.body, proj.pre), repeat |-> Repeat,
   devs |-> Deviations, fired |-> fired,
   expect |-> ExpectRounds(1, OwnPre(proj.body, proj.pre)),
   got |-> [i \in 1..Len(past) |-> GotRound(past[i].verdicts, past[i].exit, past[i].disk)]
           \o << GotRound(verdicts, exit, disk) >>]
Emit == (EmitOn /\ Finished) => PrintT(<< "REPLAY", ToJson(Case) >>)
=============================================================================
