--------------------------------- MODULE VM ---------------------------------
(* The stack machine of src/build/opcode/{vm.rs,runtime.rs,pointer.rs,        *)
(* scope.rs}: one step per executed opcode, nested VMs (function calls,       *)
(* format scopes, module bodies and out-thunks, map/filter/reduce hooks) as a *)
(* stack of frames.  Written at the code's grain: handlers pop and push in    *)
(* the order the Rust code does, values on the stack carry the position the   *)
(* code attaches to them (`p` = top-level statement index), and every         *)
(* unwrap()/unreachable!()/panic!("BUG") that the translator's invariants are *)
(* supposed to rule out is an explicit Panic(site) outcome.                   *)
(*                                                                            *)
(* VM values: Values.tla plus                                                 *)
(*   [t|->"sym",nm]  [t|->"thunk",at]                                         *)
(*   [t|->"func",at,ps,snap]      at = index of the Func op, ps reversed      *)
(*   [t|->"module",at,res,flds]   res = << >> or << index of InitThunk >>     *)
(* Stack entries are [v, p].  Symbol tables are sequences of [nm, val, p]     *)
(* with unique names (scope.rs is a BTreeMap; name order is applied on export) *)
EXTENDS Translate

(* Named deviations of the code from the design (DESIGN §8.1).  A machine      *)
(* carries the set `devs` it runs under:                                       *)
(*  "TupleEqUnordered"    Value::eq compares tuples as unordered maps          *)
(*                        (reference: same fields in the same order)           *)
(*  "AndOrRightUnchecked" the right operand of && / || is not required to be   *)
(*                        boolean (reference: both sides must be boolean)      *)
(* With devs = {} VM.tla is the machine the design intends and must agree     *)
(* with Eval.tla; with the deviations on it reproduces what the code does, so  *)
(* that recorded traces of the real VM are accepted everywhere else and a      *)
(* disagreement is attributed to a specific, recorded finding.                 *)
Dev(m, d) == d \in m.devs

E(v, p) == [v |-> v, p |-> p]
SymV(n) == [t |-> "sym", nm |-> n]
ThunkV(at) == [t |-> "thunk", at |-> at]
VFunc(at, ps, snap) == [t |-> "func", at |-> at, ps |-> ps, snap |-> snap]
VMod(at, res, flds) == [t |-> "module", at |-> at, res |-> res, flds |-> flds]
SEnt(n, v, p) == [nm |-> n, val |-> v, p |-> p]

(* type_name() of opcode/mod.rs: functions and modules share "Func" *)
TN(v) == CASE v.t = "int" -> "Int" [] v.t = "float" -> "Float" [] v.t = "str" -> "String"
           [] v.t = "bool" -> "Bool" [] v.t = "null" -> "NULL" [] v.t = "list" -> "List"
           [] v.t = "tuple" -> "Tuple" [] v.t \in {"func", "module"} -> "Func"
           [] v.t = "thunk" -> "Expression" [] v.t = "sym" -> "Symbol" [] v.t = "con" -> "Constraint"

(* PartialEq for Value *)
ValEq(m, a, b) == IF Dev(m, "TupleEqUnordered") THEN VEqUnordered(a, b) ELSE VEq(a, b)

(* From<&Value> for Rc<str> (Render) *)
RECURSIVE VMRender(_), VMRenderEls(_), VMRenderFlds(_)
VMRender(v) ==
  CASE v.t = "sym" -> v.nm
    [] v.t = "thunk" -> << "<", "T", "h", "u", "n", "k", ">" >>
    [] v.t = "list"  -> << "[" >> \o VMRenderEls(v.es) \o << "]" >>
    [] v.t = "tuple" -> << "{" >> \o VMRenderFlds(v.fs) \o << "}" >>
    [] OTHER -> Render(v)
VMRenderEls(es) == IF es = << >> THEN << >> ELSE VMRender(Head(es)) \o << "," >> \o VMRenderEls(Tail(es))
VMRenderFlds(fs) ==
  IF fs = << >> THEN << >>
  ELSE Head(fs).nm \o << " ", "=", " " >> \o VMRender(Head(fs).val) \o << "," >> \o VMRenderFlds(Tail(fs))

(* ---- frames ---------------------------------------------------------------- *)
(* code frame: [fk|->"code", kind, ptr, stk, syms, selfs, callp, aux]          *)
(*   kind: "main" | "fcall" | "scope" | "modbody" | "modout"                   *)
(*   callp: position used to decorate errors (VIA) - 0 when the code does not  *)
(*   aux:  kind-specific: scope -> [jp]; modbody/modout -> [res, p]            *)
(* hook frame: [fk|->"hook", hook, tk, items, idx, acc, fn, p, lp]             *)
CodeFrame(kind, ptr, syms, selfs, callp, aux) ==
  [fk |-> "code", kind |-> kind, ptr |-> ptr, stk |-> << >>, syms |-> syms, selfs |-> selfs,
   callp |-> callp, aux |-> aux, chks |-> {}]

VARIABLES vm
(* vm = [code, fr (frames, top last), res, steps]                              *)
(* res: [k|->"run"] | [k|->"ok", syms] | [k|->"fail", p, via] | [k|->"panic", site] | [k|->"unm"] *)

Running(m) == m.res.k = "run"
TopIdx(m) == Len(m.fr)
Top(m) == m.fr[Len(m.fr)]

InitVM(code, devs) == [code |-> code, fr |-> << CodeFrame("main", 0, << >>, << >>, 0, << >>) >>,
                       res |-> [k |-> "run"], steps |-> 0, devs |-> devs]

(* VIA: the decorate_call! positions of the frames being unwound, innermost first *)
RECURSIVE ViaOf(_)
ViaOf(fr) ==
  IF fr = << >> THEN << >>
  ELSE LET f == fr[Len(fr)]
           rest == ViaOf(SubSeq(fr, 1, Len(fr) - 1))
       IN IF f.fk = "code" /\ f.callp # 0 THEN << f.callp >> \o rest
          ELSE IF f.fk = "hook" THEN rest      \* the hook's decoration sits on the callee frame (callp)
          ELSE rest

(* `at`: the statement the main frame is executing when the failure occurs *)
AtOf(m) == IF m.fr[1].ptr >= 1 /\ m.fr[1].ptr <= Len(m.code) THEN m.code[m.fr[1].ptr].p ELSE 0
Fail(m, p)     == [m EXCEPT !.res = [k |-> "fail", p |-> p, via |-> ViaOf(m.fr), at |-> AtOf(m)]]
FailIn(m, p, callp) == [m EXCEPT !.res = [k |-> "fail", p |-> p, via |-> << callp >> \o ViaOf(m.fr), at |-> AtOf(m)]]
Panic(m, site) == [m EXCEPT !.res = [k |-> "panic", site |-> site]]
Unmod(m)       == [m EXCEPT !.res = [k |-> "unm"]]

SetTop(m, f) == [m EXCEPT !.fr[Len(m.fr)] = f]
Push(f, v, p) == [f EXCEPT !.stk = Append(@, E(v, p))]
Depth(f) == Len(f.stk)
Peek(f, k) == f.stk[Len(f.stk) + 1 - k]          \* k = 1: top
Drop(f, k) == [f EXCEPT !.stk = SubSeq(@, 1, Len(@) - k)]

SymBound(syms, n) == \E j \in 1..Len(syms) : syms[j].nm = n
SymIdx(syms, n) == CHOOSE j \in 1..Len(syms) : syms[j].nm = n
SymAdd(syms, n, v, p) == IF SymBound(syms, n) THEN [syms EXCEPT ![SymIdx(syms, n)] = SEnt(n, v, p)]
                         ELSE Append(syms, SEnt(n, v, p))

(* pointer.rs: jump sets ptr := ptr + jp (the loop's next() then adds one)     *)
Jump(m, f, jp) == IF f.ptr + jp <= Len(m.code) /\ f.ptr + jp >= 1
                    THEN SetTop(m, [f EXCEPT !.ptr = f.ptr + jp])
                    ELSE Fail(SetTop(m, f), m.code[f.ptr].p)      \* FAULT!!! Invalid Jump!

(* merge_field_into_tuple -> fields or [bad |-> TRUE] *)
VMMerge(fs, n, v) ==
  IF \E j \in 1..Len(fs) : fs[j].nm = n
    THEN LET j == CHOOSE j \in 1..Len(fs) : fs[j].nm = n /\ \A q \in 1..(j - 1) : fs[q].nm # n
         IN IF TN(fs[j].val) # TN(v) /\ ~(TN(fs[j].val) = "NULL" \/ TN(v) = "NULL")
              THEN << [bad |-> TRUE] >>
              ELSE [fs EXCEPT ![j] = Fld(n, v)]
    ELSE Append(fs, Fld(n, v))
MergeBad(r) == r # << >> /\ "bad" \in DOMAIN r[1]

(* binding_push *)
BindPush(m, f, n, v, strict, vp, np) ==   \* -> new machine
  IF n \in Reserved THEN Fail(SetTop(m, f), np)
  ELSE IF SymBound(f.syms, n) /\ strict THEN Fail(SetTop(m, f), vp)
  ELSE SetTop(m, [f EXCEPT !.syms = SymAdd(@, n, v, vp)])

(* symbols_to_tuple(false): every binding except `mod`, in name order *)
RECURSIVE SortSyms(_)
SortSyms(ss) ==
  IF ss = << >> THEN << >>
  ELSE LET j == CHOOSE j \in 1..Len(ss) : \A q \in 1..Len(ss) : q = j \/ NameLess(ss[j].nm, ss[q].nm)
       IN << Fld(ss[j].nm, ss[j].val) >> \o SortSyms([q \in 1..(Len(ss) - 1) |-> IF q < j THEN ss[q] ELSE ss[q + 1]])
SymsToTuple(syms) == TupleV(SortSyms(SelectSeq(syms, LAMBDA s : s.nm # N_mod)))

(* do_cast on a primitive (convert.rs TryFrom impls) -> value or Err/Unm *)
VMCast(ty, v) ==
  CASE ty = "str" -> (IF v.t = "str" THEN StrV(Quote(v.s)) ELSE StrV(Render(v)))
    [] ty = "int" -> (CASE v.t = "int" -> v [] v.t = "float" -> IntV(FTrunc(v))
                        [] v.t = "str" -> ParseInt(v.s) [] OTHER -> Err)
    [] ty = "float" -> (CASE v.t = "int" -> FloatV(v.i, 0) [] v.t = "float" -> v
                          [] v.t = "str" -> ParseFloat(v.s) [] OTHER -> Err)
    [] ty = "bool" -> (CASE v.t = "bool" -> v
                         [] v.t = "str" -> (IF v.s = N_true THEN BoolV(TRUE)
                                            ELSE IF v.s = N_false THEN BoolV(FALSE) ELSE Err)
                         [] OTHER -> Err)

(* fcall_impl: callee frame over the snapshot, arguments popped from the       *)
(* caller's stack (frame index ci), bound non-strictly, innermost name first   *)
RECURSIVE BindArgs(_, _, _, _)
BindArgs(m, ci, names, callee) ==   \* -> [m, callee] or a finished machine in m with callee = << >>
  IF names = << >> THEN [m |-> m, callee |-> << callee >>]
  ELSE LET cf == m.fr[ci]
       IN IF cf.stk = << >> THEN [m |-> Panic(m, "fcall-arg-underflow"), callee |-> << >>]   \* stack.pop().unwrap()
          ELSE LET a == Peek(cf, 1)
                   m2 == [m EXCEPT !.fr[ci] = Drop(cf, 1)]
               IN IF Head(names) \in Reserved \/ Head(names) = N_env
                    THEN [m |-> [m2 EXCEPT !.res = [k |-> "fail", p |-> a.p, via |-> ViaOf(m2.fr), at |-> AtOf(m2)]], callee |-> << >>]
                    ELSE BindArgs(m2, ci, Tail(names),
                                  [callee EXCEPT !.syms = SymAdd(@, Head(names), a.v, a.p)])

(* start a call of function value fv with arguments on frame ci's stack;       *)
(* callp decorates errors coming out of the call                               *)
StartCall(m, ci, fv, callp) ==
  LET callee0 == CodeFrame("fcall", fv.at, fv.snap, << >>, callp, << >>)
      r == BindArgs(m, ci, fv.ps, callee0)
  IN IF r.callee = << >> THEN
          (* a failure while binding is decorated with the call position as well *)
          (IF r.m.res.k = "fail" THEN [r.m EXCEPT !.res.via = << callp >> \o @] ELSE r.m)
     ELSE [r.m EXCEPT !.fr = Append(@, r.callee[1])]

(* nearest code frame at or below index j *)
RECURSIVE CodeBelow(_, _)
CodeBelow(fr, j) == IF fr[j].fk = "code" THEN j ELSE CodeBelow(fr, j - 1)

(* ---- end of a frame's run ---------------------------------------------------- *)
(* deliver value e (stack entry) from a finished callee to whatever is below   *)
RECURSIVE Deliver(_, _)
HookReceive(m, h, e) ==   \* m: machine whose top is hook frame h; e: callee result entry
  LET adv(acc) == SetTop(m, [h EXCEPT !.acc = acc, !.idx = h.idx + 1])
      item == h.items[h.idx]
  IN CASE h.hook = "map" /\ h.tk = "list" -> adv(Append(h.acc, e.v))
       [] h.hook = "map" /\ h.tk = "tuple" ->
            IF e.v.t # "list" THEN adv(h.acc)
            ELSE IF Len(e.v.es) # 2 THEN FailIn(m, e.p, h.p)           \* at what the callback returned, VIA the map expression
            ELSE IF e.v.es[1].t # "str" THEN FailIn(m, e.p, h.p)
            ELSE adv(Append(h.acc, Fld(e.v.es[1].s, e.v.es[2])))
       [] h.hook = "map" /\ h.tk = "str" ->
            IF e.v.t = "str" THEN adv(h.acc \o e.v.s) ELSE FailIn(m, e.p, h.p)
       [] h.hook = "filter" ->
            IF e.v.t = "null" \/ (e.v.t = "bool" /\ ~e.v.b) THEN adv(h.acc) ELSE adv(Append(h.acc, item))
       [] h.hook = "reduce" -> adv(e)

Deliver(m, e) ==   \* top frame has been popped already; m's top is the receiver
  LET f == Top(m)
  IN IF f.fk = "hook" THEN HookReceive(m, f, e)
     ELSE SetTop(m, Push(f, e.v, m.code[f.ptr].p))     \* op_fcall: self.push(val, pos)

PopFrame(m) == [m EXCEPT !.fr = SubSeq(@, 1, Len(@) - 1)]

EndRun(m) ==   \* the top code frame executed Return or ran off the end
  LET f == Top(m)
  IN CASE f.kind = "main" -> [m EXCEPT !.res = [k |-> "ok", syms |-> f.syms, clean |-> f.stk = << >>]]
       [] f.kind = "fcall" ->
            IF f.stk = << >> THEN Panic(m, "pop-empty")              \* vm.pop() -> unreachable!()
            ELSE Deliver(PopFrame(m), Peek(f, 1))
       [] f.kind = "scope" ->
            IF f.stk = << >> THEN Panic(m, "pop-empty")
            ELSE LET m2 == PopFrame(m)
                     par == Top(m2)
                     e   == Peek(f, 1)
                 IN Jump(m2, Push(par, e.v, e.p), f.aux[1])
       [] f.kind = "modbody" ->
            IF f.aux[1] # << >>
              THEN (* vm.ops.jump(result_ptr); vm.run(env) in the SAME vm *)
                   IF f.aux[1][1] <= Len(m.code)
                     THEN SetTop(m, [f EXCEPT !.kind = "modout", !.ptr = f.aux[1][1]])   \* decorated like the body
                     ELSE Fail(m, 0)
              ELSE LET m2 == PopFrame(m)
                   IN SetTop(m2, Push(Top(m2), SymsToTuple(f.syms), f.aux[2]))
       [] f.kind = "modout" ->
            IF f.stk = << >> THEN Panic(m, "pop-empty")
            ELSE LET m2 == PopFrame(m)
                     e  == Peek(f, 1)
                 IN SetTop(m2, Push(Top(m2), e.v, f.aux[2]))     \* at the place of the instantiation (like op_fcall)

(* ---- hooks ------------------------------------------------------------------- *)
HookFrame(hook, tk, items, acc, fn, p, lp) ==
  [fk |-> "hook", hook |-> hook, tk |-> tk, items |-> items, idx |-> 1, acc |-> acc, fn |-> fn, p |-> p, lp |-> lp]

HookStep(m) ==
  LET h  == Top(m)
      ci == CodeBelow(m.fr, Len(m.fr) - 1)
      cf == m.fr[ci]
  IN IF h.idx > Len(h.items)
       THEN (* finished: push the result on the code frame below *)
            LET res == CASE h.hook = "reduce" -> E(h.acc.v, h.p)
                         [] h.tk = "list" -> E(ListV(h.acc), IF h.hook = "map" THEN h.lp ELSE h.p)
                         [] h.tk = "tuple" -> E(TupleV(h.acc), h.p)
                         [] h.tk = "str" -> E(StrV(h.acc), h.p)
                m2 == PopFrame(m)
            IN [m2 EXCEPT !.fr[ci] = Push(cf, res.v, res.p)]
       ELSE (* push the arguments for item idx on the code frame below, then fcall_impl *)
            LET it == h.items[h.idx]
                args == CASE h.tk = "list"  -> << E(it, h.lp) >>
                          [] h.tk = "tuple" -> << E(StrV(it.nm), h.lp), E(it.val, h.lp) >>
                          [] h.tk = "str"   -> << E(StrV(<< it >>), h.lp) >>
                pre  == IF h.hook = "reduce" THEN << h.acc >> ELSE << >>
                m2 == [m EXCEPT !.fr[ci].stk = @ \o pre \o args]
            IN StartCall(m2, ci, h.fn, h.p)

(* check_callback_arity (runtime.rs) *)
BadArity(fv, tgt, extra) ==
  CASE tgt.t \in {"list", "str"} -> Len(fv.ps) # 1 + extra
    [] tgt.t = "tuple" -> Len(fv.ps) # 2 + extra
    [] OTHER -> FALSE

(* ---- one opcode ---------------------------------------------------------------- *)
Need(m, f, k, site) == Depth(f) < k      \* operand underflow => pop() unreachable!()

(* operands of BuildConstraint *)
RECURSIVE ArmOperands(_), BuildArms(_, _)
ArmOperands(kinds) == IF kinds = << >> THEN 0 ELSE (IF Head(kinds) = "range" THEN 2 ELSE 1) + ArmOperands(Tail(kinds))
BuildArms(kinds, vals) ==      \* -> [k |-> "ok", arms] / [k |-> "bad"] / [k |-> "unm"]
  IF kinds = << >> THEN [k |-> "ok", arms |-> << >>]
  ELSE IF Head(kinds) = "range"
    THEN LET lo == vals[1]
             hi == vals[2]
             rest == BuildArms(Tail(kinds), SubSeq(vals, 3, Len(vals)))
         IN IF lo.t = "float" \/ hi.t = "float" THEN [k |-> "unm"]
            ELSE IF lo.t \notin {"int", "null"} \/ hi.t \notin {"int", "null"} \/ (lo.t = "null" /\ hi.t = "null")
                   THEN [k |-> "bad"]
            ELSE IF rest.k # "ok" THEN rest
            ELSE [k |-> "ok", arms |-> << [t |-> "arm", a |-> "irange", lo |-> IF lo.t = "int" THEN << lo.i >> ELSE << >>,
                                           hi |-> IF hi.t = "int" THEN << hi.i >> ELSE << >>] >> \o rest.arms]
    ELSE LET x == vals[1]
             rest == BuildArms(Tail(kinds), SubSeq(vals, 2, Len(vals)))
         IN IF ~IsCPrim(x) /\ x.t # "con" THEN [k |-> "unm"]
            ELSE IF rest.k # "ok" THEN rest
            ELSE [k |-> "ok", arms |-> << IF x.t = "con" THEN [t |-> "arm", a |-> "sub", c |-> x]
                                          ELSE [t |-> "arm", a |-> "exact", v |-> x] >> \o rest.arms]

ExecOp(m, f, o) ==   \* f: top frame with ptr already advanced to o
  LET p == o.p
      next(f2) == SetTop(m, f2)
      under == Panic(SetTop(m, f), "pop-empty")
  IN
  CASE o.op = "PANIC" -> Panic(SetTop(m, f), o.site)
    [] o.op = "Noop" -> next(f)
    [] o.op = "Val" -> next(Push(f, o.v, p))
    [] o.op = "Sym" -> next(Push(f, SymV(o.nm), p))
    [] o.op = "InitList" -> next(Push(f, ListV(<< >>), p))
    [] o.op = "InitTuple" -> next(Push(f, TupleV(<< >>), p))
    [] o.op = "Pop" -> IF Depth(f) < 1 THEN under ELSE next(Drop(f, 1))
    [] o.op = "Return" -> EndRun(SetTop(m, f))
    [] o.op = "DeRef" ->
         IF o.nm = N_self
           THEN (IF f.selfs = << >> THEN Fail(SetTop(m, f), p) ELSE next(Push(f, f.selfs[Len(f.selfs)].v, p)))
         ELSE IF SymBound(f.syms, o.nm) THEN next(Push(f, f.syms[SymIdx(f.syms, o.nm)].val, p))
         ELSE IF o.nm = N_env THEN next(Push(f, TupleV(EnvVars), p))
         ELSE Fail(SetTop(m, f), p)
    [] o.op \in {"Add", "Sub", "Mul", "Div", "Mod"} ->
         IF Depth(f) < 2 THEN under
         ELSE LET l == Peek(f, 1).v
                  r == Peek(f, 2).v
                  rp == Peek(f, 2).p
                  f2 == Drop(f, 2)
                  bad == Fail(SetTop(m, f2), rp)
              IN (CASE l.t = "int" /\ r.t = "int" ->
                        (CASE o.op = "Add" -> next(Push(f2, IntV(l.i + r.i), p))
                           [] o.op = "Sub" -> next(Push(f2, IntV(l.i - r.i), p))
                           [] o.op = "Mul" -> next(Push(f2, IntV(l.i * r.i), p))
                           [] o.op = "Div" -> IF r.i = 0 THEN bad              \* "Divide by zero"
                                              ELSE next(Push(f2, IntV(TDiv(l.i, r.i)), p))
                           [] o.op = "Mod" -> IF r.i = 0 THEN bad              \* "Modulus by zero"
                                              ELSE next(Push(f2, IntV(TMod(l.i, r.i)), p)))
                   [] l.t = "float" /\ r.t = "float" ->
                        (CASE o.op = "Add" -> next(Push(f2, FAdd(l, r), p))
                           [] o.op = "Sub" -> next(Push(f2, FSub(l, r), p))
                           [] o.op = "Mul" -> next(Push(f2, FMul(l, r), p))
                           [] OTHER -> Unmod(m))
                   [] o.op = "Add" /\ l.t = "str" /\ r.t = "str" -> next(Push(f2, StrV(l.s \o r.s), p))
                   [] o.op = "Add" /\ l.t = "list" /\ r.t = "list" -> next(Push(f2, ListV(l.es \o r.es), p))
                   [] OTHER -> bad)
    [] o.op = "Equal" ->
         IF Depth(f) < 2 THEN under
         ELSE LET l == Peek(f, 1).v
                  r == Peek(f, 2).v
                  f2 == Drop(f, 2)
              IN IF TN(l) # TN(r) /\ ~(TN(l) = "NULL" \/ TN(r) = "NULL") THEN Fail(SetTop(m, f2), p)
                 ELSE IF HasFn(l) \/ HasFn(r) THEN Unmod(m)
                 ELSE next(Push(f2, BoolV(ValEq(m, l, r)), p))
    [] o.op \in {"Gt", "Lt", "GtEq", "LtEq"} ->
         IF Depth(f) < 2 THEN under
         ELSE LET l == Peek(f, 1).v
                  r == Peek(f, 2).v
                  f2 == Drop(f, 2)
              IN (CASE l.t = "int" /\ r.t = "int" ->
                        next(Push(f2, BoolV(CASE o.op = "Gt" -> l.i > r.i [] o.op = "Lt" -> l.i < r.i
                                             [] o.op = "GtEq" -> l.i >= r.i [] o.op = "LtEq" -> l.i <= r.i), p))
                   [] l.t = "float" /\ r.t = "float" ->
                        next(Push(f2, BoolV(CASE o.op = "Gt" -> FLess(r, l) [] o.op = "Lt" -> FLess(l, r)
                                             [] o.op = "GtEq" -> ~FLess(l, r) [] o.op = "LtEq" -> ~FLess(r, l)), p))
                   [] OTHER -> Fail(SetTop(m, f2), p))
    [] o.op = "Not" ->
         IF Depth(f) < 1 THEN under
         ELSE LET a == Peek(f, 1)
              IN IF a.v.t = "bool" THEN next(Push(Drop(f, 1), BoolV(~a.v.b), a.p))
                 ELSE Fail(SetTop(m, Drop(f, 1)), a.p)
    [] o.op = "BuildConstraint" ->          \* op_build_constraint: operands in push order, two per range, one per exact arm
         LET n == ArmOperands(o.arms)
         IN IF Depth(f) < n THEN under
            ELSE LET vals == [j \in 1..n |-> f.stk[Len(f.stk) - n + j].v]
                     f2 == Drop(f, n)
                     b == BuildArms(o.arms, vals)
                 IN IF b.k = "unm" THEN Unmod(m)
                    ELSE IF b.k = "bad" THEN Fail(SetTop(m, f2), p)     \* "Range constraint bounds must be numeric"
                    ELSE next(Push(f2, ConV(b.arms), p))
    [] o.op = "CheckConstraint" ->          \* op_check_constraint: pops the constraint, peeks at the value
         IF Depth(f) < 1 THEN under
         ELSE LET c == Peek(f, 1).v
                  f2 == Drop(f, 1)
              IN IF Depth(f2) < 1 THEN Fail(SetTop(m, f2), p)           \* "No value on stack for constraint check"
                 ELSE LET v == Peek(f2, 1)
                      IN IF c.t # "con" THEN next(f2)                   \* an example value: checked statically only
                         ELSE IF c.arms = << >> THEN next(f2)             \* ConstraintVal::check: no arms admit anything
                         ELSE IF ~IsCPrim(v.v) THEN Unmod(m)
                         ELSE IF \E j \in 1..Len(c.arms) : ArmHolds(v.v, c.arms[j]) THEN next(f2)
                         ELSE Fail(SetTop(m, f2), v.p)
    [] o.op \in {"Bind", "BindOver"} ->
         IF Depth(f) < 2 THEN under
         ELSE LET v == Peek(f, 1)
                  n == Peek(f, 2)
                  f2 == Drop(f, 2)
              IN IF n.v.t # "sym" THEN Panic(SetTop(m, f2), "bind-name")       \* unreachable!()
                 ELSE BindPush(m, f2, n.v.nm, v.v, o.op = "Bind", v.p, n.p)
    [] o.op = "Field" ->
         IF Depth(f) < 3 THEN under
         ELSE LET v == Peek(f, 1)
                  n == Peek(f, 2)
                  t == Peek(f, 3)
                  f2 == Drop(f, 3)
              IN IF n.v.t \notin {"sym", "str"} THEN Panic(SetTop(m, f2), "field-name")
                 ELSE IF t.v.t # "tuple" THEN Panic(SetTop(m, f2), "field-target")
                 ELSE LET nm == IF n.v.t = "sym" THEN n.v.nm ELSE n.v.s
                          r == VMMerge(t.v.fs, nm, v.v)
                      IN IF MergeBad(r) THEN Fail(SetTop(m, f2), v.p) ELSE next(Push(f2, TupleV(r), t.p))
    [] o.op = "Element" ->
         IF Depth(f) < 2 THEN under
         ELSE LET v == Peek(f, 1)
                  l == Peek(f, 2)
                  f2 == Drop(f, 2)
              IN IF l.v.t # "list" THEN Panic(SetTop(m, f2), "element-target")
                 ELSE next(Push(f2, ListV(Append(l.v.es, v.v)), l.p))
    [] o.op = "Index" ->
         IF Depth(f) < 2 THEN under
         ELSE LET r == Peek(f, 1)
                  l == Peek(f, 2).v
                  f2 == Drop(f, 2)
              IN IF r.v.t = "int" /\ l.t = "list" /\ r.v.i >= 0 /\ r.v.i < Len(l.es)
                   THEN next(Push(f2, l.es[r.v.i + 1], r.p))
                 ELSE IF r.v.t = "str" /\ l.t = "tuple" /\ HasField(l.fs, r.v.s)
                   THEN next(Push(f2, GetField(l.fs, r.v.s), r.p))
                 ELSE IF ~Strict THEN next(Push(f2, Null, p))
                 ELSE Fail(SetTop(m, f2), p)
    [] o.op = "Exist" ->
         IF Depth(f) < 2 THEN under
         ELSE LET r == Peek(f, 1)        \* the needle
                  l == Peek(f, 2)        \* the container
                  f2 == Drop(f, 2)
                  yes == next(Push(f2, BoolV(TRUE), p))
                  no  == next(Push(f2, BoolV(FALSE), p))
              IN (CASE l.v.t = "tuple" ->
                        IF r.v.t # "str" THEN Fail(SetTop(m, f2), r.p)
                        ELSE IF HasField(l.v.fs, r.v.s) THEN yes ELSE no
                   [] l.v.t = "list" ->
                        IF HasFn(l.v) \/ HasFn(r.v) THEN Unmod(m) ELSE
                        IF \E j \in 1..Len(l.v.es) : l.v.es[j].t = r.v.t /\ ValEq(m, l.v.es[j], r.v) THEN yes ELSE no
                   [] l.v.t = "str" ->
                        IF r.v.t = "str" /\ IsSubstr(r.v.s, l.v.s) THEN yes ELSE no
                   [] OTHER -> Fail(SetTop(m, f2), l.p))
    [] o.op = "Bang" ->
         IF Depth(f) < 1 THEN under
         ELSE LET a == Peek(f, 1)
              IN IF a.v.t = "str" THEN Fail(SetTop(m, Drop(f, 1)), a.p) ELSE Panic(SetTop(m, f), "bang-msg")
    [] o.op = "Jump" -> Jump(m, f, o.jp)
    [] o.op = "InitThunk" -> Jump(m, Push(f, ThunkV(f.ptr), p), o.jp)
    [] o.op = "SelectJump" ->
         IF Depth(f) < 2 THEN under
         ELSE LET fname == Peek(f, 1).v
                  srch  == Peek(f, 2)
                  f2 == Drop(f, 2)
                  matched ==
                    CASE fname.t = "sym" /\ srch.v.t = "str" -> fname.nm = srch.v.s
                      [] fname.t = "sym" /\ srch.v.t = "sym" -> fname.nm = srch.v.nm
                      [] fname.t = "sym" /\ srch.v.t = "bool" ->
                           (fname.nm = N_true /\ srch.v.b) \/ (fname.nm = N_false /\ ~srch.v.b)
                      [] OTHER -> FALSE
              IN IF matched THEN next(f2) ELSE Jump(m, Push(f2, srch.v, srch.p), o.jp)
    [] o.op \in {"And", "Or"} ->
         IF Depth(f) < 1 THEN under
         ELSE LET c == Peek(f, 1)
                  f2 == Drop(f, 1)
              IN IF c.v.t # "bool" THEN Fail(SetTop(m, f2), c.p)
                 ELSE IF (o.op = "And" /\ ~c.v.b) \/ (o.op = "Or" /\ c.v.b) THEN Jump(m, Push(f2, c.v, c.p), o.jp)
                 ELSE IF Dev(m, "AndOrRightUnchecked") THEN next(f2)
                 ELSE next([f2 EXCEPT !.chks = @ \cup {f2.ptr + o.jp}])   \* design: the right operand must be boolean
    [] o.op = "Module" ->
         IF Depth(f) < 1 THEN under
         ELSE LET a == Peek(f, 1)
              IN (CASE a.v.t = "tuple" -> Jump(m, Push(Drop(f, 1), VMod(f.ptr, << >>, a.v.fs), p), o.jp)
                   [] a.v.t = "thunk" ->
                        IF Depth(f) < 2 THEN under
                        ELSE LET t == Peek(f, 2)
                             IN IF t.v.t = "tuple"
                                  THEN Jump(m, Push(Drop(f, 2), VMod(f.ptr, << a.v.at >>, t.v.fs), p), o.jp)
                                  ELSE Fail(SetTop(m, Drop(f, 2)), t.p)
                   [] OTHER -> Fail(SetTop(m, Drop(f, 1)), a.p))
    [] o.op = "Func" ->
         IF Depth(f) < 1 THEN under
         ELSE LET a == Peek(f, 1)
              IN IF a.v.t # "list" THEN Fail(SetTop(m, Drop(f, 1)), a.p)
                 ELSE IF \E j \in 1..Len(a.v.es) : a.v.es[j].t # "sym" THEN Fail(SetTop(m, Drop(f, 1)), a.p)
                 ELSE Jump(m, Push(Drop(f, 1),
                                   VFunc(f.ptr, Rev([j \in 1..Len(a.v.es) |-> a.v.es[j].nm]), f.syms), p), o.jp)
    [] o.op = "FCall" ->
         IF Depth(f) < 2 THEN under
         ELSE LET fv == Peek(f, 1)
                  n  == Peek(f, 2).v
                  f2 == Drop(f, 2)
                  m2 == SetTop(m, f2)
              IN IF fv.v.t # "func" THEN Fail(m2, p)
                 ELSE IF n.t = "int" /\ n.i # Len(fv.v.ps) THEN Fail(m2, p)
                 ELSE StartCall(m2, Len(m.fr), fv.v, fv.p)
    [] o.op = "NewScope" ->
         [SetTop(m, f) EXCEPT !.fr = Append(@, CodeFrame("scope", f.ptr, f.syms, f.selfs, 0, << o.jp >>))]
    [] o.op = "Typ" ->
         IF Depth(f) < 1 THEN under
         ELSE LET a == Peek(f, 1)
              IN next(Push(Drop(f, 1),
                           StrV(CASE a.v.t = "sym" -> << "s", "y", "m" >>
                                 [] a.v.t = "thunk" -> << "t", "h", "u", "n", "k" >>
                                 [] OTHER -> TypeChars(a.v)), a.p))
    [] o.op = "Render" ->
         IF Depth(f) < 1 THEN under
         ELSE LET a == Peek(f, 1) IN next(Push(Drop(f, 1), StrV(VMRender(a.v)), a.p))
    [] o.op = "PushSelf" ->
         IF Depth(f) < 1 THEN under
         ELSE next([f EXCEPT !.selfs = Append(@, Peek(f, 1))])
    [] o.op = "PopSelf" ->
         next([f EXCEPT !.selfs = IF @ = << >> THEN @ ELSE SubSeq(@, 1, Len(@) - 1)])
    [] o.op = "Cast" ->
         IF Depth(f) < 1 THEN under
         ELSE LET a == Peek(f, 1)
                  f2 == Drop(f, 1)
              IN IF ~IsPrim(a.v) THEN Fail(SetTop(m, f2), a.p)   \* "No cast from ... to ..."
                 ELSE LET r == VMCast(o.ty, a.v)
                      IN IF r.t = "unm" THEN Unmod(m)
                         ELSE IF r.t = "err" THEN Fail(SetTop(m, f2), a.p)
                         ELSE next(Push(f2, r, a.p))
    [] o.op = "Cp" ->
         IF Depth(f) < 2 THEN under
         ELSE LET ov == Peek(f, 1)
                  tg == Peek(f, 2)
                  f2 == Drop(f, 2)
              IN IF ov.v.t # "tuple" THEN Panic(SetTop(m, f2), "cp-overrides")
                 ELSE (CASE tg.v.t = "tuple" ->
                             LET RECURSIVE MAll(_, _)
                                 MAll(fs, os) == IF os = << >> THEN fs
                                                 ELSE LET r == VMMerge(fs, Head(os).nm, Head(os).val)
                                                      IN IF MergeBad(r) THEN r ELSE MAll(r, Tail(os))
                                 r == MAll(tg.v.fs, ov.v.fs)
                             IN IF MergeBad(r) THEN Fail(SetTop(m, f2), p) ELSE next(Push(f2, TupleV(r), tg.p))
                        [] tg.v.t = "module" ->
                             LET RECURSIVE MAll2(_, _)
                                 MAll2(fs, os) == IF os = << >> THEN fs
                                                  ELSE LET r == VMMerge(fs, Head(os).nm, Head(os).val)
                                                       IN IF MergeBad(r) THEN r ELSE MAll2(r, Tail(os))
                                 r1 == MAll2(tg.v.flds, ov.v.fs)
                                 r2 == IF MergeBad(r1) THEN r1 ELSE VMMerge(r1, N_this, tg.v)
                             IN IF MergeBad(r2) THEN Fail(SetTop(m, f2), p)
                                ELSE LET body == [CodeFrame("modbody", tg.v.at, << >>, f2.selfs, p, << tg.v.res, p >>)
                                                   EXCEPT !.stk = << E(SymV(N_mod), p), E(TupleV(r2), p) >>]
                                     IN [SetTop(m, f2) EXCEPT !.fr = Append(@, body)]
                        [] OTHER -> Fail(SetTop(m, f2), p))
    [] o.op = "Runtime" ->
         CASE o.hook \in {"Map", "Filter"} ->
                IF Depth(f) < 1 THEN Panic(SetTop(m, f), "hook-underflow")
                ELSE IF Depth(f) < 2 THEN Panic(SetTop(m, Drop(f, 1)), "hook-underflow")
                ELSE LET l == Peek(f, 1)
                         fp == Peek(f, 2)
                         f2 == Drop(f, 2)
                         hk == IF o.hook = "Map" THEN "map" ELSE "filter"
                     IN IF fp.v.t # "func" THEN Fail(SetTop(m, f2), fp.p)
                        ELSE IF BadArity(fp.v, l.v, 0) THEN Fail(SetTop(m, f2), fp.p)
                        ELSE (CASE l.v.t = "list" ->
                                    [SetTop(m, f2) EXCEPT !.fr = Append(@, HookFrame(hk, "list", l.v.es, << >>, fp.v, p, l.p))]
                               [] l.v.t = "tuple" ->
                                    [SetTop(m, f2) EXCEPT !.fr = Append(@, HookFrame(hk, "tuple", l.v.fs, << >>, fp.v, p, l.p))]
                               [] l.v.t = "str" ->
                                    [SetTop(m, f2) EXCEPT !.fr = Append(@, HookFrame(hk, "str", l.v.s, << >>, fp.v, p, l.p))]
                               [] OTHER -> Fail(SetTop(m, f2), p))
           [] o.hook = "Reduce" ->
                IF Depth(f) < 3 THEN Panic(SetTop(m, f), "hook-underflow")
                ELSE LET l == Peek(f, 1)
                         acc == Peek(f, 2)
                         fp == Peek(f, 3)
                         f2 == Drop(f, 3)
                     IN IF fp.v.t # "func" THEN Fail(SetTop(m, f2), fp.p)
                        ELSE IF BadArity(fp.v, l.v, 1) THEN Fail(SetTop(m, f2), fp.p)
                        ELSE (CASE l.v.t = "list" ->
                                    [SetTop(m, f2) EXCEPT !.fr = Append(@, HookFrame("reduce", "list", l.v.es, acc, fp.v, p, l.p))]
                               [] l.v.t = "tuple" ->
                                    [SetTop(m, f2) EXCEPT !.fr = Append(@, HookFrame("reduce", "tuple", l.v.fs, acc, fp.v, p, l.p))]
                               [] l.v.t = "str" ->
                                    [SetTop(m, f2) EXCEPT !.fr = Append(@, HookFrame("reduce", "str", l.v.s, acc, fp.v, p, l.p))]
                               [] OTHER -> Fail(SetTop(m, f2), p))
           [] o.hook = "Range" ->
                IF Depth(f) < 3 THEN Panic(SetTop(m, f), "hook-underflow")
                ELSE LET st == Peek(f, 1).v
                         sp0 == Peek(f, 2).v
                         sp == IF sp0.t = "null" THEN IntV(1) ELSE sp0
                         en == Peek(f, 3).v
                         f2 == Drop(f, 3)
                     IN IF st.t = "int" /\ sp.t = "int" /\ en.t = "int"
                          THEN (IF sp.i <= 0 THEN Fail(SetTop(m, f2), p)
                                ELSE next(Push(f2, ListV(IF en.i < st.i THEN << >>
                                                        ELSE [j \in 1..(((en.i - st.i) \div sp.i) + 1) |-> IntV(st.i + (j - 1) * sp.i)]), p)))
                          ELSE Fail(SetTop(m, f2), p)
           [] o.hook = "Trace" ->
                IF Depth(f) < 2 THEN Panic(SetTop(m, f), "hook-underflow")
                ELSE LET v == Peek(f, 1)
                         ex == Peek(f, 2)
                     IN IF ex.v.t # "str" THEN Panic(SetTop(m, f), "trace-expr")
                        ELSE next(Push(Drop(f, 2), v.v, v.p))
           [] o.hook = "Regex" ->
                IF Depth(f) < 2 THEN Panic(SetTop(m, f), "hook-underflow")
                ELSE LET subj == Peek(f, 1)          \* the left operand is on top
                         pat  == Peek(f, 2)
                         f2 == Drop(f, 2)
                     IN IF subj.v.t # "str" THEN Fail(SetTop(m, Drop(f, 1)), subj.p)
                        ELSE IF pat.v.t # "str" THEN Fail(SetTop(m, f2), pat.p)
                        ELSE IF ~PlainPattern(pat.v.s) THEN Unmod(m)
                        ELSE next(Push(f2, BoolV(IsSubstr(pat.v.s, subj.v.s)), p))
           [] OTHER -> Unmod(m)     \* Import / Include / Out / Assert / Convert: other specifications

(* ---- the step function ------------------------------------------------------ *)
(* design-only check (absent under "AndOrRightUnchecked"): when control reaches *)
(* the last op of the right operand of a && / || whose left side did not       *)
(* short-circuit, the value on top of the stack must be boolean                *)
PostCheck(m) ==
  IF ~Running(m) THEN m
  ELSE LET f == Top(m)
       IN IF f.fk = "code" /\ f.ptr \in f.chks
            THEN (IF f.stk # << >> /\ Peek(f, 1).v.t = "bool"
                    THEN SetTop(m, [f EXCEPT !.chks = @ \ {f.ptr}])
                    ELSE Fail(m, IF f.stk # << >> THEN Peek(f, 1).p ELSE 0))
            ELSE m

Step(m) ==
  IF ~Running(m) THEN m
  ELSE LET m1 == [m EXCEPT !.steps = @ + 1]
           f  == Top(m1)
       IN PostCheck(IF f.fk = "hook" THEN HookStep(m1)
                    ELSE IF f.ptr + 1 > Len(m1.code) THEN EndRun(m1)          \* OpPointer::next -> None
                    ELSE LET f1 == [f EXCEPT !.ptr = f.ptr + 1]
                         IN ExecOp(SetTop(m1, f1), f1, m1.code[f1.ptr]))

RECURSIVE RunToEnd(_, _)
RunToEnd(m, fuel) ==
  IF ~Running(m) THEN m
  ELSE IF fuel = 0 THEN [m EXCEPT !.res = [k |-> "fuel"]]
  ELSE RunToEnd(Step(m), fuel - 1)

(* outcome of a finished machine, comparable with Eval's AbsOut *)
RECURSIVE AbsVM(_)
AbsVM(v) ==
  CASE v.t = "list"   -> ListV([j \in 1..Len(v.es) |-> AbsVM(v.es[j])])
    [] v.t = "tuple"  -> TupleV([j \in 1..Len(v.fs) |-> Fld(v.fs[j].nm, AbsVM(v.fs[j].val))])
    [] v.t = "func"   -> [t |-> "func"]
    [] v.t = "module" -> [t |-> "module"]
    [] OTHER -> v
VMOut(m) ==
  IF m.res.k = "ok"
    THEN [k |-> "ok", env |-> [j \in 1..Len(m.res.syms) |-> Fld(m.res.syms[j].nm, AbsVM(m.res.syms[j].val))]]
    ELSE [k |-> m.res.k]

(* ---- the machine as a specification ------------------------------------------- *)
VMNext == Running(vm) /\ vm' = Step(vm)

(* invariants of the machine *)
NoPanic == vm.res.k # "panic"
JumpsInRange == \A j \in 1..Len(vm.fr) : vm.fr[j].fk = "code" => vm.fr[j].ptr \in 0..Len(vm.code)
MainClean == vm.res.k = "ok" => vm.res.clean       \* statement boundaries leave the main stack empty
(* C10: a binding of the main frame, once made, keeps its value *)
BindMonotone ==
  [][ Running(vm) => \A j \in 1..Len(vm.fr[1].syms) :
                        /\ j <= Len(vm'.fr[1].syms)
                        /\ vm'.fr[1].syms[j].nm = vm.fr[1].syms[j].nm
                        /\ vm'.fr[1].syms[j].val = vm.fr[1].syms[j].val ]_vm
=============================================================================
