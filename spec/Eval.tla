------------------------------- MODULE Eval -------------------------------
(* The language reference of ucg (docsite/site/content/reference/            *)
(* {types,expressions,statements}.md) as a big-step evaluator over the AST   *)
(* of DESIGN.md Appendix B.  This is the DEFINITIONAL side of C01/C07/C10:   *)
(* it is written from the reference, not from the compiler.  Rules the       *)
(* reference leaves open and that had to be read off the code are marked     *)
(* (assumption) and are listed in every evidence file that uses this module. *)
(*                                                                           *)
(* Results: a value of Values.tla, or                                        *)
(*   [t|->"err"]  a build failure (the class is not part of C01),            *)
(*   [t|->"unm"]  evaluation left the modelled domain (float division,       *)
(*                regular expressions, placeholder/argument mismatch ...):   *)
(*                such programs are not used as C01 cases.                   *)
EXTENDS Values

CONSTANTS Strict,    \* TRUE: missing field / index is a failure; FALSE: NULL
          EnvVars    \* the process environment: sequence of [nm, val] with string values (C18)

Err == [t |-> "err"]
Unm == [t |-> "unm"]
Bad(v) == v.t = "err" \/ v.t = "unm"
IsUnm(v) == v.t = "unm"

(* worst outcome of a sequence of results: unm beats err beats values *)
Worst(vs) == IF \E j \in 1..Len(vs) : vs[j].t = "unm" THEN Unm
             ELSE IF \E j \in 1..Len(vs) : vs[j].t = "err" THEN Err
             ELSE Null
AnyBad(vs) == \E j \in 1..Len(vs) : Bad(vs[j])

(* ---- names --------------------------------------------------------------- *)
N_self == << "s", "e", "l", "f" >>
N_mod  == << "m", "o", "d" >>
N_item == << "i", "t", "e", "m" >>
N_this == << "t", "h", "i", "s" >>
N_true == << "t", "r", "u", "e" >>
N_false == << "f", "a", "l", "s", "e" >>
N_env  == << "e", "n", "v" >>

(* The reserved words of the REFERENCE (reference/_index.md "Reserved words"; the driver of C10 reads  *)
(* that list on every run and stops if this transcription differs) that reach binding as a name -     *)
(* true, false, NULL never lex as a name and `env` is refused by the parser (ParserRejects, C18) -     *)
(* plus `include`, a keyword the list forgets.  Until a `fix:` commit the VM's own list (vm.rs         *)
(* reserved_words) lacked not, select, reduce and constraint: `let select = 1;` built.                 *)
Reserved == { << "l", "e", "t" >>, << "m", "o", "d", "u", "l", "e" >>, << "f", "u", "n", "c" >>,
              << "o", "u", "t" >>, << "a", "s", "s", "e", "r", "t" >>, N_self,
              << "i", "m", "p", "o", "r", "t" >>, << "i", "n", "c", "l", "u", "d", "e" >>,
              << "a", "s" >>, << "m", "a", "p" >>, << "f", "i", "l", "t", "e", "r" >>,
              << "c", "o", "n", "v", "e", "r", "t" >>, << "f", "a", "i", "l" >>,
              << "N", "U", "L", "L" >>, << "i", "n" >>, << "i", "s" >>,
              << "T", "R", "A", "C", "E" >>,
              << "n", "o", "t" >>, << "s", "e", "l", "e", "c", "t" >>, << "r", "e", "d", "u", "c", "e" >>,
              << "c", "o", "n", "s", "t", "r", "a", "i", "n", "t" >> }

(* ---- environments: sequences of [nm, val], later entries shadow ---------- *)
RECURSIVE Lookup(_, _)
Lookup(rho, n) ==
  IF rho = << >> THEN Err
  ELSE IF rho[Len(rho)].nm = n THEN rho[Len(rho)].val
  ELSE Lookup(SubSeq(rho, 1, Len(rho) - 1), n)
Bound(rho, n) == \E j \in 1..Len(rho) : rho[j].nm = n

(* ---- tuples ----------------------------------------------------------------- *)
HasField(fs, n) == \E j \in 1..Len(fs) : fs[j].nm = n
FieldIdx(fs, n) == CHOOSE j \in 1..Len(fs) : fs[j].nm = n /\ \A m \in 1..(j - 1) : fs[m].nm # n
GetField(fs, n) == fs[FieldIdx(fs, n)].val

(* copy / field merge: "If you are changing the value of a base field in the  *)
(* copy then the new value must be of the same type"; NULL is assignable to   *)
(* and from every type (types.md).  Base order kept, new fields appended.     *)
SameTypeOrNull(a, b) == a.t = b.t \/ a.t = "null" \/ b.t = "null"
BadFs == << [bad |-> TRUE] >>                 \* "type mismatch" result of a merge
IsBadFs(r) == r # << >> /\ "bad" \in DOMAIN r[1]
MergeOne(fs, f) ==    \* -> fields or BadFs
  IF HasField(fs, f.nm)
    THEN (IF SameTypeOrNull(GetField(fs, f.nm), f.val)
            THEN [fs EXCEPT ![FieldIdx(fs, f.nm)] = f] ELSE BadFs)
    ELSE Append(fs, f)
RECURSIVE MergeAll(_, _)
MergeAll(fs, ovs) ==
  IF ovs = << >> THEN fs
  ELSE LET r == MergeOne(fs, Head(ovs)) IN IF IsBadFs(r) THEN BadFs ELSE MergeAll(r, Tail(ovs))

(* ---- strings <-> numbers ---------------------------------------------------- *)
IsDigit(c) == \E j \in 1..10 : Digits[j] = c
DigitVal(c) == (CHOOSE j \in 1..10 : Digits[j] = c) - 1
RECURSIVE NatOf(_, _)
NatOf(cs, acc) == IF cs = << >> THEN acc ELSE NatOf(Tail(cs), acc * 10 + DigitVal(Head(cs)))
AllDigits(cs) == cs # << >> /\ \A j \in 1..Len(cs) : IsDigit(cs[j])
(* [-]digits  (the pools contain no other integer spelling) *)
ParseInt(cs) ==
  IF AllDigits(cs) THEN IntV(NatOf(cs, 0))
  ELSE IF cs # << >> /\ Head(cs) = "-" /\ AllDigits(Tail(cs)) THEN IntV(0 - NatOf(Tail(cs), 0))
  ELSE Err
(* [-]digits[.digits] with a fraction that is a dyadic the pools use (.5 .25 .75) *)
DotPos(cs) == IF \E j \in 1..Len(cs) : cs[j] = "." THEN CHOOSE j \in 1..Len(cs) : cs[j] = "." /\ \A m \in 1..(j-1) : cs[m] # "." ELSE 0
FracOf(cs) ==   \* -> [n, k] or Err
  CASE cs = << "5" >> -> FloatV(1, 1)
    [] cs = << "2", "5" >> -> FloatV(1, 2)
    [] cs = << "7", "5" >> -> FloatV(3, 2)
    [] cs = << "0" >> -> FloatV(0, 0)
    [] OTHER -> Unm
ParseFloat(cs) ==
  LET neg  == cs # << >> /\ Head(cs) = "-"
      body == IF neg THEN Tail(cs) ELSE cs
      d    == DotPos(body)
  IN IF d = 0
       THEN (IF AllDigits(body) THEN FloatV(IF neg THEN 0 - NatOf(body, 0) ELSE NatOf(body, 0), 0) ELSE Err)
       ELSE LET ip == SubSeq(body, 1, d - 1)
                fp == SubSeq(body, d + 1, Len(body))
            IN IF ~AllDigits(ip) \/ ~AllDigits(fp) THEN Err
               ELSE LET fr == FracOf(fp)
                    IN IF fr.t = "unm" THEN Unm
                       ELSE LET v == FAdd(FloatV(NatOf(ip, 0), 0), fr)
                            IN IF neg THEN FNeg(v) ELSE v

Quote(s) ==   \* (assumption, from the code) str() of a string: quoted, inner quotes escaped
  LET RECURSIVE Esc(_)
      Esc(cs) == IF cs = << >> THEN << >>
                 ELSE (IF Head(cs) = "\"" THEN << "\\", "\"" >> ELSE << Head(cs) >>) \o Esc(Tail(cs))
  IN << "\"" >> \o Esc(s) \o << "\"" >>

Cast(ty, v) ==
  IF ~IsPrim(v) THEN Err      \* "If the expressions do not resolve to a primitive type ... a compile error"
  ELSE CASE ty = "int" ->
              (CASE v.t = "int" -> v
                 [] v.t = "float" -> IntV(FTrunc(v))          \* (assumption) truncation
                 [] v.t = "str" -> ParseInt(v.s)
                 [] OTHER -> Err)
         [] ty = "float" ->
              (CASE v.t = "int" -> FloatV(v.i, 0)
                 [] v.t = "float" -> v
                 [] v.t = "str" -> ParseFloat(v.s)
                 [] OTHER -> Err)
         [] ty = "str" ->
              (CASE v.t = "str" -> StrV(Quote(v.s))           \* (assumption)
                 [] OTHER -> StrV(Render(v)))                 \* NULL -> "NULL" (assumption)
         [] ty = "bool" ->
              (CASE v.t = "bool" -> v
                 [] v.t = "str" -> (IF v.s = N_true THEN BoolV(TRUE)
                                    ELSE IF v.s = N_false THEN BoolV(FALSE) ELSE Err)
                 [] OTHER -> Err)

(* ---- binary operators on values -------------------------------------------- *)
Arith(op, a, b) ==
  CASE a.t = "int" /\ b.t = "int" ->
         (CASE op = "add" -> IntV(a.i + b.i)
            [] op = "sub" -> IntV(a.i - b.i)
            [] op = "mul" -> IntV(a.i * b.i)
            [] op = "div" -> IF b.i = 0 THEN Err ELSE IntV(TDiv(a.i, b.i))   \* (assumption) truncates
            [] op = "mod" -> IF b.i = 0 THEN Err ELSE IntV(TMod(a.i, b.i)))  \* (assumption) sign of dividend
    [] a.t = "float" /\ b.t = "float" ->
         (CASE op = "add" -> FAdd(a, b)
            [] op = "sub" -> FSub(a, b)
            [] op = "mul" -> FMul(a, b)
            [] OTHER -> Unm)                     \* float division / modulus: outside the dyadic domain
    [] op = "add" /\ a.t = "str" /\ b.t = "str" -> StrV(a.s \o b.s)
    [] op = "add" /\ a.t = "list" /\ b.t = "list" -> ListV(a.es \o b.es)
    [] OTHER -> Err                              \* "expect both ... operands to be of the same type"

Compare(op, a, b) ==
  CASE a.t = "int" /\ b.t = "int" ->
         BoolV(CASE op = "gt" -> a.i > b.i [] op = "lt" -> a.i < b.i
                [] op = "ge" -> a.i >= b.i [] op = "le" -> a.i <= b.i)
    [] a.t = "float" /\ b.t = "float" ->
         BoolV(CASE op = "gt" -> FLess(b, a) [] op = "lt" -> FLess(a, b)
                [] op = "ge" -> ~FLess(a, b) [] op = "le" -> ~FLess(b, a))
    [] OTHER -> Err                              \* "only supported on numeric types"

(* == / != : same type on both sides, deep comparison; NULL may be compared   *)
(* with anything (assumption); functions/modules: don't-care (never generated) *)
Equal(a, b) ==
  IF HasFn(a) \/ HasFn(b) THEN Unm
  ELSE IF a.t # b.t /\ a.t # "null" /\ b.t # "null" THEN Err
  ELSE BoolV(VEq(a, b))

(* `in`: field of a tuple (by name), element of a list (deep equality), and   *)
(* (assumption) substring of a string                                          *)
Member(needle, hay) ==
  CASE hay.t = "tuple" -> IF needle.t = "str" THEN BoolV(HasField(hay.fs, needle.s)) ELSE Err
    [] hay.t = "list"  -> IF HasFn(needle) \/ HasFn(hay) THEN Unm
                          ELSE BoolV(\E j \in 1..Len(hay.es) : needle.t = hay.es[j].t /\ VEq(needle, hay.es[j]))
    [] hay.t = "str"   -> IF needle.t = "str" THEN BoolV(IsSubstr(needle.s, hay.s)) ELSE BoolV(FALSE)
    [] OTHER -> Err

(* selection: tuple.field (first match), list.index (0-based)                  *)
Select(base, key) ==
  LET miss == IF Strict THEN Err ELSE Null
  IN CASE key.t = "str" /\ base.t = "tuple" -> IF HasField(base.fs, key.s) THEN GetField(base.fs, key.s) ELSE miss
       [] key.t = "int" /\ base.t = "list" ->
            IF key.i >= 0 /\ key.i < Len(base.es) THEN base.es[key.i + 1] ELSE miss
       [] OTHER -> miss

(* a pattern without regular-expression metacharacters matches as a substring *)
PlainChars == {"a", "b", "c", "d", "e", "f", "g", "x", "y", "z", "0", "1", "2", "3", "4", "5", "6", "7", "8", "9", " ",
               "=", ",", "-", "_", "@"}
PlainPattern(cs) == \A j \in 1..Len(cs) : cs[j] \in PlainChars

(* ---- format templates ---------------------------------------------------------- *)
(* list form: `@` is a placeholder, `\` escapes the next character             *)
RECURSIVE TplParts(_, _, _)
TplParts(cs, buf, esc) ==   \* -> sequence of [pk|->"s", s] / [pk|->"ph"]
  IF cs = << >> THEN (IF buf = << >> THEN << >> ELSE << [pk |-> "s", s |-> buf] >>)
  ELSE LET c == Head(cs)
       IN IF c = "@" /\ ~esc THEN << [pk |-> "s", s |-> buf], [pk |-> "ph"] >> \o TplParts(Tail(cs), << >>, FALSE)
          ELSE IF c = "\\" /\ ~esc THEN TplParts(Tail(cs), buf, TRUE)
          ELSE TplParts(Tail(cs), Append(buf, c), FALSE)
NumPh(parts) == Cardinality({j \in 1..Len(parts) : parts[j].pk = "ph"})

RECURSIVE Fill(_, _)
Fill(parts, vals) ==   \* placeholders take the arguments in order
  IF parts = << >> THEN << >>
  ELSE IF Head(parts).pk = "s" THEN Head(parts).s \o Fill(Tail(parts), vals)
  ELSE Render(Head(vals)) \o Fill(Tail(parts), Tail(vals))

(* ---- the evaluator ------------------------------------------------------------ *)
FuncV(ps, body, rho) == [t |-> "func", ps |-> ps, body |-> body, env |-> rho]
ModV(flds, out, body) == [t |-> "module", flds |-> flds, out |-> out, body |-> body]

RECURSIVE EvalE(_, _, _), EvalSeq(_, _, _), EvalFlds(_, _, _), Exec(_, _, _), Call(_, _),
          Inst(_, _), MapL(_, _), MapT(_, _), MapS(_, _), FilterL(_, _), FilterT(_, _),
          FilterS(_, _), Reduce(_, _, _, _), EvalParts(_, _, _), SelectFld(_, _, _, _), CopyOn(_, _, _, _),
          EvalArm(_, _, _)

EvalSeq(xs, rho, selfs) == [j \in 1..Len(xs) |-> EvalE(xs[j], rho, selfs)]
EvalFlds(fl, rho, selfs) == [j \in 1..Len(fl) |-> Fld(fl[j].nm, EvalE(fl[j].ex, rho, selfs))]
FldVals(fs) == [j \in 1..Len(fs) |-> fs[j].val]

(* ---- how deep the reference follows nested evaluation ----------------------------- *)
(* A function closes over the bindings that exist at its definition, so it cannot name  *)
(* itself - but it can be HANDED itself (let w = func (a) => a(a); w(w)), and a module   *)
(* can be handed itself through an override: evaluation then nests without end.  The    *)
(* language sets no bound, the reference follows MaxNest nested calls / instantiations   *)
(* and leaves anything deeper undescribed ("unm"): generators built on it do not produce *)
(* such programs, C04 probes them as given texts.  The nesting depth travels in the      *)
(* environment under a name no program can write.                                        *)
MaxNest == 16
N_depth == << "<", "d", "e", "p", "t", "h", ">" >>
DepthOf(rho) == IF \E j \in 1..Len(rho) : rho[j].nm = N_depth THEN Lookup(rho, N_depth).i ELSE 0
(* the callee, marked with the depth of the place it is called from *)
At(f, rho) == IF f.t = "func" THEN [t |-> "func", ps |-> f.ps, body |-> f.body, env |-> f.env, dp |-> DepthOf(rho)]
              ELSE IF f.t = "module" THEN [t |-> "module", flds |-> f.flds, out |-> f.out, body |-> f.body, dp |-> DepthOf(rho)]
              ELSE f
DpOf(f) == IF "dp" \in DOMAIN f THEN f.dp ELSE 0

(* a call: arity must match; body sees the definition-time bindings plus the  *)
(* parameters (which shadow them); `self` is not available inside             *)
Call(f, args) ==
  IF f.t # "func" THEN Err
  ELSE IF Len(args) # Len(f.ps) THEN Err
  ELSE IF \E j \in 1..Len(f.ps) : f.ps[j] \in Reserved \/ f.ps[j] = N_env THEN Err    \* a parameter is a binding: no reserved word
  ELSE IF DpOf(f) >= MaxNest THEN Unm
  ELSE EvalE(f.body, f.env \o << Fld(N_depth, IntV(DpOf(f) + 1)) >> \o [j \in 1..Len(args) |-> Fld(f.ps[j], args[j])], << >>)

(* module instantiation: parameters = defaults merged with the overrides (same *)
(* type rule as copy) plus `this`; the body sees ONLY `mod`; result is the out *)
(* expression evaluated after the last statement, or all bindings.  Exported   *)
(* bindings are listed in name order (assumption; generators keep body names   *)
(* in increasing order so that statement order and name order coincide)        *)
RECURSIVE SortFlds(_)
SortFlds(fs) ==
  IF fs = << >> THEN << >>
  ELSE LET m == CHOOSE j \in 1..Len(fs) : \A q \in 1..Len(fs) : q = j \/ ~NameLess(fs[q].nm, fs[j].nm) \/ fs[q].nm = fs[j].nm
       IN << fs[m] >> \o SortFlds([q \in 1..(Len(fs) - 1) |-> IF q < m THEN fs[q] ELSE fs[q + 1]])

Inst(m, ovs) ==
  LET merged == MergeAll(m.flds, ovs)
  IN IF IsBadFs(merged) THEN Err
     ELSE IF DpOf(m) >= MaxNest THEN Unm
     ELSE LET withThis == MergeOne(merged, Fld(N_this, ModV(m.flds, m.out, m.body)))
              r == Exec(m.body, << Fld(N_mod, TupleV(withThis)), Fld(N_depth, IntV(DpOf(m) + 1)) >>, << >>)
          IN IF IsBadFs(withThis) THEN Err
             ELSE IF r.k = "unm" THEN Unm
             ELSE IF r.k = "fail" THEN Err
             ELSE IF m.out # << >> THEN EvalE(m.out[1], r.env, << >>)
             ELSE TupleV(SortFlds(SelectSeq(r.env, LAMBDA f : f.nm # N_mod /\ f.nm # N_depth)))

(* map / filter / reduce *)
MapL(f, es) ==
  IF es = << >> THEN ListV(<< >>)
  ELSE LET h == Call(f, << Head(es) >>)
           r == MapL(f, Tail(es))
       IN IF Bad(h) THEN h ELSE IF Bad(r) THEN r ELSE ListV(<< h >> \o r.es)
MapT(f, fs) ==
  IF fs = << >> THEN TupleV(<< >>)
  ELSE LET h == Call(f, << StrV(Head(fs).nm), Head(fs).val >>)
           r == MapT(f, Tail(fs))
       IN IF Bad(h) THEN h ELSE IF Bad(r) THEN r
          ELSE IF h.t # "list" THEN r                       \* (assumption) a non-list result drops the field
          ELSE IF Len(h.es) # 2 \/ h.es[1].t # "str" THEN Err
          ELSE TupleV(<< Fld(h.es[1].s, h.es[2]) >> \o r.fs)
MapS(f, cs) ==
  IF cs = << >> THEN StrV(<< >>)
  ELSE LET h == Call(f, << StrV(<< Head(cs) >>) >>)
           r == MapS(f, Tail(cs))
       IN IF Bad(h) THEN h ELSE IF Bad(r) THEN r ELSE IF h.t # "str" THEN Err ELSE StrV(h.s \o r.s)
Keep(c) == ~(c.t = "null" \/ (c.t = "bool" /\ ~c.b))    \* "false or NULL ... filter out"
FilterL(f, es) ==
  IF es = << >> THEN ListV(<< >>)
  ELSE LET h == Call(f, << Head(es) >>)
           r == FilterL(f, Tail(es))
       IN IF Bad(h) THEN h ELSE IF Bad(r) THEN r ELSE IF Keep(h) THEN ListV(<< Head(es) >> \o r.es) ELSE r
FilterT(f, fs) ==
  IF fs = << >> THEN TupleV(<< >>)
  ELSE LET h == Call(f, << StrV(Head(fs).nm), Head(fs).val >>)
           r == FilterT(f, Tail(fs))
       IN IF Bad(h) THEN h ELSE IF Bad(r) THEN r ELSE IF Keep(h) THEN TupleV(<< Head(fs) >> \o r.fs) ELSE r
FilterS(f, cs) ==
  IF cs = << >> THEN StrV(<< >>)
  ELSE LET h == Call(f, << StrV(<< Head(cs) >>) >>)
           r == FilterS(f, Tail(cs))
       IN IF Bad(h) THEN h ELSE IF Bad(r) THEN r ELSE IF Keep(h) THEN StrV(<< Head(cs) >> \o r.s) ELSE r
Reduce(f, acc, kind, items) ==   \* items: values / fields / characters
  IF items = << >> THEN acc
  ELSE LET h == CASE kind = "list"  -> Call(f, << acc, Head(items) >>)
                  [] kind = "tuple" -> Call(f, << acc, StrV(Head(items).nm), Head(items).val >>)
                  [] kind = "str"   -> Call(f, << acc, StrV(<< Head(items) >>) >>)
       IN IF Bad(h) THEN h ELSE Reduce(f, h, kind, Tail(items))

(* single-form templates: parts are [pk|->"s", s] or [pk|->"ex", x] *)
EvalParts(parts, rho, selfs) ==
  IF parts = << >> THEN StrV(<< >>)
  ELSE LET h == IF Head(parts).pk = "s" THEN StrV(Head(parts).s)
                ELSE LET v == EvalE(Head(parts).x, rho, selfs) IN IF Bad(v) THEN v ELSE StrV(Render(v))
           r == EvalParts(Tail(parts), rho, selfs)
       IN IF IsUnm(h) \/ IsUnm(r) THEN Unm ELSE IF Bad(h) THEN h ELSE IF Bad(r) THEN r ELSE StrV(h.s \o r.s)

(* select: the first field whose name equals the string, or `true`/`false` for *)
(* a boolean; else the default; else a failure.  (assumption) a value that is  *)
(* neither string nor boolean matches no field.                                *)
SelectFld(v, flds, rho, selfs) ==
  LET key == CASE v.t = "str" -> v.s
               [] v.t = "bool" -> IF v.b THEN N_true ELSE N_false
               [] OTHER -> << >>
      hit == { j \in 1..Len(flds) : v.t \in {"str", "bool"} /\ flds[j].nm = key }
  IN IF hit = {} THEN [t |-> "nomatch"]
     ELSE EvalE(flds[CHOOSE j \in hit : \A m \in hit : j <= m].ex, rho, selfs)

(* copy on a tuple or a module.  Override expressions see `self` = the base.   *)
CopyOn(base, flds, rho, selfs) ==
  IF base.t \notin {"tuple", "module"} THEN
       (LET ovs == EvalFlds(flds, rho, Append(selfs, base)) IN IF IsUnm(Worst(FldVals(ovs))) THEN Unm ELSE Err)
  ELSE LET ovs == EvalFlds(flds, rho, Append(selfs, base))
           w   == Worst(FldVals(ovs))
           own == MergeAll(<< >>, ovs)      \* the override tuple itself is built by merging
       IN IF Bad(w) THEN w
          ELSE IF IsBadFs(own) THEN Err
          ELSE IF base.t = "tuple"
                 THEN (LET r == MergeAll(base.fs, own) IN IF IsBadFs(r) THEN Err ELSE TupleV(r))
                 ELSE Inst(At(base, rho), own)

(* ---- constraints after `::` (vm.rs op_build_constraint / op_check_constraint) ---- *)
(* At run time only RANGES and ALTERNATIVES are checked: a single example value after  *)
(* `::` is an ordinary expression whose shape the static checker compares (C06).  The  *)
(* reference describes the primitive cases: integer ranges (open on either side) and   *)
(* exact primitive alternatives against a primitive value; float ranges and composite  *)
(* alternatives are left to Constraint.tla ("unm" here).                               *)
ConV(arms) == [t |-> "con", arms |-> arms]
IsCPrim(v) == v.t \in {"int", "float", "str", "bool"}     \* what a run-time check compares
EvalArm(a, rho, selfs) ==
  IF a.a = "shape"
    THEN LET v == EvalE(a.x, rho, selfs)
         IN IF Bad(v) THEN v ELSE IF IsCPrim(v) THEN [t |-> "arm", a |-> "exact", v |-> v]
            (* a named constraint as an alternative: its own arms count.  The placeholder of a constraint that *)
            (* mentions itself (no arms yet) is recursion: Constraint.tla's subject, undescribed here           *)
            ELSE IF v.t = "con" THEN (IF v.arms = << >> THEN Unm ELSE [t |-> "arm", a |-> "sub", c |-> v])
            ELSE Unm
    ELSE LET lo == IF a.lo = << >> THEN Null ELSE EvalE(a.lo[1], rho, selfs)
             hi == IF a.hi = << >> THEN Null ELSE EvalE(a.hi[1], rho, selfs)
         IN IF AnyBad(<< lo, hi >>) THEN Worst(<< lo, hi >>)
            ELSE IF lo.t = "float" \/ hi.t = "float" THEN Unm
            ELSE IF lo.t \notin {"int", "null"} \/ hi.t \notin {"int", "null"} \/ (lo.t = "null" /\ hi.t = "null")
                   THEN Err                                     \* "Range constraint bounds must be numeric"
            ELSE [t |-> "arm", a |-> "irange", lo |-> IF lo.t = "int" THEN << lo.i >> ELSE << >>,
                                               hi |-> IF hi.t = "int" THEN << hi.i >> ELSE << >>]
RECURSIVE ArmHolds(_, _)
ArmHolds(v, arm) ==
  IF arm.a = "irange" THEN v.t = "int" /\ (arm.lo = << >> \/ v.i >= arm.lo[1]) /\ (arm.hi = << >> \/ v.i <= arm.hi[1])
  ELSE IF arm.a = "sub" THEN arm.c.arms = << >> \/ \E j \in 1..Len(arm.c.arms) : ArmHolds(v, arm.c.arms[j])
  ELSE v.t = arm.v.t /\ v = arm.v
(* does value v pass what was written after `::` (evaluated to c)?  "ok" / "fail" / "unm" *)
Passes(v, c) ==
  IF c.t = "con" THEN (IF c.arms = << >> THEN "unm"        \* the placeholder a constraint statement pre-binds: recursion, see EvalArm
                       ELSE IF ~IsCPrim(v) THEN "unm"
                       ELSE IF \E j \in 1..Len(c.arms) : ArmHolds(v, c.arms[j]) THEN "ok" ELSE "fail")
  ELSE IF IsCPrim(c) /\ c.t = v.t THEN "ok"        \* an example of the same primitive type: nothing to check
  ELSE "unm"

EvalE(e, rho, selfs) ==
  CASE e.e = "lit" -> e.v
    [] e.e = "sym" ->
         IF e.nm = N_self THEN (IF selfs = << >> THEN Err ELSE selfs[Len(selfs)])
         ELSE IF e.nm = N_env /\ ~Bound(rho, N_env) THEN TupleV(EnvVars)   \* the process environment (C18)
         ELSE Lookup(rho, e.nm)
    [] e.e = "grp" -> EvalE(e.x, rho, selfs)
    [] e.e = "trace" -> EvalE(e.x, rho, selfs)                   \* "return the result ... unchanged"
    [] e.e = "tuple" ->
         LET fs == EvalFlds(e.flds, rho, selfs)
             w  == Worst(FldVals(fs))
             m  == MergeAll(<< >>, fs)
         IN IF Bad(w) THEN w ELSE IF IsBadFs(m) THEN Err ELSE TupleV(m)
    [] e.e = "list" ->
         LET es == EvalSeq(e.xs, rho, selfs) IN IF AnyBad(es) THEN Worst(es) ELSE ListV(es)
    [] e.e = "not" ->
         LET v == EvalE(e.x, rho, selfs) IN IF Bad(v) THEN v ELSE IF v.t = "bool" THEN BoolV(~v.b) ELSE Err
    [] e.e = "fail" ->
         LET v == EvalE(e.x, rho, selfs) IN IF IsUnm(v) THEN Unm ELSE Err
    [] e.e = "cast" ->
         LET v == EvalE(e.x, rho, selfs) IN IF Bad(v) THEN v ELSE Cast(e.ty, v)
    [] e.e = "func" -> FuncV(e.ps, e.body, rho)                  \* closes over the bindings that exist HERE
    [] e.e = "call" ->
         LET f  == Lookup(rho, e.fn)
             as == EvalSeq(e.args, rho, selfs)
         IN IF AnyBad(as) THEN Worst(as) ELSE IF Bad(f) THEN f ELSE Call(At(f, rho), as)
    [] e.e = "range" ->
         LET lo == EvalE(e.lo, rho, selfs)
             hi == EvalE(e.hi, rho, selfs)
             st == IF e.step = << >> THEN IntV(1) ELSE EvalE(e.step[1], rho, selfs)
         IN IF AnyBad(<< lo, hi, st >>) THEN Worst(<< lo, hi, st >>)
            ELSE IF lo.t # "int" \/ hi.t # "int" \/ st.t # "int" THEN Err
            ELSE IF st.i < 1 THEN Err
            ELSE IF hi.i < lo.i THEN ListV(<< >>)
            ELSE ListV([j \in 1..(((hi.i - lo.i) \div st.i) + 1) |-> IntV(lo.i + (j - 1) * st.i)])
    [] e.e = "select" ->
         LET v == EvalE(e.x, rho, selfs)
         IN IF Bad(v) THEN v
            ELSE LET r == SelectFld(v, e.flds, rho, selfs)
                 IN IF r.t # "nomatch" THEN r
                    ELSE IF e.dflt # << >> THEN EvalE(e.dflt[1], rho, selfs)
                    ELSE Err                                      \* "compile failure for the unhandled case"
    [] e.e = "copy" ->
         LET base == IF e.sel = N_self THEN (IF selfs = << >> THEN Err ELSE selfs[Len(selfs)])
                     ELSE Lookup(rho, e.sel)
         IN IF Bad(base) THEN base ELSE CopyOn(base, e.flds, rho, selfs)
    [] e.e = "module" ->
         LET fs == EvalFlds(e.ps, rho, selfs)
             w  == Worst(FldVals(fs))
             m  == MergeAll(<< >>, fs)
         IN IF Bad(w) THEN w ELSE IF IsBadFs(m) THEN Err ELSE ModV(m, e.out, e.body)
    [] e.e = "fop" ->
         LET f   == At(EvalE(e.fn, rho, selfs), rho)
             tg  == EvalE(e.tgt, rho, selfs)
             acc == IF e.kind = "reduce" THEN EvalE(e.acc[1], rho, selfs) ELSE Null
         IN IF AnyBad(<< f, tg, acc >>) THEN Worst(<< f, tg, acc >>)
            ELSE IF f.t # "func" THEN Err
            ELSE IF tg.t \notin {"list", "tuple", "str"} THEN Err
            (* "The function is expected to take a single argument" (list, string), *)
            (* "two arguments" (tuple); reduce adds the accumulator in front        *)
            ELSE IF Len(f.ps) # (IF tg.t = "tuple" THEN 2 ELSE 1) + (IF e.kind = "reduce" THEN 1 ELSE 0) THEN Err
            ELSE (CASE e.kind = "map" ->
                        (CASE tg.t = "list" -> MapL(f, tg.es) [] tg.t = "tuple" -> MapT(f, tg.fs)
                           [] tg.t = "str" -> MapS(f, tg.s))
                   [] e.kind = "filter" ->
                        (CASE tg.t = "list" -> FilterL(f, tg.es) [] tg.t = "tuple" -> FilterT(f, tg.fs)
                           [] tg.t = "str" -> FilterS(f, tg.s))
                   [] e.kind = "reduce" ->
                        Reduce(f, acc, tg.t, CASE tg.t = "list" -> tg.es [] tg.t = "tuple" -> tg.fs
                                                [] tg.t = "str" -> tg.s))
    [] e.e = "fmt" ->
         IF e.form = "list"
           THEN LET parts == TplParts(e.tpl, << >>, FALSE)
                    vs    == EvalSeq(e.args, rho, selfs)
                IN IF IsUnm(Worst(vs)) THEN Unm
                   ELSE IF NumPh(parts) # Len(e.args) THEN Err      \* every placeholder takes exactly one argument
                   ELSE IF AnyBad(vs) THEN Worst(vs)
                   ELSE StrV(Fill(parts, vs))
           ELSE LET v == EvalE(e.args[1], rho, selfs)
                IN IF Bad(v) THEN v
                   ELSE EvalParts(e.parts, Append(rho, Fld(N_item, v)), selfs)   \* `item` shadows, does not leak
    [] e.e = "con" ->             \* a constraint expression (only after `::`): ranges and exact alternatives
         LET as == [j \in 1..Len(e.arms) |-> EvalArm(e.arms[j], rho, selfs)]
         IN IF AnyBad(as) THEN Worst(as) ELSE ConV(as)
    [] e.e = "bin" ->
         CASE e.op = "and" ->      \* short circuit; both sides must be boolean
                LET l == EvalE(e.l, rho, selfs)
                IN IF Bad(l) THEN l ELSE IF l.t # "bool" THEN Err
                   ELSE IF ~l.b THEN l
                   ELSE LET r == EvalE(e.r, rho, selfs) IN IF Bad(r) THEN r ELSE IF r.t # "bool" THEN Err ELSE r
           [] e.op = "or" ->
                LET l == EvalE(e.l, rho, selfs)
                IN IF Bad(l) THEN l ELSE IF l.t # "bool" THEN Err
                   ELSE IF l.b THEN l
                   ELSE LET r == EvalE(e.r, rho, selfs) IN IF Bad(r) THEN r ELSE IF r.t # "bool" THEN Err ELSE r
           [] e.op = "dot" ->
                LET base == EvalE(e.l, rho, selfs)
                IN IF Bad(base) THEN base
                   ELSE (CASE e.r.e = "sym" -> Select(base, StrV(e.r.nm))
                          [] e.r.e = "copy" ->
                               LET b2 == Select(base, StrV(e.r.sel))
                               IN IF Bad(b2) THEN b2 ELSE CopyOn(b2, e.r.flds, rho, selfs)
                          [] e.r.e = "call" ->
                               LET f  == Select(base, StrV(e.r.fn))
                                   as == EvalSeq(e.r.args, rho, selfs)
                               IN IF AnyBad(as) THEN Worst(as) ELSE IF Bad(f) THEN f ELSE Call(At(f, rho), as)
                          [] OTHER ->
                               LET key == EvalE(e.r, rho, selfs) IN IF Bad(key) THEN key ELSE Select(base, key))
           [] e.op = "in" ->
                LET hay == EvalE(e.r, rho, selfs)
                IN IF Bad(hay) THEN hay
                   ELSE IF e.l.e = "sym" /\ hay.t = "tuple" THEN BoolV(HasField(hay.fs, e.l.nm))   \* bare name = field name
                   ELSE LET nd == EvalE(e.l, rho, selfs) IN IF Bad(nd) THEN nd ELSE Member(nd, hay)
           [] e.op = "is" ->
                LET v  == EvalE(e.l, rho, selfs)
                    ty == EvalE(e.r, rho, selfs)
                IN IF AnyBad(<< v, ty >>) THEN Worst(<< v, ty >>)
                   ELSE IF ty.t # "str" THEN (IF ty.t = "null" THEN BoolV(FALSE) ELSE Err)
                   ELSE BoolV(ty.s = TypeChars(v))
           [] e.op \in {"re", "nre"} ->     \* regular expression match: literal patterns are the decidable fragment
                LET subj == EvalE(e.l, rho, selfs)
                    pat  == EvalE(e.r, rho, selfs)
                IN IF AnyBad(<< subj, pat >>) THEN Worst(<< subj, pat >>)
                   ELSE IF subj.t # "str" \/ pat.t # "str" THEN Err
                   ELSE IF ~PlainPattern(pat.s) THEN Unm
                   ELSE BoolV((e.op = "re") = IsSubstr(pat.s, subj.s))
           [] OTHER ->
                LET l == EvalE(e.l, rho, selfs)
                    r == EvalE(e.r, rho, selfs)
                IN IF AnyBad(<< l, r >>) THEN Worst(<< l, r >>)
                   ELSE CASE e.op \in {"add", "sub", "mul", "div", "mod"} -> Arith(e.op, l, r)
                          [] e.op \in {"gt", "lt", "ge", "le"} -> Compare(e.op, l, r)
                          [] e.op = "eq" -> Equal(l, r)
                          [] e.op = "ne" -> LET q == Equal(l, r) IN IF Bad(q) THEN q ELSE BoolV(~q.b)

(* `let name :: constraint = value`: the value, then the constraint, are evaluated; *)
(* the check comes before the binding                                               *)
ConFails(v, c) == IF IsUnm(c) THEN "unm" ELSE IF Bad(c) THEN "fail" ELSE Passes(v, c)

(* statements: let binds once (collision, reserved word: failure), expression  *)
(* statements are evaluated and dropped                                         *)
Exec(stmts, rho, selfs) ==
  IF stmts = << >> THEN [k |-> "ok", env |-> rho]
  ELSE LET st == Head(stmts)
       IN IF st.s = "cstmt"
            (* `constraint name = c;` (translate.rs Statement::Constraint): the name is bound first - to a     *)
            (* placeholder that admits anything, so that c may mention it - then c is evaluated and the name   *)
            (* is bound to it for good.  A name that exists already (or a reserved word) is an error.          *)
            THEN (IF st.nm \in Reserved \/ st.nm = N_env \/ Bound(rho, st.nm) THEN [k |-> "fail", at |-> Len(rho)]
                  ELSE LET c == EvalE(st.x, Append(rho, Fld(st.nm, ConV(<< >>))), selfs)
                       IN IF IsUnm(c) THEN [k |-> "unm"]
                          ELSE IF Bad(c) THEN [k |-> "fail", at |-> Len(rho)]
                          ELSE Exec(Tail(stmts), Append(rho, Fld(st.nm, c)), selfs))
          ELSE
          LET v  == EvalE(st.x, rho, selfs)
          IN IF IsUnm(v) THEN [k |-> "unm"]
          ELSE IF Bad(v) THEN [k |-> "fail", at |-> Len(rho)]
          ELSE IF st.s = "expr" THEN Exec(Tail(stmts), rho, selfs)
          ELSE IF st.s = "clet" /\ ConFails(v, EvalE(st.con, rho, selfs)) # "ok"
                 THEN (IF ConFails(v, EvalE(st.con, rho, selfs)) = "unm" THEN [k |-> "unm"] ELSE [k |-> "fail", at |-> Len(rho)])
          ELSE IF st.nm \in Reserved \/ st.nm = N_env \/ Bound(rho, st.nm) THEN [k |-> "fail", at |-> Len(rho)]
          ELSE Exec(Tail(stmts), Append(rho, Fld(st.nm, v)), selfs)

Run(prog) == Exec(prog, << >>, << >>)

(* projection of an outcome for comparison with the other semantics / the code *)
AbsOut(o) == IF o.k = "ok" THEN [k |-> "ok", env |-> [j \in 1..Len(o.env) |-> Fld(o.env[j].nm, Abs(o.env[j].val))]]
             ELSE [k |-> o.k]
=============================================================================
