CONSTANTS Deviations = {} MaxLen = 5 MaxFields = 5 Extra <- NoExtra NTexts = 0 TextOf <- NoTextOf MachineLen = 0 MachineRaw = 0
INIT GenInit
NEXT GenNext
CHECK_DEADLOCK FALSE
INVARIANTS HelpersOneWord OneWord EveryScalarOnceInOrder Emit
