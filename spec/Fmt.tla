------------------------------ MODULE Fmt ------------------------------
(* C05, part (b): the comment placer of `ucg fmt`.                           *)
(*                                                                          *)
(* Code transcribed:                                                        *)
(*   tokenizer/mod.rs:535-596   comment groups -> CommentMap (keyed by the  *)
(*                              line of the group's LAST comment)           *)
(*   printer/mod.rs:50-55       with_comment_map: pending = reversed keys   *)
(*   printer/mod.rs:82-130      print_comment_group, render_missed_comments,*)
(*                              render_comment_if_needed, has_comment       *)
(*   printer/mod.rs:575-633     render_stmt (prefix newline), render (tail) *)
(*                                                                          *)
(* A LAYOUT is the line skeleton of a source file: per line what code sits  *)
(* on it (a statement head "s", an inner node "n" of the statement above,   *)
(* or nothing "-") and whether a comment ends the line.  The machine runs   *)
(* the tokenizer's grouping, then the printer's visits one loop iteration   *)
(* per step, then - when every comment of the output sits on a line of its  *)
(* own between statements - lays the output out again and formats it a      *)
(* second time.                                                             *)
(*                                                                          *)
(* Which AST nodes call what (printer/mod.rs, transcribed into Visits):     *)
(*   render_comment_if_needed(line)  ["need": flush every group <= line]    *)
(*     render_stmt (stmt.pos), render_expr (every expression, expr.pos),    *)
(*     list element, call argument, cast target, tuple/copy/select/module   *)
(*     field (name line, and value line when different)                     *)
(*   has_comment(l) => render_missed_comments(l)  ["guard": flush every     *)
(*     group <= l iff some group < l]                                       *)
(*     Range (end.pos, BEFORE start is printed), Select (val.pos, then      *)
(*     default.pos, before `select`), Import/Include (path.pos), Not (pos)  *)
(*   has_comment(l) only for layout (newline / indent, no emission):        *)
(*     Binary right operand, TRACE, fail, format single argument, first     *)
(*     list-form format argument, map/filter/reduce arguments, Grouped      *)
(*   render(): after the last statement render_missed_comments(max key + 1) *)
EXTENDS Naturals, Sequences, FiniteSets, TLC, Json, SequencesExt

CONSTANTS MaxL,        \* lines of a layout
          MaxStmts,    \* statements of a layout
          MaxCmts,     \* comments of a layout
          Spices,      \* which single extras a layout may carry: "frag", "glue", "look"
          Deviations,  \* deviations the model-checked machine runs under ({} = the design)
          KnownDevs,   \* recorded deviations of the code: used for the code-faithful prediction
          EmitEvery,   \* REPLAY lines are printed for the layouts with LayHash % EmitEvery = EmitPhase
          EmitPhase

VARIABLE m
pvars == << m >>

(* ---- comment text ---------------------------------------------------------- *)
(* the text after `//` as a sequence of character classes: "sp" blank, "x" other *)
DefFrag == << "sp", "x" >>
Frags == { << >>, << "sp" >>, << "x" >>, << "sp", "x", "sp" >>, << "x", "sp", "sp" >>, << "sp", "sp", "x" >> }

RECURSIVE TrimEnd(_)
TrimEnd(f) == IF f # << >> /\ f[Len(f)] = "sp" THEN TrimEnd(SubSeq(f, 1, Len(f) - 1)) ELSE f

(* print_comment_group, printer/mod.rs:88-96: what follows `//` in the output.   *)
(* Design: a comment without text is written back as `//`.                       *)
(* BlankCommentPadded: first_char of an empty fragment is '\0', "not whitespace", *)
(* so `// ` + "" is written - a trailing blank that the next pass trims again.   *)
PrintFrag(f, devs) ==
  LET t == TrimEnd(f)
  IN IF f = << >> \/ f[1] # "sp"
       THEN (IF t = << >> /\ "BlankCommentPadded" \notin devs THEN << >> ELSE << "sp" >> \o t)
       ELSE t

(* what the property compares: the text without leading / trailing blanks *)
RECURSIVE TrimStart(_)
TrimStart(f) == IF f # << >> /\ f[1] = "sp" THEN TrimStart(Tail(f)) ELSE f
Content(f) == TrimStart(TrimEnd(f))

(* ---- layouts --------------------------------------------------------------- *)
(* line = [code, cm, f]:  code "s" | "n" | "-";  cm "no" | "c" (comment; on a     *)
(* code line it trails the code, on a "-" line it starts in column 0) | "ic"     *)
(* (own-line comment preceded by indentation); f = text of the comment           *)
Ln(code, cm) == [code |-> code, cm |-> cm, f |-> IF cm = "no" THEN << >> ELSE DefFrag]
LineKinds == { Ln("s", "no"), Ln("s", "c"), Ln("n", "no"), Ln("n", "c"),
               Ln("-", "no"), Ln("-", "c"), Ln("-", "ic") }

CountIf(ls, P(_)) == Cardinality({i \in 1..Len(ls) : P(ls[i])})
IsS(l) == l.code = "s"
IsCm(l) == l.cm # "no"
ValidPrefix(ls) ==
  /\ CountIf(ls, IsS) <= MaxStmts
  /\ CountIf(ls, IsCm) <= MaxCmts
  /\ \A i \in 1..Len(ls) : ls[i].code = "n" => \E j \in 1..(i - 1) : ls[j].code = "s"
(* a complete layout does not end in a blank line (it would be the same file) *)
Complete(ls) == ls # << >> => ~(ls[Len(ls)].code = "-" /\ ls[Len(ls)].cm = "no")

NextCode(ls, i) == IF \E j \in (i + 1)..Len(ls) : ls[j].code # "-"
                     THEN CHOOSE j \in (i + 1)..Len(ls) : ls[j].code # "-" /\ \A q \in (i + 1)..(j - 1) : ls[q].code = "-"
                     ELSE 0
Lay(ls, look, glue) == [lines |-> ls, look |-> look, glue |-> glue]
Spiced(ls) ==
  { Lay(ls, FALSE, 0) }
  \cup (IF "look" \in Spices /\ \E i \in 1..Len(ls) : ls[i].code = "n" THEN { Lay(ls, TRUE, 0) } ELSE {})
  \cup (IF "frag" \in Spices
          THEN { Lay([ls EXCEPT ![i].f = f], FALSE, 0) : i \in {j \in 1..Len(ls) : ls[j].cm # "no"}, f \in Frags }
          ELSE {})
  \cup (IF "glue" \in Spices
          THEN { Lay(ls, FALSE, i) : i \in {j \in 1..Len(ls) : ls[j].code # "-" /\ ls[j].cm = "c"
                                                             /\ NextCode(ls, j) # 0 /\ ls[NextCode(ls, j)].code = "n"} }
          ELSE {})

(* the comments of the TEXT, in order (the reference for EachOnce: independent of the tokenizer) *)
CmLines(ls) == SetToSortSeq({i \in 1..Len(ls) : ls[i].cm # "no"}, <)
SrcComments(ls) == LET cl == CmLines(ls) IN [j \in 1..Len(cl) |-> [id |-> j, ln |-> cl[j], f |-> ls[cl[j]].f]]

(* ---- tokenizer: comment groups (tokenizer/mod.rs:535-596) ------------------- *)
(* A group is closed by the next non-comment token, white space included: a      *)
(* comment joins the group of the comment on the line above iff nothing but that *)
(* comment's own line end lies between them (code "-", cm "c").                  *)
(* KeywordSwallowsComment (tokenizer/mod.rs:153-165, do_text_token_tok! ... WS): *)
(* a keyword recogniser consumes `either!(whitespace, comment)`, so a comment    *)
(* glued to `in`, `not`, `let` ... never becomes a COMMENT token.                *)
Close(acc, grp) == IF grp = << >> THEN acc ELSE Append(acc, [ln |-> grp[Len(grp)].ln, cs |-> grp])
RECURSIVE Tok(_, _, _, _, _, _)
Tok(ls, i, id, grp, acc, sw) ==
  IF i > Len(ls) THEN Close(acc, grp)
  ELSE LET l == ls[i]
           has == l.cm # "no"
           tok == has /\ i # sw
           joins == tok /\ l.code = "-" /\ l.cm = "c"
           acc1 == IF joins THEN acc ELSE Close(acc, grp)
           grp1 == IF joins THEN grp ELSE << >>
       IN Tok(ls, i + 1, IF has THEN id + 1 ELSE id,
              IF tok THEN Append(grp1, [id |-> id, ln |-> i, f |-> l.f]) ELSE grp1, acc1, sw)
Groups(lay, devs) == Tok(lay.lines, 1, 1, << >>, << >>,
                         IF "KeywordSwallowsComment" \in devs THEN lay.glue ELSE 0)

(* ---- the printer's visits of a layout ---------------------------------------- *)
CodeOrd(ls, i) == Cardinality({j \in 1..i : ls[j].code # "-"})
LastN(ls, i) ==      \* last inner-node line of the statement that starts on line i (i itself if none)
  LET ns == {j \in (i + 1)..Len(ls) : ls[j].code = "n" /\ \A q \in (i + 1)..j : ls[q].code # "s"}
  IN IF ns = {} THEN i ELSE CHOOSE j \in ns : \A q \in ns : q <= j
V(k, ln, o) == [k |-> k, ln |-> ln, o |-> o]
RECURSIVE VisitsFrom(_, _, _)
VisitsFrom(ls, i, look) ==
  IF i > Len(ls) THEN << >>
  ELSE (IF ls[i].code = "s"
          THEN << V("s", i, CodeOrd(ls, i)) >> \o
               (IF look /\ LastN(ls, i) > i THEN << V("g", LastN(ls, i), 0) >> ELSE << >>)
          ELSE IF ls[i].code = "n" THEN << V("n", i, CodeOrd(ls, i)) >> ELSE << >>)
       \o VisitsFrom(ls, i + 1, look)
Visits(lay) == VisitsFrom(lay.lines, 1, lay.look)

(* ---- machine state ---------------------------------------------------------- *)
Item(k, id, f, o, ln) == [k |-> k, id |-> id, f |-> f, o |-> o, ln |-> ln]
NoVisit == V("-", 0, 0)
InitM(lay) == [lay |-> lay, lay0 |-> lay, src |-> SrcComments(lay.lines), ph |-> "tok", pass |-> 1, groups |-> << >>, pend |-> << >>, vis |-> << >>,
               vi |-> 1, cur |-> NoVisit, go |-> FALSE, out |-> << >>, out1 |-> << >>, last |-> 0]

Top(x) == x.pend[Len(x.pend)]
(* render_missed_comments' loop condition (printer/mod.rs:102-106) *)
More(x) == x.go /\ x.pend # << >> /\ Top(x) <= x.cur.ln
(* has_comment (printer/mod.rs:124-129): strictly before the line *)
HasComment(x, line) == x.pend # << >> /\ Top(x) < line
GroupAt(x, line) == LET hit == {j \in 1..Len(x.groups) : x.groups[j].ln = line}
                    IN IF hit = {} THEN << >> ELSE x.groups[CHOOSE j \in hit : TRUE].cs

(* tokenize + with_comment_map: the pending stack is the reversed key list, last() = smallest line *)
En_Tokenize(x) == x.ph = "tok"
Do_Tokenize(x, devs) ==
  LET gs == Groups(x.lay, IF x.pass = 1 THEN devs ELSE {})
  IN [x EXCEPT !.groups = gs, !.pend = [j \in 1..Len(gs) |-> gs[Len(gs) + 1 - j].ln],
               !.vis = Visits(x.lay), !.vi = 1, !.ph = "visit", !.out = << >>, !.last = 0]

(* entering a visit: render_stmt writes the separating newline first (printer/mod.rs:577-579) *)
En_Enter(x) == x.ph = "visit" /\ x.vi <= Len(x.vis)
Do_Enter(x, devs) ==
  LET v == x.vis[x.vi]
      pn == v.k = "s" /\ \E j \in 1..(x.vi - 1) : x.vis[j].k = "s"
  IN [x EXCEPT !.cur = v, !.ph = "loop",
               !.go = IF v.k = "g" THEN HasComment(x, v.ln) ELSE TRUE,
               !.out = IF pn THEN Append(@, Item("nl", 0, << >>, 0, 0)) ELSE @]

(* one iteration of render_missed_comments: print the group, pop it, blank-line rule *)
En_EmitGroup(x) == x.ph \in {"loop", "end"} /\ More(x)
Do_EmitGroup(x, devs) ==
  LET gl == Top(x)
      cs == GroupAt(x, gl)
      printed == [j \in 1..Len(cs) |-> Item("c", cs[j].id, PrintFrag(cs[j].f, devs), 0, cs[j].ln)]
  IN [x EXCEPT !.out = (@ \o printed) \o (IF gl + 1 < x.cur.ln THEN << Item("nl", 0, << >>, 0, 0) >> ELSE << >>),
               !.pend = SubSeq(@, 1, Len(@) - 1)]

(* the loop is over: the node's own text follows; last_line := line *)
En_Leave(x) == x.ph = "loop" /\ ~More(x)
Do_Leave(x, devs) ==
  [x EXCEPT !.out = IF x.cur.k \in {"s", "n"} THEN Append(@, Item(x.cur.k, 0, << >>, x.cur.o, x.cur.ln)) ELSE @,
            !.last = x.cur.ln, !.vi = @ + 1, !.ph = "visit"]

(* render(): after the statements, everything that is left (printer/mod.rs:628-631); *)
(* comment_group_lines.first() is the LARGEST key                                   *)
En_Tail(x) == x.ph = "visit" /\ x.vi > Len(x.vis)
Do_Tail(x, devs) ==
  IF x.pend = << >> THEN [x EXCEPT !.ph = "fin"]
  ELSE [x EXCEPT !.ph = "end", !.go = TRUE, !.cur = V("e", x.pend[1] + 1, 0)]
En_TailDone(x) == x.ph = "end" /\ ~More(x)
Do_TailDone(x, devs) == [x EXCEPT !.ph = "fin"]

(* ---- second pass ------------------------------------------------------------ *)
(* every comment of the output on a line of its own BETWEEN statements: the next  *)
(* code item after it (if any) is a statement head                                *)
NextNode(o, j) == IF \E q \in (j + 1)..Len(o) : o[q].k \in {"s", "n"}
                    THEN o[CHOOSE q \in (j + 1)..Len(o) : o[q].k \in {"s", "n"} /\ \A r \in (j + 1)..(q - 1) : o[r].k \notin {"s", "n"}].k
                    ELSE "s"
Pre(o) == \A j \in 1..Len(o) : o[j].k = "c" => NextNode(o, j) = "s"

(* the output as a layout: one line per item (top level: comments start in column 0) *)
Relines(o) == [j \in 1..Len(o) |->
                 IF o[j].k = "c" THEN [code |-> "-", cm |-> "c", f |-> o[j].f]
                 ELSE IF o[j].k = "nl" THEN Ln("-", "no") ELSE Ln(o[j].k, "no")]
En_Reformat(x) == x.ph = "fin" /\ x.pass = 1 /\ Pre(x.out)
Do_Reformat(x, devs) == [x EXCEPT !.out1 = x.out, !.pass = 2, !.ph = "tok",
                                  !.lay = Lay(Relines(x.out), x.lay.look, 0)]
En_Stop(x) == x.ph = "fin" /\ (x.pass = 2 \/ ~Pre(x.out))
Do_Stop(x, devs) == [x EXCEPT !.ph = "done", !.out1 = IF x.pass = 1 THEN x.out ELSE @]

(* ---- the machine: one action per step of the code ---------------------------- *)
Tokenize  == En_Tokenize(m)  /\ m' = Do_Tokenize(m, Deviations)
Enter     == En_Enter(m)     /\ m' = Do_Enter(m, Deviations)
EmitGroup == En_EmitGroup(m) /\ m' = Do_EmitGroup(m, Deviations)
Leave     == En_Leave(m)     /\ m' = Do_Leave(m, Deviations)
Tail_     == En_Tail(m)      /\ m' = Do_Tail(m, Deviations)
TailDone  == En_TailDone(m)  /\ m' = Do_TailDone(m, Deviations)
Reformat  == En_Reformat(m)  /\ m' = Do_Reformat(m, Deviations)
Stop      == En_Stop(m)      /\ m' = Do_Stop(m, Deviations)

(* the generator: the behaviours up to GenStart are exactly the layouts of the bounded domain *)
GenLine  == m.ph = "gen" /\ Len(m.lay.lines) < MaxL /\
            \E k \in LineKinds : ValidPrefix(Append(m.lay.lines, k)) /\ m' = [m EXCEPT !.lay.lines = Append(@, k)]
GenStart == m.ph = "gen" /\ Complete(m.lay.lines) /\ \E lay \in Spiced(m.lay.lines) : m' = InitM(lay)

PlaceInit == m = [InitM(Lay(<< >>, FALSE, 0)) EXCEPT !.ph = "gen"]
PlaceNext == GenLine \/ GenStart \/ Tokenize \/ Enter \/ EmitGroup \/ Leave \/ Tail_ \/ TailDone \/ Reformat \/ Stop

(* the same steps as a function, for the code-faithful prediction *)
StepF(x, devs) ==
  IF En_Tokenize(x) THEN Do_Tokenize(x, devs) ELSE IF En_Enter(x) THEN Do_Enter(x, devs)
  ELSE IF En_EmitGroup(x) THEN Do_EmitGroup(x, devs) ELSE IF En_Leave(x) THEN Do_Leave(x, devs)
  ELSE IF En_Tail(x) THEN Do_Tail(x, devs) ELSE IF En_TailDone(x) THEN Do_TailDone(x, devs)
  ELSE IF En_Reformat(x) THEN Do_Reformat(x, devs) ELSE IF En_Stop(x) THEN Do_Stop(x, devs) ELSE x
RECURSIVE RunF(_, _)
RunF(x, devs) == IF x.ph = "done" THEN x ELSE RunF(StepF(x, devs), devs)

(* ---- what is checked ----------------------------------------------------------- *)
Done == m.ph = "done"
CIds(o) == SelectSeq(o, LAMBDA it : it.k = "c")

(* only one step is ever enabled: the machine is the deterministic code *)
Deterministic == Cardinality({a \in {"t", "e", "g", "l", "x", "y", "r", "s"} :
                   CASE a = "t" -> En_Tokenize(m) [] a = "e" -> En_Enter(m) [] a = "g" -> En_EmitGroup(m)
                     [] a = "l" -> En_Leave(m) [] a = "x" -> En_Tail(m) [] a = "y" -> En_TailDone(m)
                     [] a = "r" -> En_Reformat(m) [] a = "s" -> En_Stop(m)}) = (IF Done \/ m.ph = "gen" THEN 0 ELSE 1)

(* every comment of the text comes out exactly once, with its text (blanks at the ends apart) *)
EachOnceOf(src, o1) ==
  \A c \in 1..Len(src) :
     LET hits == {j \in 1..Len(o1) : o1[j].k = "c" /\ o1[j].id = src[c].id}
     IN Cardinality(hits) = 1 /\ \A j \in hits : Content(o1[j].f) = Content(src[c].f)
(* ... in the order of the text *)
InOrderOf(o1) == LET cs == CIds(o1) IN \A j \in 1..(Len(cs) - 1) : cs[j].id < cs[j + 1].id
(* ... and before the first node at or after its line: no node of a later line precedes it *)
BeforeLaterCodeOf(o1) ==
  \A j \in 1..Len(o1) : o1[j].k = "c" =>
     \A i \in 1..(j - 1) : o1[i].k \in {"s", "n"} => o1[i].ln <= o1[j].ln
(* formatting the formatted text again returns it unchanged *)
Shape(o) == [j \in 1..Len(o) |-> [k |-> o[j].k, f |-> o[j].f, o |-> o[j].o]]
FixedOf(x) == IF x.pass = 2 THEN (IF Shape(x.out) = Shape(x.out1) THEN "yes" ELSE "no") ELSE "na"

EachOnce   == Done => EachOnceOf(m.src, m.out1)
InOrder    == Done => InOrderOf(m.out1)
BeforeLaterCode == Done => BeforeLaterCodeOf(m.out1)
FixedPoint == Done => FixedOf(m) # "no"

(* ---- emission for replay ---------------------------------------------------------- *)
KindIx(l) == (IF l.code = "s" THEN 1 ELSE IF l.code = "n" THEN 2 ELSE 3) + (IF l.cm = "no" THEN 0 ELSE IF l.cm = "c" THEN 3 ELSE 6)
                + 11 * Len(l.f) + (IF l.f # << >> /\ l.f[1] = "x" THEN 5 ELSE 0)
RECURSIVE LayHashFrom(_, _)
LayHashFrom(ls, i) == IF i > Len(ls) THEN 0 ELSE ((2 * i + 1) * KindIx(ls[i]) + 3 * LayHashFrom(ls, i + 1)) % 1000003
LayHash(lay) == (LayHashFrom(lay.lines, 1) + 7 * lay.glue + (IF lay.look THEN 3 ELSE 0)) % 1000003

View(x) == [out |-> [j \in 1..Len(x.out1) |-> [k |-> x.out1[j].k, id |-> x.out1[j].id, f |-> x.out1[j].f, o |-> x.out1[j].o]],
            fixed |-> FixedOf(x),
            once |-> EachOnceOf(x.src, x.out1), ordered |-> InOrderOf(x.out1)]
PlaceEmit == Done /\ LayHash(m.lay0) % EmitEvery = EmitPhase % EmitEvery =>
  LET code == RunF(InitM(m.lay0), KnownDevs)
      design == RunF(InitM(m.lay0), {})
      hit == IF View(code) = View(design) THEN {} ELSE {d \in KnownDevs : View(RunF(InitM(m.lay0), {d})) # View(design)}
  IN PrintT(<< "REPLAY", ToJson([part |-> "place", lay |-> m.lay0, src |-> m.src,
                                 map |-> [j \in 1..Len(Groups(m.lay0, KnownDevs)) |-> Groups(m.lay0, KnownDevs)[j].ln],
                                 design |-> View(design), code |-> View(code), devs |-> SetToSeq(hit)]) >>)
=============================================================================
