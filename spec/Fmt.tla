-------------------------------- MODULE Fmt --------------------------------
(* C05 - formatting a file never changes its meaning or loses its comments.   *)
(*                                                                            *)
(* Part (a), Canon: the text AstPrinter::render writes for an AST without     *)
(* comments, one clause per arm of src/ast/printer/mod.rs:132-635, as a       *)
(* sequence of characters; checked over an exhaustively enumerated bounded    *)
(* AST domain (all parser-producible trees of the forms below over small      *)
(* pools, every literal class of the quantifier) for                          *)
(*   Injective : Canon(a) = Canon(b) => Same(a, b)   (Same ignores field-name *)
(*               quoting; the domain carries no positions)                    *)
(*   Relexes   : every literal and every bare field name of Canon(a) is read  *)
(*               back by the tokenizer/number/string rules as what it was     *)
(* which together stand for Parse(Canon(a)) ~ a without a parser in TLA+.     *)
(*                                                                            *)
(* Part (b), the comment placer: see below.                                   *)
(*                                                                            *)
(* Recorded defects of the code are NAMED DEVIATIONS (constant Deviations):   *)
(*   RangeStepColons         printer/mod.rs:523-529 writes start `:` `:` step *)
(*                           end  (0:2:10 -> 0::210)                          *)
(*   FloatNoFraction         printer/mod.rs:215 `{}` of an f64 without        *)
(*                           fraction has no `.`  (1.0 -> 1, 1e20 -> digits)  *)
(*   BareFieldNotAWord       printer/mod.rs:65-80 is_bareword admits names    *)
(*                           the tokenizer does not read as one word (`_a`,   *)
(*                           `NULL`, `truex`)                                 *)
(*   BlankCommentPadded, KeywordSwallowsComment   (part (b))                  *)
(* The design (Deviations = {}) satisfies every invariant; each deviation     *)
(* alone breaks one (Fmt_*dev*.cfg).                                          *)
EXTENDS Naturals, Sequences, FiniteSets, TLC, Json, SequencesExt

CONSTANTS Deviations,  \* deviations the model-checked design runs under ({} = the design)
          KnownDevs,   \* recorded deviations of the code: used for the code-faithful prediction
          (* part (a) *)
          DomSize,     \* 0 (part (b) only), 1, 2, 3: which bounded AST domain
          Blocks,      \* fan-out of the generator (parallelism only)
          (* part (b) *)
          MaxL,        \* lines of a layout
          MaxStmts,    \* statements of a layout
          MaxCmts,     \* comments of a layout
          Spices,      \* which single extras a layout may carry: "frag", "glue", "look"
          EmitEvery,   \* REPLAY lines are printed for the layouts with LayHash % EmitEvery = EmitPhase
          EmitPhase

VARIABLES blk, idx,    \* part (a): generator position in the AST domain
          m            \* part (b): the placer machine (0 in part (a) configurations)

(* ========================================================================== *)
(* Part (a): Canon                                                            *)
(* ========================================================================== *)
(* Text is a sequence of one-character strings; the characters whose class    *)
(* matters are atoms: "LF" "CR" "TAB" "DQ" (double quote) "BS" (backslash)     *)
(* "NA2" "NA3" "NA4" (a 2/3/4-byte UTF-8 character).  Names are sequences of  *)
(* chunks (a chunk is a run of letters such as "a", "NULL", "true", or one    *)
(* other character).                                                          *)
Chars(str) == [i \in 1..Len(str) |-> SubSeq(str, i, i)]
IndentSize == 4
Sp(n) == [i \in 1..n |-> " "]
RECURSIVE Flat(_)
Flat(ss) == IF ss = << >> THEN << >> ELSE Head(ss) \o Flat(Tail(ss))

(* ---- values of literals ---------------------------------------------------- *)
Null == [t |-> "null"]
BoolV(b) == [t |-> "bool", b |-> b]
IntV(i) == [t |-> "int", i |-> i]
FloatV(fn, fk) == [t |-> "float", fn |-> fn, fk |-> fk]      \* fn / 2^fk
FloatC(c) == [t |-> "float", cls |-> c]                      \* "big" = 1e20, "tiny" = 2^-30
StrV(cs) == [t |-> "str", s |-> cs]
IsCls(v) == "cls" \in DOMAIN v

(* ---- AST constructors (the record shapes of Gen.tla, extended) -------------- *)
Lit(v) == [e |-> "lit", v |-> v]
Sym(n) == [e |-> "sym", nm |-> n]
Fld(n, q, con, x) == [nm |-> n, q |-> q, con |-> con, ex |-> x]
TupE(fs) == [e |-> "tuple", flds |-> fs]
ListE(xs) == [e |-> "list", xs |-> xs]
Bin(o, l, r) == [e |-> "bin", op |-> o, l |-> l, r |-> r]
Un(k, x) == [e |-> k, x |-> x]                               \* not fail trace grp
CastE(ty, x) == [e |-> "cast", ty |-> ty, x |-> x]
CallE(f, as) == [e |-> "call", fn |-> f, args |-> as]
CopyE(sel, fs) == [e |-> "copy", sel |-> sel, flds |-> fs]
RangeE(lo, st, hi) == [e |-> "range", lo |-> lo, step |-> st, hi |-> hi]
FmtE(form, tpl, as) == [e |-> "fmt", form |-> form, tpl |-> tpl, args |-> as]
FuncE(ps, body) == [e |-> "func", ps |-> ps, body |-> body]        \* ps: << [nm, con] >>
SelE(x, d, fs) == [e |-> "select", x |-> x, dflt |-> d, flds |-> fs]
FopE(k, f, acc, tgt) == [e |-> "fop", kind |-> k, fn |-> f, acc |-> acc, tgt |-> tgt]
ModE(ps, out, oc, body) == [e |-> "module", ps |-> ps, out |-> out, outcon |-> oc, body |-> body]
ConvE(f, x) == [e |-> "convert", fmt |-> f, x |-> x]
ImpE(p) == [e |-> "import", path |-> p]
IncE(ty, p) == [e |-> "include", ty |-> ty, path |-> p]
ConE(arms) == [e |-> "constraint", arms |-> arms]
ArmR(lo, hi) == [a |-> "range", lo |-> lo, hi |-> hi]
ArmS(x) == [a |-> "shape", x |-> x]
LetS(n, con, x) == [s |-> "let", nm |-> n, con |-> con, x |-> x]
ExprS(x) == [s |-> "expr", x |-> x]
AssertS(x) == [s |-> "assert", x |-> x]
OutS(f, x) == [s |-> "out", fmt |-> f, x |-> x]
ConS(n, x) == [s |-> "constraint", nm |-> n, x |-> x]

(* ---- literal text: render_value, printer/mod.rs:210-223 ---------------------- *)
DigitCh(d) == SubSeq("0123456789", d + 1, d + 1)
RECURSIVE Digits(_)
Digits(n) == IF n < 10 THEN << DigitCh(n) >> ELSE Append(Digits(n \div 10), DigitCh(n % 10))
RECURSIVE Pow2(_)
Pow2(k) == IF k = 0 THEN 1 ELSE 2 * Pow2(k - 1)
RECURSIVE FracDigits(_, _)
FracDigits(r, d) == IF r = 0 THEN << >> ELSE << DigitCh((r * 10) \div d) >> \o FracDigits((r * 10) % d, d)

(* `{}` of an f64 is the shortest decimal that reads back as the same f64, in     *)
(* positional notation, WITHOUT a fraction when the value is integral.  For the  *)
(* dyadics of the pools the exact expansion is that shortest decimal.            *)
(* Design: an integral float keeps `.0`, so that it is read back as a float.     *)
FloatText(v, devs) ==
  LET noFrac == IF "FloatNoFraction" \in devs THEN << >> ELSE << ".", "0" >>
  IN IF IsCls(v)
       THEN (IF v.cls = "big" THEN Chars("100000000000000000000") \o noFrac
             ELSE Chars("0.0000000009313225746154785"))
       ELSE LET d == Pow2(v.fk)
            IN Digits(v.fn \div d) \o (IF v.fn % d = 0 THEN noFrac ELSE << "." >> \o FracDigits(v.fn % d, d))

(* escape_quotes, printer/mod.rs:196-208 *)
RECURSIVE Escape(_)
Escape(cs) == IF cs = << >> THEN << >>
              ELSE (IF Head(cs) = "DQ" THEN << "BS", "DQ" >> ELSE IF Head(cs) = "BS" THEN << "BS", "BS" >> ELSE << Head(cs) >>)
                   \o Escape(Tail(cs))
Quoted(cs) == << "DQ" >> \o Escape(cs) \o << "DQ" >>

LitText(v, devs) ==
  CASE v.t = "null" -> Chars("NULL")
    [] v.t = "bool" -> IF v.b THEN Chars("true") ELSE Chars("false")
    [] v.t = "int" -> Digits(v.i)
    [] v.t = "float" -> FloatText(v, devs)
    [] v.t = "str" -> Quoted(v.s)

(* ---- field names: is_bareword (printer/mod.rs:65-80) vs the tokenizer --------- *)
AsciiLetters == { SubSeq("abcdefghijklmnopqrstuvwxyzABCDEFGHIJKLMNOPQRSTUVWXYZ", i, i) : i \in 1..52 }
IsLetters(c) == c \in AsciiLetters \cup {"NULL", "true", "false"}
IsDigitCh(c) == c \in {"0", "1", "2", "3", "4", "5", "6", "7", "8", "9"}
(* printer: non-empty, every character an ASCII letter or `_` *)
PrinterBare(nm) == nm # << >> /\ \A j \in 1..Len(nm) : IsLetters(nm[j]) \/ nm[j] = "_"
(* tokenizer (tokenizer/mod.rs:122-133, 150-165, 449-512): one BAREWORD token iff an  *)
(* ASCII letter followed by letters, digits, `-`, `_`; but NULL / true / false are  *)
(* recognised first and without a word boundary, and only a whole `true` / `false`   *)
(* (a BOOLEAN token) is still accepted as a field name                               *)
LexesAsWord(nm) ==
  /\ nm # << >> /\ IsLetters(nm[1])
  /\ \A j \in 1..Len(nm) : IsLetters(nm[j]) \/ IsDigitCh(nm[j]) \/ nm[j] \in {"-", "_"}
  /\ (nm[1] \in {"NULL", "true", "false"} => nm \in {<< "true" >>, << "false" >>})
NameBare(nm, devs) == PrinterBare(nm) /\ ("BareFieldNotAWord" \in devs \/ LexesAsWord(nm))
(* names are chunk sequences; their text is the chunks' characters *)
CharAtoms == {"LF", "CR", "TAB", "DQ", "BS", "NA2", "NA3", "NA4"}
NameText(nm) == Flat([j \in 1..Len(nm) |-> IF nm[j] \in CharAtoms THEN << nm[j] >> ELSE Chars(nm[j])])
FieldText(nm, devs) == IF NameBare(nm, devs) THEN NameText(nm) ELSE Quoted(NameText(nm))

(* ---- the printer, arm by arm ----------------------------------------------------- *)
OpText(o) ==
  CASE o = "and" -> " && " [] o = "or" -> " || " [] o = "dot" -> "." [] o = "eq" -> " == " [] o = "ne" -> " != "
    [] o = "ge" -> " >= " [] o = "le" -> " <= " [] o = "gt" -> " > " [] o = "lt" -> " < " [] o = "add" -> " + "
    [] o = "sub" -> " - " [] o = "mul" -> " * " [] o = "div" -> " / " [] o = "mod" -> " %% " [] o = "in" -> " in "
    [] o = "is" -> " is " [] o = "re" -> " ~ " [] o = "nre" -> " !~ "

RECURSIVE CE(_, _, _), CFlds(_, _, _), CElems(_, _, _), CArgs(_, _, _, _), CFmtArgs(_, _, _, _),
          CParams(_, _, _, _), CArms(_, _, _, _), CStmt(_, _, _, _), CBody(_, _, _, _)

(* optional ` :: constraint` *)
COpt(con, ind, devs) == IF con = << >> THEN << >> ELSE Chars(" :: ") \o CE(con[1], ind, devs)

(* render_tuple_def, printer/mod.rs:154-194: one field per line, trailing comma *)
CFlds(fs, ind, devs) ==
  IF fs = << >> THEN Chars("{}")
  ELSE << "{", "LF" >>
       \o Flat([j \in 1..Len(fs) |->
                  Sp(ind + IndentSize) \o FieldText(fs[j].nm, devs) \o COpt(fs[j].con, ind + IndentSize, devs)
                  \o Chars(" = ") \o CE(fs[j].ex, ind + IndentSize, devs) \o << ",", "LF" >>])
       \o Sp(ind) \o << "}" >>
(* render_list_def, printer/mod.rs:132-152 *)
CElems(xs, ind, devs) ==
  IF xs = << >> THEN Chars("[]")
  ELSE << "[", "LF" >>
       \o Flat([j \in 1..Len(xs) |-> Sp(ind + IndentSize) \o CE(xs[j], ind + IndentSize, devs) \o << ",", "LF" >>])
       \o Sp(ind) \o << "]" >>
(* Call arguments, printer/mod.rs:272-296: one per line only when there are two or more *)
CArgs(as, ind, devs, j) ==
  IF Len(as) <= 1 THEN (IF as = << >> THEN << >> ELSE CE(as[1], ind + IndentSize, devs))
  ELSE << "LF" >> \o Flat([q \in 1..Len(as) |-> Sp(ind + IndentSize) \o CE(as[q], ind + IndentSize, devs) \o << ",", "LF" >>])
       \o Sp(ind)
(* list-form format arguments, printer/mod.rs:329-348: `(` newline, `,` newline between, `)` glued *)
CFmtArgs(as, ind, devs, j) ==
  IF j > Len(as) THEN << >>
  ELSE (IF j = 1 THEN << >> ELSE << ",", "LF" >>) \o Sp(ind + IndentSize) \o CE(as[j], ind + IndentSize, devs)
       \o CFmtArgs(as, ind, devs, j + 1)
(* func parameters, printer/mod.rs:351-373 *)
CParams(ps, ind, devs, j) ==
  IF j > Len(ps) THEN << >>
  ELSE (IF j = 1 THEN << >> ELSE Chars(", ")) \o NameText(ps[j].nm) \o COpt(ps[j].con, ind, devs) \o CParams(ps, ind, devs, j + 1)
(* constraint arms, printer/mod.rs:555-578 *)
CArms(arms, ind, devs, j) ==
  IF j > Len(arms) THEN << >>
  ELSE (IF j = 1 THEN << >> ELSE Chars(" | "))
       \o (IF arms[j].a = "range"
             THEN Chars("in ") \o (IF arms[j].lo = << >> THEN << >> ELSE CE(arms[j].lo[1], ind, devs)) \o Chars("..")
                  \o (IF arms[j].hi = << >> THEN << >> ELSE CE(arms[j].hi[1], ind, devs))
             ELSE CE(arms[j].x, ind, devs))
       \o CArms(arms, ind, devs, j + 1)
(* module body, printer/mod.rs:498-507: the indent is written BEFORE render_stmt writes the  *)
(* separating newline, so every statement but the first starts in column 0 after a line of  *)
(* blanks (cosmetic; transcribed)                                                            *)
CBody(ss, ind, devs, j) ==
  IF j > Len(ss) THEN << >>
  ELSE Sp(ind + IndentSize) \o CStmt(ss[j], j > 1, ind + IndentSize, devs) \o CBody(ss, ind, devs, j + 1)

CE(x, ind, devs) ==
  CASE x.e = "lit" -> LitText(x.v, devs)
    [] x.e = "sym" -> NameText(x.nm)
    [] x.e = "tuple" -> CFlds(x.flds, ind, devs)
    [] x.e = "list" -> CElems(x.xs, ind, devs)
    [] x.e = "bin" -> CE(x.l, ind, devs) \o Chars(OpText(x.op)) \o CE(x.r, ind, devs)
    [] x.e = "cast" -> Chars(x.ty) \o << "(" >> \o CE(x.x, ind, devs) \o << ")" >>
    [] x.e = "call" -> NameText(x.fn) \o << "(" >> \o CArgs(x.args, ind, devs, 1) \o << ")" >>
    [] x.e = "copy" -> NameText(x.sel) \o CFlds(x.flds, ind, devs)
    [] x.e = "trace" -> Chars("TRACE ") \o CE(x.x, ind, devs)
    [] x.e = "fail" -> Chars("fail ") \o CE(x.x, ind, devs)
    [] x.e = "not" -> Chars("not ") \o CE(x.x, ind, devs)
    [] x.e = "grp" -> << "(" >> \o CE(x.x, ind, devs) \o << ")" >>
    [] x.e = "convert" -> Chars("convert ") \o Chars(x.fmt) \o << " " >> \o CE(x.x, ind, devs)
    [] x.e = "fmt" -> Quoted(x.tpl) \o Chars(" % ")
                      \o (IF x.form = "single" THEN CE(x.args[1], ind, devs)
                          ELSE << "(", "LF" >> \o CFmtArgs(x.args, ind, devs, 1) \o << ")" >>)
    [] x.e = "func" -> Chars("func (") \o CParams(x.ps, ind, devs, 1) \o Chars(") => ") \o CE(x.body, ind, devs)
    [] x.e = "fop" -> Chars(x.kind) \o << "(" >> \o CE(x.fn, ind, devs) \o Chars(", ")
                      \o (IF x.acc = << >> THEN << >> ELSE CE(x.acc[1], ind, devs) \o Chars(", "))
                      \o CE(x.tgt, ind, devs) \o << ")" >>
    [] x.e = "import" -> Chars("import ") \o Quoted(x.path)
    [] x.e = "include" -> Chars("include ") \o Chars(x.ty) \o << " " >> \o Quoted(x.path)
    [] x.e = "module" -> Chars("module ") \o CFlds(x.ps, ind, devs) \o Chars(" => ")
                         \o (IF x.out = << >> THEN << >>
                             ELSE << "(" >> \o CE(x.out[1], ind, devs) \o COpt(x.outcon, ind, devs) \o Chars(") "))
                         \o << "{", "LF" >> \o CBody(x.body, ind, devs, 1) \o << "}" >>
    (* Range, printer/mod.rs:516-532.  Design: start `:` step `:` end.                 *)
    (* RangeStepColons: both colons are written before the step, none after it.       *)
    [] x.e = "range" -> CE(x.lo, ind, devs) \o << ":" >>
                        \o (IF x.step = << >> THEN << >>
                            ELSE IF "RangeStepColons" \in devs THEN << ":" >> \o CE(x.step[1], ind, devs)
                            ELSE CE(x.step[1], ind, devs) \o << ":" >>)
                        \o CE(x.hi, ind, devs)
    [] x.e = "select" -> Chars("select (") \o CE(x.x, ind, devs)
                         \o (IF x.dflt = << >> THEN << >> ELSE Chars(", ") \o CE(x.dflt[1], ind, devs))
                         \o Chars(") => ") \o CFlds(x.flds, ind, devs)
    [] x.e = "constraint" -> CArms(x.arms, ind, devs, 1)

(* render_stmt, printer/mod.rs:584-620 *)
CStmt(st, pfx, ind, devs) ==
  (IF pfx THEN << "LF" >> ELSE << >>)
  \o (CASE st.s = "let" -> Chars("let ") \o NameText(st.nm) \o COpt(st.con, ind, devs) \o Chars(" = ") \o CE(st.x, ind, devs)
        [] st.s = "expr" -> CE(st.x, ind, devs)
        [] st.s = "assert" -> Chars("assert ") \o CE(st.x, ind, devs)
        [] st.s = "out" -> Chars("out ") \o Chars(st.fmt) \o << " " >> \o CE(st.x, ind, devs)
        [] st.s = "constraint" -> Chars("constraint ") \o NameText(st.nm) \o Chars(" = ") \o CE(st.x, ind, devs))
  \o << ";", "LF" >>
(* render, printer/mod.rs:622-634 (no comment map) *)
Canon(prog, devs) == Flat([j \in 1..Len(prog) |-> CStmt(prog[j], j > 1, 0, devs)])

(* ---- Same: equality up to field-name quoting ---------------------------------------- *)
RECURSIVE NE(_), NFlds(_), NStmt(_)
NSeq(xs) == [j \in 1..Len(xs) |-> NE(xs[j])]
NFlds(fs) == [j \in 1..Len(fs) |-> Fld(fs[j].nm, FALSE, NSeq(fs[j].con), NE(fs[j].ex))]
NE(x) ==
  CASE x.e \in {"lit", "sym", "import", "include"} -> x
    [] x.e = "tuple" -> TupE(NFlds(x.flds))
    [] x.e = "list" -> ListE(NSeq(x.xs))
    [] x.e = "bin" -> Bin(x.op, NE(x.l), NE(x.r))
    [] x.e \in {"not", "fail", "trace", "grp"} -> Un(x.e, NE(x.x))
    [] x.e = "cast" -> CastE(x.ty, NE(x.x))
    [] x.e = "call" -> CallE(x.fn, NSeq(x.args))
    [] x.e = "copy" -> CopyE(x.sel, NFlds(x.flds))
    [] x.e = "range" -> RangeE(NE(x.lo), NSeq(x.step), NE(x.hi))
    [] x.e = "fmt" -> FmtE(x.form, x.tpl, NSeq(x.args))
    [] x.e = "func" -> FuncE([j \in 1..Len(x.ps) |-> [nm |-> x.ps[j].nm, con |-> NSeq(x.ps[j].con)]], NE(x.body))
    [] x.e = "select" -> SelE(NE(x.x), NSeq(x.dflt), NFlds(x.flds))
    [] x.e = "fop" -> FopE(x.kind, NE(x.fn), NSeq(x.acc), NE(x.tgt))
    [] x.e = "module" -> ModE(NFlds(x.ps), NSeq(x.out), NSeq(x.outcon), [j \in 1..Len(x.body) |-> NStmt(x.body[j])])
    [] x.e = "convert" -> ConvE(x.fmt, NE(x.x))
    [] x.e = "constraint" -> ConE([j \in 1..Len(x.arms) |->
                                     IF x.arms[j].a = "range" THEN ArmR(NSeq(x.arms[j].lo), NSeq(x.arms[j].hi))
                                     ELSE ArmS(NE(x.arms[j].x))])
NStmt(st) == IF st.s = "let" THEN LetS(st.nm, NSeq(st.con), NE(st.x)) ELSE [st EXCEPT !.x = NE(@)]
Norm(prog) == [j \in 1..Len(prog) |-> NStmt(prog[j])]
Same(a, b) == Norm(a) = Norm(b)

(* ---- Relexes: the leaves of the canonical text are read back as what they were ------- *)
(* number (parse/mod.rs:96-187): DIGIT [. DIGIT]; without `.` it is an i64 or an error     *)
HasDot(tx) == \E j \in 1..Len(tx) : tx[j] = "."
ReadsAs(tx) == IF HasDot(tx) THEN "float" ELSE IF Len(tx) > 18 THEN "error" ELSE "int"
(* escapequoted, tokenizer/mod.rs:50-98, on the text between the quotes *)
RECURSIVE Unesc(_, _)
Unesc(cs, esc) ==
  IF cs = << >> THEN << >>
  ELSE LET c == Head(cs)
       IN IF esc THEN << (IF c = "n" THEN "LF" ELSE IF c = "r" THEN "CR" ELSE IF c = "t" THEN "TAB" ELSE c) >> \o Unesc(Tail(cs), FALSE)
          ELSE IF c = "BS" THEN Unesc(Tail(cs), TRUE)
          ELSE IF c = "DQ" THEN << "END" >>          \* an unescaped quote would end the literal early
          ELSE << c >> \o Unesc(Tail(cs), FALSE)
StrBack(cs) == Unesc(Escape(cs), FALSE) = cs
LitBack(v, devs) ==
  CASE v.t \in {"int", "float"} -> ReadsAs(LitText(v, devs)) = v.t
    [] v.t = "str" -> StrBack(v.s)
    [] OTHER -> TRUE
NameBack(nm, devs) == IF NameBare(nm, devs) THEN LexesAsWord(nm) ELSE StrBack(NameText(nm))

RECURSIVE RE(_, _), RStmt(_, _)
RAll(xs, devs) == \A j \in 1..Len(xs) : RE(xs[j], devs)
RFlds(fs, devs) == \A j \in 1..Len(fs) : NameBack(fs[j].nm, devs) /\ RAll(fs[j].con, devs) /\ RE(fs[j].ex, devs)
RE(x, devs) ==
  CASE x.e = "lit" -> LitBack(x.v, devs)
    [] x.e = "sym" -> TRUE
    [] x.e = "tuple" -> RFlds(x.flds, devs)
    [] x.e = "list" -> RAll(x.xs, devs)
    [] x.e = "bin" -> RE(x.l, devs) /\ RE(x.r, devs)
    [] x.e \in {"not", "fail", "trace", "grp", "cast", "convert"} -> RE(x.x, devs)
    [] x.e = "call" -> RAll(x.args, devs)
    [] x.e = "copy" -> RFlds(x.flds, devs)
    [] x.e = "range" -> RE(x.lo, devs) /\ RAll(x.step, devs) /\ RE(x.hi, devs)
    [] x.e = "fmt" -> StrBack(x.tpl) /\ RAll(x.args, devs)
    [] x.e = "func" -> (\A j \in 1..Len(x.ps) : RAll(x.ps[j].con, devs)) /\ RE(x.body, devs)
    [] x.e = "select" -> RE(x.x, devs) /\ RAll(x.dflt, devs) /\ RFlds(x.flds, devs)
    [] x.e = "fop" -> RE(x.fn, devs) /\ RAll(x.acc, devs) /\ RE(x.tgt, devs)
    [] x.e = "module" -> RFlds(x.ps, devs) /\ RAll(x.out, devs) /\ RAll(x.outcon, devs)
                         /\ \A j \in 1..Len(x.body) : RStmt(x.body[j], devs)
    [] x.e \in {"import", "include"} -> StrBack(x.path)
    [] x.e = "constraint" -> \A j \in 1..Len(x.arms) :
                                IF x.arms[j].a = "range" THEN RAll(x.arms[j].lo, devs) /\ RAll(x.arms[j].hi, devs)
                                ELSE RE(x.arms[j].x, devs)
RStmt(st, devs) == (IF st.s = "let" THEN RAll(st.con, devs) ELSE TRUE) /\ RE(st.x, devs)
RelexesP(prog, devs) == \A j \in 1..Len(prog) : RStmt(prog[j], devs)

(* ---- the bounded AST domain ----------------------------------------------------------- *)
(* Only trees the parser can produce: operands of a binary respect the precedence table     *)
(* (anything else needs a grp node), a form that takes the rest of the expression (not,    *)
(* fail, TRACE, convert, func, single-form format) is never the left end of an operator,   *)
(* range parts are simple values or groups.                                                *)
OpLvl(o) == CASE o \in {"eq", "ne", "ge", "le", "lt", "gt", "re", "nre"} -> 1 [] o \in {"in", "is"} -> 2
              [] o \in {"add", "sub"} -> 3 [] o \in {"mul", "div", "mod"} -> 4 [] o \in {"and", "or"} -> 5 [] o = "dot" -> 6
RECURSIVE EndsGreedy(_)
EndsGreedy(x) == \/ x.e \in {"not", "fail", "trace", "convert", "func"}
                 \/ (x.e = "fmt" /\ x.form = "single")
                 \/ (x.e = "bin" /\ EndsGreedy(x.r))
WFBin(o, l, r) ==
  /\ ~EndsGreedy(l)
  /\ (l.e = "bin" => OpLvl(l.op) >= OpLvl(o))
  /\ (r.e = "bin" => OpLvl(r.op) > OpLvl(o))
  (* a number directly before `.` would lex as a float; dot selects by name, string or index *)
  /\ (o = "dot" => /\ ~(l.e = "lit" /\ l.v.t \in {"int", "float"})
                   /\ ~(l.e = "range")
                   /\ (r.e \in {"sym", "grp", "call", "copy"} \/ (r.e = "lit" /\ r.v.t \in {"str", "int"}))
                   /\ ~(l.e = "bin" /\ l.op = "dot" /\ l.r.e = "lit" /\ l.r.v.t = "int" /\ r.e = "lit" /\ r.v.t = "int"))
  (* the text `x.1:2`, `1 + 2:3.a` etc. stays out: a range operand next to a dot *)
  /\ (r.e = "range" => o # "dot")

na == << "a" >>   nb == << "b" >>   nx == << "x" >>   ny == << "y" >>   nf == << "f" >>   nc == << "c" >>
(* every literal class of the quantifier *)
IntLits == { IntV(0), IntV(1), IntV(11), IntV(210) }
FloatLits == { FloatV(1, 0), FloatV(3, 1), FloatV(11, 2), FloatC("big"), FloatC("tiny") }
StrLits == { StrV(<< >>), StrV(<< "a" >>), StrV(<< "q", "DQ" >>), StrV(<< "BS", "n" >>), StrV(<< "LF" >>), StrV(<< "TAB", "CR" >>),
             StrV(<< "NA2", "NA3", "NA4" >>), StrV(<< "BS" >>), StrV(<< "/", "/", " ", "c" >>) }
AllLits == { Lit(v) : v \in IntLits \cup FloatLits \cup StrLits \cup { Null, BoolV(TRUE), BoolV(FALSE) } }
(* field names: plain, needing quotes, and the ones is_bareword gets wrong *)
FieldNames == { na, << "b", "1" >>, << "a", "-", "b" >>, << "a", " ", "b" >>, << "_", "a" >>, << "NULL" >>, << "true" >>,
                << "true", "x" >>, << >>, << "NA2" >>, << "q", "DQ" >>, << "a", "_", "b" >> }
QChoices(nm) == IF LexesAsWord(nm) THEN {TRUE, FALSE} ELSE {TRUE}      \* in the SOURCE a non-word must have been quoted

A0 == { Lit(IntV(1)), Sym(nx), Lit(StrV(<< "a" >>)) }                  \* children of compound forms
A1 == { Lit(IntV(1)), Sym(nx) }
RangeParts == { Lit(IntV(1)), Lit(IntV(11)), Lit(FloatV(1, 0)), Sym(nx), Un("grp", Lit(IntV(1))) }
OpsSome == { "add", "mul", "eq", "and", "dot", "in" }
OpsAll == { "eq", "ne", "ge", "le", "lt", "gt", "re", "nre", "in", "is", "add", "sub", "mul", "div", "mod", "and", "or", "dot" }
NoCon == << >>
F1(n, x) == Fld(n, FALSE, NoCon, x)
ConInt == Sym(<< "i", "n", "t" >>)
ConRange == ConE(<< ArmR(<< Lit(IntV(1)) >>, << Lit(IntV(11)) >>) >>)
ConAlt == ConE(<< ArmR(<< >>, << Lit(IntV(1)) >>), ArmS(Lit(StrV(<< "a" >>))) >>)
ConOpen == ConE(<< ArmR(<< Lit(IntV(1)) >>, << >>) >>)
ConPool == { ConInt, ConRange, ConAlt, ConOpen }

(* one level of every form over the children C (ops: the binary operators used) *)
Forms(C, ops) ==
  { Un(k, c) : k \in {"not", "fail", "trace", "grp"}, c \in C }
  \cup { CastE(ty, c) : ty \in {"int", "str"}, c \in C }
  \cup { ConvE("json", c) : c \in C }
  \cup { Bin(o, l, r) : o \in ops, l \in C, r \in C }
  \cup { RangeE(l, << >>, h) : l \in C \cap RangeParts, h \in C \cap RangeParts }
  \cup { ListE(<< >>) } \cup { ListE(<< c >>) : c \in C } \cup { ListE(<< c, d >>) : c \in C, d \in C }
  \cup { TupE(<< >>) } \cup { TupE(<< F1(na, c) >>) : c \in C } \cup { TupE(<< F1(na, c), F1(nb, d) >>) : c \in C, d \in C }
  \cup { CopyE(nx, << >>) } \cup { CopyE(nx, << F1(na, c) >>) : c \in C }
  \cup { CallE(nf, << >>) } \cup { CallE(nf, << c >>) : c \in C } \cup { CallE(nf, << c, d >>) : c \in C, d \in C }
  \cup { FmtE("list", << "@" >>, << c >>) : c \in C } \cup { FmtE("list", << "@", "-", "@" >>, << c, d >>) : c \in C, d \in C }
  \cup { FmtE("single", << "@", "{", "x", "}" >>, << c >>) : c \in C }
  \cup { FuncE(ps, c) : ps \in { << >>, << [nm |-> nx, con |-> NoCon] >>, << [nm |-> nx, con |-> NoCon], [nm |-> ny, con |-> NoCon] >> }, c \in C }
  \cup { SelE(c, << >>, << F1(na, d) >>) : c \in C, d \in C } \cup { SelE(c, << d >>, << F1(na, Lit(IntV(1))) >>) : c \in C, d \in C }
  \cup { FopE(k, c, << >>, d) : k \in {"map", "filter"}, c \in C, d \in C } \cup { FopE("reduce", c, << d >>, Sym(ny)) : c \in C, d \in C }
  \cup { ModE(<< >>, << >>, << >>, << LetS(ny, NoCon, c) >>) : c \in C }
  \cup { ModE(<< F1(na, c) >>, << d >>, << >>, << LetS(ny, NoCon, Lit(IntV(1))) >>) : c \in C, d \in C }
RECURSIVE LeftEnd(_)
LeftEnd(x) == IF x.e = "bin" THEN LeftEnd(x.l) ELSE IF x.e = "range" THEN LeftEnd(x.lo) ELSE x
(* `"t" % (e)` is the LIST form: a single-form argument never starts with a parenthesis *)
WF(x) == /\ (x.e = "bin" => WFBin(x.op, x.l, x.r))
         /\ (x.e = "fmt" /\ x.form = "single" => LeftEnd(x.args[1]).e # "grp")

E1 == { x \in Forms(A0, OpsSome) : WF(x) }
(* second level: every form over (first level + atoms), one compound child at a time *)
E2(ops) == { x \in { Un(k, c) : k \in {"not", "fail", "trace", "grp"}, c \in E1 }
                   \cup { CastE("int", c) : c \in E1 } \cup { ConvE("json", c) : c \in E1 }
                   \cup { Bin(o, c, a) : o \in ops, c \in E1, a \in A1 } \cup { Bin(o, a, c) : o \in ops, c \in E1, a \in A1 }
                   \cup { ListE(<< c >>) : c \in E1 } \cup { TupE(<< F1(na, c) >>) : c \in E1 }
                   \cup { CallE(nf, << c, Sym(nx) >>) : c \in E1 } \cup { FmtE("list", << "@" >>, << c >>) : c \in E1 }
                   \cup { FmtE("single", << "@", "{", "x", "}" >>, << c >>) : c \in E1 }
                   \cup { FuncE(<< [nm |-> nx, con |-> NoCon] >>, c) : c \in E1 }
                   \cup { SelE(Sym(nx), << c >>, << F1(na, Lit(IntV(1))) >>) : c \in E1 }
                   \cup { SelE(Sym(nx), << >>, << F1(na, c) >>) : c \in E1 }
                   \cup { FopE("map", c, << >>, Sym(ny)) : c \in E1 }
                   \cup { ModE(<< >>, << c >>, << >>, << LetS(ny, NoCon, Lit(IntV(1))) >>) : c \in E1 }
                   \cup { RangeE(Un("grp", c), << >>, Lit(IntV(1))) : c \in E1 }
             : WF(x) }

(* families of programs *)
PLits == { << ExprS(l) >> : l \in AllLits } \cup { << LetS(na, NoCon, l) >> : l \in AllLits }
PRanges == { << ExprS(RangeE(l, << >>, h)) >> : l \in RangeParts, h \in RangeParts }
           \cup { << ExprS(RangeE(l, << s >>, h)) >> : l \in RangeParts, s \in RangeParts, h \in RangeParts }
PNames == { << ExprS(TupE(<< Fld(n, q, NoCon, Lit(IntV(1))) >>)) >> : n \in FieldNames, q \in {TRUE, FALSE} }
          \cup { << ExprS(SelE(Sym(nx), << >>, << Fld(n, q, NoCon, Lit(IntV(1))) >>)) >> : n \in FieldNames, q \in {TRUE, FALSE} }
          \cup { << ExprS(CopyE(nx, << Fld(n, q, NoCon, Lit(IntV(1))), Fld(na, FALSE, NoCon, Sym(nx)) >>)) >> : n \in FieldNames, q \in {TRUE, FALSE} }
PNamesOK == { p \in PNames : p[1].x.flds[1].q \in QChoices(p[1].x.flds[1].nm) }
PStrs == { << ExprS(ImpE(v.s)) >> : v \in StrLits } \cup { << ExprS(IncE("str", v.s)) >> : v \in StrLits }
         \cup { << ExprS(FmtE("list", v.s, << Lit(IntV(1)) >>)) >> : v \in StrLits }
PCons == { << LetS(na, << c >>, Lit(IntV(1))) >> : c \in ConPool } \cup { << ConS(nc, c) >> : c \in ConPool \ { ConInt } }
         \cup { << ExprS(TupE(<< Fld(na, FALSE, << c >>, Lit(IntV(1))) >>)) >> : c \in ConPool }
         \cup { << ExprS(FuncE(<< [nm |-> nx, con |-> << c >>] >>, Sym(nx))) >> : c \in ConPool }
         \cup { << ExprS(FuncE(<< [nm |-> nx, con |-> << c >>], [nm |-> ny, con |-> << ConInt >>] >>, Sym(nx))) >> : c \in ConPool }
         \cup { << ExprS(ModE(<< >>, << Sym(ny) >>, << c >>, << LetS(ny, NoCon, Lit(IntV(1))) >>)) >> : c \in ConPool }
PStmts(E) == { << ExprS(x) >> : x \in E } \cup { << LetS(na, NoCon, x) >> : x \in E }
PKinds(E) == { << AssertS(x) >> : x \in E } \cup { << OutS("json", x) >> : x \in E }
PTwo == { << s1, s2 >> : s1 \in { ExprS(Sym(nx)), LetS(na, NoCon, Lit(IntV(1))) },
                         s2 \in { ExprS(Sym(ny)), OutS("json", Sym(nx)), AssertS(Sym(nx)), ConS(nc, ConRange),
                                  ExprS(ModE(<< >>, << >>, << >>, << LetS(nx, NoCon, Lit(IntV(1))), LetS(ny, NoCon, Sym(nx)) >>)) } }
POps == { << ExprS(Bin(o, Sym(nx), Sym(ny))) >> : o \in OpsAll }
        \cup { << ExprS(x) >> : x \in { b \in { Bin(o, Bin(p, Sym(nx), Sym(ny)), Lit(IntV(1))) : o \in OpsAll, p \in OpsAll } : WF(b) } }
        \cup { << ExprS(x) >> : x \in { b \in { Bin(o, Sym(nx), Bin(p, Sym(ny), Lit(IntV(1)))) : o \in OpsAll, p \in OpsAll } : WF(b) } }
        \cup { << ExprS(x) >> : x \in { b \in { Bin(o, Un("grp", Bin(p, Sym(nx), Sym(ny))), Lit(IntV(1))) : o \in OpsAll \ {"dot"}, p \in OpsAll } : WF(b) } }

DomBase == PLits \cup PRanges \cup PNamesOK \cup PStrs \cup PCons \cup PTwo \cup POps \cup PStmts(A0 \cup E1) \cup PKinds(A0)
DomOf(size) == IF size = 0 THEN {} ELSE IF size = 1 THEN DomBase
               ELSE IF size = 2 THEN DomBase \cup PStmts(E2({"add", "dot"}))
               ELSE DomBase \cup PStmts(E2(OpsSome)) \cup PKinds(E1)

DomSeq == TLCEval(SetToSeq(DomOf(DomSize)))
NDom == Len(DomSeq)
CanonSeq == TLCEval([i \in 1..NDom |-> Canon(DomSeq[i], Deviations)])
NormSeq == TLCEval([i \in 1..NDom |-> Norm(DomSeq[i])])
(* candidates for a collision: the programs whose canonical text has the same length *)
LenSet == { Len(CanonSeq[i]) : i \in 1..NDom }
Bucket == TLCEval([n \in LenSet |-> { i \in 1..NDom : Len(CanonSeq[i]) = n }])

(* generator: fan out over blocks, then over the programs of the block *)
CanonInit == blk = 0 /\ idx = 0 /\ m = 0
CanonNext == /\ \/ blk = 0 /\ blk' \in 1..Blocks /\ idx' = 0
                \/ blk > 0 /\ idx = 0 /\ idx' \in { i \in 1..NDom : i % Blocks = blk % Blocks } /\ blk' = blk
             /\ UNCHANGED m

Rivals(i) == { j \in Bucket[Len(CanonSeq[i])] : j # i /\ CanonSeq[j] = CanonSeq[i] /\ NormSeq[j] # NormSeq[i] }
Injective == idx > 0 =>
  \/ Rivals(idx) = {}
  \/ ~PrintT(<< "COLLISION", ToJson([a |-> DomSeq[idx], b |-> DomSeq[CHOOSE j \in Rivals(idx) : TRUE], text |-> CanonSeq[idx]]) >>)
Relexes == idx > 0 =>
  \/ RelexesP(DomSeq[idx], Deviations)
  \/ ~PrintT(<< "UNREADABLE", ToJson([a |-> DomSeq[idx], text |-> CanonSeq[idx]]) >>)

(* emission: the program, its canonical text by the design and by the code-faithful     *)
(* printer (recorded deviations on), the deviations that make them differ                *)
CanonEmit == idx > 0 =>
  LET p == DomSeq[idx]
      design == Canon(p, {})
      code == Canon(p, KnownDevs)
      hit == { d \in KnownDevs : Canon(p, {d}) # design \/ ~RelexesP(p, {d}) }
  IN PrintT(<< "REPLAY", ToJson([part |-> "canon", prog |-> p, design |-> design, code |-> code,
                                 devs |-> SetToSeq(hit), n |-> idx]) >>)

(* ========================================================================== *)
(* Part (b): the comment placer of `ucg fmt`.                                  *)
(*                                                                            *)
(* Code transcribed:                                                          *)
(*   tokenizer/mod.rs:513-575   comment groups -> CommentMap (keyed by the    *)
(*                              line of the group's LAST comment)             *)
(*   printer/mod.rs:50-55       with_comment_map: pending = reversed keys     *)
(*   printer/mod.rs:82-130      print_comment_group, render_missed_comments,  *)
(*                              render_comment_if_needed, has_comment         *)
(*   printer/mod.rs:584-634     render_stmt (prefix newline), render (tail)   *)
(*                                                                            *)
(* A LAYOUT is the line skeleton of a source file: per line what code sits on *)
(* it (a statement head "s", an inner node "n" of the statement above, or     *)
(* nothing "-") and whether a comment ends the line.  A generator builds the  *)
(* layouts line by line; the machine then runs the tokenizer's grouping, the  *)
(* printer's visits one loop iteration per step, and - when every comment of  *)
(* the output sits on a line of its own between statements - lays the output  *)
(* out again and formats it a second time.                                    *)
(*                                                                            *)
(* Which AST nodes call what (printer/mod.rs, transcribed into Visits):       *)
(*   render_comment_if_needed(line)  ["need": flush every group <= line]      *)
(*     render_stmt (stmt.pos), render_expr (every expression, expr.pos),      *)
(*     list element, call argument, cast target, tuple/copy/select/module     *)
(*     field (name line, and value line when different)                       *)
(*   has_comment(l) => render_missed_comments(l)  ["guard": flush every group *)
(*     <= l iff some group < l]                                               *)
(*     Range (end.pos, BEFORE start is printed), Select (val.pos, then        *)
(*     default.pos, before `select`), Import/Include (path.pos), Not (pos)    *)
(*   has_comment(l) only for layout (newline / indent, no emission):          *)
(*     Binary right operand, TRACE, fail, format single argument, first       *)
(*     list-form format argument, map/filter/reduce arguments, Grouped        *)
(*   render(): after the last statement render_missed_comments(max key + 1)   *)
(* In a layout every "s"/"n" line is one "need" visit; the extra "look" puts  *)
(* one "guard" visit of the statement's last node line behind its head (the   *)
(* Range / Select pattern).                                                   *)
(* ========================================================================== *)
(* ---- comment text ---------------------------------------------------------- *)
(* the text after `//` as a sequence of character classes: "sp" blank, "x" other *)
DefFrag == << "sp", "x" >>
Frags == { << >>, << "sp" >>, << "x" >>, << "sp", "x", "sp" >>, << "x", "sp", "sp" >>, << "sp", "sp", "x" >> }

RECURSIVE TrimEnd(_)
TrimEnd(f) == IF f # << >> /\ f[Len(f)] = "sp" THEN TrimEnd(SubSeq(f, 1, Len(f) - 1)) ELSE f

(* print_comment_group, printer/mod.rs:82-98: what follows `//` in the output.   *)
(* Design: a comment without text is written back as `//`.                       *)
(* BlankCommentPadded: first_char of an empty fragment is '\0', "not whitespace", *)
(* so `// ` + "" is written - a trailing blank that the next pass trims again.   *)
PrintFrag(f, devs) ==
  LET t == TrimEnd(f)
  IN IF f = << >> \/ f[1] # "sp"
       THEN (IF t = << >> /\ "BlankCommentPadded" \notin devs THEN << >> ELSE << "sp" >> \o t)
       ELSE t

(* what the property compares: the text without leading / trailing blanks *)
RECURSIVE TrimStart(_)
TrimStart(f) == IF f # << >> /\ f[1] = "sp" THEN TrimStart(Tail(f)) ELSE f
Content(f) == TrimStart(TrimEnd(f))

(* ---- layouts --------------------------------------------------------------- *)
(* line = [code, cm, f]:  code "s" | "n" | "-";  cm "no" | "c" (comment; on a     *)
(* code line it trails the code, on a "-" line it starts in column 0) | "ic"     *)
(* (own-line comment preceded by indentation); f = text of the comment           *)
Ln(code, cm) == [code |-> code, cm |-> cm, f |-> IF cm = "no" THEN << >> ELSE DefFrag]
LineKinds == { Ln("s", "no"), Ln("s", "c"), Ln("n", "no"), Ln("n", "c"),
               Ln("-", "no"), Ln("-", "c"), Ln("-", "ic") }

CountIf(ls, P(_)) == Cardinality({i \in 1..Len(ls) : P(ls[i])})
IsS(l) == l.code = "s"
IsCm(l) == l.cm # "no"
ValidPrefix(ls) ==
  /\ CountIf(ls, IsS) <= MaxStmts
  /\ CountIf(ls, IsCm) <= MaxCmts
  /\ \A i \in 1..Len(ls) : ls[i].code = "n" => \E j \in 1..(i - 1) : ls[j].code = "s"
(* a complete layout does not end in a blank line (it would be the same file) *)
Complete(ls) == ls # << >> => ~(ls[Len(ls)].code = "-" /\ ls[Len(ls)].cm = "no")

NextCode(ls, i) == IF \E j \in (i + 1)..Len(ls) : ls[j].code # "-"
                     THEN CHOOSE j \in (i + 1)..Len(ls) : ls[j].code # "-" /\ \A q \in (i + 1)..(j - 1) : ls[q].code = "-"
                     ELSE 0
Lay(ls, look, glue) == [lines |-> ls, look |-> look, glue |-> glue]
Spiced(ls) ==
  { Lay(ls, FALSE, 0) }
  \cup (IF "look" \in Spices /\ \E i \in 1..Len(ls) : ls[i].code = "n" THEN { Lay(ls, TRUE, 0) } ELSE {})
  \cup (IF "frag" \in Spices
          THEN { Lay([ls EXCEPT ![i].f = f], FALSE, 0) : i \in {j \in 1..Len(ls) : ls[j].cm # "no"}, f \in Frags }
          ELSE {})
  \cup (IF "glue" \in Spices
          THEN { Lay(ls, FALSE, i) : i \in {j \in 1..Len(ls) : ls[j].code # "-" /\ ls[j].cm = "c"
                                                             /\ NextCode(ls, j) # 0 /\ ls[NextCode(ls, j)].code = "n"} }
          ELSE {})

(* the comments of the TEXT, in order (the reference for EachOnce: independent of the tokenizer) *)
CmLines(ls) == SetToSortSeq({i \in 1..Len(ls) : ls[i].cm # "no"}, <)
SrcComments(ls) == LET cl == CmLines(ls) IN [j \in 1..Len(cl) |-> [id |-> j, ln |-> cl[j], f |-> ls[cl[j]].f]]

(* ---- tokenizer: comment groups (tokenizer/mod.rs:513-575) ------------------- *)
(* A group is closed by the next non-comment token, white space included: a      *)
(* comment joins the group of the comment on the line above iff nothing but that *)
(* comment's own line end lies between them (code "-", cm "c").                  *)
(* KeywordSwallowsComment (tokenizer/mod.rs:155-168, do_text_token_tok! ... WS): *)
(* a keyword recogniser consumes `either!(whitespace, comment)`, so a comment    *)
(* glued to `in`, `not`, `let` ... never becomes a COMMENT token.                *)
Close(acc, grp) == IF grp = << >> THEN acc ELSE Append(acc, [ln |-> grp[Len(grp)].ln, cs |-> grp])
RECURSIVE Tok(_, _, _, _, _, _)
Tok(ls, i, id, grp, acc, sw) ==
  IF i > Len(ls) THEN Close(acc, grp)
  ELSE LET l == ls[i]
           has == l.cm # "no"
           tok == has /\ i # sw
           joins == tok /\ l.code = "-" /\ l.cm = "c"
           acc1 == IF joins THEN acc ELSE Close(acc, grp)
           grp1 == IF joins THEN grp ELSE << >>
       IN Tok(ls, i + 1, IF has THEN id + 1 ELSE id,
              IF tok THEN Append(grp1, [id |-> id, ln |-> i, f |-> l.f]) ELSE grp1, acc1, sw)
Groups(lay, devs) == Tok(lay.lines, 1, 1, << >>, << >>,
                         IF "KeywordSwallowsComment" \in devs THEN lay.glue ELSE 0)

(* ---- the printer's visits of a layout ---------------------------------------- *)
CodeOrd(ls, i) == Cardinality({j \in 1..i : ls[j].code # "-"})
LastN(ls, i) ==      \* last inner-node line of the statement that starts on line i (i itself if none)
  LET ns == {j \in (i + 1)..Len(ls) : ls[j].code = "n" /\ \A q \in (i + 1)..j : ls[q].code # "s"}
  IN IF ns = {} THEN i ELSE CHOOSE j \in ns : \A q \in ns : q <= j
V(k, ln, o) == [k |-> k, ln |-> ln, o |-> o]
RECURSIVE VisitsFrom(_, _, _)
VisitsFrom(ls, i, look) ==
  IF i > Len(ls) THEN << >>
  ELSE (IF ls[i].code = "s"
          THEN << V("s", i, CodeOrd(ls, i)) >> \o
               (IF look /\ LastN(ls, i) > i THEN << V("g", LastN(ls, i), 0) >> ELSE << >>)
          ELSE IF ls[i].code = "n" THEN << V("n", i, CodeOrd(ls, i)) >> ELSE << >>)
       \o VisitsFrom(ls, i + 1, look)
Visits(lay) == VisitsFrom(lay.lines, 1, lay.look)

(* ---- machine state ---------------------------------------------------------- *)
Item(k, id, f, o, ln) == [k |-> k, id |-> id, f |-> f, o |-> o, ln |-> ln]
NoVisit == V("-", 0, 0)
InitM(lay) == [lay |-> lay, lay0 |-> lay, src |-> SrcComments(lay.lines), ph |-> "tok", pass |-> 1, groups |-> << >>, pend |-> << >>, vis |-> << >>,
               vi |-> 1, cur |-> NoVisit, go |-> FALSE, out |-> << >>, out1 |-> << >>, last |-> 0]

Top(x) == x.pend[Len(x.pend)]
(* render_missed_comments' loop condition (printer/mod.rs:100-117) *)
More(x) == x.go /\ x.pend # << >> /\ Top(x) <= x.cur.ln
(* has_comment (printer/mod.rs:125-130): strictly before the line *)
HasComment(x, line) == x.pend # << >> /\ Top(x) < line
GroupAt(x, line) == LET hit == {j \in 1..Len(x.groups) : x.groups[j].ln = line}
                    IN IF hit = {} THEN << >> ELSE x.groups[CHOOSE j \in hit : TRUE].cs

(* tokenize + with_comment_map: the pending stack is the reversed key list, last() = smallest line *)
En_Tokenize(x) == x.ph = "tok"
Do_Tokenize(x, devs) ==
  LET gs == Groups(x.lay, IF x.pass = 1 THEN devs ELSE {})
  IN [x EXCEPT !.groups = gs, !.pend = [j \in 1..Len(gs) |-> gs[Len(gs) + 1 - j].ln],
               !.vis = Visits(x.lay), !.vi = 1, !.ph = "visit", !.out = << >>, !.last = 0]

(* entering a visit: render_stmt writes the separating newline first (printer/mod.rs:586-588) *)
En_Enter(x) == x.ph = "visit" /\ x.vi <= Len(x.vis)
Do_Enter(x, devs) ==
  LET v == x.vis[x.vi]
      pn == v.k = "s" /\ \E j \in 1..(x.vi - 1) : x.vis[j].k = "s"
  IN [x EXCEPT !.cur = v, !.ph = "loop",
               !.go = IF v.k = "g" THEN HasComment(x, v.ln) ELSE TRUE,
               !.out = IF pn THEN Append(@, Item("nl", 0, << >>, 0, 0)) ELSE @]

(* one iteration of render_missed_comments: print the group, pop it, blank-line rule *)
En_EmitGroup(x) == x.ph \in {"loop", "end"} /\ More(x)
Do_EmitGroup(x, devs) ==
  LET gl == Top(x)
      cs == GroupAt(x, gl)
      printed == [j \in 1..Len(cs) |-> Item("c", cs[j].id, PrintFrag(cs[j].f, devs), 0, cs[j].ln)]
  IN [x EXCEPT !.out = (@ \o printed) \o (IF gl + 1 < x.cur.ln THEN << Item("nl", 0, << >>, 0, 0) >> ELSE << >>),
               !.pend = SubSeq(@, 1, Len(@) - 1)]

(* the loop is over: the node's own text follows; last_line := line *)
En_Leave(x) == x.ph = "loop" /\ ~More(x)
Do_Leave(x, devs) ==
  [x EXCEPT !.out = IF x.cur.k \in {"s", "n"} THEN Append(@, Item(x.cur.k, 0, << >>, x.cur.o, x.cur.ln)) ELSE @,
            !.last = x.cur.ln, !.vi = @ + 1, !.ph = "visit"]

(* render(): after the statements, everything that is left (printer/mod.rs:628-632); *)
(* comment_group_lines.first() is the LARGEST key                                   *)
En_Tail(x) == x.ph = "visit" /\ x.vi > Len(x.vis)
Do_Tail(x, devs) ==
  IF x.pend = << >> THEN [x EXCEPT !.ph = "fin"]
  ELSE [x EXCEPT !.ph = "end", !.go = TRUE, !.cur = V("e", x.pend[1] + 1, 0)]
En_TailDone(x) == x.ph = "end" /\ ~More(x)
Do_TailDone(x, devs) == [x EXCEPT !.ph = "fin"]

(* ---- second pass ------------------------------------------------------------ *)
(* every comment of the output on a line of its own BETWEEN statements: the next  *)
(* code item after it (if any) is a statement head                                *)
NextNode(o, j) == IF \E q \in (j + 1)..Len(o) : o[q].k \in {"s", "n"}
                    THEN o[CHOOSE q \in (j + 1)..Len(o) : o[q].k \in {"s", "n"} /\ \A r \in (j + 1)..(q - 1) : o[r].k \notin {"s", "n"}].k
                    ELSE "s"
Pre(o) == \A j \in 1..Len(o) : o[j].k = "c" => NextNode(o, j) = "s"

(* the output as a layout: one line per item (top level: comments start in column 0) *)
Relines(o) == [j \in 1..Len(o) |->
                 IF o[j].k = "c" THEN [code |-> "-", cm |-> "c", f |-> o[j].f]
                 ELSE IF o[j].k = "nl" THEN Ln("-", "no") ELSE Ln(o[j].k, "no")]
En_Reformat(x) == x.ph = "fin" /\ x.pass = 1 /\ Pre(x.out)
Do_Reformat(x, devs) == [x EXCEPT !.out1 = x.out, !.pass = 2, !.ph = "tok",
                                  !.lay = Lay(Relines(x.out), x.lay.look, 0)]
En_Stop(x) == x.ph = "fin" /\ (x.pass = 2 \/ ~Pre(x.out))
Do_Stop(x, devs) == [x EXCEPT !.ph = "done", !.out1 = IF x.pass = 1 THEN x.out ELSE @]

(* ---- the machine: one action per step of the code ---------------------------- *)
Tokenize  == En_Tokenize(m)  /\ m' = Do_Tokenize(m, Deviations) /\ UNCHANGED << blk, idx >>
Enter     == En_Enter(m)     /\ m' = Do_Enter(m, Deviations) /\ UNCHANGED << blk, idx >>
EmitGroup == En_EmitGroup(m) /\ m' = Do_EmitGroup(m, Deviations) /\ UNCHANGED << blk, idx >>
Leave     == En_Leave(m)     /\ m' = Do_Leave(m, Deviations) /\ UNCHANGED << blk, idx >>
Tail_     == En_Tail(m)      /\ m' = Do_Tail(m, Deviations) /\ UNCHANGED << blk, idx >>
TailDone  == En_TailDone(m)  /\ m' = Do_TailDone(m, Deviations) /\ UNCHANGED << blk, idx >>
Reformat  == En_Reformat(m)  /\ m' = Do_Reformat(m, Deviations) /\ UNCHANGED << blk, idx >>
Stop      == En_Stop(m)      /\ m' = Do_Stop(m, Deviations) /\ UNCHANGED << blk, idx >>

(* the generator: the behaviours up to GenStart are exactly the layouts of the bounded domain *)
GenLine  == m.ph = "gen" /\ Len(m.lay.lines) < MaxL /\
            \E k \in LineKinds : ValidPrefix(Append(m.lay.lines, k)) /\ m' = [m EXCEPT !.lay.lines = Append(@, k)] /\ UNCHANGED << blk, idx >>
GenStart == m.ph = "gen" /\ Complete(m.lay.lines) /\ (\E lay \in Spiced(m.lay.lines) : m' = InitM(lay)) /\ UNCHANGED << blk, idx >>

PlaceInit == m = [InitM(Lay(<< >>, FALSE, 0)) EXCEPT !.ph = "gen"] /\ blk = 0 /\ idx = 0
PlaceNext == GenLine \/ GenStart \/ Tokenize \/ Enter \/ EmitGroup \/ Leave \/ Tail_ \/ TailDone \/ Reformat \/ Stop

(* the same steps as a function, for the code-faithful prediction *)
StepF(x, devs) ==
  IF En_Tokenize(x) THEN Do_Tokenize(x, devs) ELSE IF En_Enter(x) THEN Do_Enter(x, devs)
  ELSE IF En_EmitGroup(x) THEN Do_EmitGroup(x, devs) ELSE IF En_Leave(x) THEN Do_Leave(x, devs)
  ELSE IF En_Tail(x) THEN Do_Tail(x, devs) ELSE IF En_TailDone(x) THEN Do_TailDone(x, devs)
  ELSE IF En_Reformat(x) THEN Do_Reformat(x, devs) ELSE IF En_Stop(x) THEN Do_Stop(x, devs) ELSE x
RECURSIVE RunF(_, _)
RunF(x, devs) == IF x.ph = "done" THEN x ELSE RunF(StepF(x, devs), devs)

(* ---- what is checked ----------------------------------------------------------- *)
Done == m.ph = "done"
CIds(o) == SelectSeq(o, LAMBDA it : it.k = "c")

(* only one step is ever enabled: the machine is the deterministic code *)
Deterministic == Cardinality({a \in {"t", "e", "g", "l", "x", "y", "r", "s"} :
                   CASE a = "t" -> En_Tokenize(m) [] a = "e" -> En_Enter(m) [] a = "g" -> En_EmitGroup(m)
                     [] a = "l" -> En_Leave(m) [] a = "x" -> En_Tail(m) [] a = "y" -> En_TailDone(m)
                     [] a = "r" -> En_Reformat(m) [] a = "s" -> En_Stop(m)}) = (IF Done \/ m.ph = "gen" THEN 0 ELSE 1)

(* every comment of the text comes out exactly once, with its text (blanks at the ends apart) *)
EachOnceOf(src, o1) ==
  \A c \in 1..Len(src) :
     LET hits == {j \in 1..Len(o1) : o1[j].k = "c" /\ o1[j].id = src[c].id}
     IN Cardinality(hits) = 1 /\ \A j \in hits : Content(o1[j].f) = Content(src[c].f)
(* ... in the order of the text *)
InOrderOf(o1) == LET cs == CIds(o1) IN \A j \in 1..(Len(cs) - 1) : cs[j].id < cs[j + 1].id
(* ... and before the first node at or after its line: no node of a later line precedes it *)
BeforeLaterCodeOf(o1) ==
  \A j \in 1..Len(o1) : o1[j].k = "c" =>
     \A i \in 1..(j - 1) : o1[i].k \in {"s", "n"} => o1[i].ln <= o1[j].ln
(* formatting the formatted text again returns it unchanged *)
Shape(o) == [j \in 1..Len(o) |-> [k |-> o[j].k, f |-> o[j].f, o |-> o[j].o]]
FixedOf(x) == IF x.pass = 2 THEN (IF Shape(x.out) = Shape(x.out1) THEN "yes" ELSE "no") ELSE "na"

EachOnce   == Done => EachOnceOf(m.src, m.out1)
InOrder    == Done => InOrderOf(m.out1)
BeforeLaterCode == Done => BeforeLaterCodeOf(m.out1)
FixedPoint == Done => FixedOf(m) # "no"

(* ---- emission for replay ---------------------------------------------------------- *)
KindIx(l) == (IF l.code = "s" THEN 1 ELSE IF l.code = "n" THEN 2 ELSE 3) + (IF l.cm = "no" THEN 0 ELSE IF l.cm = "c" THEN 3 ELSE 6)
                + 11 * Len(l.f) + (IF l.f # << >> /\ l.f[1] = "x" THEN 5 ELSE 0)
RECURSIVE LayHashFrom(_, _)
LayHashFrom(ls, i) == IF i > Len(ls) THEN 0 ELSE ((2 * i + 1) * KindIx(ls[i]) + 31 * LayHashFrom(ls, i + 1)) % 1000003
LayHash(lay) == (LayHashFrom(lay.lines, 1) + 7 * lay.glue + (IF lay.look THEN 3 ELSE 0)) % 1000003

View(x) == [out |-> [j \in 1..Len(x.out1) |-> [k |-> x.out1[j].k, id |-> x.out1[j].id, f |-> x.out1[j].f, o |-> x.out1[j].o]],
            fixed |-> FixedOf(x),
            once |-> EachOnceOf(x.src, x.out1), ordered |-> InOrderOf(x.out1)]
PlaceEmit == Done /\ LayHash(m.lay0) % EmitEvery = EmitPhase % EmitEvery =>
  LET code == RunF(InitM(m.lay0), KnownDevs)
      design == RunF(InitM(m.lay0), {})
      hit == IF View(code) = View(design) THEN {} ELSE {d \in KnownDevs : View(RunF(InitM(m.lay0), {d})) # View(design)}
  IN PrintT(<< "REPLAY", ToJson([part |-> "place", lay |-> m.lay0, src |-> m.src,
                                 map |-> [j \in 1..Len(Groups(m.lay0, KnownDevs)) |-> Groups(m.lay0, KnownDevs)[j].ln],
                                 dmap |-> [j \in 1..Len(Groups(m.lay0, {})) |-> Groups(m.lay0, {})[j].ln],
                                 design |-> View(design), code |-> View(code), devs |-> SetToSeq(hit)]) >>)
=============================================================================
