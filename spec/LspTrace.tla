------------------------------ MODULE LspTrace ------------------------------
(* C20, implementation -> specification.  The JSON-RPC traffic of real      *)
(* `ucg lsp` processes, recorded by vp/c20.py, is accepted iff it is a      *)
(* behaviour of Lsp.tla.  One line of IOEnv.TRACE is one event:             *)
(*                                                                           *)
(*  reset   s, disk[1..NDocs], texts[{t, imp[..]}]   new server, new workspace *)
(*  oracle  d, t, pok, pl, pc, bok    the COMPILER on text t as document d:  *)
(*          parser verdict, error position (1-based line, byte column),      *)
(*          `build` verdict (harness, not the language server)               *)
(*  fresh   d, t, dg, n, ds           what a brand-new server on the same    *)
(*          disk publishes when document d is opened directly on text t      *)
(*  open / change / close / req       messages written by the client         *)
(*  publish d, dg, n, ds  /  resp id, okay     messages read from the server *)
(*  end     alive                     the process is still there afterwards  *)
(*  other                             server messages the property does not  *)
(*                                    speak about (skipped)                  *)
(*  died / hang                       never match: the trace is rejected     *)
(*                                                                           *)
(* dg is a digest of the diagnostics payload (0 = empty list), n the number  *)
(* of diagnostics, ds their start positions: rl/rc as the server sent them   *)
(* (+1), ln/col after converting the UTF-16 position to line / byte column   *)
(* with the concrete text (0/0 when the position does not exist), syn = the  *)
(* message is one of the compiler's parser.                                  *)
(*                                                                           *)
(* Diag is uninterpreted in Lsp.tla; here it is LEARNED: the first publish   *)
(* (or fresh event) for a term fixes its digest, a different digest for the  *)
(* same term rejects the trace.  Text ids are global to the trace, so what   *)
(* one session (or fresh server) taught is held against all later ones.      *)
(* The compiler constrains Diag: a syntax diagnostic iff the parser rejects, *)
(* at the parser's position; Diag(t, disk) is empty when t builds.           *)
(*                                                                           *)
(* The server steps (Lsp!Handle) are not events; the driver only writes      *)
(* after reading what the previous message had to produce, so a pending      *)
(* message is handled before the next event is looked at.                    *)
(*                                                                           *)
(* Deviations: the trace is validated against the machine WITH the open      *)
(* deviations (so that everything else the code does is still checked); what *)
(* the design (Deviations = {}) demands is evaluated at every publish and a  *)
(* difference is reported as a flag of the session, with the deviation that  *)
(* explains it — the driver matches those against known findings.  The       *)
(* position-level deviation "ByteColumns" (the server reports byte columns   *)
(* where LSP counts UTF-16 units) only exists here: Lsp.tla has no columns.  *)
EXTENDS Lsp, IOUtils

Rec == ndJsonDeserialize(IOEnv.TRACE)

VARIABLES l,        \* next event
          learned,  \* set of << term, digest >>
          orc,      \* (d, t) -> oracle event of this session
          flags,    \* design-level differences of this session
          ses       \* session number

tvars == << vars, l, learned, orc, flags, ses >>

SendEvs == { "open", "change", "close", "req" }
Ev == Rec[l]
IsEvent(e) == l <= Len(Rec) /\ Rec[l].ev = e /\ l' = l + 1
Quiet == pending = << >>     \* the server has taken everything written so far

ImpOf(e) ==
  LET ids == { e.texts[j].t : j \in 1..Len(e.texts) }
  IN [t \in ids |-> LET j == CHOOSE j \in 1..Len(e.texts) : e.texts[j].t = t
                    IN { e.texts[j].imp[q] : q \in 1..Len(e.texts[j].imp) }]

TInit ==
  /\ StartWith(<< >>, [d \in Docs |-> 0], 0)
  /\ l = 1 /\ learned = {} /\ orc = << >> /\ flags = << >> /\ ses = 0

TrReset ==
  /\ IsEvent("reset")
  /\ Restart(ImpOf(Ev), Ev.disk, MaxMsgs)
  /\ orc' = << >> /\ flags' = << >> /\ ses' = Ev.s
  /\ UNCHANGED learned

TrOracle ==
  /\ IsEvent("oracle")
  /\ orc' = [x \in DOMAIN orc \cup { << Ev.d, Ev.t >> } |-> IF x = << Ev.d, Ev.t >> THEN Ev ELSE orc[x]]
  /\ UNCHANGED << vars, learned, flags, ses >>

(* ---- Diag, learned ------------------------------------------------------ *)
Known(k)    == \E p \in learned : p[1] = k
DigestOf(k) == (CHOOSE p \in learned : p[1] = k)[2]
Consistent(k, dg) == Known(k) => DigestOf(k) = dg

(* ---- what the compiler says about Diag ---------------------------------- *)
PosEq(x, o, raw) == IF raw THEN x.rl = o.pl /\ x.rc = o.pc ELSE x.ln = o.pl /\ x.col = o.pc
SyntaxRule(ds, o, raw) ==
  IF o.pok THEN \A j \in 1..Len(ds) : ~ds[j].syn
  ELSE \E j \in 1..Len(ds) : ds[j].syn /\ PosEq(ds[j], o, raw)
Raw == "ByteColumns" \in Deviations

Flag(why, cause, d) == [s |-> ses, why |-> why, cause |-> cause, d |-> d, at |-> l]

(* the import through which a publish saw something else than the disk *)
Cause(key, dkey) ==
  LET diff == { x \in Docs : key.v[x] # dkey.v[x] }
  IN IF \E x \in diff : open[x] = 0 /\ disk[x] = 0 THEN "CloseKeepsUnsaved" ELSE "UnsavedInIndex"

(* a publish of the machine's term `key` observed with (dg, n, ds) for document d *)
Observe(d, key, e) ==
  LET t    == key.t
      dkey == DiagDisk(t)
      o    == orc[<< d, t >>]
      f1 == IF dkey # key /\ Known(dkey) /\ DigestOf(dkey) # e.dg
              THEN << Flag("CurrentTextOnly", Cause(key, dkey), d) >> ELSE << >>
      f2 == IF dkey # key /\ o.bok /\ e.n # 0
              THEN << Flag("BuildableNoDiagnostics", Cause(key, dkey), d) >> ELSE << >>
      f3 == IF Raw /\ ~SyntaxRule(e.ds, o, FALSE)
              THEN << Flag("SyntaxPosition", "ByteColumns", d) >> ELSE << >>
  IN /\ << d, t >> \in DOMAIN orc
     /\ Consistent(key, e.dg)
     /\ (e.dg = 0) = (e.n = 0)
     /\ SyntaxRule(e.ds, o, Raw)
     /\ (dkey = key /\ o.bok) => e.n = 0
     /\ learned' = learned \cup { << key, e.dg >> }
     /\ flags' = flags \o f1 \o f2 \o f3

TrFresh ==
  /\ IsEvent("fresh")
  /\ Ev.d \notin imp[Ev.t]
  /\ Observe(Ev.d, DiagDisk(Ev.t), Ev)
  /\ UNCHANGED << vars, orc, ses >>

(* ---- the client writes --------------------------------------------------- *)
TrSend ==
  /\ l <= Len(Rec) /\ Rec[l].ev \in SendEvs /\ l' = l + 1
  /\ Quiet
  /\ CASE Ev.ev = "open"   -> Len(Ev.ts) = 1 /\ Send(Msg("open", Ev.d, Ev.ts, "", "", 0))
       [] Ev.ev = "change" -> Send(Msg("change", Ev.d, Ev.ts, "", "", 0))
       [] Ev.ev = "close"  -> Send(Msg("close", Ev.d, << >>, "", "", 0))
       [] Ev.ev = "req"    -> Ev.k \in ReqKinds /\ Send(Msg("req", Ev.d, << >>, Ev.k, Ev.pc, Ev.id))
  /\ UNCHANGED << learned, orc, flags, ses >>

(* ---- the server works (not an event) -------------------------------------- *)
TrHandle ==
  /\ ~Quiet
  /\ Handle
  /\ UNCHANGED << l, learned, orc, flags, ses >>

(* ---- the client reads ------------------------------------------------------ *)
TrPublish ==
  /\ IsEvent("publish") /\ Quiet
  /\ outbox # << >> /\ Head(outbox).o = "publish" /\ Head(outbox).d = Ev.d
  /\ IF Head(outbox).dg = Nil
       THEN Ev.dg = 0 /\ Ev.n = 0 /\ UNCHANGED << learned, flags >>     \* didClose clears
       ELSE Observe(Ev.d, Head(outbox).dg, Ev)
  /\ ClientRecv
  /\ UNCHANGED << orc, ses >>

TrResp ==
  /\ IsEvent("resp") /\ Quiet
  /\ outbox # << >> /\ Head(outbox).o = "resp" /\ Head(outbox).id = Ev.id
  /\ Ev.okay
  /\ ClientRecv
  /\ UNCHANGED << learned, orc, flags, ses >>

TrOther ==
  /\ IsEvent("other")
  /\ UNCHANGED << vars, learned, orc, flags, ses >>

TrEnd ==
  /\ IsEvent("end") /\ Quiet
  /\ outbox = << >> /\ alive /\ Ev.alive
  /\ UNCHANGED << vars, learned, orc, flags, ses >>

TNext ==
  \/ TrHandle
  \/ (Quiet /\ (TrReset \/ TrOracle \/ TrFresh \/ TrSend \/ TrPublish \/ TrResp \/ TrOther \/ TrEnd))

TSpec == TInit /\ [][TNext]_tvars

(* the invariants of the machine, at every step of the recorded execution *)
TraceInv == Alive /\ EveryRequestAnsweredOnceInOrder /\ CloseClears

(* one line per accepted session, with its flags *)
Report ==
  (l > 1 /\ Rec[l - 1].ev = "end") =>
      PrintT(<< "REPLAY", ToJson([s |-> ses, flags |-> flags, nlearned |-> Cardinality(learned)]) >>)

NHandles == Cardinality({ j \in 1..Len(Rec) : Rec[j].ev \in SendEvs })
Accepted ==
  LET dia == TLCGet("stats").diameter
  IN IF dia - 1 = Len(Rec) + NHandles THEN TRUE
     ELSE PrintT(<< "REPLAY", ToJson([rejected |-> TRUE, steps |-> dia - 1]) >>) /\ FALSE
=============================================================================
