CONSTANTS Deviations = {} Family = "alt" Tier = "thorough"
INIT Init
NEXT Next
CHECK_DEADLOCK FALSE
INVARIANTS AdmitEqualsConforms NamedAsInline Emit
