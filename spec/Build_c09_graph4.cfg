CONSTANTS
  Deviations <- DevNone
  NF = 4
  Bodies <- Bodies09_graph4
  Layouts <- LayNest4
  Cmds <- CmdBuild
  Cwds <- Cwd0
  Orders <- OrdersFirst
  Pres <- PreNone
  Repeat = 1
  EmitOn = TRUE
INIT Init
NEXT Next
CHECK_DEADLOCK FALSE
INVARIANTS ResolveRelToFile EvalOnce EvalOrder SameValue CycleIsDiagnostic VerdictIffAsserts ExitIffFail EachAssertOnce OneArtifact SecondOutIsError AllOrNothing BatchEqualsSolo Emit
