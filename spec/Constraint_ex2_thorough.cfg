CONSTANTS Deviations = {} Family = "ex2" Tier = "thorough"
INIT Init
NEXT Next
CHECK_DEADLOCK FALSE
INVARIANTS AdmitEqualsConforms NamedAsInline Emit
