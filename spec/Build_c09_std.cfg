CONSTANTS
  Deviations <- DevNone
  NF = 2
  Bodies <- Bodies09_std
  Layouts <- LayStd2
  Cmds <- CmdBuild
  Cwds <- CwdAll
  Orders <- OrdersFirst
  Pres <- PreNone
  Repeat = 1
  EmitOn = TRUE
INIT Init
NEXT Next
CHECK_DEADLOCK FALSE
INVARIANTS ResolveRelToFile EvalOnce EvalOrder SameValue CycleIsDiagnostic VerdictIffAsserts ExitIffFail EachAssertOnce OneArtifact SecondOutIsError AllOrNothing BatchEqualsSolo Emit
