\* C19 thorough: exhaustive enumeration at the design bounds (lists <=4 over 3 ids, tuples <=3, strings <=4 over 4 characters, separators 1-2)
CONSTANTS
  Families = {"list1", "enum", "zip", "slice", "join", "tuple", "str1", "split", "splitat", "substr", "parseint", "maybe", "basetype", "shaped", "anyall"}
  Size = "thorough"
  Sim = FALSE
  Deviations = {}
  KnownDevs = {"TailEmptyFails", "ZipLongerRange", "JoinSepSkippedWhileEmpty", "ShapedTupleLastFieldDecides"}
INIT Init
NEXT Next
CHECK_DEADLOCK FALSE
INVARIANTS Laws WellFormed Emit
