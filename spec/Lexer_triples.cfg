CONSTANTS
  Mode = "toks"
  Rand = FALSE
  MaxToks = 3
  MaxBody = 0
  MaxSep = 0
  SepSet = "four"
  TrailCmt = FALSE
  Stepwise = FALSE
  Deviations = {}
INIT Init
NEXT Next
CHECK_DEADLOCK FALSE
INVARIANTS PosTruth Progress Monotone LongestOp Layout AlgEqualsRef Emit
