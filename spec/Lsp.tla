-------------------------------- MODULE Lsp --------------------------------
(* C20.  The language-server session of `ucg lsp` (src/lsp/mod.rs,          *)
(* src/lsp/workspace.rs, src/lsp/analysis.rs) as a state machine, one        *)
(* action per iteration of main_loop, plus the client that produces the      *)
(* session (the generator whose behaviours are the quantifier domain:        *)
(* any sequence of didOpen / didChange / didClose notifications and hover,   *)
(* definition, completion, semanticTokens, workspace/symbol requests over    *)
(* NDocs documents and the text ids DOMAIN imp).                             *)
(*                                                                           *)
(* Texts are abstract ids.  The only structure a text has here is the set    *)
(* imp[t] of workspace documents it imports (`let x = import "dK.ucg";`):    *)
(* that is the only channel through which anything outside the text can      *)
(* reach its diagnostics (analysis.rs:486-524, resolve_imports_in_shape).    *)
(*                                                                           *)
(* Diag(text, environment) is UNINTERPRETED.  It is represented by the free  *)
(* term  Ana(t, w) = [t |-> t, v |-> what t can see of w]  — two            *)
(* applications are equal iff the text is the same and every imported        *)
(* document is seen with the same analysis.  An analysis of a document is    *)
(* itself such a term (its exported shapes embed the shapes of its own       *)
(* imports as they were when IT was analysed), cut at ViewDepth.             *)
(*                                                                           *)
(* The property (statement of C20): the diagnostics published for a          *)
(* document are Diag(current text, files on disk).  The design that          *)
(* satisfies it resolves imports through the index of the files ON DISK      *)
(* (didx).  The code does something else, recorded as named deviations:      *)
(*                                                                           *)
(*  "UnsavedInIndex"     ServerState::update_document (mod.rs:72-86) first   *)
(*      stores the analysis of the editor text in the workspace index        *)
(*      (workspace.rs:84-88) and then analyses the document against that     *)
(*      index, so import shapes come from OTHER open documents' unsaved      *)
(*      text; nothing is re-analysed or re-published when those change,      *)
(*      and didClose re-reads the file against the index as it then is.      *)
(*  "CloseKeepsUnsaved"  didClose of a document that does not exist on       *)
(*      disk leaves its last editor text in the index for ever               *)
(*      (workspace.rs:91-95: a failed read changes nothing).  Only           *)
(*      observable together with UnsavedInIndex.                             *)
(*                                                                           *)
(* Deviations = {} must satisfy every invariant below; each deviation must   *)
(* give a counterexample session, which the driver replays against the       *)
(* real server (vp/c20.py).                                                  *)
EXTENDS Naturals, Sequences, FiniteSets, TLC, Json

CONSTANTS
  NDocs,        \* documents d1..dN of one workspace directory
  ImpChoices,   \* candidate import tables: sequences over text ids of subsets of 1..NDocs
  DiskChoices,  \* {} = every disk state, or a set of disk states (sequences over docs of text ids, 0 = no file)
  MinMsgs,      \* a session has MinMsgs..MaxMsgs messages
  MaxMsgs,
  MaxPending,   \* how far the client may run ahead of the server
  MaxOutbox,    \* outputs the server may write before the client reads (back-pressure of the pipe)
  MaxChanges,   \* content changes per didChange: 0..MaxChanges (full sync: the last one wins)
  ViewDepth,    \* nesting kept in analysis terms (>= 1)
  Deviations,   \* subset of {"UnsavedInIndex", "CloseKeepsUnsaved"}
  EmitMode      \* "none" | "done": print one REPLAY line per finished session

VARIABLES
  imp,      \* text id -> set of imported documents            (fixed per session)
  disk,     \* document -> text id of the file on disk, 0 = absent   (fixed per session)
  didx,     \* the index of the files on disk (index_all), document -> analysis term
  open,     \* ServerState.documents: document -> current text id, 0 = not open
  ws,       \* ServerState.workspace.files as the code keeps it: document -> analysis term
  pending,  \* messages written by the client, not yet taken by main_loop
  outbox,   \* outputs written by the server, not yet read by the client
  alive,    \* the process runs
  lastpub,  \* observer: payload of the last publishDiagnostics per document
  nid,      \* next request id
  target,   \* length of this session (generator)
  sent,     \* history: the session so far
  outlog    \* history: every output so far, tagged with the index of the causing message

machine == << imp, disk, didx, open, ws, pending, outbox, alive, lastpub, nid, target >>
vars    == << imp, disk, didx, open, ws, pending, outbox, alive, lastpub, nid, target, sent, outlog >>

Docs  == 1..NDocs
Texts == DOMAIN imp

ReqKinds   == { "hover", "definition", "completion", "semanticTokens", "workspaceSymbol" }
PosKinds   == { "hover", "definition", "completion" }          \* requests that carry a position
PosClasses == { "tokstart", "intok", "lineend", "pastline", "pastcol" }

(* ---- analysis terms --------------------------------------------------- *)
Nil   == [t |-> 0, v |-> << >>]      \* no such file / not imported / empty diagnostics
Never == [t |-> 99999, v |-> << >>]   \* lastpub before the first publish

RECURSIVE Trunc(_, _)
Trunc(a, k) ==
  IF a.v = << >> \/ k = 0 THEN [t |-> a.t, v |-> << >>]
  ELSE [t |-> a.t, v |-> [e \in DOMAIN a.v |-> Trunc(a.v[e], k - 1)]]

(* analysis::analyze(text, dir, resolved = w): what the result can depend on *)
AnaI(i, t, w) ==
  [t |-> t, v |-> [e \in Docs |-> IF e \in i[t] THEN Trunc(w[e], ViewDepth - 1) ELSE Nil]]
Ana(t, w) == AnaI(imp, t, w)

(* WorkspaceIndex::index_all: files in import-dependency order, each        *)
(* analysed against the files analysed before it.  For an acyclic import    *)
(* relation this is the fixed point of "analyse every file against the      *)
(* index", reached after NDocs rounds.                                      *)
RECURSIVE IdxIter(_, _, _)
IdxIter(i, dk, k) ==
  IF k = 0 THEN [e \in Docs |-> Nil]
  ELSE LET p == IdxIter(i, dk, k - 1)
       IN [e \in Docs |-> IF dk[e] = 0 THEN Nil ELSE AnaI(i, dk[e], p)]
DiskIndex(i, dk) == IdxIter(i, dk, NDocs)

(* topo_sort_files is only an order for acyclic imports (a cycle is a       *)
(* language error; with one, the result depends on read_dir order):         *)
(* the generator only produces disks without import cycles.                 *)
Edge(i, dk, a, b) == dk[a] # 0 /\ dk[b] # 0 /\ b \in i[dk[a]]
RECURSIVE ReachN(_, _, _, _)
ReachN(i, dk, S, k) ==
  IF k = 0 THEN S ELSE ReachN(i, dk, S \cup { b \in Docs : \E a \in S : Edge(i, dk, a, b) }, k - 1)
Acyclic(i, dk) ==
  \A a \in Docs : a \notin ReachN(i, dk, { b \in Docs : Edge(i, dk, a, b) }, NDocs)

(* ---- messages and outputs (one shape each: a field holds one kind) ---- *)
Msg(m, d, ts, k, pc, id) == [m |-> m, d |-> d, ts |-> ts, k |-> k, pc |-> pc, id |-> id]
Pub(d, dg)  == [o |-> "publish", d |-> d, id |-> 0, dg |-> dg]
Resp(id)    == [o |-> "resp", d |-> 0, id |-> id, dg |-> Nil]
Tag(x, c)   == [o |-> x.o, d |-> x.d, id |-> x.id, dg |-> x.dg, c |-> c]

Last(s) == s[Len(s)]
Handled == SubSeq(sent, 1, Len(sent) - Len(pending))

(* ---- initial states ---------------------------------------------------- *)
StartWith(i, dk, tg) ==
  /\ imp = i /\ disk = dk /\ didx = DiskIndex(i, dk)
  /\ open = [d \in Docs |-> 0]
  /\ ws = DiskIndex(i, dk)
  /\ pending = << >> /\ outbox = << >> /\ alive = TRUE
  /\ lastpub = [d \in Docs |-> Never]
  /\ nid = 1 /\ target = tg
  /\ sent = << >> /\ outlog = << >>

(* the same as an action: a new server process on a new workspace (used by  *)
(* LspTrace to validate many recorded sessions in one run)                  *)
Restart(i, dk, tg) ==
  /\ imp' = i /\ disk' = dk /\ didx' = DiskIndex(i, dk)
  /\ open' = [d \in Docs |-> 0]
  /\ ws' = DiskIndex(i, dk)
  /\ pending' = << >> /\ outbox' = << >> /\ alive' = TRUE
  /\ lastpub' = [d \in Docs |-> Never]
  /\ nid' = 1 /\ target' = tg
  /\ sent' = << >> /\ outlog' = << >>

DisksOf(i) ==
  IF DiskChoices = {} THEN [Docs -> {0} \cup DOMAIN i] ELSE DiskChoices

Init ==
  \E i \in ImpChoices : \E dk \in DisksOf(i) : \E tg \in MinMsgs..MaxMsgs :
      (* a file on disk imports neither itself nor in a cycle *)
      /\ \A d \in Docs : dk[d] # 0 => d \notin i[dk[d]]
      /\ Acyclic(i, dk)
      /\ StartWith(i, dk, tg)

(* ---- the client: any session ------------------------------------------- *)
Send(msg) ==
  /\ alive
  /\ Len(sent) < target /\ Len(pending) < MaxPending
  /\ pending' = Append(pending, msg)
  /\ sent' = Append(sent, msg)
  /\ nid' = IF msg.m = "req" THEN nid + 1 ELSE nid
  /\ UNCHANGED << imp, disk, didx, open, ws, outbox, alive, lastpub, target, outlog >>

(* a document never imports itself (don't-care of the property: a self      *)
(* import is a cycle)                                                        *)
MayHold(d, t) == d \notin imp[t]

ChangeLists(d) ==
  UNION { [1..n -> { t \in Texts : MayHold(d, t) }] : n \in 0..MaxChanges }

(* The disjuncts are cut so that `-simulate` (which draws an action first;  *)
(* quantifiers over constant sets are separate actions, quantifiers over    *)
(* state-dependent sets are not) yields a usable mix of notifications and   *)
(* requests.  The set of behaviours is simply "any message next".           *)
PosOf(k) == IF k \in PosKinds THEN { p \in PosClasses : alive } ELSE { p \in { "none" } : alive }
ClientSend ==
  \/ \E d \in Docs : \E t \in Texts :
        MayHold(d, t) /\ Send(Msg("open", d, << t >>, "", "", 0))
  \/ \E d \in Docs : \E t \in Texts :
        MayHold(d, t) /\ Send(Msg("change", d, << t >>, "", "", 0))
  \/ \E d \in Docs : \E ts \in { x \in ChangeLists(d) : Len(x) # 1 } : Send(Msg("change", d, ts, "", "", 0))
  \/ \E d \in Docs : Send(Msg("close", d, << >>, "", "", 0))
  \/ \E k \in ReqKinds : \E d \in Docs : \E pc \in PosOf(k) :
        Send(Msg("req", IF k = "workspaceSymbol" THEN 0 ELSE d, << >>, k, pc, nid))

ClientRecv ==
  /\ outbox # << >>
  /\ outbox' = Tail(outbox)
  /\ UNCHANGED << imp, disk, didx, open, ws, pending, alive, lastpub, nid, target, sent, outlog >>

(* ---- the server: one iteration of main_loop (mod.rs:177-198) ----------- *)
Out(xs) ==      \* write outputs caused by the message now being handled
  LET c == Len(sent) - Len(pending) + 1
  IN /\ outbox' = outbox \o xs
     /\ outlog' = outlog \o [j \in 1..Len(xs) |-> Tag(xs[j], c)]

(* ServerState::update_document + publish_diagnostics (mod.rs:72-86, 208-220) *)
Sync(d, t) ==
  LET ws1 == IF "UnsavedInIndex" \in Deviations
               THEN [ws EXCEPT ![d] = Ana(t, ws)]      \* workspace.update_from_content
               ELSE ws
      env == IF "UnsavedInIndex" \in Deviations THEN ws1 ELSE didx
      dg  == Ana(t, env)                                \* analysis::analyze(.., resolved_files())
  IN /\ open' = [open EXCEPT ![d] = t]
     /\ ws' = ws1
     /\ lastpub' = [lastpub EXCEPT ![d] = dg]
     /\ Out(<< Pub(d, dg) >>)

(* didClose (mod.rs:221-239): forget the document, re-sync the index from   *)
(* disk, publish an empty list                                              *)
Close(d) ==
  /\ open' = [open EXCEPT ![d] = 0]
  /\ ws' = IF "UnsavedInIndex" \notin Deviations THEN ws
           ELSE IF disk[d] # 0 THEN [ws EXCEPT ![d] = Ana(disk[d], ws)]   \* update_from_disk
           ELSE IF "CloseKeepsUnsaved" \in Deviations THEN ws             \* read fails: unchanged
           ELSE [ws EXCEPT ![d] = Nil]
  /\ lastpub' = [lastpub EXCEPT ![d] = Nil]
  /\ Out(<< Pub(d, Nil) >>)

(* handle_request (mod.rs:244-311): every one of the five kinds answers,    *)
(* whether or not the document is open, whatever the position               *)
Answer(id) ==
  /\ Out(<< Resp(id) >>)
  /\ UNCHANGED << open, ws, lastpub >>

Handle ==
  /\ alive /\ pending # << >> /\ Len(outbox) < MaxOutbox
  /\ LET m == Head(pending)
     IN CASE m.m = "open"   -> Sync(m.d, m.ts[1])
          [] m.m = "change" -> IF m.ts = << >>
                                 THEN Out(<< >>) /\ UNCHANGED << open, ws, lastpub >>
                                 ELSE Sync(m.d, Last(m.ts))        \* into_iter().last()
          [] m.m = "close"  -> Close(m.d)
          [] m.m = "req"    -> Answer(m.id)
  /\ pending' = Tail(pending)
  /\ UNCHANGED << imp, disk, didx, alive, nid, target, sent >>

Next == ClientSend \/ Handle \/ ClientRecv
Spec == Init /\ [][Next]_vars

Done == Len(sent) = target /\ pending = << >> /\ outbox = << >>

(* ---- the property ------------------------------------------------------- *)
(* Diag(t, files on disk) *)
DiagDisk(t) == Ana(t, didx)

(* what the statement of C20 demands as the outputs of one message *)
Due(m) ==
  CASE m.m = "open"   -> << Pub(m.d, DiagDisk(m.ts[1])) >>
    [] m.m = "change" -> IF m.ts = << >> THEN << >> ELSE << Pub(m.d, DiagDisk(Last(m.ts))) >>
    [] m.m = "close"  -> << Pub(m.d, Nil) >>
    [] m.m = "req"    -> << Resp(m.id) >>

(* exhaustive under VIEW: every step of the server writes exactly what is due *)
HandleMeetsDue ==
  [][ (pending # << >> /\ pending' = Tail(pending)) => outbox' = outbox \o Due(Head(pending)) ]_machine

Alive == alive /\ ((pending # << >> /\ Len(outbox) < MaxOutbox) => ENABLED Handle)

(* responses are exactly the handled requests, each once, in order *)
IdsOf(s) == [j \in 1..Len(s) |-> s[j].id]
IsReq(m)  == m.m = "req"
IsResp(x) == x.o = "resp"
EveryRequestAnsweredOnceInOrder ==
  IdsOf(SelectSeq(outlog, IsResp)) = IdsOf(SelectSeq(Handled, IsReq))

(* the first output for document d caused by message i or a later one *)
NextFor(d, i) ==
  LET s == SelectSeq(outlog, LAMBDA x : x.o = "publish" /\ x.d = d /\ x.c >= i)
  IN IF s = << >> THEN Tag(Resp(0), 0) ELSE s[1]

PublishAfterSync ==
  \A i \in 1..Len(Handled) :
     LET m == Handled[i]
     IN (m.m = "open" \/ (m.m = "change" /\ m.ts # << >>)) =>
          LET x == NextFor(m.d, i)
          IN x.o = "publish" /\ x.c = i /\ x.dg = DiagDisk(Last(m.ts))

CloseClears ==
  \A i \in 1..Len(Handled) :
     LET m == Handled[i]
     IN m.m = "close" =>
          LET x == NextFor(m.d, i) IN x.o = "publish" /\ x.c = i /\ x.dg = Nil

(* a function of the current text and the disk, not of the session *)
CurrentTextOnly ==
  \A d \in Docs :
     LET s == SelectSeq(outlog, LAMBDA x : x.o = "publish" /\ x.d = d)
     IN /\ open[d] # 0 => s # << >> /\ Last(s).dg = DiagDisk(open[d])
        /\ (open[d] = 0 /\ s # << >>) => Last(s).dg = Nil

(* No publish shows a document that is neither open nor on disk.  Stated   *)
(* on the most recent publish while nothing else has been handled since    *)
(* (holds for the design and under UnsavedInIndex alone; CloseKeepsUnsaved *)
(* breaks it).                                                              *)
GhostFree ==
  LET n == Len(outlog)
  IN (n > 0 /\ outlog[n].c = Len(Handled) /\ outlog[n].o = "publish" /\ outlog[n].dg # Nil) =>
        \A e \in imp[outlog[n].dg.t] :
           (disk[e] = 0 /\ open[e] = 0) => outlog[n].dg.v[e] = Nil

(* the same on the state alone (sound under VIEW) *)
CurrentTextOnlyState ==
  \A d \in Docs :
     /\ open[d] # 0 => lastpub[d] = DiagDisk(open[d])
     /\ open[d] = 0 => lastpub[d] \in { Nil, Never }

TypeOK ==
  /\ open \in [Docs -> {0} \cup Texts]
  /\ alive \in BOOLEAN
  /\ Len(pending) <= MaxPending /\ Len(sent) <= target
  /\ \A d \in Docs : ws[d].t \in {0} \cup Texts

(* ---- emission ------------------------------------------------------------ *)
SetSeq(S) == LET RECURSIVE F(_) F(X) == IF X = {} THEN << >> ELSE LET x == CHOOSE y \in X : \A z \in X : y <= z IN << x >> \o F(X \ {x}) IN F(S)

Case(why) ==
  [ why  |-> why,
    devs |-> SelectSeq(<< "UnsavedInIndex", "CloseKeepsUnsaved" >>, LAMBDA x : x \in Deviations),
    ndocs |-> NDocs,
    disk |-> disk,
    imp  |-> [t \in Texts |-> SetSeq(imp[t])],
    msgs |-> sent,
    outs |-> outlog,
    due  |-> [j \in 1..Len(sent) |-> Due(sent[j])] ]

EmitDone == (EmitMode = "done" /\ Done) => PrintT(<< "REPLAY", ToJson(Case("done")) >>)

(* counterexample emission: the violated invariant prints the session that *)
(* violates it (machine-readable), then fails                               *)
Cx(name, inv) == inv \/ (PrintT(<< "REPLAY", ToJson(Case(name)) >>) /\ FALSE)
CxCurrentTextOnly  == Cx("CurrentTextOnly", CurrentTextOnly)
CxPublishAfterSync == Cx("PublishAfterSync", PublishAfterSync)
CxGhostFree        == Cx("GhostFree", GhostFree)

(* State projection for the exhaustive configurations.  Histories are left  *)
(* out, and a message / output is reduced to what the machine can          *)
(* distinguish: the server copies a request id into its response and looks  *)
(* at nothing else of a request; didOpen(d,t) and a didChange ending in t   *)
(* are the same step.  HandleMeetsDue is evaluated on the full states, but  *)
(* under this projection only one representative of each class is ever     *)
(* handled: that the classes are right (last change wins, every request     *)
(* kind / position class answers) is what the configuration WITHOUT VIEW    *)
(* (Lsp_mcfull.cfg: every message variant handled as first and as second    *)
(* message, histories in the state) checks.                                 *)
ProjMsg(m) ==
  CASE m.m = "open"   -> << "sync", m.d, m.ts[1] >>
    [] m.m = "change" -> IF m.ts = << >> THEN << "nop", 0, 0 >> ELSE << "sync", m.d, Last(m.ts) >>
    [] m.m = "close"  -> << "close", m.d, 0 >>
    [] m.m = "req"    -> << "req", 0, 0 >>
ProjOut(x) == << x.o, x.d, x.dg >>
View == << imp, disk, open, ws, [j \in 1..Len(pending) |-> ProjMsg(pending[j])],
           [j \in 1..Len(outbox) |-> ProjOut(outbox[j])], alive, lastpub, target, Len(sent) >>
=============================================================================
