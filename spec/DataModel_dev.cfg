\* The recorded deviations switched on: TLC must REFUTE ConvAgrees / ImportAgrees /
\* IncludeAgrees (demonstrates at model level that each recorded defect breaks the property).
CONSTANTS
  MaxDepth = 3
  MaxKids = 3
  MaxNodes = 3
  MaxRare = 1
  CoreLeaves = {"null", "i_pos", "s_plain"}
  RareLeaves = {"i_p53", "f_f2m30", "s_blankend", "s_ovf", "etuple"}
  Deviations = {"json-int-via-f64", "yamlmulti-no-document-separator", "yaml-blank-line-after-keep-scalar",
                "yaml-float-overflow-str-unquoted", "toml-top-level-not-table", "toml-table-in-mixed-or-nested-array",
                "include-empty-file-yields-null", "include-b64-needs-utf8", "include-json-float-not-correctly-rounded"}
INIT Init
NEXT Next
CHECK_DEADLOCK FALSE
INVARIANTS ExpectWellFormed ErrorIffUnrepresentable RoundTrip ConvAgrees ImportAgrees IncludeAgrees
