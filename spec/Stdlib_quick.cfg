\* C19 quick: exhaustive enumeration of every family at the quick bounds (table MaxX/MaxY in Stdlib.tla)
CONSTANTS
  Families = {"list1", "enum", "zip", "slice", "join", "tuple", "str1", "split", "splitat", "substr", "parseint", "maybe", "basetype", "shaped", "anyall"}
  Size = "quick"
  Sim = FALSE
  Deviations = {}
  KnownDevs = {"TailEmptyFails", "ZipLongerRange", "JoinSepSkippedWhileEmpty", "ShapedTupleLastFieldDecides"}
INIT Init
NEXT Next
CHECK_DEADLOCK FALSE
INVARIANTS Laws WellFormed Emit
