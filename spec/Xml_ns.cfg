\* namespaces: every combination of default / prefixed declarations (2 URIs, prefixes p q)
\* and prefixed names over element trees of <= 3 elements (shadowing and re-declaration)
CONSTANTS
  MaxDepth = 3
  MaxKids = 2
  MaxNodes = 3
  MaxRare = 0
  CoreFeat = {"n:e1", "n:pe1", "n:qe1", "ns:d1", "ns:d2", "ns:p1", "ns:p2", "ns:q1"}
  RareFeat = {}
  Deviations = {}
INIT Init
NEXT Next
CHECK_DEADLOCK FALSE
INVARIANTS XmlDocTotal ErrorIffMalformed ConvAgrees TagFormSame
