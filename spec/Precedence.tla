---------------------------- MODULE Precedence ----------------------------
(* C02.  Operator chains of ucg: the precedence climber of                 *)
(* src/parse/precedence.rs (parse_op / parse_precedence), transcribed      *)
(* loop by loop, against the grouping the published table of               *)
(* docsite/.../expressions.md defines.  The chain itself is built by a     *)
(* generator machine whose behaviours are exactly the (possibly           *)
(* parenthesised) operator chains of the bounded grammar.                  *)
EXTENDS Naturals, Sequences, TLC, Json

CONSTANTS Lvl,         \* the PUBLISHED table (parsed from expressions.md by the driver)
          MaxOps,      \* operators per (sub-)chain
          MaxDepth,    \* nesting of parentheses (1 = flat chains)
          MaxTotal,    \* operators in the whole expression
          Reps         \* the operators chains are built from (all 18, or one representative per level for long chains)

(* The 18 binary operators, in the order of the published table. *)
OpNames == << "eq", "ne", "ge", "le", "lt", "gt", "re", "nre", "in", "is",
              "add", "sub", "mul", "div", "mod", "and", "or", "dot" >>
Ops == 1..Len(OpNames)
AllOps == Ops
(* the climber looks at levels only: long chains over one operator per PUBLISHED level explore *)
(* every interleaving of levels; what is special to one operator is covered by the chains over *)
(* all 18 operators                                                                             *)
OnePerLevel == { CHOOSE o \in Ops : Lvl[o] = l /\ \A o2 \in Ops : Lvl[o2] = l => o <= o2 : l \in { Lvl[o] : o \in Ops } }

(* Lvl (a CONSTANT) is the published table: higher binds tighter.  The     *)
(* driver parses it out of docsite/.../expressions.md for every run, so    *)
(* the documentation is the single source of truth for the reference.      *)
(* DefaultLvl is the table as published at the pinned commit.              *)
DefaultLvl == << 1, 1, 1, 1, 1, 1, 1, 1, 2, 2, 3, 3, 4, 4, 4, 5, 5, 6 >>

(* BinaryExprType::precedence_level, src/ast/mod.rs:1197-1223, transcribed: *)
(* this is the table the ALGORITHM consults.                               *)
CodeLvl == << 1, 1, 1, 1, 1, 1, 1, 1, 2, 2, 3, 3, 4, 4, 4, 5, 5, 6 >>

(* ---- operand / tree representation ---------------------------------- *)
(* A chain is [ops |-> Seq(Ops), xs |-> Seq(Operand)] with                 *)
(* Len(xs) = Len(ops)+1 when complete.  An operand is [k |-> "leaf"] or    *)
(* [k |-> "grp", ch |-> chain].  A tree is [k|->"leaf", i] (operand i of   *)
(* its chain), [k|->"grp", t] or [k|->"bin", op, l, r].                    *)
Leaf(i)        == [k |-> "leaf", i |-> i]
Bin(o, l, r)   == [k |-> "bin", op |-> o, l |-> l, r |-> r]

(* ---- the reference: what the table means ----------------------------- *)
(* Split the operator range lo..hi-1 at the LAST operator of minimal level *)
(* (equal levels group left to right, lower levels are applied last).      *)
RECURSIVE MinLvl(_, _, _)
MinLvl(ops, lo, hi) ==      \* minimal level among ops[lo..hi]
  IF lo = hi THEN Lvl[ops[lo]]
  ELSE LET m == MinLvl(ops, lo + 1, hi) IN IF Lvl[ops[lo]] < m THEN Lvl[ops[lo]] ELSE m

LastMin(ops, lo, hi) ==
  LET m == MinLvl(ops, lo, hi)
  IN CHOOSE j \in lo..hi : Lvl[ops[j]] = m /\ \A j2 \in (j+1)..hi : Lvl[ops[j2]] # m

RECURSIVE RefRange(_, _, _)
RefRange(ops, lo, hi) ==     \* operands lo..hi, operators lo..hi-1
  IF lo = hi THEN Leaf(lo)
  ELSE LET m == LastMin(ops, lo, hi - 1)
       IN Bin(ops[m], RefRange(ops, lo, m), RefRange(ops, m + 1, hi))

Ref(ops) == RefRange(ops, 1, Len(ops) + 1)

(* ---- the algorithm: precedence.rs:339-393 ---------------------------- *)
(* i is the index of the next operator element; i > n is end of input.     *)
(* Operand j+1 follows operator j.  The comparisons are literal:           *)
(*   outer loop:  lookahead.level >= min_precedence                        *)
(*   inner loop:  lookahead.level >  op.level                              *)
(*   recursion:   parse_op(rhs, i, lookahead.level)                        *)
RECURSIVE ParseOp(_, _, _, _), Outer(_, _, _, _), Inner(_, _, _, _)
ParseOp(ops, lhs, i, min) ==
  IF i > Len(ops) THEN << i, lhs >> ELSE Outer(ops, lhs, i, min)
Outer(ops, lhs, i, min) ==
  IF i > Len(ops) \/ CodeLvl[ops[i]] < min THEN << i, lhs >>
  ELSE LET op  == ops[i]
           inn == Inner(ops, Leaf(i + 1), i + 1, op)
       IN Outer(ops, Bin(op, lhs, inn[2]), inn[1], min)
Inner(ops, rhs, i, op) ==
  IF i > Len(ops) \/ CodeLvl[ops[i]] <= CodeLvl[op] THEN << i, rhs >>
  ELSE LET r == ParseOp(ops, rhs, i, CodeLvl[ops[i]]) IN Inner(ops, r[2], r[1], op)

Alg(ops) == ParseOp(ops, Leaf(1), 1, 0)

(* ---- groups: a parenthesised sub-chain is an atomic operand ---------- *)
RECURSIVE Expand(_, _), Tree(_)
Expand(t, xs) ==
  IF t.k = "leaf"
    THEN (IF xs[t.i].k = "grp" THEN [k |-> "grp", t |-> Tree(xs[t.i].ch)] ELSE [k |-> "leaf"])
    ELSE [k |-> "bin", op |-> OpNames[t.op], l |-> Expand(t.l, xs), r |-> Expand(t.r, xs)]
Tree(ch) == Expand(Ref(ch.ops), ch.xs)

RECURSIVE Shape(_)
Shape(ch) ==   \* the chain as the renderer needs it
  [ops |-> [j \in 1..Len(ch.ops) |-> OpNames[ch.ops[j]]],
   xs  |-> [j \in 1..Len(ch.xs) |->
              IF ch.xs[j].k = "grp" THEN [k |-> "grp", ch |-> Shape(ch.xs[j].ch)]
              ELSE [k |-> "leaf"]]]

RECURSIVE AlgOk(_)
AlgOk(ch) ==   \* the climber consumes everything and agrees with the table, at every level
  /\ Alg(ch.ops)[1] = Len(ch.ops) + 1
  /\ Alg(ch.ops)[2] = Ref(ch.ops)
  /\ \A j \in 1..Len(ch.xs) : ch.xs[j].k = "grp" => AlgOk(ch.xs[j].ch)

(* ---- generator machine ------------------------------------------------ *)
VARIABLES stack,   \* sequence of partial chains, innermost last
          total    \* operators used so far
vars == << stack, total >>

Empty == [ops |-> << >>, xs |-> << >>]
Top == stack[Len(stack)]
WantsOperand(c) == Len(c.xs) = Len(c.ops)
Complete(c)     == Len(c.xs) = Len(c.ops) + 1

Init == stack = << Empty >> /\ total = 0

SetTop(c) == stack' = [stack EXCEPT ![Len(stack)] = c]

AddLeaf ==
  /\ WantsOperand(Top)
  /\ SetTop([Top EXCEPT !.xs = Append(@, [k |-> "leaf"])])
  /\ UNCHANGED total

AddOp(o) ==
  /\ Complete(Top) /\ Len(Top.ops) < MaxOps /\ total < MaxTotal
  /\ SetTop([Top EXCEPT !.ops = Append(@, o)])
  /\ total' = total + 1

Open ==
  /\ WantsOperand(Top) /\ Len(stack) < MaxDepth
  /\ stack' = Append(stack, Empty)
  /\ UNCHANGED total

Close ==
  /\ Len(stack) > 1 /\ Complete(Top)
  /\ LET c == Top
         below == stack[Len(stack) - 1]
     IN stack' = [SubSeq(stack, 1, Len(stack) - 1) EXCEPT ![Len(stack) - 1] =
                     [below EXCEPT !.xs = Append(@, [k |-> "grp", ch |-> c])]]
  /\ UNCHANGED total

Next == AddLeaf \/ Open \/ Close \/ \E o \in Reps : AddOp(o)

Spec == Init /\ [][Next]_vars

Finished == Len(stack) = 1 /\ Complete(Top) /\ Len(Top.ops) >= 1

(* ---- checked ----------------------------------------------------------- *)
(* C02: the climber groups every finished chain exactly as the table says. *)
AlgEqualsRef == Finished => AlgOk(Top)

(* the reference itself is sane: equal levels lean left, operand order kept *)
RECURSIVE Leaves(_)
Leaves(t) == IF t.k = "leaf" THEN << t.i >> ELSE Leaves(t.l) \o Leaves(t.r)
RefKeepsOrder == Finished => Leaves(Ref(Top.ops)) = [j \in 1..(Len(Top.ops) + 1) |-> j]

(* emission for replay against ucglib::parse::parse *)
Emit == Finished =>
  PrintT(<< "REPLAY", ToJson([chain |-> Shape(Top), tree |-> Tree(Top)]) >>)

=============================================================================
