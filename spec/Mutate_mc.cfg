CONSTANTS Ns = {3, 4, 5, 6, 7, 8, 9, 10} MaxMut = 1 Vocab = 6
INIT Init
NEXT Next
CHECK_DEADLOCK FALSE
INVARIANTS WellFormed Emit
