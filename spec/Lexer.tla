------------------------------- MODULE Lexer -------------------------------
(* C11.  Tokens carry their exact text and location; layout does not matter.*)
(*                                                                          *)
(* Three parts, as DESIGN.md 4.5 lays out:                                  *)
(*  (R) the REFERENCE  RefLex: maximal munch over the documented token set, *)
(*      positions recomputed from the prefix (byte offset, 1-based byte     *)
(*      column, only LF ends a line), string values by Decode;              *)
(*  (M) the MACHINE: the tokenizer of src/tokenizer/mod.rs at the code's    *)
(*      grain - one step per call of `token` (the ordered alternation       *)
(*      either!(strtok, emptytok, digittok, ...), transcribed in order),    *)
(*      with the cursor of abortable_parser::StrIter (offset/line/column    *)
(*      advanced byte by byte) and the loop of `tokenize`;                  *)
(*  (G) a GENERATOR machine whose behaviours are the inputs of the          *)
(*      quantifier: all token pairs/triples x separators, all string bodies *)
(*      up to a length, random long sequences and programs (-simulate).     *)
(* TLC checks PosTruth, Progress, Monotone, LongestOp, Layout, AlgEqualsRef  *)
(* and prints one REPLAY line per input with the token list RefLex predicts. *)
(*                                                                          *)
(* Characters are ABSTRACT: a one-character string stands for that ASCII    *)
(* character, a longer name for a special one: SP TAB LF CR FF (white       *)
(* space), DQ (double quote), BS (backslash), U2 U3 U4 (any character whose *)
(* UTF-8 encoding has 2/3/4 bytes - the driver refines the class to concrete*)
(* characters), X2 X3 X4 (what U2.. turn into when every BYTE is pushed as  *)
(* a char - only produced by the deviation ByteChars).                      *)
EXTENDS Naturals, Sequences, TLC, Json

CONSTANTS Mode,        \* "toks": token sequences | "bodies": one string literal | "prog": statements
          Rand,        \* FALSE: enumerate (model checking) | TRUE: draw (-simulate)
          MaxToks,     \* tokens per input
          MaxBody,     \* characters per string body
          MaxSep,      \* layout atoms per separator when Rand
          SepSet,      \* separators enumerated when ~Rand: "six" | "four"
          TrailCmt,    \* enumerate also an unterminated comment at end of input
          Stepwise,    \* TRUE: one TLC step per call of `token`; FALSE: the run in one step
          Deviations   \* named deviations of the code from the reference switched on in the machine

(* ---------------------------------------------------------------------- *)
(* characters                                                              *)
(* ---------------------------------------------------------------------- *)
Chars(s)  == [i \in 1..Len(s) |-> SubSeq(s, i, i)]
Range(f)  == {f[i] : i \in DOMAIN f}
Last(s)   == s[Len(s)]

Alpha   == Range(Chars("abcdefghijklmnopqrstuvwxyzABCDEFGHIJKLMNOPQRSTUVWXYZ"))
Digit   == Range(Chars("0123456789"))
SymChar == Alpha \cup Digit \cup {"-", "_"}
WSChar  == {"SP", "TAB", "LF", "CR", "FF"}
Multi   == {"U2", "U3", "U4"}
Width(c) == IF c = "U2" THEN 2 ELSE IF c = "U3" THEN 3 ELSE IF c = "U4" THEN 4 ELSE 1
Mangled(c) == IF c = "U2" THEN "X2" ELSE IF c = "U3" THEN "X3" ELSE "X4"

(* ---------------------------------------------------------------------- *)
(* (R) the documented token set and the reference lexer                    *)
(* ---------------------------------------------------------------------- *)
Punct1 == Range(Chars(",}{().|+-*/%~><=;:[]"))
Punct2 == { <<"=", "=">>, <<"=", ">">>, <<">", "=">>, <<"<", "=">>, <<".", ".">>, <<":", ":">>,
            <<"&", "&">>, <<"|", "|">>, <<"%", "%">>, <<"!", "=">>, <<"!", "~">> }
Skipped == {"WS", "COMMENT"}

RECURSIVE RunLen(_, _, _)
RunLen(text, i, S) == IF i <= Len(text) /\ text[i] \in S THEN 1 + RunLen(text, i + 1, S) ELSE 0

(* a comment runs to the end of its line: LF, CR LF, or end of input *)
RECURSIVE EolAt(_, _)
EolAt(text, j) == IF j > Len(text) THEN j
                  ELSE IF text[j] = "LF" THEN j
                  ELSE IF text[j] = "CR" /\ j < Len(text) /\ text[j + 1] = "LF" THEN j
                  ELSE EolAt(text, j + 1)
TermLen(text, j) == IF j > Len(text) THEN 0 ELSE IF text[j] = "LF" THEN 1 ELSE 2

(* the quote that closes a string whose body starts at j (0: none); a      *)
(* backslash takes the next character with it                              *)
RECURSIVE CloseAt(_, _)
CloseAt(text, j) == IF j > Len(text) THEN 0
                    ELSE IF text[j] = "BS" THEN CloseAt(text, j + 2)
                    ELSE IF text[j] = "DQ" THEN j
                    ELSE CloseAt(text, j + 1)

(* the value of a string literal: \n \r \t decode, \c is c, all else verbatim *)
Unesc(c) == IF c = "n" THEN "LF" ELSE IF c = "r" THEN "CR" ELSE IF c = "t" THEN "TAB" ELSE c
RECURSIVE Decode(_)
Decode(b) == IF b = << >> THEN << >>
             ELSE IF b[1] = "BS" /\ Len(b) >= 2 THEN << Unesc(b[2]) >> \o Decode(SubSeq(b, 3, Len(b)))
             ELSE << b[1] >> \o Decode(Tail(b))

TrueCs == Chars("true")   FalseCs == Chars("false")   NullCs == Chars("NULL")
WordTy(w) == IF w = TrueCs \/ w = FalseCs THEN "BOOLEAN" ELSE IF w = NullCs THEN "EMPTY" ELSE "BAREWORD"

(* a candidate: type, characters consumed, characters of the fragment, value *)
Cand(ty, n, fn, dec) == [ty |-> ty, n |-> n, fn |-> fn, dec |-> dec]
NoTok == Cand("NONE", 0, 0, << >>)

(* every token class that matches at i, with the length it matches *)
Cands(text, i) ==
  LET c  == text[i]
      ws == RunLen(text, i, WSChar)
      dg == RunLen(text, i, Digit)
      wd == IF c \in Alpha THEN RunLen(text, i, SymChar) ELSE 0
      q  == IF c = "DQ" THEN CloseAt(text, i + 1) ELSE 0
      cm == IF c = "/" /\ i < Len(text) /\ text[i + 1] = "/" THEN EolAt(text, i + 2) ELSE 0
  IN << Cand("WS", ws, 0, << >>),
        Cand("DIGIT", dg, dg, << >>),
        IF wd > 0 THEN Cand(WordTy(SubSeq(text, i, i + wd - 1)), wd, wd, << >>) ELSE NoTok,
        IF q > 0 THEN Cand("QUOTED", q - i + 1, q - i + 1, Decode(SubSeq(text, i + 1, q - 1))) ELSE NoTok,
        IF cm > 0 THEN Cand("COMMENT", cm - i + TermLen(text, cm), cm - i, << >>) ELSE NoTok,
        IF i < Len(text) /\ << c, text[i + 1] >> \in Punct2 THEN Cand("PUNCT", 2, 2, << >>) ELSE NoTok,
        IF c \in Punct1 THEN Cand("PUNCT", 1, 1, << >>) ELSE NoTok >>

(* maximal munch: the longest candidate (no two classes tie) *)
RECURSIVE Longest(_, _, _)
Longest(cs, k, best) == IF k > Len(cs) THEN best
                        ELSE Longest(cs, k + 1, IF cs[k].n > best.n THEN cs[k] ELSE best)
RefMunch(text, i) == Longest(Cands(text, i), 1, NoTok)

(* positions, recomputed from the prefix text[1..i-1] *)
RECURSIVE Bytes(_, _, _)
Bytes(text, a, b) == IF a > b THEN 0 ELSE Width(text[a]) + Bytes(text, a + 1, b)
RECURSIVE LastLF(_, _)
LastLF(text, k) == IF k = 0 THEN 0 ELSE IF text[k] = "LF" THEN k ELSE LastLF(text, k - 1)
RECURSIVE CountLF(_, _)
CountLF(text, k) == IF k = 0 THEN 0 ELSE (IF text[k] = "LF" THEN 1 ELSE 0) + CountLF(text, k - 1)
PosOf(text, i) ==
  LET l == LastLF(text, i - 1)
  IN [off  |-> Bytes(text, 1, i - 1),      \* byte offset
      ln   |-> 1 + CountLF(text, i - 1),   \* only LF ends a line
      col  |-> 1 + Bytes(text, l + 1, i - 1),   \* 1-based, in bytes
      ccol |-> i - l]                      \* 1-based, in characters (accepted alternative)

RefTok(ty, text, i, fn, dec) ==
  LET p == PosOf(text, i)
  IN [ty |-> ty, idx |-> i, n |-> fn, off |-> p.off, ln |-> p.ln, col |-> p.col, ccol |-> p.ccol,
      dec |-> dec]

RECURSIVE RefFrom(_, _, _)
RefFrom(text, i, acc) ==
  IF i > Len(text) THEN [r |-> "ok", toks |-> Append(acc, RefTok("END", text, i, 0, << >>))]
  ELSE LET t == RefMunch(text, i)
       IN IF t.ty = "NONE" THEN [r |-> "rej", toks |-> acc]
          ELSE RefFrom(text, i + t.n,
                       IF t.ty \in Skipped THEN acc ELSE Append(acc, RefTok(t.ty, text, i, t.fn, t.dec)))
RefLex(text) == RefFrom(text, 1, << >>)

(* ---------------------------------------------------------------------- *)
(* (M) the tokenizer of the code                                           *)
(* ---------------------------------------------------------------------- *)
(* text_token!: all bytes must be there and equal *)
TextAt(text, i, cs) == /\ i + Len(cs) - 1 <= Len(text)
                       /\ \A k \in 1..Len(cs) : text[i + k - 1] = cs[k]

Ok(ty, n, fn, dec) == [r |-> "ok", ty |-> ty, n |-> n, fn |-> fn, dec |-> dec]
Fail       == [r |-> "fail", ty |-> "", n |-> 0, fn |-> 0, dec |-> << >>]
Incomplete == [r |-> "inc", ty |-> "", n |-> 0, fn |-> 0, dec |-> << >>]

(* escapequoted (mod.rs:50-93): j runs over the input after the opening     *)
(* quote.  The code walks BYTES; every byte of a multi-byte character takes *)
(* the last branch (it is none of n r t \ "), so walking abstract characters*)
(* is the same walk.  `frag.push(c as char)` pushes the byte as a char:     *)
(* that is the deviation ByteChars; without it the character is kept.       *)
Push(c, dev) == IF c \in Multi /\ "ByteChars" \in dev THEN Mangled(c) ELSE c
RECURSIVE EscapeQuoted(_, _, _, _, _)
EscapeQuoted(text, j, esc, frag, dev) ==
  IF j > Len(text) THEN [r |-> "inc", nxt |-> j, frag |-> frag]
  ELSE LET c == text[j]
       IN IF esc /\ c = "n" THEN EscapeQuoted(text, j + 1, FALSE, Append(frag, "LF"), dev)
          ELSE IF esc /\ c = "r" THEN EscapeQuoted(text, j + 1, FALSE, Append(frag, "CR"), dev)
          ELSE IF esc /\ c = "t" THEN EscapeQuoted(text, j + 1, FALSE, Append(frag, "TAB"), dev)
          ELSE IF c = "BS" /\ ~esc THEN EscapeQuoted(text, j + 1, TRUE, frag, dev)
          ELSE IF c = "DQ" /\ ~esc THEN [r |-> "ok", nxt |-> j + 1, frag |-> frag]
          ELSE EscapeQuoted(text, j + 1, FALSE, Append(frag, Push(c, dev)), dev)

(* whitespace: peek!(ascii_ws), repeat!(ascii_ws); ascii_ws = char::is_whitespace of the byte *)
AlgWs(text, i) == RunLen(text, i, WSChar)

(* comment (mod.rs:382-415): "//", until!(eoi | "\r\n" | "\n"), then the newline is eaten *)
RECURSIVE Until(_, _)
Until(text, j) == IF j > Len(text) THEN j
                  ELSE IF TextAt(text, j, << "CR", "LF" >>) THEN j
                  ELSE IF TextAt(text, j, << "LF" >>) THEN j
                  ELSE Until(text, j + 1)
AlgComment(text, i) ==
  IF ~TextAt(text, i, << "/", "/" >>) THEN Fail
  ELSE LET e  == Until(text, i + 2)
           nl == IF TextAt(text, e, << "CR", "LF" >>) THEN 2 ELSE IF TextAt(text, e, << "LF" >>) THEN 1 ELSE 0
       IN Ok("COMMENT", e - i + nl, e - i, << >>)

(* the alternation of `token` (mod.rs:442-504), in order *)
Alt(k, ty, s, ws) == [k |-> k, ty |-> ty, cs |-> Chars(s), ws |-> ws]
P(s)  == Alt("txt", "PUNCT", s, FALSE)         \* do_text_token_tok!(PUNCT, s)
KW(s) == Alt("txt", "BAREWORD", s, TRUE)       \* do_text_token_tok!(BAREWORD, s, WS)
R(k)  == Alt(k, "", "", FALSE)
Alts == << R("str"), Alt("txt", "EMPTY", "NULL", FALSE), R("digit"),
           P(","), P("}"), P("{"), P("("), P(")"), P(".."), P("."), P("&&"), P("||"), P("|"),
           P("+"), P("-"), P("*"), R("cmt"), P("/"), P("%%"), P("%"), P("=="), P("!="), P("~"),
           P("!~"), P(">="), P("<="), P(">"), P("<"), P("=>"), P("="), P(";"), P("::"), P(":"),
           P("["), P("]"), R("bool"),
           KW("in"), KW("is"), KW("not"), KW("let"), KW("out"), KW("constraint"), KW("convert"),
           KW("select"), KW("assert"), KW("fail"), KW("TRACE"), KW("func"), KW("module"),
           KW("import"), KW("include"), KW("as"), KW("map"), KW("filter"), KW("reduce"),
           R("word"), R("ws"), R("eoi") >>

Recognise(a, text, i, dev) ==
  CASE a.k = "txt" ->
         IF ~TextAt(text, i, a.cs) THEN Fail
         ELSE IF ~a.ws THEN Ok(a.ty, Len(a.cs), Len(a.cs), << >>)
         ELSE \* _ => either!(whitespace, comment): one of them must follow and is consumed
              LET j == i + Len(a.cs)
                  w == AlgWs(text, j)
                  c == AlgComment(text, j)
              IN IF w > 0 THEN Ok(a.ty, Len(a.cs) + w, Len(a.cs), << >>)
                 ELSE IF c.r = "ok" THEN Ok(a.ty, Len(a.cs) + c.n, Len(a.cs), << >>)
                 ELSE Fail
    [] a.k = "str" ->
         IF ~TextAt(text, i, << "DQ" >>) THEN Fail
         ELSE LET e == EscapeQuoted(text, i + 1, FALSE, << >>, dev)
              IN IF e.r = "ok" THEN Ok("QUOTED", e.nxt - i, e.nxt - i, e.frag) ELSE Incomplete
    [] a.k = "digit" ->
         LET n == RunLen(text, i, Digit) IN IF n = 0 THEN Fail ELSE Ok("DIGIT", n, n, << >>)
    [] a.k = "cmt" -> AlgComment(text, i)
    [] a.k = "bool" ->
         IF TextAt(text, i, TrueCs) THEN Ok("BOOLEAN", 4, 4, << >>)
         ELSE IF TextAt(text, i, FalseCs) THEN Ok("BOOLEAN", 5, 5, << >>)
         ELSE Fail
    [] a.k = "word" ->   \* peek!(ascii_alpha), consume_all!(is_symbol_char)
         IF i <= Len(text) /\ text[i] \in Alpha
           THEN LET n == RunLen(text, i, SymChar) IN Ok("BAREWORD", n, n, << >>)
           ELSE Fail
    [] a.k = "ws" ->
         LET n == AlgWs(text, i) IN IF n = 0 THEN Fail ELSE Ok("WS", n, 0, << >>)
    [] a.k = "eoi" -> IF i > Len(text) THEN Ok("END", 0, 0, << >>) ELSE Fail

(* either!: the first arm that does not Fail decides (Complete or Incomplete). *)
(* Every arm fails at once unless the first byte is one it can begin with, so *)
(* the arms are indexed by first character (their ORDER is kept); skipping an *)
(* arm that fails on its first byte is not observable.                        *)
CharU == Alpha \cup Digit \cup Punct1 \cup WSChar \cup Multi \cup {"-", "_", "!", "&", "@", "DQ", "BS"}
CanBegin(a, c) ==
  CASE a.k = "txt"   -> a.cs[1] = c
    [] a.k = "str"   -> c = "DQ"
    [] a.k = "digit" -> c \in Digit
    [] a.k = "cmt"   -> c = "/"
    [] a.k = "bool"  -> c \in {"t", "f"}
    [] a.k = "word"  -> c \in Alpha
    [] a.k = "ws"    -> c \in WSChar
    [] a.k = "eoi"   -> FALSE          \* `tokenize` leaves its loop at end of input before calling `token`
ArmsFor == [c \in CharU |-> SelectSeq([k \in 1..Len(Alts) |-> k], LAMBDA k : CanBegin(Alts[k], c))]
RECURSIVE Either(_, _, _, _, _)
Either(text, i, arms, k, dev) ==
  IF k > Len(arms) THEN Fail
  ELSE LET x == Recognise(Alts[arms[k]], text, i, dev)
       IN IF x.r = "fail" THEN Either(text, i, arms, k + 1, dev) ELSE x
Token(text, i, dev) == Either(text, i, ArmsFor[text[i]], 1, dev)

(* StrIter::next per byte: LF starts a line, every other byte is a column *)
RECURSIVE Advance(_, _, _)
Advance(cur, text, k) ==   \* cur = [idx, off, ln, col]; consume k characters
  IF k = 0 THEN cur
  ELSE LET c == text[cur.idx]
       IN Advance([idx |-> cur.idx + 1, off |-> cur.off + Width(c),
                   ln  |-> IF c = "LF" THEN cur.ln + 1 ELSE cur.ln,
                   col |-> IF c = "LF" THEN 1 ELSE cur.col + Width(c)], text, k - 1)

(* machine state: st in gen | lex | done | rej *)
M0 == [st |-> "gen", idx |-> 1, off |-> 0, ln |-> 1, col |-> 1, out |-> << >>]
MTok(ty, mm, fn, dec) ==
  [ty |-> ty, idx |-> mm.idx, n |-> fn, off |-> mm.off, ln |-> mm.ln, col |-> mm.col, dec |-> dec]

(* one turn of the loop of `tokenize` (mod.rs:517-560), no comment map *)
StepF(text, mm, dev) ==
  IF mm.idx > Len(text)          \* eoi => break; the END token is pushed after the loop
    THEN [mm EXCEPT !.st = "done", !.out = Append(@, MTok("END", mm, 0, << >>))]
  ELSE LET a == Token(text, mm.idx, dev)
       IN IF a.r # "ok" THEN [mm EXCEPT !.st = "rej"]     \* Fail | Incomplete => Err
          ELSE LET c == Advance([idx |-> mm.idx, off |-> mm.off, ln |-> mm.ln, col |-> mm.col],
                                text, a.n)
               IN [st |-> "lex", idx |-> c.idx, off |-> c.off, ln |-> c.ln, col |-> c.col,
                   out |-> IF a.ty \in Skipped THEN mm.out
                           ELSE Append(mm.out, MTok(a.ty, mm, a.fn, a.dec))]

RECURSIVE RunF(_, _, _)
RunF(text, mm, dev) == IF mm.st # "lex" THEN mm ELSE RunF(text, StepF(text, mm, dev), dev)
AlgLex(text, dev) == RunF(text, [M0 EXCEPT !.st = "lex"], dev)

(* ---------------------------------------------------------------------- *)
(* (G) vocabulary, layout atoms, statement templates                       *)
(* ---------------------------------------------------------------------- *)
PunctSpell == << ",", "}", "{", "(", ")", "..", ".", "&&", "||", "|", "+", "-", "*", "/", "%%", "%",
                 "==", "!=", "~", "!~", ">=", "<=", ">", "<", "=>", "=", ";", "::", ":", "[", "]" >>
WordSpell  == << "in", "is", "not", "let", "out", "constraint", "convert", "select", "assert", "fail",
                 "TRACE", "func", "module", "import", "include", "as", "map", "filter", "reduce",
                 "true", "false", "NULL", "x", "a-b_2", "42" >>
StrBodies  == << << >>, << "a" >>, << "BS", "n" >>, << "BS", "r" >>, << "BS", "t" >>, << "BS", "BS" >>,
                 << "BS", "DQ" >>, << "BS", "@" >>, << "@" >>, << "a", "LF", "b" >>, << "/", "/" >>,
                 << "U2" >>, << "U3" >>, << "BS", "U4" >> >>
CommentTok == << "/", "/", "c", "LF" >>

Spelled(ss) == [k \in 1..Len(ss) |-> Chars(ss[k])]
Vocab == Spelled(PunctSpell) \o Spelled(WordSpell)
         \o [k \in 1..Len(StrBodies) |-> << "DQ" >> \o StrBodies[k] \o << "DQ" >>]
         \o << CommentTok >>
NV     == Len(Vocab)
TokIds == 1..NV
StrIds == (Len(PunctSpell) + Len(WordSpell) + 1)..(NV - 1)
W(s)   == CHOOSE i \in TokIds : Vocab[i] = Chars(s)

(* layout atoms; a separator is a sequence of atom numbers *)
Atoms == << << "SP" >>, << "TAB" >>, << "LF" >>, << "CR", "LF" >>,
            << "/", "/", "c", "LF" >>,                       \* 5: comment glued to what precedes
            << "/", "/", "SP", "c", "CR", "LF" >>,           \* 6: comment ended by CR LF
            << "/", "/", "U2", "DQ", "CR", "z", "LF" >>,     \* 7: non-ASCII, a quote and a lone CR inside
            << "FF" >>,
            << "/", "/", "e" >> >>                           \* 9: comment ended by end of input (last only)
Six       == { << >>, << 1 >>, << 3 >>, << 4 >>, << 2 >>, << 5 >> }   \* none SP LF CRLF TAB comment
Four      == { << >>, << 1 >>, << 3 >>, << 5 >> }                    \* none SP LF comment
MCSeps    == IF SepSet = "six" THEN Six ELSE Four
RichAtoms == 1..8
EofCmt    == 9

RECURSIVE Flat(_)
Flat(ss) == IF ss = << >> THEN << >> ELSE Head(ss) \o Flat(Tail(ss))
SepText(s) == Flat([j \in 1..Len(s) |-> Atoms[s[j]]])

(* statements of the documented grammar over the vocabulary; 0 = any string token *)
Stmts == <<
  << W("let"), W("x"), W("="), W("42"), W(";") >>,
  << W("let"), W("a-b_2"), W("="), 0, W(";") >>,
  << W("x"), W("."), W("a-b_2"), W("."), 0, W(";") >>,
  << W("["), W("42"), W(","), W("x"), W(","), 0, W("]"), W(";") >>,
  << W("{"), W("x"), W("="), W("42"), W(","), 0, W("="), W("NULL"), W(","), W("}"), W(";") >>,
  << W("select"), W("("), W("x"), W(","), W("42"), W(")"), W("=>"), W("{"), W("x"), W("="), 0, W("}"), W(";") >>,
  << W("func"), W("("), W("x"), W(")"), W("=>"), W("x"), W("+"), W("42"), W(";") >>,
  << W("42"), W(">="), W("42"), W(";") >>,
  << W("x"), W("<="), W("42"), W(";") >>,
  << W("x"), W("=="), 0, W(";") >>,
  << W("x"), W("!="), 0, W(";") >>,
  << W("42"), W("<"), W("x"), W(";") >>,
  << W("42"), W(">"), W("x"), W(";") >>,
  << W("not"), W("x"), W(";") >>,
  << W("x"), W("in"), W("x"), W(";") >>,
  << W("x"), W("is"), 0, W(";") >>,
  << W("x"), W("&&"), W("true"), W("||"), W("false"), W(";") >>,
  << W("42"), W("%%"), W("42"), W(";") >>,
  << 0, W("%"), W("("), W("42"), W(")"), W(";") >>,
  << W("x"), W("~"), 0, W(";") >>,
  << W("x"), W("!~"), 0, W(";") >>,
  << W("42"), W(":"), W("42"), W(":"), W("42"), W(";") >>,
  << W("let"), W("x"), W("::"), W("in"), W("42"), W(".."), W("42"), W("|"), 0, W("="), W("42"), W(";") >>,
  << W("constraint"), W("x"), W("="), W("in"), W("42"), W(".."), W("42"), W("|"), W("x"), W(";") >>,
  << W("import"), 0, W(";") >>,
  << W("include"), W("x"), 0, W(";") >>,
  << W("assert"), W("{"), W("x"), W("="), W("true"), W(","), W("a-b_2"), W("="), 0, W("}"), W(";") >>,
  << W("out"), W("x"), W("42"), W(";") >>,
  << W("module"), W("{"), W("x"), W("="), W("42"), W("}"), W("=>"), W("("), W("x"), W(")"), W("{"),
     W("let"), W("x"), W("="), W("42"), W(";"), W("}"), W(";") >>,
  << W("map"), W("("), W("x"), W(","), W("x"), W(")"), W(";") >>,
  << W("filter"), W("("), W("x"), W(","), W("x"), W(")"), W(";") >>,
  << W("reduce"), W("("), W("x"), W(","), W("42"), W(","), W("x"), W(")"), W(";") >>,
  << W("convert"), W("x"), W("x"), W(";") >>,
  << W("fail"), 0, W(";") >>,
  << W("TRACE"), W("x"), W(";") >>,
  << W("x"), W("("), W("42"), W(")"), W(";") >>,
  << W("x"), W("{"), W("x"), W("="), W("42"), W("}"), W(";") >>,
  << W("("), W("42"), W("-"), W("42"), W(")"), W("*"), W("42"), W("/"), W("42"), W(";") >> >>

(* the string-body alphabets: every escape form, 2/3/4-byte UTF-8 *)
BodyAlpha  == { "a", "n", "r", "t", "BS", "DQ", "@", "SP", "LF", "U2", "U3", "U4" }
BodyAlphaR == << "a", "n", "r", "t", "BS", "BS", "DQ", "@", "SP", "LF", "CR", "TAB", "/", "7", "-",
                 "U2", "U2", "U3", "U3", "U4", "U4" >>

(* what each vocabulary token is on its own: its (type, fragment) list *)
Frag(text, t) == IF t.ty = "QUOTED" THEN t.dec ELSE SubSeq(text, t.idx, t.idx + t.n - 1)
Strip(text, toks) ==     \* (typ, fragment) of everything but END
  LET real == SelectSeq(toks, LAMBDA t : t.ty # "END")
  IN [k \in 1..Len(real) |-> << real[k].ty, Frag(text, real[k]) >>]
CanonTab == [t \in TokIds |-> Strip(Vocab[t], RefLex(Vocab[t]).toks)]
Canon(items) == Flat([k \in 1..Len(items) |-> CanonTab[items[k].t]])

(* juxtaposition keeps a|b apart iff the longest token at the start of ab is a *)
GlueTab == [a \in TokIds |-> [b \in TokIds |-> RefMunch(Vocab[a] \o Vocab[b], 1).n = Len(Vocab[a])]]
(* a comment can only be inserted where it begins a comment: not glued to `/` *)
SepFits(a, s) == ~(Last(Vocab[a]) = "/" /\ s # << >> /\ Atoms[s[1]][1] = "/")

(* ---------------------------------------------------------------------- *)
(* state                                                                   *)
(* ---------------------------------------------------------------------- *)
VARIABLES inp,    \* [items: Seq([s: separator before, t: token id]), post: separator, body: Seq(char), tgt]
          text,   \* the input, once the generator has finished
          ref,    \* RefLex(text)
          m       \* the tokenizer machine
vars == << inp, text, ref, m >>

NoRef == [r |-> "none", toks |-> << >>]

TextOf(i) ==
  IF Mode = "bodies" THEN << "DQ" >> \o i.body \o << "DQ" >>
  ELSE Flat([k \in 1..Len(i.items) |-> SepText(i.items[k].s) \o Vocab[i.items[k].t]]) \o SepText(i.post)

Init == /\ inp \in [items : { << >> }, post : { << >> }, body : { << >> },
                    tgt : IF Rand THEN (IF Mode = "bodies" THEN 0..MaxBody ELSE 1..MaxToks) ELSE {0}]
        /\ text = << >> /\ ref = NoRef /\ m = M0

Gen == m.st = "gen"
Keep == UNCHANGED << text, ref, m >>

(* ---- enumerating generator (model checking) ---- *)
AddTok ==
  /\ Gen /\ ~Rand /\ Mode = "toks" /\ Len(inp.items) < MaxToks
  /\ \E t \in TokIds : \E s \in (IF inp.items = << >> THEN { << >> } ELSE MCSeps) :
        inp' = [inp EXCEPT !.items = Append(@, [s |-> s, t |-> t])]
  /\ Keep

AddChar ==
  /\ Gen /\ ~Rand /\ Mode = "bodies" /\ Len(inp.body) < MaxBody
  /\ \E c \in BodyAlpha : inp' = [inp EXCEPT !.body = Append(@, c)]
  /\ Keep

(* ---- drawing generator (-simulate) ---- *)
(* (operators with a parameter: TLC would evaluate a zero-arity one once and for all) *)
RECURSIVE RandSeq(_)
RandSeq(k) == IF k = 0 THEN << >> ELSE Append(RandSeq(k - 1), RandomElement(RichAtoms))
RandSep(max) == RandSeq(RandomElement(0..max))
FitSep(items, s, t) ==      \* keep the drawn layout a layout: tokens apart, comments comments
  IF items = << >> THEN s
  ELSE LET a == Last(items).t
       IN IF s = << >> THEN (IF GlueTab[a][t] THEN s ELSE << RandomElement({1, 2, 3, 4}) >>)
          ELSE IF SepFits(a, s) THEN s ELSE << 1 >> \o s
RECURSIVE AppendToks(_, _)
AppendToks(items, ts) ==
  IF ts = << >> THEN items
  ELSE LET t == IF Head(ts) = 0 THEN RandomElement(StrIds) ELSE Head(ts)
       IN AppendToks(Append(items, [s |-> FitSep(items, RandSep(MaxSep), t), t |-> t]), Tail(ts))

AddTokR ==
  /\ Gen /\ Rand /\ Mode = "toks" /\ Len(inp.items) < inp.tgt
  /\ inp' = [inp EXCEPT !.items = AppendToks(@, << RandomElement(TokIds) >>)]
  /\ Keep

AddStmtR ==
  /\ Gen /\ Rand /\ Mode = "prog" /\ Len(inp.items) < inp.tgt
  /\ inp' = [inp EXCEPT !.items = AppendToks(@, Stmts[RandomElement(1..Len(Stmts))])]
  /\ Keep

AddCharR ==
  /\ Gen /\ Rand /\ Mode = "bodies" /\ Len(inp.body) < inp.tgt
  /\ inp' = [inp EXCEPT !.body = Append(@, BodyAlphaR[RandomElement(1..Len(BodyAlphaR))])]
  /\ Keep

(* ---- the generator hands the input to the tokenizer ---- *)
Posts == IF Rand
           THEN { LET s == RandSep(MaxSep)
                      p == IF inp.items # << >> /\ ~SepFits(Last(inp.items).t, s) THEN << 1 >> \o s ELSE s
                  IN IF RandomElement(1..4) = 1 THEN Append(p, EofCmt) ELSE p }
           ELSE IF TrailCmt /\ Mode # "bodies" THEN { << >>, << EofCmt >> } ELSE { << >> }

Start ==
  /\ Gen
  /\ IF Rand THEN (IF Mode = "bodies" THEN Len(inp.body) >= inp.tgt ELSE Len(inp.items) >= inp.tgt)
             ELSE (Mode = "bodies" \/ inp.items # << >>)
  /\ \E p \in (IF Mode = "bodies" THEN { << >> } ELSE Posts) :
        /\ inp' = [inp EXCEPT !.post = p]
        /\ text' = TextOf(inp')
  /\ ref' = RefLex(text')
  /\ m' = IF Stepwise THEN [M0 EXCEPT !.st = "lex"] ELSE AlgLex(text', Deviations)

(* ---- the tokenizer runs ---- *)
Lex ==
  /\ m.st = "lex"
  /\ m' = StepF(text, m, Deviations)
  /\ UNCHANGED << inp, text, ref >>

Next == AddTok \/ AddChar \/ AddTokR \/ AddStmtR \/ AddCharR \/ Start \/ Lex
Spec == Init /\ [][Next]_vars

(* ---------------------------------------------------------------------- *)
(* checked                                                                 *)
(* ---------------------------------------------------------------------- *)
Final == m.st \in {"done", "rej"}

(* the position a token reports is where it really starts (recomputed from  *)
(* the prefix); stepwise, the cursor itself is right after every step       *)
TokPosOk(t) == LET p == PosOf(text, t.idx) IN t.off = p.off /\ t.ln = p.ln /\ t.col = p.col
PosTruth ==
  /\ \A k \in (IF Stepwise THEN {Len(m.out)} \ {0} ELSE DOMAIN m.out) : TokPosOk(m.out[k])
  /\ m.st = "lex" => TokPosOk([idx |-> m.idx, off |-> m.off, ln |-> m.ln, col |-> m.col])

(* every call of `token` consumes input: from every state of the loop the   *)
(* next turn moves the cursor forward (a state predicate about the enabled  *)
(* step - a turn that consumed nothing would be a stuttering step, which no *)
(* action property can see); and the offsets of the tokens strictly increase*)
Progress == m.st = "lex" =>
  LET nx == StepF(text, m, Deviations) IN nx.st = "lex" => nx.idx > m.idx /\ nx.off > m.off
Monotone ==
  /\ \A k \in (IF Stepwise THEN {Len(m.out)} \ {0, 1} ELSE 2..Len(m.out)) : m.out[k].off > m.out[k - 1].off
  /\ m.st = "lex" /\ m.out # << >> => m.off > Last(m.out).off

(* two characters that form a documented operator never lex as two tokens *)
NoSplit(toks) == \A k \in DOMAIN toks :
  toks[k].ty = "PUNCT" /\ toks[k].n = 1 /\ toks[k].idx < Len(text)
     => << text[toks[k].idx], text[toks[k].idx + 1] >> \notin Punct2
LongestOp == NoSplit(m.out) /\ NoSplit(ref.toks)

(* layout does not matter: whatever separates the tokens (anything non-empty *)
(* that is layout where it stands; nothing where the grammar keeps the two   *)
(* tokens apart), the (typ, fragment) sequence is that of the tokens alone   *)
IsLayout ==
  /\ Mode # "bodies"
  /\ \A k \in 2..Len(inp.items) :
        LET a == inp.items[k - 1].t  s == inp.items[k].s
        IN IF s = << >> THEN GlueTab[a][inp.items[k].t] ELSE SepFits(a, s)
  /\ inp.items # << >> => SepFits(Last(inp.items).t, inp.post)
Layout == Final /\ IsLayout =>
  /\ m.st = "done" /\ Strip(text, m.out) = Canon(inp.items)
  /\ ref.r = "ok" /\ Strip(text, ref.toks) = Canon(inp.items)

(* don't-care of C11: true/false/NULL directly followed by symbol characters *)
HasLitPrefix(t) ==
  t.ty = "BAREWORD" /\ \E w \in {TrueCs, FalseCs, NullCs} : t.n > Len(w) /\ TextAt(text, t.idx, w)
Masked == \E k \in DOMAIN ref.toks : HasLitPrefix(ref.toks[k])

(* the ordered alternation yields the tokens of maximal munch, with the same positions and values *)
SameTok(a, b) == /\ a.ty = b.ty /\ a.idx = b.idx /\ a.n = b.n
                 /\ a.off = b.off /\ a.ln = b.ln /\ a.col = b.col /\ a.dec = b.dec
AlgEqualsRef == Final /\ ~Masked =>
  /\ (m.st = "done") = (ref.r = "ok")
  /\ m.st = "done" => /\ Len(m.out) = Len(ref.toks)
                      /\ \A k \in DOMAIN m.out : SameTok(m.out[k], ref.toks[k])

(* ---- emission ---- *)
Enc(t) == IF t.ty = "QUOTED" THEN << t.ty, t.idx, t.n, t.off, t.ln, t.col, t.ccol, t.dec >>
          ELSE << t.ty, t.idx, t.n, t.off, t.ln, t.col, t.ccol >>
EncAll(toks) == [k \in 1..Len(toks) |-> Enc(toks[k])]
HasMulti == \E k \in DOMAIN ref.toks : \E j \in DOMAIN ref.toks[k].dec : ref.toks[k].dec[j] \in Multi
DevDecs ==   \* string values the machine yields with the recorded deviation on
  LET o == SelectSeq(AlgLex(text, {"ByteChars"}).out, LAMBDA t : t.ty = "QUOTED")
  IN [k \in 1..Len(o) |-> o[k].dec]
Case ==
  LET base == IF Mode = "bodies"
                THEN [md |-> Mode, b |-> inp.body, r |-> ref.r, mk |-> Masked, x |-> EncAll(ref.toks)]
                ELSE [md |-> Mode, i |-> [k \in 1..Len(inp.items) |-> << inp.items[k].s, inp.items[k].t >>],
                      po |-> inp.post, lay |-> IsLayout, r |-> ref.r, mk |-> Masked, x |-> EncAll(ref.toks)]
  IN IF HasMulti THEN ToJson(base @@ [xd |-> DevDecs]) ELSE ToJson(base)
Emit == Final => PrintT(<< "REPLAY", Case >>)

(* the tables the driver needs to spell an abstract input *)
ASSUME PrintT(<< "REPLAY", ToJson([vocab |-> Vocab, atoms |-> Atoms]) >>)

=============================================================================
