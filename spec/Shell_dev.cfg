\* The code as it is (both recorded deviations on): EveryScalarOnceInOrder must FAIL.
\* Not part of the check; shows that the invariant detects the recorded defects in the model.
CONSTANTS Deviations = {"EnvStopsAtSkipped", "EnvListNoNewline"} MaxLen = 0 MaxFields = 3 Extra <- NoExtra NTexts = 0 TextOf <- NoTextOf MachineLen = 0 MachineRaw = 0
INIT GenInit
NEXT GenNext
CHECK_DEADLOCK FALSE
INVARIANTS HelpersOneWord OneWord EveryScalarOnceInOrder
