CONSTANTS Ns = {5, 8, 12, 16, 20, 25, 30, 40, 60, 80, 120, 200} MaxMut = 3 Vocab = 6
INIT Init
NEXT Next
CHECK_DEADLOCK FALSE
INVARIANTS WellFormed Emit
