------------------------------- MODULE LspMC -------------------------------
(* Constants of the model-checking / simulation configurations of Lsp.tla. *)
EXTENDS Lsp

(* import tables over 4 text ids and 3 documents: none; a library and two   *)
(* importers (one of them of two documents); a table whose editor texts can *)
(* form cycles d1 <-> d2                                                     *)
Imp4 == { << {}, {}, {}, {} >>,
          << {}, {}, {1}, {1, 2} >>,
          << {}, {2}, {1}, {3} >> }
(* Imp4 without the import-free table (there the disk cannot matter) *)
Imp4b == { << {}, {}, {1}, {1, 2} >>,
           << {}, {2}, {1}, {3} >> }
Imp3 == { << {}, {}, {1} >>, << {}, {2}, {1} >> }
Imp6 == { << {}, {}, {}, {}, {}, {} >>,
          << {}, {}, {}, {1}, {2}, {1, 3} >>,
          << {}, {}, {2}, {1}, {3}, {} >> }

(* deviation searches: one library document, importers of it *)
ImpDev  == { << {}, {}, {1} >> }
DisksDev == { << 1, 0 >>, << 0, 0 >> }
(* requests do not matter for the deviations: one kind, one position class  *)
DevKinds == { "hover", "workspaceSymbol" }
DevPos   == { "tokstart" }

(* the configuration without VIEW: every message variant is handled *)
Imp2 == { << {}, {1} >> }

NoDev  == {}
DevU   == { "UnsavedInIndex" }
DevUC  == { "UnsavedInIndex", "CloseKeepsUnsaved" }
AllDisks == {}
(* representative disks for the 3-document configuration: empty workspace;  *)
(* one library; two files; all three files (acyclic ones survive Init)      *)
Disks3q == { << 0, 0, 0 >>, << 1, 3, 0 >>, << 2, 3, 4 >> }
Disks3 == { << 0, 0, 0 >>, << 1, 0, 0 >>, << 2, 1, 0 >>, << 1, 3, 0 >>, << 1, 2, 4 >>, << 2, 3, 4 >>, << 0, 2, 3 >> }
=============================================================================
