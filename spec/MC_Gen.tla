------------------------------ MODULE MC_Gen ------------------------------
(* Pools and family definitions for the model-checking / simulation          *)
(* configurations of Gen.tla (cfg files select one with CONSTANT X <- ...).   *)
EXTENDS Gen

C(s) == s   \* documentation: a character sequence

n_a == << "a" >>  n_b == << "b" >>  n_c == << "c" >>  n_d == << "d" >>  n_e == << "e" >>  n_f == << "f" >>
n_g == << "g" >>  n_x == << "x" >>  n_y == << "y" >>  n_z == << "z" >>  n_k == << "k" >>  n_v == << "v" >>
n_acc == << "a", "c", "c" >>

NoEnv == << >>
NoEnvNames == << >>
(* C18: two variables set, one name never set *)
n_AV == << "A", "V" >>  n_B2 == << "B", "_", "2" >>  n_UNSET == << "U", "N", "S", "E", "T" >>
Env2 == << Fld(n_AV, StrV(<< "v", "1" >>)), Fld(n_B2, StrV(<< >>)) >>
EnvNames3 == << n_AV, n_B2, n_UNSET >>
FldsEnv == << n_a, N_env >>
FamEnv == {"lit", "var", "bin", "env", "tuple", "dot", "let", "exprstmt", "badlet", "envlet", "is"}
NoPrelude == << >>

(* ---- AST shorthands and preludes ---- *)
L(v) == Lit(v)
S(n) == Sym(n)
TupE(fs) == [e |-> "tuple", flds |-> fs]
F(n, x) == [nm |-> n, ex |-> x]
ListE(xs) == [e |-> "list", xs |-> xs]
FuncE(ps, body) == [e |-> "func", ps |-> ps, body |-> body]
LetS(n, x) == [s |-> "let", nm |-> n, x |-> x]
n_t == << "t" >>  n_u == << "u" >>  n_l == << "l" >>  n_m == << "m" >>  n_s == << "s" >>  n_p == << "p" >>  n_r == << "r" >>
n_k1 == << "k", "o" >>  n_kn == << "k", "n" >>  n_k3 == << "k", "t" >>  n_c1 == << "c", "o" >>  n_cs == << "c", "s" >>  n_kb == << "k", "b" >>
n_inc == << "i", "n", "c" >>  n_add == << "a", "d", "d" >>  n_kv == << "k", "v" >>  n_red == << "r", "e", "d" >>
n_lb == << "l", "b" >>  n_tb == << "t", "b" >>
n_nn == << "n", "n" >>  n_nz == << "n", "z" >>
n_pos == << "p", "o", "s" >>  n_dup == << "d", "u", "p" >>  n_red3 == << "r", "e", "d", "3" >>  n_cap == << "c", "a", "p" >>

(* let t = {a = 1, b = "x"}; let u = {b = "y", a = 2}; let l = [1, "a", 2]; *)
PreData == << LetS(n_t, TupE(<< F(n_a, L(IntV(1))), F(n_b, L(StrV(<< "x" >>))) >>)),
              LetS(n_u, TupE(<< F(n_b, L(StrV(<< "y" >>))), F(n_a, L(IntV(2))) >>)),
              LetS(n_l, ListE(<< L(IntV(1)), L(StrV(<< "a" >>)), L(IntV(2)) >>)) >>
(* let c = 10; let inc = func (x) => x + 1; let add = func (x, y) => x + y; let cap = func (x) => x + c; *)
PreFunc == << LetS(n_c, L(IntV(10))),
              LetS(n_inc, FuncE(<< n_x >>, Bin("add", S(n_x), L(IntV(1))))),
              LetS(n_add, FuncE(<< n_x, n_y >>, Bin("add", S(n_x), S(n_y)))),
              LetS(n_cap, FuncE(<< n_x >>, Bin("add", S(n_x), S(n_c)))) >>
PreFop3 == << LetS(n_l, ListE(<< L(IntV(1)), L(IntV(2)) >>)),
              LetS(n_t, TupE(<< F(n_a, L(IntV(1))), F(n_b, L(IntV(2))) >>)),
              LetS(n_s, L(StrV(<< "a", "b" >>))) >>
(* let w = {f = func (x) => x + 1, g = func () => 7, a = 1, u = {b = 2}}; *)
n_w == << "w" >>
PreDot == << LetS(n_w, TupE(<< F(n_f, FuncE(<< n_x >>, Bin("add", S(n_x), L(IntV(1))))),
                              F(n_g, FuncE(<< >>, L(IntV(7)))),
                              F(n_a, L(IntV(1))),
                              F(n_u, TupE(<< F(n_b, L(IntV(2))) >>)) >>)) >>
(* a bit of everything for the simulation of the full grammar *)
PreSim == PreDot \o << LetS(n_t, TupE(<< F(n_a, L(IntV(1))), F(n_b, L(StrV(<< "x" >>))) >>)),
             LetS(n_l, ListE(<< L(IntV(1)), L(IntV(2)), L(IntV(3)) >>)),
             LetS(n_s, L(StrV(<< "a", "b" >>))),
             LetS(n_inc, FuncE(<< n_x >>, Bin("add", S(n_x), L(IntV(1))))),
             LetS(n_kv, FuncE(<< n_k, n_v >>, ListE(<< Bin("add", S(n_k), L(StrV(<< "z" >>))), S(n_v) >>))),
             LetS(n_red, FuncE(<< n_acc, n_x >>, Bin("add", S(n_acc), S(n_x)))) >>
(* functions for map / filter / reduce over lists, tuples and strings *)
PreFop == << LetS(n_l, ListE(<< L(IntV(1)), L(IntV(2)), L(IntV(3)) >>)),
             LetS(n_t, TupE(<< F(n_a, L(IntV(1))), F(n_b, L(IntV(2))) >>)),
             LetS(n_s, L(StrV(<< "a", "b" >>))),
             LetS(n_inc, FuncE(<< n_x >>, Bin("add", S(n_x), L(IntV(1))))),
             LetS(n_dup, FuncE(<< n_x >>, Bin("add", S(n_x), S(n_x)))),
             LetS(n_pos, FuncE(<< n_x >>, Bin("gt", S(n_x), L(IntV(1))))),
             LetS(n_kv, FuncE(<< n_k, n_v >>, ListE(<< Bin("add", S(n_k), L(StrV(<< "z" >>))), S(n_v) >>))),
             LetS(n_red, FuncE(<< n_acc, n_x >>, Bin("add", S(n_acc), S(n_x)))),
             LetS(n_red3, FuncE(<< n_acc, n_k, n_v >>, Bin("add", S(n_acc), S(n_v)))),
             (* targets whose SECOND item breaks an arithmetic callback (faults after the first iteration) *)
             LetS(n_lb, ListE(<< L(IntV(1)), L(StrV(<< "a" >>)), L(IntV(2)) >>)),
             LetS(n_tb, TupE(<< F(n_a, L(IntV(1))), F(n_b, L(StrV(<< "x" >>))) >>)),
             (* callbacks that answer NULL for some items (filter must drop those) *)
             LetS(n_nn, FuncE(<< n_x >>, [e |-> "select", x |-> Bin("eq", S(n_x), L(IntV(1))), dflt |-> << L(Null) >>,
                                          flds |-> << F(N_true, S(n_x)) >>])),
             LetS(n_nz, FuncE(<< n_k, n_v >>, [e |-> "select", x |-> S(n_k), dflt |-> << L(Null) >>,
                                              flds |-> << F(n_a, L(BoolV(TRUE))) >>])) >>

(* ---- constraints for annotated lets ---- *)
RangeA(lo, hi) == [a |-> "range", lo |-> lo, hi |-> hi]
ShapeA(x) == [a |-> "shape", x |-> x]
ConE(arms) == [e |-> "con", arms |-> arms]
NoCons == << >>
Cons1 == << ConE(<< RangeA(<< L(IntV(0)) >>, << L(IntV(2)) >>) >>),                       \* in 0..2
            ConE(<< RangeA(<< L(IntV(1)) >>, << >>) >>),                                  \* in 1..
            ConE(<< RangeA(<< >>, << L(IntV(1)) >>) >>),                                  \* in ..1
            ConE(<< ShapeA(L(IntV(1))), ShapeA(L(StrV(<< "a" >>))) >>),                   \* 1 | "a"
            ConE(<< ShapeA(L(StrV(<< "b" >>))), RangeA(<< L(IntV(2)) >>, << L(IntV(3)) >>) >>),   \* "b" | in 2..3
            L(IntV(0)), L(StrV(<< >>)), L(BoolV(TRUE)),                                   \* examples
            ConE(<< RangeA(<< S(n_a) >>, << L(IntV(5)) >>) >>),                           \* in a..5
            ConE(<< RangeA(<< L(StrV(<< "a" >>)) >>, << L(IntV(5)) >>) >>),               \* in "a"..5: not numeric
            ConE(<< ShapeA(S(n_a)), ShapeA(L(BoolV(FALSE))) >>),                          \* a | false
            S(n_a), S(n_b) >>                                                             \* a name: an example, or a named constraint
LitsCon == << IntV(0), IntV(1), IntV(3), StrV(<< "a" >>), BoolV(FALSE) >>
FamCon == {"lit", "var", "let", "conlet", "constmt", "badlet"}

(* callbacks whose answers map / filter cannot use: a pair of one item, a pair whose first item is not a *)
(* string, a number for a character, a non-boolean for filter                                           *)
PreFopBad == << LetS(n_l, ListE(<< L(IntV(1)), L(IntV(2)) >>)),
                LetS(n_t, TupE(<< F(n_a, L(IntV(1))), F(n_b, L(IntV(2))) >>)),
                LetS(n_s, L(StrV(<< "a", "b" >>))),
                LetS(n_kv, FuncE(<< n_k, n_v >>, ListE(<< Bin("add", S(n_k), L(StrV(<< "z" >>))), S(n_v) >>))),
                LetS(n_k1, FuncE(<< n_k, n_v >>, ListE(<< S(n_k) >>))),
                LetS(n_kn, FuncE(<< n_k, n_v >>, ListE(<< S(n_v), S(n_k) >>))),
                LetS(n_k3, FuncE(<< n_k, n_v >>, ListE(<< S(n_k), S(n_v), S(n_v) >>))),
                LetS(n_c1, FuncE(<< n_x >>, L(IntV(1)))),
                LetS(n_cs, FuncE(<< n_x >>, L(StrV(<< "q" >>)))),
                LetS(n_kb, FuncE(<< n_k, n_v >>, S(n_v))) >>

(* ---- literal pools ---- *)
LitsSmall == << IntV(0), IntV(1), IntV(2), BoolV(TRUE), BoolV(FALSE), StrV(<< "a" >>), Null >>
LitsNum == << IntV(0), IntV(1), IntV(3), IntV(7), FloatV(3, 1), FloatV(1, 2), FloatV(2, 0) >>
LitsMix == << IntV(1), IntV(2), BoolV(TRUE), StrV(<< "a" >>), StrV(<< "b", "c" >>), StrV(<< >>), FloatV(3, 1), Null >>
LitsStr == << StrV(<< "a" >>), StrV(<< "1", "2" >>), StrV(<< "-", "3" >>), StrV(<< "1", ".", "5" >>),
              StrV(<< "t", "r", "u", "e" >>), StrV(<< >>), IntV(7), FloatV(5, 1), BoolV(FALSE), Null >>

NamesTop == << n_a, n_b, n_c, n_d, n_e, n_f >>
Names1 == << n_a >>
Names2 == << n_a, n_b >>
Names3 == << n_a, n_b, n_c >>
Lits2 == << IntV(1), StrV(<< "a" >>) >>
Flds2 == << n_a, n_b >>
Ops2 == {"add", "eq"}
Ops1 == {"add"}
Lits1 == << IntV(1) >>
Lits3 == << IntV(1), BoolV(TRUE), StrV(<< "a" >>) >>
Lits4 == << IntV(1), IntV(2), BoolV(FALSE), StrV(<< "a" >>) >>
LitsInt == << IntV(0), IntV(1), IntV(2), IntV(7) >>
LitsBool == << BoolV(TRUE), BoolV(FALSE), IntV(1), Null >>
LitsSel == << StrV(<< "a" >>), StrV(<< "b" >>), BoolV(TRUE), BoolV(FALSE), IntV(1) >>
LitsCast == << StrV(<< "1", "2" >>), StrV(<< "-", "3" >>), StrV(<< "1", ".", "5" >>), StrV(<< "t", "r", "u", "e" >>),
               StrV(<< "x" >>), StrV(<< >>), IntV(7), FloatV(5, 1), FloatV(2, 0), BoolV(FALSE), Null >>
LitsFmt == << IntV(1), StrV(<< "a" >>), BoolV(TRUE), FloatV(3, 1), Null >>
OpsStr == {"add", "eq", "re", "nre", "ne"}
LitsStr2 == << StrV(<< "a" >>), StrV(<< "a", "b" >>), StrV(<< >>), StrV(<< "b" >>), IntV(1) >>
OpsFew == {"add", "eq", "and", "lt"}
OpsFew2 == {"add", "sub", "eq", "or"}
Sigs2 == << << Fld(n_x, IntV(2)) >>, << Fld(n_a, IntV(5)) >> >>
SigsCall == << << Fld(n_x, IntV(2)) >>, << Fld(n_x, IntV(2)), Fld(n_y, IntV(3)) >>, << Fld(n_a, IntV(5)) >>, << >> >>
SigsMap == << << Fld(n_x, IntV(2)) >>, << Fld(n_k, StrV(<< "a" >>)), Fld(n_v, IntV(1)) >>,
              << Fld(n_acc, IntV(0)), Fld(n_x, IntV(1)) >>, << Fld(n_x, StrV(<< "a" >>)) >>,
              << Fld(n_acc, IntV(0)), Fld(n_k, StrV(<< "a" >>)), Fld(n_v, IntV(1)) >> >>
TySome == << << "i", "n", "t" >>, << "s", "t", "r" >>, << "t", "u", "p", "l", "e" >>, << "l", "i", "s", "t" >>,
             << "n", "u", "l", "l" >>, << "f", "u", "n", "c" >> >>
NamesMod == << n_x, n_y, n_z >>
Flds3 == << n_a, n_b, n_c >>
(* field names that coincide with top-level names (C10) are Flds3 itself *)
Keys == << << n_a >>, << n_a, n_b >>, << N_true, N_false >>, << N_true >> >>
TyAll == << << "i", "n", "t" >>, << "s", "t", "r" >>, << "t", "u", "p", "l", "e" >>, << "l", "i", "s", "t" >>,
            << "n", "u", "l", "l" >>, << "f", "u", "n", "c" >>, << "b", "o", "o", "l" >>, << "f", "l", "o", "a", "t" >>,
            << "m", "o", "d", "u", "l", "e" >> >>
Sigs == << << Fld(n_x, IntV(2)) >>,
           << Fld(n_x, IntV(2)), Fld(n_y, IntV(3)) >>,
           << Fld(n_k, StrV(<< "a" >>)), Fld(n_v, IntV(1)) >>,
           << Fld(n_acc, IntV(0)), Fld(n_x, IntV(1)) >>,
           << Fld(n_x, StrV(<< "a" >>)) >>,
           << Fld(n_acc, IntV(0)), Fld(n_k, StrV(<< "a" >>)), Fld(n_v, IntV(1)) >>,
           << Fld(n_a, IntV(5)) >>,                \* parameter named like a top-level binding (C10)
           << >> >>
Tpls == << << "@" >>, << "a", "@", "b" >>, << "@", "-", "@" >>, << "\\", "@", "@" >>, << "x" >>, << "@", "\\", "\\" >> >>
Item == Sym(N_item)
Singles == << << [pk |-> "ex", x |-> Item] >>,
              << [pk |-> "s", s |-> << "v", "=" >>], [pk |-> "ex", x |-> Item], [pk |-> "s", s |-> << "." >>] >>,
              << [pk |-> "ex", x |-> Bin("dot", Item, Sym(n_a))], [pk |-> "s", s |-> << " " >>],
                 [pk |-> "ex", x |-> Bin("add", Bin("dot", Item, Sym(n_a)), Lit(IntV(1)))] >> >>

OpsArith == {"add", "sub", "mul", "div", "mod"}
OpsCmp == {"eq", "ne", "gt", "lt", "ge", "le"}
OpsBool == {"and", "or"}
OpsAll == OpsArith \cup OpsCmp \cup OpsBool
OpsNum == OpsArith \cup OpsCmp
OpsBoolEq == OpsBool \cup {"eq"}
AllCasts == {"int", "float", "str", "bool"}

FamOps == {"lit", "var", "bin", "not", "let", "exprstmt"}
FamData == {"lit", "var", "bin", "list", "tuple", "dot", "copy", "self", "in", "is", "let"}
FamSelect == {"lit", "var", "bin", "select", "not", "let", "exprstmt"}
FamFunc == {"lit", "var", "bin", "func", "call", "badcall", "let", "select"}
FamMod == {"lit", "var", "bin", "module", "copy", "dot", "let"}
FamFop == {"lit", "var", "bin", "func", "fop", "list", "tuple", "let"}
FamMisc == {"lit", "var", "bin", "fmt", "fmtbad", "fmt1", "range", "cast", "is", "fail", "trace", "tuple", "let", "exprstmt"}
FamFopPre == {"lit", "var", "fop", "let"}
FamFopList == {"lit", "var", "fop", "list", "let"}
FamFopInl == {"lit", "var", "bin", "func", "fop", "let"}
FamCallPre == {"lit", "var", "bin", "call", "badcall", "let", "exprstmt"}
FamFuncDef == {"lit", "var", "bin", "func", "select", "let"}
FamModDef == {"lit", "var", "bin", "module", "dot", "letuse"}
FamFuncUse == {"lit", "var", "bin", "func", "select", "list", "letuse", "exprstmt"}
PreShadow == << LetS(n_a, L(StrV(<< "a" >>))), LetS(n_x, L(StrV(<< "b" >>))) >>   \* outer a, x are strings; Sigs2's parameters a, x are integers
NamesBC == << n_b, n_c >>
FamModUse == {"lit", "var", "bin", "copy", "cast", "let"}        \* the instance of a (prelude) module is an operand
ModE(ps, out, body) == [e |-> "module", ps |-> ps, out |-> out, body |-> body]
PreMod == << LetS(n_m, ModE(<< >>, << L(StrV(<< "s" >>)) >>, << LetS(n_z, L(IntV(1))) >>)),                       \* out: a string
             LetS(n_k, ModE(<< F(n_p, L(IntV(1))) >>, << Bin("dot", S(N_mod), S(n_p)) >>, << LetS(n_z, L(IntV(1))) >>)),   \* out: its parameter
             LetS(n_u, ModE(<< F(n_p, L(IntV(1))) >>, << >>, << LetS(n_z, Bin("dot", S(N_mod), S(n_p))) >>)) >>           \* no out: {z = p}
CastsIS == {"int", "str"}
FldsP == << n_p >>
FamCmpData == {"lit", "list", "tuple", "bin", "let"}            \* == and != between lists and tuples of every small shape
OpsEqNe == {"eq", "ne"}
(* a function that copies its parameter with one more field; the field is selected from the result *)
CopyE(sel, flds) == [e |-> "copy", sel |-> sel, flds |-> flds]
CallE(fn, args) == [e |-> "call", fn |-> fn, args |-> args]
(* an outer binding named like the parameter of a function that has been called with another type: it is used AFTER the call *)
PreShadowUse == << LetS(n_f, FuncE(<< n_x >>, S(n_x))), LetS(n_x, L(StrV(<< "b" >>))), LetS(n_r, Bin("add", CallE(n_f, << L(IntV(1)) >>), L(IntV(1)))) >>     \* f(1) + 1: the sum types what f returned
LitsSA == << StrV(<< "a" >>), IntV(1) >>
(* the same with the parameter returned inside a list: the first element of f(1) is typed by the sum *)
PreShadowUse2 == << LetS(n_f, FuncE(<< n_x >>, ListE(<< S(n_x) >>))), LetS(n_x, L(StrV(<< "b" >>))),
                    LetS(n_r, Bin("add", Bin("dot", CallE(n_f, << L(IntV(1)) >>), L(IntV(0))), L(IntV(1)))) >>
PreCopyFn == << LetS(n_f, FuncE(<< n_t >>, CopyE(n_t, << F(n_b, L(IntV(2))) >>))),
                LetS(n_r, CallE(n_f, << TupE(<< F(n_a, L(IntV(1))) >>) >>)) >>
FamSelUse == {"lit", "var", "bin", "dot", "let"}
SigsRes == << << Fld(N_env, IntV(1)) >>, << Fld(N_self, IntV(1)) >>, << Fld(n_x, IntV(2)) >> >>     \* parameters named env, self
FamFuncSel == {"lit", "var", "bin", "dot", "func", "letuse"}      \* bodies that select fields / elements of a parameter
SigsTup == << << Fld(n_t, TupleV(<< Fld(n_a, IntV(1)), Fld(n_b, IntV(2)) >>)) >>,
              << Fld(n_l, ListV(<< IntV(1), IntV(2) >>)) >> >>
FamFuncBody == {"lit", "var", "bin", "func", "letuse"}       \* a fault planted in a function body, met when it is called
FamCast == {"lit", "var", "bin", "cast", "let"}
FamCastDot == {"lit", "var", "cast", "dot", "select", "let"}
FamDotUse == {"lit", "var", "bin", "dot", "dotcall", "dotcopy", "let", "exprstmt"}
FamScopeMod == {"lit", "var", "bin", "module", "dot", "letuse", "outerref"}
FamScopeFn == {"lit", "var", "bin", "func", "fmt1", "letuse", "leakref", "fwdref", "let", "call"}
FamRebind == {"lit", "var", "bin", "let", "badlet", "reserved", "tuple"}
FamRebind3 == {"lit", "var", "bin", "let", "badlet", "reserved"}       \* three statements of one node each
FamBind == {"lit", "var", "bin", "func", "call", "fmt1", "module", "copy", "let", "badlet", "reserved", "tuple"}
FamSim == {"lit", "var", "bin", "not", "let", "exprstmt", "list", "tuple", "dot", "copy", "self", "in", "is",
           "select", "func", "call", "badcall", "module", "fop", "fmt", "fmtbad", "fmt1", "range", "cast", "fail",
           "trace", "letuse", "dotcall", "dotcopy", "conlet"}
FamAll == FamOps \cup FamData \cup FamSelect \cup FamFunc \cup FamMod \cup FamFop \cup FamMisc
=============================================================================
