------------------------------ MODULE MC_Gen ------------------------------
(* Pools and family definitions for the model-checking / simulation          *)
(* configurations of Gen.tla (cfg files select one with CONSTANT X <- ...).   *)
EXTENDS Gen

C(s) == s   \* documentation: a character sequence

n_a == << "a" >>  n_b == << "b" >>  n_c == << "c" >>  n_d == << "d" >>  n_e == << "e" >>  n_f == << "f" >>
n_g == << "g" >>  n_x == << "x" >>  n_y == << "y" >>  n_z == << "z" >>  n_k == << "k" >>  n_v == << "v" >>
n_acc == << "a", "c", "c" >>

NoEnv == << >>

(* ---- literal pools ---- *)
LitsSmall == << IntV(0), IntV(1), IntV(2), BoolV(TRUE), BoolV(FALSE), StrV(<< "a" >>), Null >>
LitsNum == << IntV(0), IntV(1), IntV(3), IntV(7), FloatV(3, 1), FloatV(1, 2), FloatV(2, 0) >>
LitsMix == << IntV(1), IntV(2), BoolV(TRUE), StrV(<< "a" >>), StrV(<< "b", "c" >>), StrV(<< >>), FloatV(3, 1), Null >>
LitsStr == << StrV(<< "a" >>), StrV(<< "1", "2" >>), StrV(<< "-", "3" >>), StrV(<< "1", ".", "5" >>),
              StrV(<< "t", "r", "u", "e" >>), StrV(<< >>), IntV(7), FloatV(5, 1), BoolV(FALSE), Null >>

NamesTop == << n_a, n_b, n_c, n_d, n_e, n_f >>
Names1 == << n_a >>
Names2 == << n_a, n_b >>
Names3 == << n_a, n_b, n_c >>
Lits3 == << IntV(1), BoolV(TRUE), StrV(<< "a" >>) >>
Lits4 == << IntV(1), IntV(2), BoolV(FALSE), StrV(<< "a" >>) >>
LitsInt == << IntV(0), IntV(1), IntV(2), IntV(7) >>
LitsBool == << BoolV(TRUE), BoolV(FALSE), IntV(1), Null >>
LitsSel == << StrV(<< "a" >>), StrV(<< "b" >>), BoolV(TRUE), BoolV(FALSE), IntV(1) >>
LitsCast == << StrV(<< "1", "2" >>), StrV(<< "-", "3" >>), StrV(<< "1", ".", "5" >>), StrV(<< "t", "r", "u", "e" >>),
               StrV(<< "x" >>), StrV(<< >>), IntV(7), FloatV(5, 1), FloatV(2, 0), BoolV(FALSE), Null >>
LitsFmt == << IntV(1), StrV(<< "a" >>), BoolV(TRUE), FloatV(3, 1), Null >>
OpsFew == {"add", "eq", "and", "lt"}
OpsFew2 == {"add", "sub", "eq", "or"}
SigsCall == << << Fld(n_x, IntV(2)) >>, << Fld(n_x, IntV(2)), Fld(n_y, IntV(3)) >>, << Fld(n_a, IntV(5)) >>, << >> >>
SigsMap == << << Fld(n_x, IntV(2)) >>, << Fld(n_k, StrV(<< "a" >>)), Fld(n_v, IntV(1)) >>,
              << Fld(n_acc, IntV(0)), Fld(n_x, IntV(1)) >>, << Fld(n_x, StrV(<< "a" >>)) >>,
              << Fld(n_acc, IntV(0)), Fld(n_k, StrV(<< "a" >>)), Fld(n_v, IntV(1)) >> >>
TySome == << << "i", "n", "t" >>, << "s", "t", "r" >>, << "t", "u", "p", "l", "e" >>, << "l", "i", "s", "t" >>,
             << "n", "u", "l", "l" >>, << "f", "u", "n", "c" >> >>
NamesMod == << n_x, n_y, n_z >>
Flds3 == << n_a, n_b, n_c >>
(* field names that coincide with top-level names (C10) are Flds3 itself *)
Keys == << << n_a >>, << n_a, n_b >>, << N_true, N_false >>, << N_true >> >>
TyAll == << << "i", "n", "t" >>, << "s", "t", "r" >>, << "t", "u", "p", "l", "e" >>, << "l", "i", "s", "t" >>,
            << "n", "u", "l", "l" >>, << "f", "u", "n", "c" >>, << "b", "o", "o", "l" >>, << "f", "l", "o", "a", "t" >>,
            << "m", "o", "d", "u", "l", "e" >> >>
Sigs == << << Fld(n_x, IntV(2)) >>,
           << Fld(n_x, IntV(2)), Fld(n_y, IntV(3)) >>,
           << Fld(n_k, StrV(<< "a" >>)), Fld(n_v, IntV(1)) >>,
           << Fld(n_acc, IntV(0)), Fld(n_x, IntV(1)) >>,
           << Fld(n_x, StrV(<< "a" >>)) >>,
           << Fld(n_acc, IntV(0)), Fld(n_k, StrV(<< "a" >>)), Fld(n_v, IntV(1)) >>,
           << Fld(n_a, IntV(5)) >>,                \* parameter named like a top-level binding (C10)
           << >> >>
Tpls == << << "@" >>, << "a", "@", "b" >>, << "@", "-", "@" >>, << "\\", "@", "@" >>, << "x" >>, << "@", "\\", "\\" >> >>
Item == Sym(N_item)
Singles == << << [pk |-> "ex", x |-> Item] >>,
              << [pk |-> "s", s |-> << "v", "=" >>], [pk |-> "ex", x |-> Item], [pk |-> "s", s |-> << "." >>] >>,
              << [pk |-> "ex", x |-> Bin("dot", Item, Sym(n_a))], [pk |-> "s", s |-> << " " >>],
                 [pk |-> "ex", x |-> Bin("add", Bin("dot", Item, Sym(n_a)), Lit(IntV(1)))] >> >>

OpsArith == {"add", "sub", "mul", "div", "mod"}
OpsCmp == {"eq", "ne", "gt", "lt", "ge", "le"}
OpsBool == {"and", "or"}
OpsAll == OpsArith \cup OpsCmp \cup OpsBool
OpsNum == OpsArith \cup OpsCmp
OpsBoolEq == OpsBool \cup {"eq"}
AllCasts == {"int", "float", "str", "bool"}

FamOps == {"lit", "var", "bin", "not", "let", "exprstmt"}
FamData == {"lit", "var", "bin", "list", "tuple", "dot", "copy", "self", "in", "is", "let"}
FamSelect == {"lit", "var", "bin", "select", "not", "let", "exprstmt"}
FamFunc == {"lit", "var", "bin", "func", "call", "badcall", "let", "select"}
FamMod == {"lit", "var", "bin", "module", "copy", "dot", "let"}
FamFop == {"lit", "var", "bin", "func", "fop", "list", "tuple", "let"}
FamMisc == {"lit", "var", "bin", "fmt", "fmt1", "range", "cast", "is", "fail", "trace", "tuple", "let", "exprstmt"}
FamBind == {"lit", "var", "bin", "func", "call", "fmt1", "module", "copy", "let", "badlet", "reserved", "tuple"}
FamAll == FamOps \cup FamData \cup FamSelect \cup FamFunc \cup FamMod \cup FamFop \cup FamMisc
=============================================================================
