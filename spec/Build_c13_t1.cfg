CONSTANTS
  Deviations <- DevNone
  NF = 3
  Bodies <- Bodies13_3x2
  Layouts <- LayFlat3
  Cmds <- CmdTest
  Cwds <- Cwd0
  Orders <- Orders3
  Pres <- PreNone
  Repeat = 1
  EmitOn = TRUE
INIT Init
NEXT Next
CHECK_DEADLOCK FALSE
INVARIANTS ResolveRelToFile EvalOnce EvalOrder SameValue CycleIsDiagnostic VerdictIffAsserts ExitIffFail EachAssertOnce OneArtifact SecondOutIsError AllOrNothing BatchEqualsSolo Emit
