\* simulation configuration: depth 5 (run with  -simulate num=1500 -depth 60).
\* The drivers generate several of these over seeded samples of the leaf classes
\* (vp/c03.py sim_configs): TLC's simulator picks uniformly among successor
\* states, so a small leaf pool is what makes deep nesting probable.
CONSTANTS
  MaxDepth = 5
  MaxKids = 4
  MaxNodes = 14
  MaxRare = 3
  CoreLeaves = {"null", "i_pos", "s_plain"}
  RareLeaves = {"i_p53", "f_inf", "s_multi", "etuple"}
  Deviations = {}
INIT Init
NEXT Next
CHECK_DEADLOCK FALSE
INVARIANTS ExpectWellFormed ErrorIffUnrepresentable RoundTrip ConvAgrees ImportAgrees IncludeAgrees
