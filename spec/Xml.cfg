\* quick-sized exhaustive configuration: documents of <= 4 nodes, every feature
\* usable once (the driver vp/c12.py generates its own cfgs from the same constants)
CONSTANTS
  MaxDepth = 3
  MaxKids = 3
  MaxNodes = 4
  MaxRare = 1
  CoreFeat = {"n:e1", "tf:bare", "tf:tt", "t:plain", "t:markup"}
  RareFeat = {"n:e2", "n:eu", "n:pe1", "n:qe1",
              "ns:d1", "ns:d2", "ns:damp", "ns:p1", "ns:p2", "ns:q1", "ns:q2", "ns:pamp",
              "attrs:null", "attrs:empty", "attrs:two", "attrs:nullfirst", "attrs:nulllast", "attrs:allnull",
              "attrs:pfx", "attrs:int", "attrs:bool", "attrs:listval", "attrs:tupleval", "attrs:str",
              "attrs:list", "attrs:intattrs",
              "av:plain", "av:markup", "av:empty", "av:ws", "av:pad", "av:uni", "av:cr", "av:tab", "av:ctrl",
              "t:empty", "t:ws", "t:pad", "t:uni", "t:cr", "t:tab", "t:ctrl", "ord:rev",
              "ch:null", "ch:empty", "ch:str", "ch:tuple", "ch:int",
              "bad:int", "bad:bool", "bad:null", "bad:list", "bad:nameandtext", "bad:textandname",
              "bad:nameless", "bad:namelessattrs", "bad:namelesskids", "bad:nonstrname", "bad:nullname",
              "bad:nonstrtext",
              "ver:v10", "ver:v11", "ver:v20", "ver:int", "enc:utf8", "enc:latin1", "enc:utf16", "enc:int",
              "sa:yes", "sa:no",
              "doc:int", "doc:list", "doc:str", "doc:null", "doc:noroot", "doc:norootver",
              "root:str", "root:strempty", "root:tt", "root:null", "root:nameless", "root:int", "root:list"}
  Deviations = {}
INIT Init
NEXT Next
CHECK_DEADLOCK FALSE
INVARIANTS XmlDocTotal ErrorIffMalformed ConvAgrees TagFormSame
