---------------------------- MODULE ShellTrace ----------------------------
(* C08, implementation -> specification.  The text the REAL converters      *)
(* wrote (recorded by the driver through the harness) is read by the shell  *)
(* machine of Shell.tla, one action per character.  Each record carries the *)
(* words the specification predicted for the case (want); the machine must  *)
(* arrive at exactly those commands/words with expansions = 0.  A quoting   *)
(* style different from the one transcribed in Shell.tla is therefore       *)
(* re-verified by the shell machine, not compared textually.                *)
(*                                                                          *)
(* Input: ndjson file named by the environment variable C08_TRACE, one      *)
(* record {"i": id, "text": [character atoms], "want": [[word...]...]} per  *)
(* recorded text.  All texts are validated in one TLC run (one initial      *)
(* state per text).                                                         *)
EXTENDS Shell, IOUtils

Rec == ndJsonDeserialize(IOEnv.C08_TRACE)
TraceNTexts == Len(Rec)              \* cfg: NTexts <- TraceNTexts
TraceTextOf(t) == Rec[t].text        \*      TextOf <- TraceTextOf

(* INIT MachineInit (one initial state per recorded text), NEXT MachineNext *)

Same == cmds = Rec[tid].want
Report == done =>
  PrintT(<< "REPLAY", ToJson([i |-> Rec[tid].i, same |-> Same, exp |-> expansions,
                              complete |-> MachineResult.complete,
                              cmds |-> IF Same THEN << >> ELSE cmds]) >>)
=============================================================================
