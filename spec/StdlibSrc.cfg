\* C19 growth: the std sources evaluated by Eval.tla against the reference.  Needs the environment
\* variable C19_SRC = a JSON file written by vp/stdsrc.py (the driver generates its own copy of this configuration
\* with SrcDevs = the deviations of the findings that are still open).
CONSTANTS
  Families = {"list1", "enum", "zip", "slice", "join", "tuple", "str1", "split", "splitat", "substr", "parseint", "maybe", "basetype", "shaped", "anyall"}
  Size = "src"
  Sim = FALSE
  Deviations = {}
  KnownDevs = {"TailEmptyFails", "ZipLongerRange", "JoinSepSkippedWhileEmpty", "ShapedTupleLastFieldDecides"}
  SrcDevs = {"TailEmptyFails", "ZipLongerRange", "JoinSepSkippedWhileEmpty", "ShapedTupleLastFieldDecides"}
  Strict = TRUE
  EnvVars <- NoEnvVars
INIT Init
NEXT Next
CHECK_DEADLOCK FALSE
INVARIANTS SrcAgrees PackagesEvaluate
