------------------------------ MODULE VMTrace ------------------------------
(* impl -> spec binding of the stack machine (DESIGN §2.6, §4.3): a recorded  *)
(* execution of the real VM (hooks of the `verif` feature: one `op` event     *)
(* BEFORE each dispatched opcode with the pointer, the mnemonic, the nesting  *)
(* depth of VM::run activations, the stack length and the top of stack; one   *)
(* `bind` event per binding_push) is accepted iff it is the behaviour of      *)
(* VM.tla on the same code.  VM.tla is deterministic, so the trace machine    *)
(* simply runs it: steps without an opcode (hook iterations, a frame running  *)
(* off the end of the code) are taken silently, every other step must be      *)
(* announced by the next event and agree with it.  Several executions are     *)
(* validated per TLC run (`load` events).                                     *)
EXTENDS VM, Json, IOUtils

CONSTANTS TraceDevs      \* deviations the code is known to have (open findings)

NoEnvT == << >>
Rec == ndJsonDeserialize(IOEnv.TRACE)

VARIABLES l,     \* next event to consume
          vm, seen
tvars == << l, vm, seen >>

Ev == Rec[l]
More == l <= Len(Rec)

NCodeFrames(m) == Cardinality({j \in 1..Len(m.fr) : m.fr[j].fk = "code"})

LogTag(v) == IF v.t = "con" THEN "constraint" ELSE v.t
TopMatches(v, t) ==
  /\ LogTag(v) = t.t
  /\ CASE t.t = "int" -> v.i = t.i
       [] t.t = "bool" -> v.b = t.b
       [] t.t = "str" -> v.s = t.s
       [] t.t = "sym" -> v.nm = t.nm
       [] t.t = "list" -> Len(v.es) = t.n
       [] t.t = "tuple" -> Len(v.fs) = t.n
       [] OTHER -> TRUE

(* the next step of the model executes no opcode *)
Silent(m) == Running(m) /\ (IF Top(m).fk = "hook" THEN TRUE ELSE Top(m).ptr + 1 > Len(m.code))

OpMatches(m, e) ==
  LET f == Top(m)
  IN /\ f.fk = "code"
     /\ f.ptr = e.ptr                                   \* 0-based pointer of the op about to run
     /\ m.code[f.ptr + 1].op = e.opn
     /\ Len(f.stk) = e.sl
     /\ NCodeFrames(m) = e.depth
     /\ ("top" \in DOMAIN e) => (f.stk # << >> /\ TopMatches(Peek(f, 1).v, e.top))

(* the frame a binding_push just wrote to, after the model's step: the top code frame *)
BindMatches(m, e) ==
  IF e.existed /\ e.strict THEN ~Running(m)                          \* "Binding ... already exists"
  ELSE IF ~Running(m) THEN TRUE                                        \* reserved word, or a later failure
  ELSE LET j == CodeBelow(m.fr, Len(m.fr)) IN SymBound(m.fr[j].syms, e.nm)

TInit == l = 1 /\ vm = InitVM(<< >>, TraceDevs) /\ seen = 0

Load == /\ More /\ Ev.ev = "load" /\ (~Running(vm) \/ vm.code = << >>)
        /\ vm' = InitVM(Ev.code, TraceDevs) /\ l' = l + 1 /\ seen' = seen + 1
SilentStep == /\ Silent(vm) /\ vm' = Step(vm) /\ UNCHANGED << l, seen >>
OpStep == /\ More /\ Ev.ev = "op" /\ Running(vm) /\ ~Silent(vm) /\ OpMatches(vm, Ev)
          /\ vm' = Step(vm) /\ l' = l + 1 /\ UNCHANGED seen
BindStep == /\ More /\ Ev.ev = "bind" /\ BindMatches(vm, Ev) /\ l' = l + 1 /\ UNCHANGED << vm, seen >>
EndStep == /\ More /\ Ev.ev = "end" /\ ~Running(vm) /\ vm.res.k = Ev.k /\ l' = l + 1 /\ UNCHANGED << vm, seen >>

TNext == Load \/ SilentStep \/ OpStep \/ BindStep \/ EndStep

(* the invariants of the machine hold at every step of every recorded execution *)
TraceNoPanic == vm.res.k # "panic"
TraceJumps == JumpsInRange

(* acceptance: every event consumed.  A rejected trace stops early: the driver *)
(* reads the REJECT line (first unmatched event and the model's state there).  *)
Stuck == /\ ~ENABLED TNext /\ More
         /\ PrintT(<< "REJECT", ToJson([at |-> l, event |-> Ev, exec |-> seen,
                                        model |-> [res |-> vm.res.k,
                                                   ptr |-> IF vm.fr # << >> /\ Top(vm).fk = "code" THEN Top(vm).ptr ELSE 0 - 1,
                                                   sl |-> IF vm.fr # << >> /\ Top(vm).fk = "code" THEN Len(Top(vm).stk) ELSE 0 - 1,
                                                   depth |-> NCodeFrames(vm),
                                                   opn |-> IF vm.fr # << >> /\ Top(vm).fk = "code" /\ Top(vm).ptr + 1 <= Len(vm.code)
                                                           THEN vm.code[Top(vm).ptr + 1].op ELSE "-"]]) >>)
         /\ l' = Len(Rec) + 2 /\ UNCHANGED << vm, seen >>
Done == ~More /\ l = Len(Rec) + 1 /\ PrintT(<< "ACCEPTED", seen >>) /\ l' = Len(Rec) + 3 /\ UNCHANGED << vm, seen >>

TSpec == TInit /\ [][TNext \/ Stuck \/ Done]_tvars
=============================================================================
