CONSTANTS
  Deviations <- DevWalk
  NF = 3
  Bodies <- Bodies09_twin
  Layouts <- LayTwin3
  Cmds <- CmdBuild
  Cwds <- CwdAll
  Orders <- OrdersFirst
  Pres <- PreNone
  Repeat = 1
  EmitOn = FALSE
INIT Init
NEXT Next
CHECK_DEADLOCK FALSE
INVARIANTS ResolveRelToFile EvalOnce EvalOrder SameValue CycleIsDiagnostic VerdictIffAsserts ExitIffFail EachAssertOnce OneArtifact SecondOutIsError AllOrNothing BatchEqualsSolo
