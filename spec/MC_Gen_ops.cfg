CONSTANTS
  Strict = TRUE
  EnvVars <- NoEnv
  EnvNames <- NoEnvNames
  Deviations = {}
  KnownDevs = {"TupleEqUnordered", "AndOrRightUnchecked"}
  Fam <- FamOps
  LitPool <- LitsSmall
  Names <- NamesTop
  ModNames <- NamesMod
  FldNames <- Flds3
  KeyPool <- Keys
  SigPool <- Sigs
  TplPool <- Tpls
  SinglePool <- Singles
  BinOps <- OpsAll
  CastTys <- AllCasts
  TyNames <- TyAll
  Prelude <- NoPrelude
  MaxD = 3
  MaxN = 5
  MaxStk = 2
  MaxStmts = 2
  MaxModStmts = 1
  MaxCtx = 1
  Ill0 = 1
  RunVM = FALSE
INIT GenInit
NEXT GenNext
CHECK_DEADLOCK FALSE
INVARIANTS Agreement NoPanicAtEnd CleanAtEnd NoFuel PrefixStable
