----------------------------- MODULE StdlibSrc -----------------------------
(* C19, growth step of DESIGN 5/C19: the helpers' OWN SOURCE, evaluated by    *)
(* the language reference (Eval.tla) inside TLC, against the reference         *)
(* definitions of Stdlib.tla.                                                  *)
(*                                                                            *)
(* std/{lists,tuples,strings,functional,schema}.ucg of the working tree are   *)
(* parsed by the harness and converted to Eval.tla's AST by vp/stdsrc.py      *)
(* (which also expresses imports and `mod.pkg` with modules, see there); the   *)
(* JSON file named by the environment variable C19_SRC holds one record with  *)
(* one statement sequence per file.  For every call the generator machine of  *)
(* Stdlib.tla produces, CallH performs the call on the evaluated packages      *)
(* (function call / module instantiation / field selection of Eval.tla), with *)
(* the abstract ids mapped to fixed distinct values (Ev), and SrcAgrees        *)
(* compares the result with the reference Outcome({}, ...) and, for the        *)
(* recorded deviations that are still open (SrcDevs: defects the source is     *)
(* known to have), with Outcome(SrcDevs, ...); with SrcDevs = {} the source    *)
(* must compute the reference.                                                 *)
(* A disagreement is printed as a DISAGREE line (all are collected in one run) *)
(* and SrcAgrees stays true; the driver replays those calls on the real code. *)
EXTENDS Stdlib, Eval, IOUtils

CONSTANTS SrcDevs

Src == ndJsonDeserialize(IOEnv.C19_SRC)[1]

Nm(str) == [i \in 1..Len(str) |-> SubSeq(str, i, i)]      \* a TLA+ string as a character sequence
N_std == Nm("std__")

(* a file is the body of a module without out-expression: instantiating it    *)
(* yields the tuple of its bindings - what an import yields                   *)
FileMod(stmts) == ModV(<< Fld(N_std, Null) >>, << >>, stmts)
StdT == TupleV(<< Fld(Nm("lists"), FileMod(Src.lists)),
                  Fld(Nm("tuples"), FileMod(Src.tuples)),
                  Fld(Nm("strings"), FileMod(Src.strings)),
                  Fld(Nm("functional"), FileMod(Src.functional)),
                  Fld(Nm("schema"), FileMod(Src.schema)) >>)
PkgOf(stmts) == Inst(FileMod(stmts), << Fld(N_std, StdT) >>)
PkgLists      == PkgOf(Src.lists)
PkgTuples     == PkgOf(Src.tuples)
PkgStrings    == PkgOf(Src.strings)
PkgFunctional == PkgOf(Src.functional)
PkgSchema     == PkgOf(Src.schema)

(* ---- abstract values -> values of Eval.tla (fixed, injective) ------------- *)
IsNameId(c) == c \in { NameId(k) : k \in 1..9 }
RECURSIVE EvChars(_)
EvChars(s) == IF Len(s) = 0 THEN << >>
              ELSE (IF IsNameId(Head(s)) THEN Nm(Head(s)) ELSE << Head(s) >>) \o EvChars(Tail(s))
SymX == [e |-> "sym", nm |-> Nm("x")]
RECURSIVE Ev(_)
Ev(v) ==
  CASE v.t = "elem"   -> (CASE v.k = 1 -> IntV(7) [] v.k = 2 -> StrV(<< "x" >>) [] v.k = 3 -> BoolV(TRUE))
    [] v.t = "list"   -> ListV([j \in 1..Len(v.es) |-> Ev(v.es[j])])
    [] v.t = "tuple"  -> TupleV([j \in 1..Len(v.fs) |-> Fld(Nm(v.fs[j].nm), Ev(v.fs[j].val))])
    [] v.t = "str"    -> StrV(EvChars(v.s))
    [] v.t = "bigint" -> IntV(NatOf(v.ds, 0))
    [] v.t = "func"   -> FuncV(<< Nm("x") >>, SymX, << >>)
    [] v.t = "module" -> ModV(<< >>, << >>, << >>)
    [] OTHER -> v

(* ---- calls on the evaluated packages --------------------------------------- *)
Get(tv, name) ==
  IF Bad(tv) THEN tv
  ELSE IF tv.t = "tuple" /\ HasField(tv.fs, Nm(name)) THEN GetField(tv.fs, Nm(name)) ELSE Err
InstM(pkg, name, ovs) ==
  LET m == Get(pkg, name) IN IF Bad(m) THEN m ELSE IF m.t # "module" THEN Err ELSE Inst(m, ovs)
CallF(pkg, name, args) ==
  LET f == Get(pkg, name) IN IF Bad(f) THEN f ELSE Call(f, args)
Ov(name, v) == IF v.t = "dflt" THEN << >> ELSE << Fld(Nm(name), Ev(v)) >>

LitE(v) == [e |-> "lit", v |-> v]
FailE == [e |-> "fail", x |-> LitE(StrV(<< "r", "a", "n" >>))]
MOp(o) ==
  CASE o = "do_wrap"  -> FuncV(<< Nm("x") >>, [e |-> "list", xs |-> << SymX >>], << >>)
    [] o = "do_const" -> FuncV(<< Nm("x") >>, LitE(Ev(ElemV(2))), << >>)
    [] o = "do_null"  -> FuncV(<< Nm("x") >>, LitE(Null), << >>)
    [] o = "do_fail"  -> FuncV(<< Nm("x") >>, FailE, << >>)
    [] o = "or_const" -> FuncV(<< >>, LitE(Ev(ElemV(3))), << >>)
    [] o = "or_null"  -> FuncV(<< >>, LitE(Null), << >>)
    [] o = "or_fail"  -> FuncV(<< >>, FailE, << >>)
IsDo(o) == o \in {"do_wrap", "do_const", "do_null", "do_fail"}
RECURSIVE MChain(_, _)
MChain(m, ops) ==
  IF Len(ops) = 0 \/ Bad(m) THEN m
  ELSE MChain(CallF(m, IF IsDo(Head(ops)) THEN "do" ELSE "or", << MOp(Head(ops)) >>), Tail(ops))

CallH(h, a) ==
  LET L  == PkgLists
      TP == PkgTuples
      S  == PkgStrings
      F  == PkgFunctional
      SC == PkgSchema
      Ops == InstM(S, "ops", << Fld(Nm("str"), Ev(a[1])) >>)
  IN CASE h \in {"len", "reverse", "head", "tail"} -> CallF(L, h, << Ev(a[1]) >>)
       [] h = "enumerate" -> InstM(L, "enumerate", << Fld(Nm("list"), Ev(a[1])) >> \o Ov("start", a[2]) \o Ov("step", a[3]))
       [] h = "zip"       -> InstM(L, "zip", << Fld(Nm("list1"), Ev(a[1])), Fld(Nm("list2"), Ev(a[2])) >>)
       [] h = "slice"     -> InstM(L, "slice", << Fld(Nm("list"), Ev(a[1])) >> \o Ov("start", a[2]) \o Ov("end", a[3]))
       [] h = "str_join"  -> InstM(L, "str_join", << Fld(Nm("list"), Ev(a[1])) >> \o Ov("sep", a[2]))
       [] h \in {"fields", "values", "iter", "strip_nulls"} -> InstM(TP, h, << Fld(Nm("tpl"), Ev(a[1])) >>)
       [] h = "has_fields" -> InstM(TP, "has_fields", << Fld(Nm("tpl"), Ev(a[1])), Fld(Nm("fields"), Ev(a[2])) >>)
       [] h = "strlen"    -> Get(Ops, "len")
       [] h = "chars"     -> Get(Ops, "chars")
       [] h = "split_on"  -> InstM(Ops, "split_on", Ov("on", a[2]))
       [] h = "split_join" ->
            LET ps == InstM(Ops, "split_on", Ov("on", a[2]))
            IN IF Bad(ps) THEN ps ELSE InstM(L, "str_join", << Fld(Nm("list"), ps), Fld(Nm("sep"), Ev(a[2])) >>)
       [] h = "split_at"  -> CallF(Ops, "split_at", << Ev(a[2]) >>)
       [] h = "substr"    -> Get(InstM(Ops, "substr", Ov("start", a[2]) \o Ov("end", a[3])), "str")
       [] h = "parse_int_unwrap"  -> CallF(CallF(Ops, "parse_int", << >>), "unwrap", << >>)
       [] h = "parse_int_is_null" -> CallF(CallF(Ops, "parse_int", << >>), "is_null", << >>)
       [] h \in {"maybe_unwrap", "maybe_is_null", "maybe_expect"} ->
            LET m == MChain(InstM(F, "maybe", << Fld(Nm("val"), Ev(a[1])) >>), a[2].os)
            IN (CASE h = "maybe_unwrap"  -> CallF(m, "unwrap", << >>)
                  [] h = "maybe_is_null" -> CallF(m, "is_null", << >>)
                  [] h = "maybe_expect"  -> CallF(m, "expect", << StrV(<< "m" >>) >>))
       [] h = "base_type_of" -> CallF(SC, "base_type_of", << Ev(a[1]) >>)
       [] h = "shaped" -> InstM(SC, "shaped", << Fld(Nm("val"), Ev(a[1])), Fld(Nm("shape"), Ev(a[2])) >> \o Ov("partial", a[3]))
       [] h = "any"    -> InstM(SC, "any", << Fld(Nm("val"), Ev(a[1])), Fld(Nm("types"), Ev(a[2])) >> \o Ov("partial", a[3]))
       [] h = "all"    -> InstM(SC, "all", << Fld(Nm("val"), Ev(a[1])), Fld(Nm("types"), Ev(a[2])) >>)

(* ---- comparison -------------------------------------------------------------- *)
SrcResult == CallH(call[1], Args(fam, call, xs, ys))
SrcAdmitted(r, exp) ==
  IF r.t = "err" THEN exp.mayfail
  ELSE IF r.t = "unm" THEN FALSE
  ELSE \E j \in 1..Len(exp.ok) : VEq(r, Ev(exp.ok[j]))
Shown(r) == IF Bad(r) \/ HasFn(r) THEN [t |-> r.t] ELSE r

SrcAgrees ==
  phase = "done" =>
    LET r   == SrcResult
        exp == Outcome(SrcDevs, fam, call, xs, ys)
        c   == Case(fam, call, xs, ys)
    IN IF SrcAdmitted(r, exp) \/ SrcAdmitted(r, Outcome({}, fam, call, xs, ys))      \* a repaired source is fine, too
         THEN PrintT(<< "REPLAY", ToJson([fam |-> fam, h |-> call[1], srcfail |-> Bad(r)]) >>)
         ELSE PrintT(<< "DISAGREE", ToJson([fam |-> c.fam, h |-> c.h, args |-> c.args, ok |-> c.ok, mayfail |-> c.mayfail,
                                            dev |-> c.dev, devok |-> c.devok, devfail |-> c.devfail,
                                            srcdevs |-> SrcDevs, expok |-> exp.ok, expfail |-> exp.mayfail,
                                            src |-> Shown(r)]) >>)

(* the packages themselves evaluate (a std file that fails under the language   *)
(* reference would make every call an error and the comparison vacuous)         *)
PackagesEvaluate ==
  /\ PkgLists.t = "tuple" /\ PkgTuples.t = "tuple" /\ PkgStrings.t = "tuple"
  /\ PkgFunctional.t = "tuple" /\ PkgSchema.t = "tuple"
NoEnvVars == << >>
=============================================================================
