\* C19 growth, sanity: with SrcDevs = {} TLC must print DISAGREE lines for exactly the recorded defects of
\* the std sources (tail of [], zip of unequal lists, str_join with a leading "", shaped on tuples) - as long as
\* they are not repaired.  Needs C19_SRC like StdlibSrc.cfg.
CONSTANTS
  Families = {"list1", "enum", "zip", "slice", "join", "tuple", "str1", "split", "splitat", "substr", "parseint", "maybe", "basetype", "shaped", "anyall"}
  Size = "srcq"
  Sim = FALSE
  Deviations = {}
  KnownDevs = {"TailEmptyFails", "ZipLongerRange", "JoinSepSkippedWhileEmpty", "ShapedTupleLastFieldDecides"}
  SrcDevs = {}
  Strict = TRUE
  EnvVars <- NoEnvVars
INIT Init
NEXT Next
CHECK_DEADLOCK FALSE
INVARIANTS SrcAgrees PackagesEvaluate
