CONSTANTS
  Mode = "bodies"
  Rand = TRUE
  MaxToks = 0
  MaxBody = 16
  MaxSep = 0
  SepSet = "six"
  TrailCmt = FALSE
  Stepwise = TRUE
  Deviations = {}
INIT Init
NEXT Next
CHECK_DEADLOCK FALSE
INVARIANTS PosTruth Progress Monotone LongestOp Layout AlgEqualsRef Emit
