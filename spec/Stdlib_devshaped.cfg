\* C19 sanity of the laws: with the recorded deviation "ShapedTupleLastFieldDecides" switched on TLC must refute LawsSchema
CONSTANTS
  Families = {"shaped"}
  Size = "quick"
  Sim = FALSE
  Deviations = {"ShapedTupleLastFieldDecides"}
  KnownDevs = {"TailEmptyFails", "ZipLongerRange", "JoinSepSkippedWhileEmpty", "ShapedTupleLastFieldDecides"}
INIT Init
NEXT Next
CHECK_DEADLOCK FALSE
INVARIANTS LawsSchema
