\* simulation configuration: element depth 4, <= 4 children, <= 12 nodes (run with
\* -simulate num=300 -depth 80).  The driver generates several of these over seeded
\* samples of the features (vp/c12.py sim_configs): TLC's simulator picks among the
\* enabled choices, so a small feature pool is what makes large documents probable.
CONSTANTS
  MaxDepth = 4
  MaxKids = 4
  MaxNodes = 12
  MaxRare = 3
  CoreFeat = {"n:e1", "tf:bare", "tf:tt", "t:plain", "t:markup", "ns:d1", "av:pad", "n:e2", "ch:null"}
  RareFeat = {"t:uni", "t:ws", "attrs:nullfirst", "attrs:two", "ns:p1", "n:pe1", "ver:v11", "sa:yes",
              "bad:nameless", "attrs:int"}
  Deviations = {}
INIT Init
NEXT Next
CHECK_DEADLOCK FALSE
INVARIANTS XmlDocTotal ErrorIffMalformed ConvAgrees TagFormSame
