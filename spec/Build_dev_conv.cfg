CONSTANTS
  Deviations <- DevConv
  NF = 1
  Bodies <- Bodies14_2
  Layouts <- LayFlat1
  Cmds <- CmdBuild
  Cwds <- Cwd0
  Orders <- Orders1
  Pres <- PreBoth
  Repeat = 2
  EmitOn = FALSE
INIT Init
NEXT Next
CHECK_DEADLOCK FALSE
INVARIANTS ResolveRelToFile EvalOnce EvalOrder SameValue CycleIsDiagnostic VerdictIffAsserts ExitIffFail EachAssertOnce OneArtifact SecondOutIsError AllOrNothing BatchEqualsSolo
