\* C19 sanity of the laws: with the recorded deviation "JoinSepSkippedWhileEmpty" switched on TLC must refute LawsSplit
CONSTANTS
  Families = {"split"}
  Size = "quick"
  Sim = FALSE
  Deviations = {"JoinSepSkippedWhileEmpty"}
  KnownDevs = {"TailEmptyFails", "ZipLongerRange", "JoinSepSkippedWhileEmpty", "ShapedTupleLastFieldDecides"}
INIT Init
NEXT Next
CHECK_DEADLOCK FALSE
INVARIANTS LawsSplit
