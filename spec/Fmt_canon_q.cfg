CONSTANTS
  Deviations = {}
  KnownDevs = {"RangeStepColons", "FloatNoFraction", "BareFieldNotAWord"}
  DomSize = 2
  Blocks = 24
  MaxL = 0
  MaxStmts = 0
  MaxCmts = 0
  Spices = {}
  EmitEvery = 1
  EmitPhase = 0
INIT CanonInit
NEXT CanonNext
CHECK_DEADLOCK FALSE
INVARIANTS Injective Relexes CanonEmit
