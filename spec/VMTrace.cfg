CONSTANTS
  Strict = TRUE
  EnvVars <- NoEnvT
  TraceDevs = {"TupleEqUnordered", "AndOrRightUnchecked"}
SPECIFICATION TSpec
CHECK_DEADLOCK FALSE
INVARIANTS TraceNoPanic TraceJumps
