\* C19 sanity of the laws: with the recorded deviation "ZipLongerRange" switched on TLC must refute LawsZip
CONSTANTS
  Families = {"zip"}
  Size = "quick"
  Sim = FALSE
  Deviations = {"ZipLongerRange"}
  KnownDevs = {"TailEmptyFails", "ZipLongerRange", "JoinSepSkippedWhileEmpty", "ShapedTupleLastFieldDecides"}
INIT Init
NEXT Next
CHECK_DEADLOCK FALSE
INVARIANTS LawsZip
