-------------------------------- MODULE Xml --------------------------------
(* C12.  The XML document DSL of ucg (docsite reference/converters.md, XML;  *)
(* src/convert/xml.rs).                                                      *)
(*                                                                           *)
(*  - a generator machine whose behaviours are exactly the document tuples   *)
(*    of the bounded domain: element trees with bare-string and {text=}      *)
(*    children, attributes incl. NULL values, ns declarations, NULL / empty  *)
(*    attrs and children, version/encoding/standalone, and malformed         *)
(*    documents of every kind.  Strings are CLASSES, refined to concrete     *)
(*    members by the driver (DESIGN 3.6);                                    *)
(*  - the reference: XmlDoc(v) is the infoset a document tuple denotes       *)
(*    ([name, attributes as a set, in-scope namespaces, children in order] / *)
(*    text runs) or ERROR; Expect(v) adds what the statement leaves open;    *)
(*  - Write: write / write_node of xml.rs transcribed clause by clause down  *)
(*    to the events handed to the xml-rs EventWriter, and Read: what an XML  *)
(*    parser reads back from the bytes that writer produces for them -- with *)
(*    the recorded defects as NAMED DEVIATIONS (keys of known_findings).     *)
(* Checked: XmlDocTotal, ErrorIffMalformed, ConvAgrees (Deviations = {}),    *)
(* TagFormSame (std/xml.ucg constructors denote the same document).          *)
(* What the module cannot decide (DESIGN 6): whether a byte string is        *)
(* well-formed XML.  That is delegated to an independent parser (expat).     *)
EXTENDS Naturals, Sequences, FiniteSets, TLC, Json

CONSTANTS MaxDepth,     \* nesting of elements: 1 = only a root element
          MaxKids,      \* child nodes per element
          MaxNodes,     \* nodes (elements + text nodes + malformed nodes) per document
          MaxRare,      \* budget of features taken from RareFeat per document
          CoreFeat,     \* generator features usable without limit
          RareFeat,     \* generator features of which at most MaxRare occur in a document
          Deviations    \* deviations switched on in the checked design ({})

(* ---- values (DESIGN 3.1; strings are classes) ---------------------------- *)
Null == [t |-> "null"]
IntV == [t |-> "int"]
BoolV(x) == [t |-> "bool", b |-> x]
Str(c) == [t |-> "str", sc |-> c]
ListV(s) == [t |-> "list", es |-> s]
Tup(s) == [t |-> "tuple", fs |-> s]
Fld(n, v) == [nm |-> n, val |-> v]       \* nm: a literal DSL key, or "@.." = an attribute-name class

(* ---- string classes ------------------------------------------------------ *)
(* text / attribute values: plain ASCII word; markup-significant characters   *)
(* (< > & ' " ]]> entity and CDATA look-alikes); the empty string;            *)
(* whitespace only (space, tab, LF); text with leading / trailing whitespace; *)
(* arbitrary non-ASCII Unicode; text containing CR; text containing TAB;      *)
(* text containing a character no XML 1.0 document can hold (C0 controls).    *)
TextClasses == { "plain", "markup", "empty", "ws", "pad", "uni", "cr", "tab", "ctrl" }
(* element names: two pools of ASCII names, one of non-ASCII names, and       *)
(* names with the prefix p / q (only generated where the prefix is bound).    *)
ElemNames == { "e1", "e2", "eu", "pe1", "qe1" }
NamePfx(n) == CASE n = "pe1" -> "p" [] n = "qe1" -> "q" [] OTHER -> ""
AttrNames == { "@a1", "@a2", "@pa" }
AttrPfx(a) == IF a = "@pa" THEN "p" ELSE ""
(* namespace URIs: two plain ones and one with markup-significant characters  *)
UriClasses == { "u1", "u2", "uamp" }
NonAsciiClasses == { "uni", "eu" }

(* in-scope namespaces of an element: default (d) and the prefixes p, q *)
NoScope == [d |-> "none", p |-> "none", q |-> "none"]

Idx(fs, n) ==      \* index of the field named n (the last one, as a loop that overwrites sees it), 0 = absent
  IF \E j \in 1..Len(fs) : fs[j].nm = n
    THEN CHOOSE j \in 1..Len(fs) : fs[j].nm = n /\ \A i \in (j + 1)..Len(fs) : fs[i].nm # n
    ELSE 0

(* ---- infoset ------------------------------------------------------------- *)
(* [k|->"el", nm|->[sc,at], attrs|->Seq([an|->[sc,at], av|->[sc,at,via]]),    *)
(*  ns|->[d,p,q], kids|->Seq(node)]   [k|->"text", segs|->Seq([sc,at,via])]   *)
(* `at` is the path (1-based child indexes) of the string leaf in the         *)
(* document tuple: value and predicted document are refined by the same map.  *)
(* `via` names an alteration a deviation applies to the item ("exact" = none).*)
ErrN == [k |-> "err"]
SegN(c, p, via) == [k |-> "seg", seg |-> [sc |-> c, at |-> p, via |-> via]]

(* adjacent text nodes are one run of character data; the empty string is no  *)
(* character data at all                                                      *)
RECURSIVE Merge(_)
Merge(ns) ==
  IF Len(ns) = 0 THEN << >>
  ELSE LET h == ns[1]
           r == Merge(Tail(ns))
       IN IF h.k = "el" THEN << h >> \o r
          ELSE IF h.seg.sc = "empty" THEN r
          ELSE IF Len(r) > 0 /\ r[1].k = "text"
                 THEN << [k |-> "text", segs |-> << h.seg >> \o r[1].segs] >> \o Tail(r)
                 ELSE << [k |-> "text", segs |-> << h.seg >>] >> \o r

Indexed(s) == [j \in 1..Len(s) |-> [j |-> j, f |-> s[j]]]

(* ---- the reference: the document a tuple denotes (converters.md, XML) ---- *)
(* `ns`: a string sets the default namespace, a tuple {prefix, uri} binds a   *)
(* prefix.                                                                    *)
RefNs(fs, scope) ==
  LET i == Idx(fs, "ns")
  IN IF i = 0 THEN [ok |-> TRUE, sc |-> scope]
     ELSE LET v == fs[i].val
          IN CASE v.t = "str" -> [ok |-> TRUE, sc |-> [scope EXCEPT !.d = v.sc]]
               [] v.t = "tuple" ->
                    LET ip == Idx(v.fs, "prefix")
                        iu == Idx(v.fs, "uri")
                    IN IF ip > 0 /\ iu > 0 /\ v.fs[ip].val.t = "str" /\ v.fs[iu].val.t = "str"
                         THEN [ok |-> TRUE, sc |-> [scope EXCEPT ![v.fs[ip].val.sc] = v.fs[iu].val.sc]]
                         ELSE [ok |-> FALSE, sc |-> scope]
               [] OTHER -> [ok |-> FALSE, sc |-> scope]

(* `attrs`: a tuple or NULL; every field a string or NULL; NULL = not set.    *)
AttrSeq(afs, p) ==
  LET strs == SelectSeq(Indexed(afs), LAMBDA x : x.f.val.t = "str")
  IN [n \in 1..Len(strs) |->
        [an |-> [sc |-> strs[n].f.nm, at |-> Append(p, strs[n].j)],
         av |-> [sc |-> strs[n].f.val.sc, at |-> Append(p, strs[n].j), via |-> "exact"]]]

RefAttrs(fs, path) ==
  LET i == Idx(fs, "attrs")
  IN IF i = 0 THEN [ok |-> TRUE, ats |-> << >>]
     ELSE LET v == fs[i].val
          IN CASE v.t = "null" -> [ok |-> TRUE, ats |-> << >>]
               [] v.t = "tuple" ->
                    IF \E j \in 1..Len(v.fs) : v.fs[j].val.t \notin {"null", "str"}
                      THEN [ok |-> FALSE, ats |-> << >>]
                      ELSE [ok |-> TRUE, ats |-> AttrSeq(v.fs, Append(path, i))]
               [] OTHER -> [ok |-> FALSE, ats |-> << >>]

RECURSIVE RefNode(_, _, _)

(* `children`: a list of element and text nodes, or NULL *)
RefKids(fs, path, scope) ==
  LET i == Idx(fs, "children")
  IN IF i = 0 THEN [ok |-> TRUE, ks |-> << >>]
     ELSE LET v == fs[i].val
              p == Append(path, i)
          IN CASE v.t = "null" -> [ok |-> TRUE, ks |-> << >>]
               [] v.t = "list" ->
                    LET ns == [j \in 1..Len(v.es) |-> RefNode(v.es[j], Append(p, j), scope)]
                    IN IF \E j \in 1..Len(ns) : ns[j].k = "err" THEN [ok |-> FALSE, ks |-> << >>]
                       ELSE [ok |-> TRUE, ks |-> Merge(ns)]
               [] OTHER -> [ok |-> FALSE, ks |-> << >>]

RefElem(fs, path, scope) ==
  LET iN  == Idx(fs, "name")
      nv  == fs[iN].val
      ns  == RefNs(fs, scope)
      ats == RefAttrs(fs, path)
      ks  == RefKids(fs, path, ns.sc)
  IN IF nv.t # "str" \/ ~ns.ok \/ ~ats.ok \/ ~ks.ok THEN ErrN
     ELSE [k |-> "el", nm |-> [sc |-> nv.sc, at |-> Append(path, iN)],
           attrs |-> ats.ats, ns |-> ns.sc, kids |-> ks.ks]

(* a node is an element (tuple with `name`), a text node (a string, or a      *)
(* tuple with `text`); anything else -- and a tuple with both -- is no node   *)
RefNode(v, path, scope) ==
  CASE v.t = "str" -> SegN(v.sc, path, "exact")
    [] v.t = "tuple" ->
         LET iN == Idx(v.fs, "name")
             iT == Idx(v.fs, "text")
         IN IF iN > 0 /\ iT > 0 THEN ErrN
            ELSE IF iN > 0 THEN RefElem(v.fs, path, scope)
            ELSE IF iT > 0
                   THEN (IF v.fs[iT].val.t = "str" THEN SegN(v.fs[iT].val.sc, Append(path, iT), "exact") ELSE ErrN)
            ELSE ErrN
    [] OTHER -> ErrN

Error == [k |-> "error"]
AnyOut == [k |-> "any"]
NotWf == [k |-> "notwf"]
OkAny == [k |-> "okany"]      \* output whose reading the specification does not predict
(* dec: how the bytes are to be decoded -- "label" = as the declaration says *)
DocOut(r, enc, ver, dec) == [k |-> "doc", root |-> r, enc |-> enc, ver |-> ver, dec |-> dec, lenient |-> FALSE]

StrField(fs, n) == LET i == Idx(fs, n) IN IF i > 0 /\ fs[i].val.t = "str" THEN fs[i].val.sc ELSE "-"

XmlDoc(v) ==
  IF v.t # "tuple" THEN Error
  ELSE LET fs == v.fs
           iR == Idx(fs, "root")
           iV == Idx(fs, "version")
           iE == Idx(fs, "encoding")
           verOk == iV = 0 \/ (fs[iV].val.t = "str" /\ fs[iV].val.sc \in {"v10", "v11"})
           encOk == iE = 0 \/ fs[iE].val.t = "str"
       IN IF iR = 0 \/ ~verOk \/ ~encOk THEN Error
          ELSE LET r == RefNode(fs[iR].val, << iR >>, NoScope)
               IN IF r.k # "el" THEN Error          \* not a node, or a text node: a document has a root ELEMENT
                  ELSE DocOut(r, StrField(fs, "encoding"), StrField(fs, "version"), "label")

RECURSIVE TreeHas(_, _)
TreeHas(x, cs) ==      \* does a string of one of the classes cs occur in the (sub)tree ?
  IF x.k = "text" THEN \E s \in 1..Len(x.segs) : x.segs[s].sc \in cs
  ELSE \/ x.nm.sc \in cs
       \/ \E a \in 1..Len(x.attrs) : x.attrs[a].av.sc \in cs \/ x.attrs[a].an.sc \in cs
       \/ \E j \in 1..Len(x.kids) : TreeHas(x.kids[j], cs)

(* What the statement demands.  Left open by it, hence not demanded:          *)
(*  - a character no XML 1.0 document can hold: the only outcome consistent   *)
(*    with "well-formed and same text" is an error; under version 1.1 a       *)
(*    character reference would do, which the 1.0 parser used as oracle       *)
(*    cannot read -- anything is accepted there;                              *)
(*  - an encoding other than UTF-8: honour it or refuse it (lenient).         *)
Expect(v) ==
  LET x == XmlDoc(v)
  IN IF x.k = "error" THEN x
     ELSE IF TreeHas(x.root, {"ctrl"}) THEN (IF x.ver = "v11" THEN AnyOut ELSE Error)
     ELSE [x EXCEPT !.lenient = (x.enc \in {"latin1", "utf16"})]

(* ---- equality of infosets / outcomes (tag-guarded, never `=`) ------------ *)
ItemEq(a, b) == a.sc = b.sc /\ a.at = b.at
ValEq(a, b) == a.sc = b.sc /\ a.at = b.at /\ a.via = b.via
RECURSIVE NodeEq(_, _)
NodeEq(a, b) ==
  /\ a.k = b.k
  /\ CASE a.k = "text" -> /\ Len(a.segs) = Len(b.segs)
                          /\ \A s \in 1..Len(a.segs) : ValEq(a.segs[s], b.segs[s])
       [] a.k = "el" ->
            /\ ItemEq(a.nm, b.nm)
            /\ a.ns.d = b.ns.d /\ a.ns.p = b.ns.p /\ a.ns.q = b.ns.q
            /\ Len(a.attrs) = Len(b.attrs)          \* attributes are a set
            /\ \A i \in 1..Len(a.attrs) : \E j \in 1..Len(b.attrs) :
                 ItemEq(a.attrs[i].an, b.attrs[j].an) /\ ValEq(a.attrs[i].av, b.attrs[j].av)
            /\ Len(a.kids) = Len(b.kids)            \* children in order
            /\ \A j \in 1..Len(a.kids) : NodeEq(a.kids[j], b.kids[j])
       [] OTHER -> FALSE

SameOut(a, b) ==
  /\ a.k = b.k
  /\ a.k = "doc" => (NodeEq(a.root, b.root) /\ a.dec = b.dec /\ a.lenient = b.lenient)

(* does an observed / transcribed outcome c satisfy the expectation e ? *)
Agree(c, e) ==
  CASE e.k = "any"   -> TRUE
    [] e.k = "error" -> c.k = "error"
    [] OTHER -> \/ /\ c.k = "doc" /\ NodeEq(c.root, e.root)
                   \* UTF-8 bytes under a Latin-1 label read the same only when they are ASCII
                   /\ (c.dec = "label" \/ ~TreeHas(c.root, NonAsciiClasses))
                \/ e.lenient /\ c.k = "error"

(* ---- the converter, transcribed (src/convert/xml.rs) --------------------- *)
(* Named deviations (= keys of known_findings.jsonl).  The design is         *)
(* model-checked with Deviations = {}; Emit predicts with them on.            *)
AllDevSeq ==
  << "nameless-node-skipped",        \* xml.rs:115-142  a tuple with neither name nor text: no else branch
     "root-text-node-written",       \* xml.rs:210      root handed to write_node whatever kind of node it is
     "text-cr-unescaped",            \* xml-rs PcDataEscapes: CR written raw, a parser reads LF
     "attr-tab-unescaped",           \* xml-rs AttributeEscapes: TAB written raw, a parser reads a space
     "ns-uri-unescaped",             \* xml-rs emit_current_namespace_attributes: uri written with {uri}
     "ns-redeclaration-dropped",     \* xml-rs put_checked: a binding found ANYWHERE in the stack is not re-declared
     "forbidden-char-written-raw",   \* no check that a string holds XML characters only
     "encoding-label-not-honoured" >> \* xml.rs:166,207 `encoding` copied into the declaration, bytes stay UTF-8
AllDeviations == { AllDevSeq[i] : i \in 1..Len(AllDevSeq) }

(* events handed to EventWriter::write *)
StartEv(nm, ats, pf, uri) == [e |-> "start", nm |-> nm, attrs |-> ats, dpf |-> pf, duri |-> uri]
CharsEv(c, p) == [e |-> "chars", sc |-> c, at |-> p]
EndEv == [e |-> "end"]
OkEv(s) == [ok |-> TRUE, evs |-> s]
Fail == [ok |-> FALSE, evs |-> << >>]

RECURSIVE Flatten(_)
Flatten(rs) == IF Len(rs) = 0 THEN << >> ELSE rs[1].evs \o Flatten(Tail(rs))

(* xml.rs:69-90.  pf "-" = no declaration; "d" = default namespace.           *)
NsOf(fs) ==
  LET i == Idx(fs, "ns")
      none == [ok |-> TRUE, pf |-> "-", uri |-> "-"]
  IN IF i = 0 THEN none
     ELSE LET v == fs[i].val
          IN CASE v.t = "tuple" ->
                    LET ip == Idx(v.fs, "prefix")
                        iu == Idx(v.fs, "uri")
                        \* `if val.is_empty() { continue; }` then get_str_val(..)?
                        pfBad  == ip > 0 /\ v.fs[ip].val.t \notin {"null", "str"}
                        uriBad == iu > 0 /\ v.fs[iu].val.t \notin {"null", "str"}
                        pf  == IF ip > 0 /\ v.fs[ip].val.t = "str" THEN v.fs[ip].val.sc ELSE "empty"
                        uri == IF iu > 0 /\ v.fs[iu].val.t = "str" THEN v.fs[iu].val.sc ELSE "empty"
                    IN IF pfBad \/ uriBad THEN [ok |-> FALSE, pf |-> "-", uri |-> "-"]
                       ELSE IF uri # "empty" /\ pf # "empty" THEN [ok |-> TRUE, pf |-> pf, uri |-> uri]
                       ELSE none
               [] v.t = "str" ->        \* Some(("", s)); the writer emits no xmlns="" for the empty URI
                    IF v.sc = "empty" THEN none ELSE [ok |-> TRUE, pf |-> "d", uri |-> v.sc]
               [] OTHER -> none         \* any other `ns` is ignored

(* w.write(XmlEvent::characters(s)).  The corrected design refuses a string   *)
(* that no XML document can hold.                                             *)
Chars(D, c, p) ==
  IF c = "ctrl" /\ "forbidden-char-written-raw" \notin D THEN Fail ELSE OkEv(<< CharsEv(c, p) >>)

RECURSIVE WriteNode(_, _, _)
WriteKids(D, es, p) ==      \* xml.rs:133-137, `?` ends at the first failing child
  LET rs == [j \in 1..Len(es) |-> WriteNode(D, es[j], Append(p, j))]
  IN IF \E j \in 1..Len(rs) : ~rs[j].ok THEN Fail ELSE OkEv(Flatten(rs))

WriteNode(D, v, p) ==
  CASE v.t = "tuple" ->
         LET fs == v.fs
             iN == Idx(fs, "name")
             iA == Idx(fs, "attrs")
             iC == Idx(fs, "children")
             iT == Idx(fs, "text")
             nameBad  == iN > 0 /\ fs[iN].val.t # "str"                       \* :66-68
             ns       == NsOf(fs)                                             \* :69-90
             attrsBad == iA > 0 /\ fs[iA].val.t \notin {"null", "tuple"}      \* :91-96
             kidsBad  == iC > 0 /\ fs[iC].val.t \notin {"null", "list"}       \* :97-102
             textBad  == iT > 0 /\ fs[iT].val.t \notin {"null", "str"}        \* :103-106
             hasName  == iN > 0
             hasText  == iT > 0 /\ fs[iT].val.t = "str"
         IN IF nameBad \/ ~ns.ok \/ attrsBad \/ kidsBad \/ textBad THEN Fail
            ELSE IF hasName /\ hasText THEN Fail                              \* :108-114
            ELSE IF hasName THEN                                              \* :115-139
              LET afs == IF iA > 0 /\ fs[iA].val.t = "tuple" THEN fs[iA].val.fs ELSE << >>
                  attrBad == \E j \in 1..Len(afs) : afs[j].val.t \notin {"null", "str"}    \* :118-123
                  ctrlBad == /\ "forbidden-char-written-raw" \notin D
                             /\ \E j \in 1..Len(afs) : afs[j].val.t = "str" /\ afs[j].val.sc = "ctrl"
                  kids == IF iC > 0 /\ fs[iC].val.t = "list"
                            THEN WriteKids(D, fs[iC].val.es, Append(p, iC)) ELSE OkEv(<< >>)
              IN IF attrBad \/ ctrlBad \/ ~kids.ok THEN Fail
                 ELSE OkEv(<< StartEv([sc |-> fs[iN].val.sc, at |-> Append(p, iN)],
                                      IF Len(afs) = 0 THEN << >> ELSE AttrSeq(afs, Append(p, iA)),
                                      ns.pf, ns.uri) >>
                           \o kids.evs \o << EndEv >>)
            ELSE IF hasText THEN Chars(D, fs[iT].val.sc, Append(p, iT))       \* :140-142
            ELSE IF "nameless-node-skipped" \in D THEN OkEv(<< >>)            \* nothing written, Ok(())
            ELSE Fail
    [] v.t = "str" -> Chars(D, v.sc, p)                                       \* :143-144
    [] OTHER -> Fail                                                          \* :145-151

IsTextNode(v) ==
  \/ v.t = "str"
  \/ v.t = "tuple" /\ Idx(v.fs, "name") = 0 /\ Idx(v.fs, "text") > 0 /\ v.fs[Idx(v.fs, "text")].val.t = "str"

Write(D, v) ==                                                                \* xml.rs:155-221
  IF v.t # "tuple" THEN Error                                                 \* :219
  ELSE LET fs == v.fs
           iV == Idx(fs, "version")
           iE == Idx(fs, "encoding")
           iR == Idx(fs, "root")
           verBad == iV > 0 /\ fs[iV].val.t # "str"                           \* :163
           encBad == iE > 0 /\ fs[iE].val.t # "str"                           \* :166
           enc    == StrField(fs, "encoding")
       IN IF verBad \/ encBad THEN Error
          ELSE IF iR = 0 THEN Error                                           \* :212-216
          ELSE IF iV > 0 /\ fs[iV].val.sc \notin {"v10", "v11"} THEN Error    \* :186-201
          \* corrected design: an encoding the writer cannot produce is refused
          ELSE IF enc \in {"latin1", "utf16"} /\ "encoding-label-not-honoured" \notin D THEN Error
          \* corrected design: the root is an element
          ELSE IF IsTextNode(fs[iR].val) /\ "root-text-node-written" \notin D THEN Error
          ELSE LET r == WriteNode(D, fs[iR].val, << iR >>)                    \* :204-210
               IN IF ~r.ok THEN Error
                  ELSE [k |-> "events", evs |-> r.evs, enc |-> enc, ver |-> StrField(fs, "version")]

(* What a parser reads from the bytes the EventWriter (perform_indent, no     *)
(* empty-element normalisation) produces for the events.  hist: the           *)
(* (prefix, uri) pairs in the writer's namespace stack, at any level.         *)
TextVia(D, c) == IF c = "cr" /\ "text-cr-unescaped" \in D THEN "crnorm" ELSE "exact"
ReadAttrs(D, ats) ==
  [n \in 1..Len(ats) |->
     [ats[n] EXCEPT !.av.via = IF ats[n].av.sc = "tab" /\ "attr-tab-unescaped" \in D THEN "tabnorm" ELSE "exact"]]

RECURSIVE ParseKids(_, _, _, _, _)
ParseKids(D, evs, i, scope, hist) ==     \* -> [ns: nodes up to the matching end, nx: index behind it]
  IF i > Len(evs) THEN [ns |-> << >>, nx |-> i]
  ELSE LET e == evs[i]
       IN CASE e.e = "end" -> [ns |-> << >>, nx |-> i + 1]
            [] e.e = "chars" ->
                 LET r == ParseKids(D, evs, i + 1, scope, hist)
                 IN [r EXCEPT !.ns = << SegN(e.sc, e.at, TextVia(D, e.sc)) >> \o @]
            [] OTHER ->
                 LET declares == e.dpf # "-"
                     \* put_checked: skipped when some level of the stack maps the prefix to this uri --
                     \* harmless when that binding is the one in scope, wrong when it is shadowed
                     written  == declares /\ ~("ns-redeclaration-dropped" \in D /\ << e.dpf, e.duri >> \in hist)
                     sc2   == IF written THEN [scope EXCEPT ![e.dpf] = e.duri] ELSE scope
                     hist2 == IF written THEN hist \cup { << e.dpf, e.duri >> } ELSE hist
                     inner == ParseKids(D, evs, i + 1, sc2, hist2)
                     el    == [k |-> "el", nm |-> e.nm, attrs |-> ReadAttrs(D, e.attrs), ns |-> sc2,
                               kids |-> Merge(inner.ns)]
                     rest  == ParseKids(D, evs, inner.nx, scope, hist)
                 IN [rest EXCEPT !.ns = << el >> \o @]

Read(D, o) ==
  IF o.k = "error" THEN Error
  ELSE LET top == Merge(ParseKids(D, o.evs, 1, NoScope, {}).ns)
       IN IF Len(top) # 1 \/ top[1].k # "el" THEN NotWf            \* a document is one root element
          ELSE IF o.enc = "utf16" THEN NotWf                        \* UTF-8 bytes under a UTF-16 label
          ELSE IF "ns-uri-unescaped" \in D /\ \E j \in 1..Len(o.evs) : o.evs[j].e = "start" /\ o.evs[j].duri = "uamp"
                 THEN NotWf
          \* a forbidden character written raw; under a Latin-1 label its UTF-8 bytes may read as other characters
          ELSE IF TreeHas(top[1], {"ctrl"}) THEN (IF o.enc = "latin1" THEN OkAny ELSE NotWf)
          ELSE DocOut(top[1], o.enc, o.ver, IF o.enc = "latin1" THEN "utf8bytes" ELSE "label")

Imp(D, v) == Read(D, Write(D, v))

(* ---- std/xml.ucg: `tag` fills in attrs = {} and children = [] ------------ *)
(* (appended here, so that the paths of the existing leaves stay the same)    *)
RECURSIVE TagNode(_)
TagNode(v) ==
  IF v.t = "tuple" /\ Idx(v.fs, "name") > 0 /\ Idx(v.fs, "text") = 0
    THEN LET fs1 == [j \in 1..Len(v.fs) |->
                       IF v.fs[j].nm = "children" /\ v.fs[j].val.t = "list"
                         THEN Fld("children", ListV([i \in 1..Len(v.fs[j].val.es) |-> TagNode(v.fs[j].val.es[i])]))
                         ELSE v.fs[j]]
             fs2 == IF Idx(v.fs, "attrs") = 0 THEN Append(fs1, Fld("attrs", Tup(<< >>))) ELSE fs1
             fs3 == IF Idx(v.fs, "children") = 0 THEN Append(fs2, Fld("children", ListV(<< >>))) ELSE fs2
         IN Tup(fs3)
    ELSE v
TagDoc(v) ==
  IF v.t = "tuple"
    THEN Tup([j \in 1..Len(v.fs) |-> IF v.fs[j].nm = "root" THEN Fld("root", TagNode(v.fs[j].val)) ELSE v.fs[j]])
    ELSE v

(* ---- generator machine --------------------------------------------------- *)
(* A stack of open elements, innermost last (the bottom frame collects the    *)
(* root).  Every choice that is not the plain default names a FEATURE; a      *)
(* feature is usable when it is in CoreFeat (free) or in RareFeat (one unit   *)
(* of the budget MaxRare).                                                    *)
VARIABLES stack, rare, nodes, phase, doc, bad, used      \* bad, used: the generator's own book-keeping
vars == << stack, rare, nodes, phase, doc, bad, used >>

NsChoices == { "none", "d1", "d2", "damp", "p1", "p2", "q1", "q2", "pamp" }
NsTup(p, u) == Tup(<< Fld("prefix", Str(p)), Fld("uri", Str(u)) >>)
NsVal(c) ==
  CASE c = "d1" -> Str("u1") [] c = "d2" -> Str("u2") [] c = "damp" -> Str("uamp")
    [] c = "p1" -> NsTup("p", "u1") [] c = "p2" -> NsTup("p", "u2") [] c = "pamp" -> NsTup("p", "uamp")
    [] c = "q1" -> NsTup("q", "u1") [] c = "q2" -> NsTup("q", "u2")
    [] OTHER -> Null
NsDeclares(c) == IF c \in {"p1", "p2", "pamp"} THEN {"p"} ELSE IF c \in {"q1", "q2"} THEN {"q"} ELSE {}
NsFeat(c) == IF c = "none" THEN "-" ELSE "ns:" \o c

AttrKinds == { "none", "null", "empty", "two", "nullfirst", "nulllast", "allnull", "pfx",
               "int", "bool", "listval", "tupleval", "str", "list", "intattrs" }
AttrBadKinds == { "int", "bool", "listval", "tupleval", "str", "list", "intattrs" }
AttrChoices == { [k |-> kd, c |-> "-"] : kd \in AttrKinds } \cup { [k |-> "one", c |-> cl] : cl \in TextClasses }
NoAttr == [k |-> "none", c |-> "-"]
AttrVal(ac) ==
  CASE ac.k = "null"      -> Null
    [] ac.k = "empty"     -> Tup(<< >>)
    [] ac.k = "one"       -> Tup(<< Fld("@a1", Str(ac.c)) >>)
    [] ac.k = "two"       -> Tup(<< Fld("@a1", Str("plain")), Fld("@a2", Str("markup")) >>)
    [] ac.k = "nullfirst" -> Tup(<< Fld("@a1", Null), Fld("@a2", Str("plain")) >>)
    [] ac.k = "nulllast"  -> Tup(<< Fld("@a1", Str("markup")), Fld("@a2", Null) >>)
    [] ac.k = "allnull"   -> Tup(<< Fld("@a1", Null) >>)
    [] ac.k = "pfx"       -> Tup(<< Fld("@pa", Str("plain")), Fld("@a1", Str("plain")) >>)
    [] ac.k = "int"       -> Tup(<< Fld("@a1", IntV) >>)
    [] ac.k = "bool"      -> Tup(<< Fld("@a1", Str("plain")), Fld("@a2", BoolV(TRUE)) >>)
    [] ac.k = "listval"   -> Tup(<< Fld("@a1", ListV(<< Str("plain") >>)) >>)
    [] ac.k = "tupleval"  -> Tup(<< Fld("@a1", Tup(<< >>)) >>)
    [] ac.k = "str"       -> Str("plain")
    [] ac.k = "list"      -> ListV(<< >>)
    [] OTHER              -> IntV
AttrFeat(ac) == IF ac.k = "none" THEN "-" ELSE IF ac.k = "one" THEN "av:" \o ac.c ELSE "attrs:" \o ac.k

BadNodeKinds == { "int", "bool", "null", "list", "nameandtext", "textandname", "nameless", "namelessattrs",
                  "namelesskids", "nonstrname", "nullname", "nonstrtext" }
BadNode(kd) ==
  CASE kd = "int"  -> IntV
    [] kd = "bool" -> BoolV(FALSE)
    [] kd = "null" -> Null
    [] kd = "list" -> ListV(<< Str("plain") >>)
    [] kd = "nameandtext"   -> Tup(<< Fld("name", Str("e1")), Fld("text", Str("plain")) >>)
    [] kd = "textandname"   -> Tup(<< Fld("text", Str("plain")), Fld("name", Str("e1")) >>)
    [] kd = "nameless"      -> Tup(<< >>)
    [] kd = "namelessattrs" -> Tup(<< Fld("attrs", Tup(<< Fld("@a1", Str("plain")) >>)) >>)
    [] kd = "namelesskids"  -> Tup(<< Fld("children", ListV(<< Str("plain") >>)) >>)
    [] kd = "nonstrname"    -> Tup(<< Fld("name", IntV) >>)
    [] kd = "nullname"      -> Tup(<< Fld("name", Null) >>)
    [] OTHER                -> Tup(<< Fld("text", IntV) >>)

KidForms == { "absent", "null", "empty", "str", "tuple", "int" }      \* `children` of an element without child nodes
KidBadForms == { "str", "tuple", "int" }
KidFormVal(f) ==
  CASE f = "null" -> Null [] f = "empty" -> ListV(<< >>) [] f = "str" -> Str("plain")
    [] f = "tuple" -> Tup(<< >>) [] OTHER -> IntV
KidFeat(f) == IF f \in {"absent", "list"} THEN "-" ELSE "ch:" \o f

VerChoices == { "-", "v10", "v11", "v20", "int" }
EncChoices == { "-", "utf8", "latin1", "utf16", "int" }
SaChoices  == { "-", "yes", "no" }
DeclFeat(kind, c) == IF c = "-" THEN "-" ELSE kind \o ":" \o c

BadDocKinds == { "doc:int", "doc:list", "doc:str", "doc:null", "doc:noroot", "doc:norootver",
                 "root:str", "root:strempty", "root:tt", "root:null", "root:nameless", "root:int", "root:list" }
BadDoc(kd) ==
  CASE kd = "doc:int"  -> IntV
    [] kd = "doc:list" -> ListV(<< Tup(<< Fld("name", Str("e1")) >>) >>)
    [] kd = "doc:str"  -> Str("plain")
    [] kd = "doc:null" -> Null
    [] kd = "doc:noroot"    -> Tup(<< >>)
    [] kd = "doc:norootver" -> Tup(<< Fld("version", Str("v10")) >>)
    [] kd = "root:str"      -> Tup(<< Fld("root", Str("plain")) >>)
    [] kd = "root:strempty" -> Tup(<< Fld("root", Str("empty")) >>)
    [] kd = "root:tt"       -> Tup(<< Fld("root", Tup(<< Fld("text", Str("plain")) >>)) >>)
    [] kd = "root:null"     -> Tup(<< Fld("root", Null) >>)
    [] kd = "root:nameless" -> Tup(<< Fld("root", Tup(<< >>)) >>)
    [] kd = "root:int"      -> Tup(<< Fld("root", IntV) >>)
    [] OTHER                -> Tup(<< Fld("root", ListV(<< Tup(<< Fld("name", Str("e1")) >>) >>)) >>)

AllFeatures ==
  { "n:" \o n : n \in ElemNames } \cup { NsFeat(c) : c \in NsChoices \ {"none"} }
  \cup { AttrFeat(ac) : ac \in AttrChoices \ {NoAttr} }
  \cup { "t:" \o c : c \in TextClasses } \cup { "tf:bare", "tf:tt", "ord:rev" }
  \cup { KidFeat(f) : f \in KidForms \ {"absent"} }
  \cup { "bad:" \o kd : kd \in BadNodeKinds }
  \cup { DeclFeat("ver", c) : c \in VerChoices \ {"-"} } \cup { DeclFeat("enc", c) : c \in EncChoices \ {"-"} }
  \cup { DeclFeat("sa", c) : c \in SaChoices \ {"-"} }
  \cup BadDocKinds

ASSUME /\ CoreFeat \subseteq AllFeatures /\ RareFeat \subseteq AllFeatures /\ CoreFeat \cap RareFeat = {}
       /\ Deviations \subseteq AllDeviations

Usable(f) == f = "-" \/ f \in CoreFeat \/ f \in RareFeat
Cost(f) == IF f = "-" \/ f \in CoreFeat THEN 0 ELSE 1

Frame(nm, nsc, ac, ord, pfx) == [nm |-> nm, nsc |-> nsc, ac |-> ac, ord |-> ord, pfx |-> pfx, kids |-> << >>]
Bottom == Frame("-", "none", NoAttr, "std", {})
Top == stack[Len(stack)]

Init == /\ stack = << Bottom >> /\ rare = 0 /\ nodes = 0 /\ phase = "build" /\ doc = Null /\ bad = FALSE
        /\ used = {}
Use(fs) == used' = used \cup (fs \ {"-"})

CanAccept == IF Len(stack) = 1 THEN Len(Top.kids) = 0 ELSE Len(Top.kids) < MaxKids
PutKid(v) == [stack EXCEPT ![Len(stack)].kids = Append(@, v)]

(* The choices of an action, grouped by what they cost (constant-level, so    *)
(* evaluated once): a state only enumerates the choices its budget allows.    *)
OpenFeats(ch) == << "n:" \o ch.nm, NsFeat(ch.nsc), AttrFeat(ch.ac), IF ch.ord = "rev" THEN "ord:rev" ELSE "-" >>
Cost4(fs) == Cost(fs[1]) + Cost(fs[2]) + Cost(fs[3]) + Cost(fs[4])
OpenChoices ==
  TLCEval({ ch \in [nm : ElemNames, nsc : NsChoices, ac : AttrChoices, ord : {"std", "rev"}] :
              \A j \in 1..4 : Usable(OpenFeats(ch)[j]) })
OpenByCost == TLCEval([c \in 0..4 |-> TLCEval({ ch \in OpenChoices : Cost4(OpenFeats(ch)) = c })])
Budget == 0..(IF MaxRare - rare > 4 THEN 4 ELSE MaxRare - rare)

Open(ch, cost) ==
  LET pfx == Top.pfx \cup NsDeclares(ch.nsc)
  IN /\ phase = "build" /\ CanAccept /\ Len(stack) <= MaxDepth /\ nodes < MaxNodes
     /\ NamePfx(ch.nm) # "" => NamePfx(ch.nm) \in pfx            \* only bound prefixes (precondition of C12)
     /\ ch.ac.k = "pfx" => "p" \in pfx
     /\ stack' = Append(stack, Frame(ch.nm, ch.nsc, ch.ac, ch.ord, pfx))
     /\ rare' = rare + cost /\ nodes' = nodes + 1
     /\ bad' = (bad \/ ch.ac.k \in AttrBadKinds)
     /\ Use({ OpenFeats(ch)[j] : j \in 1..4 })
     /\ UNCHANGED << phase, doc >>

Text(form, c) ==
  LET f1 == "tf:" \o form
      f2 == "t:" \o c
  IN /\ phase = "build" /\ Len(stack) > 1 /\ CanAccept /\ nodes < MaxNodes
     /\ Usable(f1) /\ Usable(f2) /\ rare + Cost(f1) + Cost(f2) <= MaxRare
     /\ stack' = PutKid(IF form = "bare" THEN Str(c) ELSE Tup(<< Fld("text", Str(c)) >>))
     /\ rare' = rare + Cost(f1) + Cost(f2) /\ nodes' = nodes + 1 /\ Use({f1, f2})
     /\ UNCHANGED << phase, doc, bad >>

BadKid(kd) ==
  LET f == "bad:" \o kd
  IN /\ phase = "build" /\ Len(stack) > 1 /\ CanAccept /\ nodes < MaxNodes
     /\ Usable(f) /\ rare + Cost(f) <= MaxRare
     /\ stack' = PutKid(BadNode(kd))
     /\ rare' = rare + Cost(f) /\ nodes' = nodes + 1 /\ bad' = TRUE /\ Use({f})
     /\ UNCHANGED << phase, doc >>

Built(fr, form) ==
  LET std == << Fld("name", Str(fr.nm)) >>
             \o (IF fr.nsc = "none" THEN << >> ELSE << Fld("ns", NsVal(fr.nsc)) >>)
             \o (IF fr.ac.k = "none" THEN << >> ELSE << Fld("attrs", AttrVal(fr.ac)) >>)
             \o (IF form = "absent" THEN << >>
                 ELSE IF form = "list" THEN << Fld("children", ListV(fr.kids)) >>
                 ELSE << Fld("children", KidFormVal(form)) >>)
  IN Tup(IF fr.ord = "rev" THEN [j \in 1..Len(std) |-> std[Len(std) + 1 - j]] ELSE std)

Close(form) ==
  LET f == KidFeat(form)
      n == Len(stack)
  IN /\ phase = "build" /\ n > 1
     /\ IF Len(Top.kids) = 0 THEN form \in KidForms ELSE form = "list"
     /\ Usable(f) /\ rare + Cost(f) <= MaxRare
     /\ stack' = [SubSeq(stack, 1, n - 1) EXCEPT ![n - 1].kids = Append(@, Built(stack[n], form))]
     /\ rare' = rare + Cost(f) /\ bad' = (bad \/ form \in KidBadForms) /\ Use({f})
     /\ UNCHANGED << nodes, phase, doc >>

DeclFields(ver, enc, sa) ==
  (IF ver = "-" THEN << >> ELSE << Fld("version", IF ver = "int" THEN IntV ELSE Str(ver)) >>)
  \o (IF enc = "-" THEN << >> ELSE << Fld("encoding", IF enc = "int" THEN IntV ELSE Str(enc)) >>)
  \o (IF sa = "-" THEN << >> ELSE << Fld("standalone", BoolV(sa = "yes")) >>)

FinFeats(ch) == << DeclFeat("ver", ch.ver), DeclFeat("enc", ch.enc), DeclFeat("sa", ch.sa),
                   IF ch.rf THEN "ord:rev" ELSE "-" >>
FinChoices ==
  TLCEval({ ch \in [ver : VerChoices, enc : EncChoices, sa : SaChoices, rf : BOOLEAN] :
              /\ \A j \in 1..4 : Usable(FinFeats(ch)[j])
              /\ ch.rf => (ch.ver # "-" \/ ch.enc # "-" \/ ch.sa # "-") })
FinByCost == TLCEval([c \in 0..4 |-> TLCEval({ ch \in FinChoices : Cost4(FinFeats(ch)) = c })])

Finish(ch, cost) ==
  LET root == << Fld("root", stack[1].kids[1]) >>
      decl == DeclFields(ch.ver, ch.enc, ch.sa)
  IN /\ phase = "build" /\ Len(stack) = 1 /\ Len(stack[1].kids) = 1
     /\ doc' = Tup(IF ch.rf THEN root \o decl ELSE decl \o root)
     /\ bad' = (bad \/ ch.ver \in {"v20", "int"} \/ ch.enc = "int")
     /\ Use({ FinFeats(ch)[j] : j \in 1..4 })
     /\ phase' = "done" /\ stack' = << >> /\ rare' = 0 /\ nodes' = 0

FinishBad(kd) ==
  /\ phase = "build" /\ Len(stack) = 1 /\ Len(stack[1].kids) = 0 /\ nodes = 0
  /\ Usable(kd) /\ rare + Cost(kd) <= MaxRare
  /\ doc' = BadDoc(kd) /\ bad' = TRUE /\ Use({kd})
  /\ phase' = "done" /\ stack' = << >> /\ rare' = 0 /\ nodes' = 0

Reset ==       \* simulation: next document
  /\ phase = "done"
  /\ stack' = << Bottom >> /\ rare' = 0 /\ nodes' = 0 /\ phase' = "build" /\ doc' = Null /\ bad' = FALSE
  /\ used' = {}

Next ==
  \/ \E c \in Budget : \E ch \in OpenByCost[c] : Open(ch, c)
  \/ \E form \in {"bare", "tt"}, c \in TextClasses : Text(form, c)
  \/ \E kd \in BadNodeKinds : BadKid(kd)
  \/ \E form \in KidForms \cup {"list"} : Close(form)
  \/ \E c \in Budget : \E ch \in FinByCost[c] : Finish(ch, c)
  \/ \E kd \in BadDocKinds : FinishBad(kd)
  \/ Reset

Spec == Init /\ [][Next]_vars

Done == phase = "done"

(* ---- checked -------------------------------------------------------------- *)
RECURSIVE IsEl(_)
IsEl(x) ==
  /\ x.k = "el" /\ x.nm.sc \in ElemNames
  /\ NamePfx(x.nm.sc) # "" => x.ns[NamePfx(x.nm.sc)] # "none"
  /\ \A i \in 1..Len(x.attrs) :
       /\ x.attrs[i].an.sc \in AttrNames /\ x.attrs[i].av.sc \in TextClasses
       /\ AttrPfx(x.attrs[i].an.sc) # "" => x.ns[AttrPfx(x.attrs[i].an.sc)] # "none"
       /\ \A j \in 1..Len(x.attrs) : i # j => x.attrs[i].an.sc # x.attrs[j].an.sc
  /\ x.ns.d \in UriClasses \cup {"none"} /\ x.ns.p \in UriClasses \cup {"none"} /\ x.ns.q \in UriClasses \cup {"none"}
  /\ \A i \in 1..Len(x.kids) :
       IF x.kids[i].k = "text"
         THEN /\ Len(x.kids[i].segs) > 0
              /\ \A s \in 1..Len(x.kids[i].segs) : x.kids[i].segs[s].sc \in TextClasses \ {"empty"}
              /\ i > 1 => x.kids[i - 1].k = "el"         \* no two adjacent runs
         ELSE IsEl(x.kids[i])

(* XmlDoc is total: every generated document tuple denotes a well-formed     *)
(* infoset or ERROR.                                                          *)
XmlDocTotal == Done =>
  LET x == XmlDoc(doc)
      e == Expect(doc)
  IN /\ x.k = "error" \/ (x.k = "doc" /\ IsEl(x.root))
     /\ e.k \in {"error", "any", "doc"}

(* ... ERROR exactly for the documents the generator built from a malformed   *)
(* piece (its own book-keeping, independent of XmlDoc)                        *)
ErrorIffMalformed == Done => ((XmlDoc(doc).k = "error") <=> bad)

(* C12 for the design: xml.rs as transcribed, without the recorded            *)
(* deviations, writes what the statement demands.                             *)
ConvAgrees == Done => Agree(Imp(Deviations, doc), Expect(doc))

(* a document built with std/xml.ucg's `tag` denotes the same infoset *)
TagFormSame == Done =>
  /\ SameOut(Expect(TagDoc(doc)), Expect(doc))
  /\ SameOut(Imp(Deviations, TagDoc(doc)), Imp(Deviations, doc))

(* ---- emission for replay -------------------------------------------------- *)
(* The deviations that matter for this document, and for every subset of      *)
(* them whose outcome breaks the expectation the outcome of an implementation *)
(* that has exactly that subset (so that a finding stays keyed when another   *)
(* one applying to the same document has been repaired).                      *)
RECURSIVE Pow2(_)
Pow2(n) == IF n = 0 THEN 1 ELSE 2 * Pow2(n - 1)
Bit(m, j) == (m \div Pow2(j - 1)) % 2 = 1
Relevant(v) ==
  IF SameOut(Imp(AllDeviations, v), Imp({}, v)) THEN << >>
  ELSE SelectSeq(AllDevSeq, LAMBDA dv :
         \/ ~SameOut(Imp({dv}, v), Imp({}, v))
         \/ ~SameOut(Imp(AllDeviations \ {dv}, v), Imp(AllDeviations, v)))
DevAlts(v) ==
  LET ks == Relevant(v)
      n  == Len(ks)
      Sub(m) == { ks[j] : j \in { i \in 1..n : Bit(m, i) } }
      all == [m \in 1..(Pow2(n) - 1) |-> [keys |-> Sub(m), imp |-> Imp(Sub(m), v)]]
  IN SelectSeq(all, LAMBDA a : ~Agree(a.imp, Expect(v)))

Emit == Done =>
  PrintT(<< "REPLAY", ToJson([doc |-> doc, exp |-> Expect(doc), alts |-> DevAlts(doc)]) >>)

(* the generator features a document was built from (vacuity: the driver      *)
(* demands that every feature of the configuration occurs); a line of its own,*)
(* so that the line above stays a function of the document                    *)
EmitUsed == Done => PrintT(<< "REPLAY", ToJson([used |-> used]) >>)

=============================================================================
