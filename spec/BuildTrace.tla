----------------------------- MODULE BuildTrace -----------------------------
(* Trace validation for Build.tla: the events recorded by the `verif` hooks  *)
(* of ucg (runtime.rs import/include/out/assert, environment.rs ops cache,   *)
(* typecheck resolve_import, FileBuilder::build) must be a behaviour of the   *)
(* session machine.  One trace file holds many recorded executions; each      *)
(* starts with a `reset` record carrying the abstract project the driver     *)
(* materialised, the invocation and the disk the process started on.  Paths   *)
(* arrive as component lists (the driver strips the scratch root and the file *)
(* suffixes).  Every event is matched by exactly one action of Build.tla,     *)
(* constrained by the logged fields; actions the hooks do not see (argument   *)
(* loop, checker bookkeeping, link work list, unwinding, verdict, exit) are   *)
(* silent steps and are counted, so that acceptance is still a statement      *)
(* about the diameter of the explored graph.                                  *)
EXTENDS Build, IOUtils

Rec == ndJsonDeserialize(IOEnv.TRACE)

VARIABLES l,      \* index of the next event
          sil     \* silent steps taken so far
tvars == << vars, l, sil >>

TBodies == {}
TLayouts == {}
TCmds == {}
TCwds == {}
TOrders == {}
TPres == {}

SeqToSet(q) == { q[i] : i \in 1..Len(q) }
ProjOf(r) == [lay |-> r.proj.lay, body |-> r.proj.body, cmd |-> r.proj.cmd, cwd |-> r.proj.cwd,
              ord |-> r.proj.ord, pre |-> r.proj.pre]

TInit ==
  /\ Len(Rec) >= 1 /\ Rec[1].ev = "reset"
  /\ proj = ProjOf(Rec[1]) /\ disk = SeqToSet(Rec[1].disk) /\ diskPre = disk
  /\ round = 1 /\ past = << >> /\ fired = {} /\ trlog = << >>
  /\ InitSession
  /\ l = 2 /\ sil = 0
  /\ TLCSet(7, -1) /\ TLCSet(8, 1)

Ev == Rec[l]
IsEvent(e) == l <= Len(Rec) /\ Ev.ev = e /\ l' = l + 1 /\ sil' = sil
Quiet == l' = l /\ sil' = sil + 1

ArtName(fr, s) == Parent(FilePath(Lay, fr.f)) \o << Lay.nm[fr.f] \o "." \o ExtOf[s.tgt] >>

TBeginFile   == IsEvent("file_begin") /\ BeginFile /\ PKey(Ev.path) = EntryKey(cur)
TOpsHit      == IsEvent("ops_cache") /\ Ev.hit /\ OpsHit /\ PKey(Ev.path) = PKey(fetch.key)
TOpsMiss     == IsEvent("ops_cache") /\ ~Ev.hit /\ OpsMiss /\ PKey(Ev.path) = PKey(fetch.key)
TStaticHit   == IsEvent("shape_cache") /\ Ev.hit /\ StaticHit /\ KeyForm(Ev.path) = SKeyOf(CTop)
TStaticBegin == IsEvent("shape_cache") /\ ~Ev.hit /\ StaticBegin /\ KeyForm(Ev.path) = SKeyOf(CTop)
TStaticCycle == IsEvent("static_cycle") /\ StaticCycle /\ KeyForm(Ev.path) = SKeyOf(CTop)
TImportHit   == IsEvent("import") /\ Ev.res = "hit" /\ ImportHit /\ Ev.norm = ImpNorm
TImportCycle == IsEvent("import") /\ Ev.res = "cycle" /\ ImportCycle /\ Ev.norm = ImpNorm
TImportBegin == IsEvent("import") /\ Ev.res = "eval" /\ ImportBegin /\ Ev.norm = ImpNorm
TImportEnd   == IsEvent("import_done") /\ ImportEnd /\ Ev.norm = Top.key
TInclude     == /\ IsEvent("include") /\ Include
                /\ PKey(Ev.path) = PKey(RtPath(Top.base, Top.f, CurStmt))
                /\ Ev.okay = (DataAt(Lay, OSResolve(proj.cwd, RtPath(Top.base, Top.f, CurStmt))) # 0)
TAssert      == /\ IsEvent("assert") /\ AssertRecord
                /\ Ev.idx = asserts.counter /\ Ev.okay = (CurStmt.r = "ok") /\ Ev.wellformed = (CurStmt.r # "mal")
TOutLock     == IsEvent("out_lock") /\ OutLock /\ PKey(Ev.path) = Top.key /\ Ev.already = (Top.key \in outLock)
TOutCreate   == IsEvent("out_create") /\ OutCreate /\ Ev.path = ArtName(Top, CurStmt)
TOutOk       == IsEvent("out_done") /\ Ev.okay /\ OutWriteOk /\ Ev.path = ArtName(Top, CurStmt)
TOutFail     == IsEvent("out_done") /\ ~Ev.okay /\ OutWriteFail /\ Ev.path = ArtName(Top, CurStmt)

TSilent ==
  /\ Quiet
  /\ \/ NextFile \/ StaticTyErr \/ StaticEnd \/ Link \/ LinkSkip \/ LinkDone
     \/ StmtStep \/ StmtErr \/ RunDone \/ EndFile \/ Exit

TReset ==      \* the next recorded execution: a fresh process
  /\ st = "done" /\ l <= Len(Rec) /\ Ev.ev = "reset"
  /\ l' = l + 1 /\ sil' = sil
  /\ proj' = ProjOf(Ev) /\ disk' = SeqToSet(Ev.disk) /\ diskPre' = SeqToSet(Ev.disk)
  /\ round' = 1 /\ past' = << >> /\ fired' = {} /\ trlog' = << >>
  /\ argi' = 0 /\ cur' = 0 /\ st' = "pick" /\ fetch' = NoFetch /\ chk' = << >> /\ pend' = << >> /\ found' = {}
  /\ frames' = << >> /\ perr' = ""
  /\ opCache' = {} /\ valCache' = {} /\ shapeCache' = {} /\ outLock' = {} /\ asserts' = FreshAsserts
  /\ verdicts' = << >> /\ exit' = -1
  /\ evalCount' = [f \in F |-> 0] /\ importResult' = {} /\ outSnap' = {} /\ convFailed' = FALSE /\ epoch' = 0

TNext ==
  \/ TReset
  \/ /\ \/ TBeginFile \/ TOpsHit \/ TOpsMiss \/ TStaticHit \/ TStaticBegin \/ TStaticCycle
        \/ TImportHit \/ TImportCycle \/ TImportBegin \/ TImportEnd \/ TInclude \/ TAssert
        \/ TOutLock \/ TOutCreate \/ TOutOk \/ TOutFail \/ TSilent
     /\ Hist

(* progress bookkeeping in TLC registers: 8 = furthest event reached, 7 = silent *)
(* steps on the path that consumed every event and finished the last execution   *)
TProgress ==
  /\ TLCSet(8, IF l > TLCGet(8) THEN l ELSE TLCGet(8))
  /\ (l = Len(Rec) + 1 /\ st = "done") => TLCSet(7, sil)

(* Every invariant of Build.tla that speaks about single steps is evaluated on   *)
(* the recorded execution as well (with the deviations of the open findings on,  *)
(* those the deviations break are left out by the driver's configuration).       *)

TraceAccepted ==
  LET d == TLCGet("stats").diameter
      far == TLCGet(8)
  IN IF TLCGet(7) >= 0 /\ d - 1 = (Len(Rec) - 1) + TLCGet(7)
     THEN PrintT(<< "TRACE-ACCEPTED", Len(Rec), d >>)
     ELSE /\ PrintT(<< "TRACE-REJECTED at event", far, "of", Len(Rec), "diameter", d,
                      IF far <= Len(Rec) THEN Rec[far] ELSE [ev |-> "end of trace: the machine does not finish"] >>)
          /\ FALSE
=============================================================================
