CONSTANTS
  NDocs = 3
  ImpChoices <- Imp6
  DiskChoices <- AllDisks
  MinMsgs = 1
  MaxMsgs = 30
  MaxPending = 2
  MaxOutbox = 3
  MaxChanges = 2
  ViewDepth = 2
  Deviations <- NoDev
  EmitMode = "done"
INIT Init
NEXT Next
CHECK_DEADLOCK FALSE
INVARIANTS TypeOK Alive EveryRequestAnsweredOnceInOrder PublishAfterSync CloseClears CurrentTextOnly CurrentTextOnlyState GhostFree EmitDone
PROPERTIES HandleMeetsDue
