CONSTANTS Lvl <- DefaultLvl MaxOps = 4 MaxDepth = 1 Reps <- AllOps MaxTotal = 4
INIT Init
NEXT Next
CHECK_DEADLOCK FALSE
INVARIANTS AlgEqualsRef RefKeepsOrder Emit
