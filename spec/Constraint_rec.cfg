CONSTANTS Deviations = {} Family = "rec" Tier = "quick"
INIT Init
NEXT Next
CHECK_DEADLOCK FALSE
INVARIANTS AdmitEqualsConforms NamedAsInline Emit
