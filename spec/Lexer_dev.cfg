CONSTANTS
  Mode = "bodies"
  Rand = FALSE
  MaxToks = 0
  MaxBody = 2
  MaxSep = 0
  SepSet = "six"
  TrailCmt = FALSE
  Stepwise = TRUE
  Deviations = {"ByteChars"}
INIT Init
NEXT Next
CHECK_DEADLOCK FALSE
INVARIANTS PosTruth Progress Monotone LongestOp Layout AlgEqualsRef Emit
