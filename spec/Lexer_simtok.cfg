CONSTANTS
  Mode = "toks"
  Rand = TRUE
  MaxToks = 40
  MaxBody = 0
  MaxSep = 3
  SepSet = "six"
  TrailCmt = FALSE
  Stepwise = TRUE
  Deviations = {}
INIT Init
NEXT Next
CHECK_DEADLOCK FALSE
INVARIANTS PosTruth Progress Monotone LongestOp Layout AlgEqualsRef Emit
