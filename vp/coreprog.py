"""Shared machinery of the properties decided by Gen/Eval/Translate/VM
(C01, C04 core, C07, C10, C17): TLC configuration generation, REPLAY case
collection, and the replay of a case into the real code through the harness."""
import os
import re

from . import common as C
from . import render as R

BASE_CONSTS = {
    "Strict": "TRUE", "EnvVars": "<- NoEnv", "EnvNames": "<- NoEnvNames", "Deviations": "{}",
    "KnownDevs": '{"TupleEqUnordered", "AndOrRightUnchecked"}',
    "Fam": "<- FamOps", "LitPool": "<- LitsSmall", "Names": "<- NamesTop", "ModNames": "<- NamesMod",
    "FldNames": "<- Flds3", "KeyPool": "<- Keys", "SigPool": "<- Sigs", "TplPool": "<- Tpls",
    "SinglePool": "<- Singles", "BinOps": "<- OpsAll", "CastTys": "<- AllCasts", "TyNames": "<- TyAll",
    "ConPool": "<- NoCons", "Prelude": "<- NoPrelude", "MaxD": "3", "MaxN": "3", "MaxStk": "2", "MaxStmts": "1", "MaxModStmts": "1", "MaxCtx": "1", "Ill0": "1", "RunVM": "FALSE",
}
INVS = ["Agreement", "NoPanicAtEnd", "CleanAtEnd", "NoFuel", "PrefixStable", "Emit"]


def write_cfg(gd, name, over, invs=None, props=None, module_defs=None):
    consts = dict(BASE_CONSTS)
    consts.update(over)
    lines = ["CONSTANTS"]
    for k, v in consts.items():
        lines.append("  %s %s" % (k, v if v.startswith("<-") else "= " + v))
    lines += ["INIT GenInit", "NEXT GenNext", "CHECK_DEADLOCK FALSE",
              "INVARIANTS " + " ".join(invs if invs is not None else INVS)]
    if props:
        lines.append("PROPERTIES " + " ".join(props))
    with open(os.path.join(gd, name + ".cfg"), "w") as f:
        f.write("\n".join(lines) + "\n")
    return name


def write_mc_module(gd, extra_defs=""):
    """MC module next to the cfgs (so drivers can add pools): EXTENDS MC_Gen."""
    with open(os.path.join(gd, "MC_Run.tla"), "w") as f:
        f.write("---- MODULE MC_Run ----\nEXTENDS MC_Gen\n%s\n====\n" % extra_defs)
    return "MC_Run"


# ---------------------------------------------------------------------------
# replay of one case
# ---------------------------------------------------------------------------

MASKED = {"unhandled", "fmtcount"}


def spec_op(o):
    op = o["op"]
    if op == "Val":
        v = o["v"]
        if v["t"] == "str" and "".join(v["s"]) in MASKED:
            return ("Val", "MASK")
        return ("Val", R.norm_val_spec(v))
    if op in ("Sym", "DeRef"):
        return (op, R.nm(o["nm"]))
    if "jp" in o:
        return (op, o["jp"])
    if op == "Cast":
        return (op, o["ty"])
    if op == "Runtime":
        return (op, o["hook"])
    if op == "PANIC":
        return (op, o["site"])
    if op == "BuildConstraint":
        return (op, tuple(o["arms"]))
    return (op,)


def impl_op(o):
    op = o["op"]
    if op == "Val":
        return ("Val", R.norm_val_impl(o["val"]))
    if op in ("Sym", "DeRef"):
        return (op, o["nm"])
    if "jp" in o:
        return (op, o["jp"])
    if op == "Cast":
        return (op, o["ty"])
    if op == "Runtime":
        return (op, o["hook"])
    if op == "BuildConstraint":
        return (op, tuple(o["arms"]))
    return (op,)


def ops_equal(spec_ops, impl_ops):
    if len(spec_ops) != len(impl_ops):
        return False
    prev_trace = False
    for j, (a, b) in enumerate(zip(spec_ops, impl_ops)):
        if a == b:
            continue
        if a[0] == "Val" and b[0] == "Val":
            if a[1] == "MASK" and b[1][0] == "str":
                continue
            # the pretty-printed expression of a TRACE is modelled as ""
            if a[1] == ("str", "") and b[1][0] == "str":
                continue
        return False
    return True


def expected_env(out):
    return {R.nm(f["nm"]): R.norm_val_spec(f["val"]) for f in out["env"]}


def observed_outcome(r):
    """Harness eval/build response -> ('ok', env) | ('fail', msg) | ('crash', kind, msg)."""
    if "crash" in r:
        return ("crash", r["crash"], r.get("msg", ""))
    o = r["out"]
    if o["k"] == "ok":
        val = o.get("val")
        env = {}
        if val and val["t"] == "tuple":
            env = {f["nm"]: R.norm_val_impl(f["val"]) for f in val["fs"]}
        return ("ok", env)
    return ("fail", o.get("msg", ""))


def agrees(spec_out, obs):
    """spec_out: {"k":"ok","env":[...]} / {"k":"fail"} ; obs as observed_outcome."""
    if spec_out["k"] == "ok":
        return obs[0] == "ok" and obs[1] == expected_env(spec_out)
    if spec_out["k"] == "fail":
        return obs[0] == "fail" and obs[1].strip() != ""
    return None   # unm / panic / fuel: no prediction


def replay_case(h, case, strict=True, check_ops=True, check_parse=True):
    """-> dict(status=ok|violation|known|skip|toolerr, key, detail, text)"""
    prog = case["prog"]
    try:
        text = R.program(prog)
    except R.Unrenderable as e:
        return {"status": "skip", "why": str(e)}
    res = {"status": "ok", "text": text}
    reqs = [{"op": "eval", "src": text, "strict": strict}]
    if check_parse:
        reqs.append({"op": "parse", "src": text})
    if check_ops:
        reqs.append({"op": "ops", "src": text})
    resps = h.batch(reqs)
    ev = resps[0]
    pr = resps[1] if check_parse else None
    op = resps[-1] if check_ops else None
    if check_parse and pr.get("ok"):
        want = tuple(R.norm_ast_spec(s) for s in prog)
        got = tuple(R.norm_ast_impl(s) for s in pr["stmts"])
        if want != got:
            # Renderer or parser?  The same program with every operand parenthesised does not depend on the
            # parser's grouping: if THAT parses to the generated AST, the minimally parenthesised text was grouped
            # differently from the published precedence - the programs of C01 are "printed with minimal parentheses".
            R.FULL_PARENS = True
            try:
                full = R.program(prog)
            finally:
                R.FULL_PARENS = False
            pf = h.req({"op": "parse", "src": full})
            if pf.get("ok") and tuple(R.norm_ast_impl(s) for s in pf["stmts"]) == want:
                return {"status": "violation", "key": "parse:grouping-of-minimally-parenthesised-text", "text": text,
                        "kind": "grouping", "detail": {"fully_parenthesised": full, "want": repr(want)[:600],
                                                       "got": repr(got)[:600]}}
            return {"status": "toolerr", "text": text, "why": "rendered text does not parse back to the generated AST",
                    "want": repr(want)[:600], "got": repr(got)[:600]}
    obs = observed_outcome(ev)
    if obs[0] == "crash":
        return {"status": "violation", "key": "crash:" + obs[2][:60], "text": text, "kind": "crash",
                "detail": {"observed": obs, "expected": case["expect"]["k"]}}
    exp = case["expect"]
    a = agrees(exp, obs)
    if a is None:
        return {"status": "skip", "why": "no prediction (%s)" % exp["k"], "text": text}
    if not a:
        # a recorded deviation of the code?  then the code-faithful machine predicts the observation
        devs = case.get("devs") or []
        # ... or, past the deviation, the machine runs into a don't-care (`true && inc == inc`: the unchecked right
        # operand, then a comparison of functions) and predicts nothing: still that deviation's doing
        if devs and (agrees(case["code"], obs) or case["code"]["k"] == "unm"):
            return {"status": "known", "key": "dev:" + "+".join(sorted(devs)), "text": text,
                    "detail": {"observed": _show(obs), "expected": _show_spec(exp)}}
        return {"status": "violation", "key": "value", "text": text, "kind": "value",
                "detail": {"observed": _show(obs), "expected": _show_spec(exp)}}
    if check_ops and op.get("ok") and exp["k"] != "unm":
        so = [spec_op(o) for o in case["ops"]]
        io = [impl_op(o) for o in op["ops"]]
        if not ops_equal(so, io):
            return {"status": "violation", "key": "ops", "text": text, "kind": "ops",
                    "detail": {"spec_ops": repr(so)[:1500], "impl_ops": repr(io)[:1500]}}
        # positions: every op of statement j sits on line j (one statement per line)
        for o_spec, o_impl, p in zip(so, op["ops"], case["pos"]):
            if p != 0 and o_impl.get("ln") != p:
                return {"status": "violation", "key": "oppos", "text": text, "kind": "oppos",
                        "detail": {"op": repr(o_spec), "line": o_impl.get("ln"), "stmt": p}}
    return res


def _show(obs):
    return repr(obs)[:800]


def _show_spec(exp):
    if exp["k"] == "ok":
        return repr(expected_env(exp))[:800]
    return exp["k"]


def replay_prefixes(h, case):
    """C10: the full program first (as replay_case), then every proper prefix: each binding a prefix makes
    must be present with the same value in the full run, and equal to what the specification predicts."""
    full = replay_case(h, case, check_ops=False)
    if full["status"] in ("toolerr", "skip") or full.get("kind") == "crash":
        return full
    prog = case["prog"]
    text = full["text"]
    lines = text.rstrip("\n").split("\n")
    exp_full = case["expect"]
    pre_expect = case.get("prefix") or []
    reqs = [{"op": "eval", "src": "\n".join(lines[:k]) + "\n", "strict": True} for k in range(1, len(lines))]
    resps = h.batch(reqs) if reqs else []
    fullobs = observed_outcome(h.req({"op": "eval", "src": text, "strict": True}))
    for k, r in enumerate(resps, start=1):
        obs = observed_outcome(r)
        if obs[0] == "crash":
            return {"status": "violation", "key": "crash:" + obs[2][:60], "text": text, "kind": "crash",
                    "detail": {"prefix": k, "observed": obs}}
        # against the specification's prediction for this prefix
        if k - 1 < len(pre_expect):
            a = agrees(pre_expect[k - 1], obs)
            if a is False and full["status"] == "ok":
                return {"status": "violation", "key": "prefix-value", "text": text, "kind": "prefix",
                        "detail": {"prefix": k, "observed": _show(obs), "expected": _show_spec(pre_expect[k - 1])}}
        # the property itself: bindings of the prefix survive unchanged in the whole program
        if obs[0] == "ok" and fullobs[0] == "ok":
            for n, v in obs[1].items():
                if fullobs[1].get(n, ("<absent>",)) != v:
                    return {"status": "violation", "key": "prefix-changed", "text": text, "kind": "prefix",
                            "detail": {"prefix": k, "name": n, "in_prefix": repr(v), "in_full": repr(fullobs[1].get(n))}}
    full["prefixes"] = len(resps)
    return full


# ---------------------------------------------------------------------------
# impl -> spec: recorded VM executions validated against VM.tla (VMTrace.tla)
# ---------------------------------------------------------------------------

MODELLED_HOOKS = {"Map", "Filter", "Reduce", "Range", "Trace", "Regex"}
UNMODELLED_OPS = {"JumpIfTrue", "JumpIfFalse", "SafeIndex"}


def _chars(s):
    return list(s)


def _tla_val(v):
    t = v["t"]
    if t == "str":
        return {"t": "str", "s": _chars(v["s"])}
    if t == "float":
        from fractions import Fraction
        f = Fraction(R.float_from_bits(v["bits"]))
        k = f.denominator.bit_length() - 1
        if f.denominator != 1 << k or k > 8 or abs(f.numerator) > 10 ** 6:
            raise ValueError("float outside the dyadic domain")
        return {"t": "float", "fn": f.numerator, "fk": k}
    if t == "int":
        if abs(v["i"]) > 10 ** 8:
            raise ValueError("integer outside TLC's comfortable range")
        return {"t": "int", "i": v["i"]}
    return dict(v)


def tla_code(ops):
    """harness `ops` output -> the op records of Translate.tla (raises ValueError when outside the model)"""
    out = []
    for o in ops:
        op = o["op"]
        if op in UNMODELLED_OPS:
            raise ValueError("op outside the model: " + op)
        r = {"op": op, "p": o.get("ln", 0)}
        if op == "Val":
            r["v"] = _tla_val(o["val"])
        elif op in ("Sym", "DeRef"):
            r["nm"] = _chars(o["nm"])
        elif "jp" in o:
            r["jp"] = o["jp"]
        elif op == "Cast":
            r["ty"] = o["ty"]
        elif op == "BuildConstraint":
            r["arms"] = list(o["arms"])
        elif op == "Runtime":
            if o["hook"] not in MODELLED_HOOKS:
                raise ValueError("hook outside the model: " + o["hook"])
            r["hook"] = o["hook"]
        out.append(r)
    return out


def tla_event(e):
    e = {k: v for k, v in e.items() if k != "seq"}
    if e["ev"] == "op" and "top" in e:
        t = dict(e["top"])
        if t["t"] == "str":
            t["s"] = _chars(t["s"])
        elif t["t"] == "sym":
            t["nm"] = _chars(t["nm"])
        elif t["t"] == "float":
            t = {"t": "float"}
        elif t["t"] == "int" and abs(t["i"]) > 10 ** 8:
            t = {"t": "int", "i": 0, "big": True}
            raise ValueError("integer outside TLC's range")
        e["top"] = t
    if e["ev"] == "bind":
        e["nm"] = _chars(e["nm"])
    return e


def record_traces(h, texts):
    """-> list of (text, [ndjson records]) for the texts the model covers"""
    out = []
    for text in texts:
        ev, op = h.batch([{"op": "eval", "src": text, "strict": True, "trace": True}, {"op": "ops", "src": text}])
        if "crash" in ev or not op.get("ok"):
            continue
        o = ev["out"]
        try:
            code = tla_code(op["ops"])
            events = [tla_event(e) for e in ev.get("trace", []) if e.get("ev") in ("op", "bind")]
        except ValueError:
            continue
        if not code:
            continue
        recs = [{"ev": "load", "code": code}] + events + [{"ev": "end", "k": o["k"]}]
        out.append((text, recs))
    return out


def validate_traces(recorded, gd, corrupt=None):
    """Validate recorded executions with TLC.  -> (n_accepted, [rejections]) ; a rejection is
    {"text", "reject": {...}}.  After a rejection the remaining executions are re-validated without it."""
    import json as _json
    remaining = list(recorded)
    rejections = []
    accepted = 0
    states = 0
    rounds = 0
    while remaining and rounds < 8:
        rounds += 1
        path = os.path.join(gd, "vmtrace-%d.ndjson" % rounds)
        with open(path, "w") as f:
            for _, recs in remaining:
                for r in recs:
                    f.write(_json.dumps(r) + "\n")
        r = C.run_tlc("VMTrace", "VMTrace", workers=1, timeout=1800, env_extra={"TRACE": path}, keep_lines=True,
                      heap="6g")
        states += r.generated
        acc = [l for l in r.lines if l.startswith('<<"ACCEPTED"')]
        rej = [l for l in r.lines if l.startswith('<<"REJECT"')]
        if r.violation:
            raise C.ToolError("VMTrace: invariant %s violated on a recorded execution\n%s" % (r.violation, r.errtext[:2000]))
        if acc:
            accepted += len(remaining)
            break
        if not rej:
            raise C.ToolError("VMTrace run neither accepted nor rejected: %s\n%s" % (r.errtext[:1500], "\n".join(r.lines[-15:])))
        m = C._REPLAY_RE.pattern  # unused; the REJECT payload is parsed below
        payload = rej[0][len('<<"REJECT", "'):-3]
        info = _json.loads(C._unescape_tla(payload))
        k = info["exec"]                     # 1-based index of the execution in `remaining`
        text = remaining[k - 1][0]
        rejections.append({"text": text, "reject": info})
        accepted += k - 1
        remaining = remaining[k:]
    return accepted, rejections, states
