"""C10 - bindings are immutable and lexically scoped."""
import os
import time

from . import c01
from . import common as C

PID = "C10"

QUICK = [
    ("rebind", {"Fam": "<- FamRebind", "LitPool": "<- Lits2", "Names": "<- Names2", "BinOps": "<- Ops1", "MaxN": "2",
                "MaxStk": "2", "MaxStmts": "2"}, None),
    ("rebind3", {"Fam": "<- FamRebind3", "LitPool": "<- Lits1", "Names": "<- Names2", "BinOps": "<- Ops1", "MaxN": "1",
                 "MaxStk": "1", "MaxStmts": "3"}, None),
    ("conlet", dict([f for f in c01.QUICK if f[0] == "conlet"][0][1]), None),    # annotated lets bind once as well
    ("resparam", {"Fam": "<- FamFuncBody", "LitPool": "<- Lits1", "Names": "<- Names2", "SigPool": "<- SigsRes",
                  "BinOps": "<- Ops1", "MaxN": "4", "MaxStk": "2", "MaxCtx": "2", "MaxStmts": "2"}, None),   # parameters named env / self
    ("scopemod", {"Fam": "<- FamScopeMod", "LitPool": "<- Lits2", "Names": "<- Names3", "BinOps": "<- Ops2",
                  "FldNames": "<- Flds2", "Prelude": "<- PreData", "MaxN": "6", "MaxStk": "2", "MaxCtx": "2",
                  "MaxStmts": "2", "MaxModStmts": "2"}, (1500, 60)),
    ("scopefn", {"Fam": "<- FamScopeFn", "LitPool": "<- Lits2", "Names": "<- Names3", "BinOps": "<- Ops2",
                 "SigPool": "<- Sigs2", "MaxN": "5", "MaxStk": "3", "MaxCtx": "2", "MaxStmts": "4"}, (2500, 70)),
    ("sim", dict([f for f in c01.QUICK if f[0] == "sim"][0][1]), (1200, 70)),
]
THOROUGH = [
    ("rebind", {"Fam": "<- FamRebind", "LitPool": "<- Lits3", "Names": "<- Names3", "BinOps": "<- Ops2", "MaxN": "3",
                "MaxStk": "2", "MaxStmts": "2"}, None),
    ("conlet", dict([f for f in c01.THOROUGH if f[0] == "conlet"][0][1]), None),
    ("scopemod", dict([f for f in QUICK if f[0] == "scopemod"][0][1]), (40000, 60)),
    ("scopefn", dict([f for f in QUICK if f[0] == "scopefn"][0][1]), (60000, 70)),
    ("sim", dict([f for f in c01.QUICK if f[0] == "sim"][0][1]), (40000, 80)),
]

RULE = ("programs = behaviours of Gen.tla with the scope probes (a module body referring to a binding of the enclosing "
        "file, a top-level reference to a parameter name or `item`, a function body referring to a name bound only "
        "later, rebinding, reserved words, parameters named like outer bindings); checked in the model: PrefixStable, "
        "Agreement, NoPanic; replayed: the whole program and EVERY proper prefix are evaluated by "
        "FileBuilder::eval_string - each binding a prefix makes must be present and equal in the whole program and equal "
        "to the value the specification predicts for that prefix; a sample of executions is recorded (one event per opcode "
        "and per binding_push) and validated against VM.tla by VMTrace.tla, where every `bind` event must agree with the "
        "model's symbol tables; non-trivial = distinct program compiling to >= 6 ops")


def reserved_words_of_the_reference():
    """the list under "Reserved words" in docsite/site/content/reference/_index.md"""
    import re
    text = open(os.path.join(C.REPO, "docsite", "site", "content", "reference", "_index.md")).read()
    m = re.search(r"reserved in UCG[^\n]*\n((?:\s*\n|\s*\* \S+\s*\n)+)", text)
    if not m:
        raise C.ToolError("the reference no longer has its list of reserved words")
    return set(re.findall(r"\* (\S+)", m.group(1)))


def reserved_words_of_the_spec():
    import re
    text = open(os.path.join(C.SPEC, "Eval.tla")).read()
    body = text[text.index("Reserved == {"):]
    body = body[:body.index("}")]
    words = {"".join(re.findall(r'"(.)"', w)) for w in re.findall(r"<<([^>]*)>>", body)}
    if "N_self" in body:
        words.add("self")
    return words


def main(tier, replay=None):
    t0 = time.time()
    if replay:
        return c01.do_replay(PID, replay, c01.work_prefix)
    # The reference is the single source of the reserved words.  Eval.tla's Reserved must be that list minus the words
    # that never reach binding (true, false, NULL do not lex as names - NULL is listed in the spec all the same -, `env`
    # is the parser's), plus `include`, which the list forgets.
    doc = reserved_words_of_the_reference()
    want = (doc - {"true", "false", "env"}) | {"include"}
    have = reserved_words_of_the_spec()
    if want != have:
        raise C.ToolError("Eval.tla's Reserved differs from the reference's list of reserved words: only in the "
                          "reference %r, only in the specification %r" % (sorted(want - have), sorted(have - want)))
    fam = QUICK if tier == "quick" else THOROUGH
    return c01.run(PID, tier, fam, t0, worker=c01.work_prefix, rule=RULE,
                   after=lambda rep, stats, okprogs: c01.trace_leg(tier, rep, stats, okprogs, gd_tag="c10t"))
