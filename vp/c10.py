"""C10 - bindings are immutable and lexically scoped."""
import time

from . import c01

PID = "C10"

QUICK = [
    ("rebind", {"Fam": "<- FamRebind", "LitPool": "<- Lits2", "Names": "<- Names2", "BinOps": "<- Ops1", "MaxN": "2",
                "MaxStk": "2", "MaxStmts": "2"}, None),
    ("rebind3", {"Fam": "<- FamRebind3", "LitPool": "<- Lits1", "Names": "<- Names2", "BinOps": "<- Ops1", "MaxN": "1",
                 "MaxStk": "1", "MaxStmts": "3"}, None),
    ("conlet", dict([f for f in c01.QUICK if f[0] == "conlet"][0][1]), None),    # annotated lets bind once as well
    ("scopemod", {"Fam": "<- FamScopeMod", "LitPool": "<- Lits2", "Names": "<- Names3", "BinOps": "<- Ops2",
                  "FldNames": "<- Flds2", "Prelude": "<- PreData", "MaxN": "6", "MaxStk": "2", "MaxCtx": "2",
                  "MaxStmts": "2", "MaxModStmts": "2"}, (1500, 60)),
    ("scopefn", {"Fam": "<- FamScopeFn", "LitPool": "<- Lits2", "Names": "<- Names3", "BinOps": "<- Ops2",
                 "SigPool": "<- Sigs2", "MaxN": "5", "MaxStk": "3", "MaxCtx": "2", "MaxStmts": "4"}, (2500, 70)),
    ("sim", dict([f for f in c01.QUICK if f[0] == "sim"][0][1]), (1200, 70)),
]
THOROUGH = [
    ("rebind", {"Fam": "<- FamRebind", "LitPool": "<- Lits3", "Names": "<- Names3", "BinOps": "<- Ops2", "MaxN": "3",
                "MaxStk": "2", "MaxStmts": "2"}, None),
    ("conlet", dict([f for f in c01.THOROUGH if f[0] == "conlet"][0][1]), None),
    ("scopemod", dict([f for f in QUICK if f[0] == "scopemod"][0][1]), (40000, 60)),
    ("scopefn", dict([f for f in QUICK if f[0] == "scopefn"][0][1]), (60000, 70)),
    ("sim", dict([f for f in c01.QUICK if f[0] == "sim"][0][1]), (40000, 80)),
]

RULE = ("programs = behaviours of Gen.tla with the scope probes (a module body referring to a binding of the enclosing "
        "file, a top-level reference to a parameter name or `item`, a function body referring to a name bound only "
        "later, rebinding, reserved words, parameters named like outer bindings); checked in the model: PrefixStable, "
        "Agreement, NoPanic; replayed: the whole program and EVERY proper prefix are evaluated by "
        "FileBuilder::eval_string - each binding a prefix makes must be present and equal in the whole program and equal "
        "to the value the specification predicts for that prefix; a sample of executions is recorded (one event per opcode "
        "and per binding_push) and validated against VM.tla by VMTrace.tla, where every `bind` event must agree with the "
        "model's symbol tables; non-trivial = distinct program compiling to >= 6 ops")


def main(tier, replay=None):
    t0 = time.time()
    fam = QUICK if tier == "quick" else THOROUGH
    return c01.run(PID, tier, fam, t0, worker=c01.work_prefix, rule=RULE,
                   after=lambda rep, stats, okprogs: c01.trace_leg(tier, rep, stats, okprogs, gd_tag="c10t"))
