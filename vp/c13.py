"""C13 — `ucg test` reports a file as passing exactly when all its assertions hold.

Build.tla (test invocations) is model-checked: VerdictIffAsserts, ExitIffFail,
EachAssertOnce, BatchEqualsSolo over all runs of 1..3 generated *_test.ucg files in
every order.  Every explored run carries the outcome the specification demands
(per file: builds or not, PASS/FAIL, the assertions of its log; the exit status);
the runs are materialised and executed with the real `ucg test` binary, its output
projected back and compared; the hook events of the same executions are validated
against BuildTrace.tla."""
import json
import os
import random
import shutil
import time

from . import buildproj as B
from . import common as C

PID = "C13"
DEVS = {"SharedAsserts"}


def expected_view(rnd, lay):
    """What the specification demands for one round, at the level the output shows."""
    out = []
    for e in rnd["files"]:
        if "okay" in e:   # expect record (denotation)
            builds = e["okay"]
            verdict = ("Pass" if e["pass"] else "Fail") if builds else "Err"
            alog = e["alog"]       # a file that does not build still logs the assertions evaluated before the error
        else:             # got record (machine)
            builds = e["res"] in ("pass", "fail")
            verdict = {"pass": "Pass", "fail": "Fail", "err": "Err"}[e["res"]]
            alog = e["alog"]
        out.append({"f": e["f"], "verdict": verdict,
                    "log": [[B.marker(lay, a["af"], a["ai"]), a["okay"]] for a in alog]})
    return {"files": out, "exit": rnd["exit"]}


def observed_view(po, lay, args):
    """The same view of what `ucg test` printed.  A log entry is identified by the marker
    it carries (every generated assertion has its own)."""
    files = []
    problems = []
    if po["crashed"]:
        return {"files": [], "exit": po["rc"], "crashed": po["crashed"]}, ["process " + po["crashed"]]
    if len(po["files"]) != len(args):
        problems.append("%d `Validating` blocks for %d arguments" % (len(po["files"]), len(args)))
    for sg in po["files"]:
        if sg["err"] is not None:
            verdict = "Err"
        else:
            verdict = sg["verdict"] or "none"
        want_sum = {"Pass": "PASS", "Fail": "FAIL", "Err": "FAIL"}.get(verdict)
        if sg["summary"] != want_sum:
            problems.append("summary line %r next to verdict %r for %s" % (sg["summary"], verdict, sg["arg"]))
        log = []
        for en in sg["entries"]:
            ms = sorted(set(m for m in _markers(en["text"])))
            log.append([ms[0] if len(ms) == 1 else "?" + "|".join(ms), en["okay"]])
        files.append({"arg": sg["arg"], "verdict": verdict, "log": log})
    return {"files": files, "exit": po["rc"]}, problems


def _markers(text):
    import re
    return re.findall(r"A:p(?:/s)?/\w+:\d+", text)


def same_view(exp, obs, args):
    if obs.get("crashed") or len(exp["files"]) != len(obs["files"]) or exp["exit"] != obs["exit"]:
        return False
    for e, o, a in zip(exp["files"], obs["files"], args):
        if o["arg"] != a or e["verdict"] != o["verdict"]:
            return False
        if e["log"] != o["log"]:
            return False
    return True


def run_case(job):
    idx, case, devcase, ucg, base, sd = job
    rng = random.Random(sd * 7919 + idx)
    root = B.case_dir(base, idx)
    lay = B.materialise(case, root, rng)
    args = [lay.arg_for(f) for f in case["ord"]]
    obs = B.run_ucg(ucg, ["test"] + args, lay.cwd(), os.path.join(root, "home"),
                    trace_file=os.path.join(root, "trace.ndjson"))
    po = B.project_test(obs, lay, args)
    ov, problems = observed_view(po, lay, args)
    ev = expected_view(case["expect"][0], lay)
    res = {"idx": idx, "ok": True, "events": B.abstract_events(lay, obs.trace), "nasserts": sum(len(f["log"]) for f in ev["files"]),
           "text": " ; ".join("%s:[%s]" % (lay.nm(f), ",".join(s["k"] + (":" + s["r"] if s["r"] else "") for s in case["body"][f - 1]))
                              for f in sorted(set(case["ord"]))) + " ; test " + " ".join(lay.nm(f) for f in case["ord"])}
    if problems or not same_view(ev, ov, args):
        res["ok"] = False
        res["fired"] = []
        for dc in (devcase or []):
            dv = expected_view(dc["got"][0], lay)
            if (not problems) and dc["fired"] and same_view(dv, ov, args):
                res["fired"] = sorted(dc["fired"])
                break
        res["report"] = {"project": {f: open(lay.abs_file(f)).read() for f in range(1, lay.nf + 1)},
                         "invocation": ["ucg", "test"] + [os.path.relpath(a, lay.cwd()) if os.path.isabs(a) else a for a in args],
                         "abstract": {k: case[k] for k in ("lay", "body", "cmd", "cwd", "ord")},
                         "expected": ev, "observed": ov, "problems": problems, "output": obs.text[:3000]}
    shutil.rmtree(root, ignore_errors=True)
    return res


def nontrivial(case):
    """>= 2 files in the run, at least one assertion, and not all files alike"""
    return len(case["ord"]) >= 2 and any(s["k"] == "assert" for b in case["body"] for s in b)


def recursive_runs(ucg, base, rep):
    import subprocess
    n = 0
    for name, files, want in (("fail-in-subdirectory", {"good_test.ucg": True, "sub/bad_test.ucg": False}, 1),
                              ("fail-at-the-top", {"bad_test.ucg": False, "sub/good_test.ucg": True}, 1),
                              ("fail-two-levels-down", {"a_test.ucg": True, "s/t/bad_test.ucg": False, "s/ok_test.ucg": True}, 1),
                              ("all-pass", {"a_test.ucg": True, "sub/b_test.ucg": True}, 0)):
        d = os.path.join(base, "rec-" + name)
        for rel, ok in files.items():
            os.makedirs(os.path.dirname(os.path.join(d, rel)), exist_ok=True)
            with open(os.path.join(d, rel), "w") as f:
                f.write('assert {ok = %s, desc = "%s"};\n' % ("true" if ok else "false", rel))
        home = os.path.join(d, ".home")
        os.makedirs(home, exist_ok=True)
        p = subprocess.run([ucg, "test", "-r", "."], cwd=d, env={"HOME": home, "PATH": "/usr/bin:/bin"},
                           capture_output=True, timeout=60)
        n += 1
        out = p.stdout.decode("utf-8", "replace")
        verdicts_ok = all(("%s - %s" % (rel.split("/")[-1], "PASS" if ok else "FAIL")) in out.replace("./", "")
                          or ("%s - %s" % (rel, "PASS" if ok else "FAIL")) in out.replace("./", "") for rel, ok in files.items())
        if p.returncode != want or not verdicts_ok:
            rep.disagree({"leg": "recursive", "tree": files, "argv": ["ucg", "test", "-r", "."], "exit": p.returncode,
                          "expected_exit": want, "stdout": out[-800:]}, key="recursive-run:" + name)
    # "one file's verdict does not depend on which other files were tested before it" - also when the files share an
    # imported file that makes assertions of its own (imported files are evaluated once per run)
    d = os.path.join(base, "order")
    os.makedirs(os.path.join(d, ".home"), exist_ok=True)
    for rel, text in (("lib.ucg", 'assert {ok = false, desc = "lib"};\nlet v = 1;\n'),
                      ("one_test.ucg", 'let l = import "./lib.ucg";\nassert {ok = l.v == 1, desc = "one"};\n'),
                      ("two_test.ucg", 'let l = import "./lib.ucg";\nassert {ok = l.v == 1, desc = "two"};\n')):
        with open(os.path.join(d, rel), "w") as f:
            f.write(text)
    verdicts = {}
    for order in (["one_test.ucg", "two_test.ucg"], ["two_test.ucg", "one_test.ucg"], ["one_test.ucg"], ["two_test.ucg"]):
        p = subprocess.run([ucg, "test"] + order, cwd=d, env={"HOME": os.path.join(d, ".home"), "PATH": "/usr/bin:/bin"},
                           capture_output=True, timeout=60)
        n += 1
        out = p.stdout.decode("utf-8", "replace")
        for f in order:
            v = "PASS" if ("%s - PASS" % f) in out else ("FAIL" if ("%s - FAIL" % f) in out else "?")
            verdicts.setdefault(f, {})[" ".join(order)] = v
    # the importing file's own assertions count whatever stands before them: true / import / false must FAIL and log both
    with open(os.path.join(d, "three_test.ucg"), "w") as f:
        f.write('assert {ok = true, desc = "T-before"};\nlet l = import "./lib.ucg";\nassert {ok = false, desc = "T-after"};\n'
                'assert {ok = l.v == 1, desc = "T-last"};\n')
    p = subprocess.run([ucg, "test", "three_test.ucg"], cwd=d, env={"HOME": os.path.join(d, ".home"), "PATH": "/usr/bin:/bin"},
                       capture_output=True, timeout=60)
    n += 1
    out = p.stdout.decode("utf-8", "replace")
    logged = [m for m in ("T-before", "T-after", "T-last") if out.count(m) == 1]
    if p.returncode != 1 or "three_test.ucg - FAIL" not in out or logged != ["T-before", "T-after", "T-last"] or "lib" in \
            [ln.split(":")[-1].strip() for ln in out.split("\n") if " OK: " in ln or "NOT OK: " in ln]:
        rep.disagree({"leg": "order", "file": "three_test.ucg", "exit": p.returncode, "stdout": out[-800:],
                      "expected": "FAIL, exit 1, its three assertions logged once each, none of lib.ucg's"},
                     key="assertions-after-an-import")
    for f, vs in verdicts.items():
        if len(set(vs.values())) != 1:
            rep.disagree({"leg": "order", "file": f, "verdict_by_invocation": vs,
                          "project": "lib.ucg makes a failing assertion and is imported by one_test.ucg and two_test.ucg"},
                         key="verdict-depends-on-order:shared-import-with-assertions")
    return n


def main(tier, replay=None):
    t0 = time.time()
    rep = B.reporter(PID)
    ucg = C.ensure_ucg()
    sd = C.seed()
    gd = C.gen_dir("c13")
    base = C.scratch_dir("c13")
    if replay:
        return do_replay(replay, ucg, base, gd)
    cfgs = ["c13_q1", "c13_q2"] if tier == "quick" else ["c13_q1", "c13_q2", "c13_t1"]
    budget = 700 if tier == "quick" else 6000
    opendevs = B.open_deviations() & DEVS
    states = trans = 0
    cmds = []
    cases = {}
    devcases = {}
    for cfg in cfgs:
        r, r2 = B.run_design_and_deviations(gd, cfg, opendevs, timeout=3000)
        cmds.append(r.cmd)
        if r.violation:
            raise C.ToolError("Build.tla (%s, Deviations = {}): invariant %s violated -- the design itself breaks the "
                              "property; inspect the specification.\n%s" % (cfg, r.violation, r.errtext[:3000]))
        C.require_tlc_ok(r, cfg)
        states += r.distinct
        trans += r.generated
        C.log("[c13] %s: %d states, %d runs, %.0fs" % (cfg, r.distinct, len(r.replays), r.wall))
        for c in r.replays:
            cases.setdefault(B.case_key(c), c)
        if r2 is not None:
            C.require_tlc_ok(r2, cfg + " with deviations")
            cmds.append(r2.cmd)
            for c in r2.replays:
                devcases.setdefault(B.case_key(c), []).append(c)
    if tier == "thorough":
        sc, sdv, st2, tr2 = B.sampled_cases(
            gd, "c13", 4, "RandomSubset(400, [1..4 -> [1..8 -> A13a \\cup {Lit, RtErr}]])",
            "RandomSubset(6, PermsOf({1, 2, 3, 4}))",
            '{ [dir |-> << 0, 0, 0, 0 >>, nm |-> << "a", "b", "c", "d" >>] }', "CmdTest", "Cwd0", 1, opendevs, cmds)
        states += st2
        trans += tr2
        for k, c in sc.items():
            cases.setdefault(k, c)
        for k, v in sdv.items():
            devcases.setdefault(k, []).extend(v)
    chosen = B.choose(cases, lambda k: nontrivial(cases[k]), budget, random.Random(sd))
    jobs = [(i, cases[k], devcases.get(k), ucg, base, sd) for i, k in enumerate(chosen)]
    cnt = {"verdict Pass": 0, "verdict Fail": 0, "build error": 0, "malformed assertion": 0, "error after assertions": 0,
           "file tested twice": 0, "three files": 0}
    for k in chosen:
        c = cases[k]
        for e in c["expect"][0]["files"]:
            cnt["verdict Pass"] += e["okay"] and e["pass"]
            cnt["verdict Fail"] += e["okay"] and not e["pass"]
            cnt["build error"] += not e["okay"]
        cnt["malformed assertion"] += any(s["r"] == "mal" for b in c["body"] for s in b)
        cnt["error after assertions"] += any(b and b[-1]["k"] in ("rterr", "tyerr") and len(b) > 1 for b in c["body"])
        cnt["file tested twice"] += len(set(c["ord"])) < len(c["ord"])
        cnt["three files"] += len(set(c["ord"])) == 3
    B.require_nonvacuous("c13", cnt)
    B.binding_demo(jobs)
    results = B.pool_map(run_case, jobs, workers=8)
    runs_for_trace = {}
    nontriv = set()
    samples = []
    for (i, case, devcase, _, _, _), res in zip(jobs, results):
        if res["ok"]:
            runs_for_trace.setdefault(case["nf"], []).append((case, res["events"]))
        else:
            if res["fired"]:
                for d in res["fired"]:
                    key = [k for k, v in B.DEV_OF_KEY.items() if v == d][0]
                    rep.disagree(res["report"], key=key)
                runs_for_trace.setdefault(case["nf"], []).append((case, res["events"]))
            else:
                rep.disagree(res["report"], key=None)
        if nontrivial(case):
            nontriv.add(res["text"])
        if len(samples) < 6 and nontrivial(case) and i % 37 == 0:
            samples.append(res["text"])
    # impl -> spec: the hook events of the executed runs against BuildTrace.tla
    tv_runs = tv_events = 0
    for nf, runs in sorted(runs_for_trace.items()):
        if not os.path.exists(os.path.join(C.SPEC, "BuildTrace.tla")):
            break
        runs = runs[: (250 if tier == "quick" else 2500)]
        if not any(evs for _, evs in runs):
            raise C.ToolError("no hook events recorded: is the ucg binary built with the `verif` feature?")
        okay, info = B.validate_traces(gd, runs, nf, opendevs, "c13_%d" % nf)
        cmds.append(info.get("cmd", ""))
        if not okay:
            rep.disagree({"trace_validation": "BuildTrace.tla rejects a recorded `ucg test` execution", "info": info},
                         key=None)
        else:
            tv_runs += info["runs"]
            tv_events += info["events"]
            states += info.get("states", 0)
    # "The process exits non-zero exactly when some file failed" also when the files are found by `-r`: the verdicts
    # of three small directory trees (a failing file at the top, in a sub-directory, nowhere)
    ndir = recursive_runs(ucg, base, rep)
    code = rep.finish()
    shutil.rmtree(base, ignore_errors=True)
    if code == 0:
        shutil.rmtree(gd, ignore_errors=True)      # kept after a violation: the trace files are evidence
    if not samples:
        samples = [r["text"] for r in results[:3]]
    C.write_evidence(PID, tier, "model_checking", {
        "states": states, "transitions": trans,
        "traces_validated_against_impl": len(results) + tv_runs,
        "evaluations": len(results),
        "distinct_nontrivial": len(nontriv),
        "rule": "Build.tla explores every run of 1..3 generated *_test.ucg files (0..3 assertions ok/fail/malformed, "
                "optional run-time or type error) in every order of the argument list; a seeded sample of the explored "
                "runs, non-trivial ones first, is executed with `ucg test`; non-trivial = >= 2 files in the run and at "
                "least one assertion; distinct by rendered project + argument list",
        "samples": samples,
        "model_runs_explored": len(cases),
        "trace_events_validated": tv_events,
        "trace_runs_validated": tv_runs,
        "exhaustive": False,
        "exhaustive_note": "the TLC runs are complete enumerations of the stated bounds; the replay into the binary is "
                           "a sample of them",
        "checker_cmd": " ; ".join(c for c in cmds if c),
        "open_deviations": sorted(opendevs),
        "trusted_base": ["TLC", "vp/buildproj.py renderer and output parser", "the `verif` hooks of ucg (events only)"],
    }, time.time() - t0, violations=len(rep.violations),
        assumptions=["a file whose build fails prints no assertion log: only its verdict is compared",
                     "the running number printed in front of a log entry is not compared",
                     "malformed assertions are rendered in forms the static checker lets through "
                     "(missing field, value through an identity function)"])
    return code


def do_replay(path, ucg, base, gd):
    case = json.load(open(path))["case"]
    if "abstract" not in case:
        print("replay %s: not a project case (trace rejection?)" % path)
        return 2
    # rebuild the abstract case with its expectation through TLC is unnecessary: the file holds it
    print(json.dumps({"expected": case["expected"], "invocation": case["invocation"]}, indent=1))
    root = B.case_dir(base, 0)
    for d in B.DIRS.values():
        os.makedirs(os.path.join(root, d), exist_ok=True)
    ab = case["abstract"]
    fake = {"nf": len(ab["body"]), "lay": ab["lay"], "body": ab["body"], "cmd": "test", "cwd": ab["cwd"], "ord": ab["ord"]}
    lay = B.Layout(fake, root)
    for f, text in case["project"].items():
        with open(lay.abs_file(int(f)), "w") as fh:
            fh.write(text)
    args = [lay.arg_for(f) for f in ab["ord"]]
    obs = B.run_ucg(ucg, ["test"] + args, lay.cwd(), os.path.join(root, "home"))
    ov, problems = observed_view(B.project_test(obs, lay, args), lay, args)
    ok = not problems and same_view(case["expected"], ov, args)
    print("observed:", json.dumps(ov))
    print("replay %s: %s" % (path, "agrees with the specification" if ok else "DISAGREES"))
    shutil.rmtree(base, ignore_errors=True)
    if not ok:
        print("VIOLATION property=%s replay=%s" % (PID, path))
    return 0 if ok else 1
