"""C20 refinement helpers: concrete texts for abstract text ids (seeded
generator of valid ucg programs, token-mutated variants, arbitrary UTF-8),
concrete positions for position classes, and the geometry of LSP positions
(UTF-16 code units per line) against a concrete text.

Nothing here decides the property: the generator only has to produce varied
inputs, and the geometry is the definition of "a position of this document"
from the LSP specification."""
import re

# --------------------------------------------------------------------------
# geometry: LSP positions against a concrete text
# --------------------------------------------------------------------------

def u16len(s):
    return len(s.encode("utf-16-le")) // 2


class Doc:
    """A text as an LSP client sees it.  Lines end at "\n" (a preceding "\r"
    belongs to the terminator); generated texts contain no bare "\r"."""

    def __init__(self, text):
        self.text = text
        self.raw = text.split("\n")
        self.lines = [l[:-1] if l.endswith("\r") else l for l in self.raw]
        self.len16 = [u16len(l) for l in self.lines]

    def valid(self, line, ch):
        return (isinstance(line, int) and isinstance(ch, int)
                and 0 <= line < len(self.lines) and 0 <= ch <= self.len16[line])

    def to_bytecol(self, line, ch):
        """LSP (line, UTF-16 character) -> ucg (1-based line, 1-based byte column);
        (0, 0) when the position does not exist (past the end, inside a surrogate pair)."""
        if not self.valid(line, ch):
            return (0, 0)
        s = self.lines[line]
        n = 0
        for i, c in enumerate(s):
            if n == ch:
                return (line + 1, len(s[:i].encode("utf-8")) + 1)
            n += 2 if ord(c) > 0xFFFF else 1
            if n > ch:
                return (0, 0)
        return (line + 1, len(s.encode("utf-8")) + 1)

    def from_bytecol(self, ln, col):
        """ucg (1-based line, 1-based byte column) -> LSP position, or None."""
        if not (1 <= ln <= len(self.lines)):
            return None
        b = self.lines[ln - 1].encode("utf-8")
        if col - 1 > len(b):
            return None
        try:
            return (ln - 1, u16len(b[:col - 1].decode("utf-8")))
        except UnicodeDecodeError:
            return None

    def nonascii(self, line):
        return 0 <= line < len(self.lines) and any(ord(c) > 127 for c in self.lines[line])

    def check_range(self, rng):
        """None when the range lies inside the document, else a short cause."""
        try:
            s, e = rng["start"], rng["end"]
            sl, sc, el, ec = s["line"], s["character"], e["line"], e["character"]
        except Exception:
            return "malformed"
        if (sl, sc) > (el, ec):
            return "end-before-start"
        if self.valid(sl, sc) and self.valid(el, ec):
            return None
        n = len(self.lines)
        if sl >= n or el >= n:
            if self.text == "":
                return "missing-or-empty-doc"
            return "line-past-end"
        if self.nonascii(sl) or self.nonascii(el):
            return "nonascii-line"          # byte columns where LSP counts UTF-16 units
        if self.valid(sl, sc) and sl == el and ec == self.len16[el] + 1 and sc == self.len16[el]:
            return "one-past-eol"           # a one-character range that starts at the end of the line
        if self.valid(sl, sc) and sl == el:
            off = sum(len(x) + 1 for x in self.raw[:sl]) + sc      # ASCII line: units = characters
            m = _TOK.match(self.text, off)
            if m and m.lastgroup == "str" and "\n" in m.group():
                return "multiline-string"
        if not self.valid(sl, sc):
            return "start-past-eol"
        return "end-past-eol"


# --------------------------------------------------------------------------
# a plain lexer for generated text (generator device: mutation and positions)
# --------------------------------------------------------------------------

_TOK = re.compile(r'''
    (?P<ws>\r\n|[ \t\n]+)
  | (?P<comment>//[^\n]*)
  | (?P<str>"(?:\\.|[^"\\])*"?)
  | (?P<word>[A-Za-z_][A-Za-z0-9_-]*)
  | (?P<num>[0-9]+(?:\.[0-9]+)?)
  | (?P<op>=>|==|!=|>=|<=|&&|\|\||%%|::|\.\.|!~|[-+*/%=<>.,;:(){}\[\]|~@!&])
  | (?P<other>.)
''', re.X | re.S)


def lex(text):
    """-> [(kind, start_offset, fragment)] covering the whole text."""
    out = []
    for m in _TOK.finditer(text):
        out.append((m.lastgroup, m.start(), m.group()))
    return out


def line_col16(text, off):
    """character offset -> LSP (line, UTF-16 character)."""
    line = text.count("\n", 0, off)
    start = text.rfind("\n", 0, off) + 1
    return line, u16len(text[start:off])


UMAX = 2 ** 31 - 1          # largest LSP uinteger
HUGE = [1, 2, 7, 1000, 70000, UMAX]


def position(rng, text, pclass):
    """A concrete LSP position of the given class in text."""
    doc = Doc(text)
    toks = [t for t in lex(text) if t[0] not in ("ws",)]
    nl = len(doc.lines)
    # words (bindings, keywords: the tokens a server has something to say about) and the
    # last token of a line are drawn more often than their share
    p = rng.random()
    words = [t for t in toks if t[0] == "word"]
    if p < 0.45 and words:
        toks = words
    elif p < 0.60:
        ends = [t for t in toks if text[t[1] + len(t[2]):].split("\n", 1)[0].strip() == "" and "\n" not in t[2]]
        if ends:
            toks = ends
    if pclass == "tokstart":
        if not toks:
            return (0, 0)
        k, off, fr = rng.choice(toks)
        return line_col16(text, off)
    if pclass == "intok":
        big = [t for t in toks if len(t[2]) >= 2 and "\n" not in t[2]]
        if not big:
            return position(rng, text, "tokstart")
        k, off, fr = rng.choice(big)
        return line_col16(text, off + rng.randrange(1, len(fr)))
    if pclass == "lineend":
        ln = rng.randrange(nl)
        return (ln, doc.len16[ln])
    if pclass == "pastline":
        return (min(UMAX, nl - 1 + rng.choice(HUGE)), rng.choice([0, 0, 3, doc.len16[-1], UMAX]))
    if pclass == "pastcol":
        ln = rng.randrange(nl)
        return (ln, min(UMAX, doc.len16[ln] + rng.choice(HUGE)))
    return (0, 0)


# --------------------------------------------------------------------------
# valid programs
# --------------------------------------------------------------------------

NAMES = ["alpha", "beta", "cfg", "host", "port", "name", "items", "total", "flag", "x", "y", "zed",
         "base_url", "retries", "db", "svc", "n1", "w", "k9", "lst"]
FIELDS = ["a", "b", "c", "host", "port", "name", "on", "list", "inner", "v"]
STR_ASCII = ["", "a", "hello", "door1", "x y", "std", "0", "a-b_c", "qa", "prod", "it's", "{}", "//x", "@"]
STR_UNI = ["é", "héllo wörld", "ß", "Ω≈ç", "日本語", "€uro", "😀", "a😀b", "𝔘𝔠𝔤", "é", "naïve café", "✓ done",
           "ñ", "Ελληνικά", "тест"]
STR_ESC = ['\\"q\\"', "back\\\\slash", "tab\\there", "nl\\nx"]
COMMENTS = ["// a comment", "// TODO: fix", "//", "// héllo ✓", "// 日本語 comment 😀", "// let x = 1;",
            "// trailing   ", "//// slashes", "// \"quoted\""]
STDLIBS = ["std/lists.ucg", "std/tuples.ucg", "std/strings.ucg", "std/testing.ucg", "std/functional.ucg",
           "std/schema.ucg"]


class ProgGen:
    """Well-typed straight-line programs over the constructs of the reference.
    Types: int str bool list_int tuple func1 (int -> int)."""

    def __init__(self, rng, uni=0.35):
        self.r = rng
        self.uni = uni
        self.env = {}            # name -> type
        self.tfields = {}        # tuple name -> {field: type}
        self.used = set()
        self.out_done = False

    def fresh(self):
        for _ in range(50):
            n = self.r.choice(NAMES)
            if self.r.random() < 0.4:
                n += str(self.r.randrange(10))
            if n not in self.used:
                self.used.add(n)
                return n
        n = "g%d" % len(self.used)
        self.used.add(n)
        return n

    def names(self, ty):
        return [n for n, t in self.env.items() if t == ty]

    def strlit(self):
        r = self.r
        if r.random() < self.uni:
            s = r.choice(STR_UNI)
            if r.random() < 0.3:
                s = r.choice(STR_ASCII) + s + r.choice(STR_UNI)
        elif r.random() < 0.12:
            s = r.choice(STR_ESC)
        else:
            s = r.choice(STR_ASCII)
        if r.random() < 0.04:
            s = s + "\n  " + r.choice(STR_ASCII)      # a raw line break inside the literal
        return '"%s"' % s

    def expr(self, ty, d=0):
        r = self.r
        deep = d >= 3
        if ty == "int":
            opts = ["lit", "lit"]
            if self.names("int"):
                opts += ["name", "name"]
            if not deep:
                opts += ["add", "mul", "grp", "sel", "div"]
                if self.names("func1"):
                    opts += ["call", "call"]
                if self.names("list_int"):
                    opts += ["reduce"]
                if any("int" in f.values() for f in self.tfields.values()):
                    opts += ["field", "field"]
            k = r.choice(opts)
            if k == "lit":
                return str(r.choice([0, 1, 2, 3, 7, 10, 42, 80, 443, 8080, 65535]))
            if k == "name":
                return r.choice(self.names("int"))
            if k == "add":
                return "%s %s %s" % (self.expr("int", d + 1), r.choice(["+", "-"]), self.expr("int", d + 1))
            if k == "mul":
                return "%s * %s" % (self.expr("int", d + 1), self.expr("int", d + 1))
            if k == "div":
                return "%s %s %d" % (self.expr("int", d + 1), r.choice(["/", "%%"]), r.choice([1, 2, 3, 7]))
            if k == "grp":
                return "(%s)" % self.expr("int", d + 1)
            if k == "sel":
                return 'select (%s, %s) => { %s = %s, %s = %s, }' % (
                    self.expr("str", d + 2), self.expr("int", d + 2), r.choice(["qa", "prod", "door1"]),
                    self.expr("int", d + 2), r.choice(["uat", "dev", "door2"]), self.expr("int", d + 2))
            if k == "call":
                return "%s(%s)" % (r.choice(self.names("func1")), self.expr("int", d + 1))
            if k == "reduce":
                return "reduce(func (acc, it) => acc + it, %s, %s)" % (self.expr("int", d + 2),
                                                                       r.choice(self.names("list_int")))
            if k == "field":
                cands = [(t, f) for t, fs in self.tfields.items() for f, ft in fs.items() if ft == "int"]
                t, f = r.choice(cands)
                return "%s.%s" % (t, f)
        if ty == "str":
            opts = ["lit", "lit", "lit"]
            if self.names("str"):
                opts += ["name"]
            if not deep:
                opts += ["cat", "fmt"]
            k = r.choice(opts)
            if k == "lit":
                return self.strlit()
            if k == "name":
                return r.choice(self.names("str"))
            if k == "cat":
                return "%s + %s" % (self.expr("str", d + 1), self.expr("str", d + 1))
            if k == "fmt":
                return '"%s @ and @" %% (%s, %s)' % (r.choice(["", "v:", "é"]), self.expr("int", d + 2),
                                                    self.expr("str", d + 2))
        if ty == "bool":
            k = r.choice(["lit", "cmp", "eq"] + ([] if deep else ["and", "not"]))
            if k == "lit":
                return r.choice(["true", "false"])
            if k == "cmp":
                return "%s %s %s" % (self.expr("int", d + 1), r.choice(["<", ">", "<=", ">=", "==", "!="]),
                                     self.expr("int", d + 1))
            if k == "eq":
                return "%s == %s" % (self.expr("str", d + 1), self.expr("str", d + 1))
            if k == "and":
                return "(%s) %s (%s)" % (self.expr("bool", d + 1), r.choice(["&&", "||"]), self.expr("bool", d + 1))
            if k == "not":
                return "not (%s)" % self.expr("bool", d + 1)
        if ty == "list_int":
            opts = ["lit", "lit", "range"]
            if self.names("list_int"):
                opts += ["name"]
                if not deep:
                    opts += ["map", "filter", "cat"]
            k = r.choice(opts)
            if k == "lit":
                return "[%s]" % ", ".join(self.expr("int", d + 2) for _ in range(r.randrange(0, 4)))
            if k == "range":
                return r.choice(["0:%d" % r.randrange(1, 6), "0:2:%d" % r.randrange(2, 11)])
            if k == "name":
                return r.choice(self.names("list_int"))
            if k == "map":
                return "map(func (it) => it %s %s, %s)" % (r.choice(["+", "*"]), self.expr("int", d + 2),
                                                           r.choice(self.names("list_int")))
            if k == "filter":
                return "filter(func (it) => it %s %s, %s)" % (r.choice(["<", ">"]), self.expr("int", d + 2),
                                                              r.choice(self.names("list_int")))
            if k == "cat":
                return "%s + %s" % (r.choice(self.names("list_int")), self.expr("list_int", d + 1))
        raise AssertionError(ty)

    def tuple_lit(self, d=0):
        r = self.r
        fs = {}
        parts = []
        for f in r.sample(FIELDS, r.randrange(1, 4)):
            ty = r.choice(["int", "str", "bool", "list_int"])
            fs[f] = ty
            parts.append("%s = %s" % (f, self.expr(ty, d + 1)))
        sep = r.choice([", ", ",\n    "])
        body = sep.join(parts) + r.choice(["", ","])
        if "\n" in sep:
            return "{\n    %s\n}" % body, fs
        return "{%s}" % body, fs

    def statement(self):
        r = self.r
        kinds = ["int", "int", "str", "str", "bool", "list", "tuple", "tuple", "func", "assert", "stdimport",
                 "constraint", "module", "copy", "expr", "out"]
        k = r.choice(kinds)
        if k in ("int", "str", "bool"):
            n = self.fresh()
            e = self.expr(k)
            self.env[n] = k
            return "let %s = %s;" % (n, e)
        if k == "list":
            n = self.fresh()
            e = self.expr("list_int")
            self.env[n] = "list_int"
            return "let %s = %s;" % (n, e)
        if k == "tuple":
            n = self.fresh()
            e, fs = self.tuple_lit()
            self.env[n] = "tuple"
            self.tfields[n] = fs
            return "let %s = %s;" % (n, e)
        if k == "copy" and self.tfields:
            t = r.choice(list(self.tfields))
            fs = self.tfields[t]
            f = r.choice(list(fs))
            n = self.fresh()
            e = "%s{%s = %s}" % (t, f, self.expr(fs[f], 1))
            self.env[n] = "tuple"
            self.tfields[n] = dict(fs)
            return "let %s = %s;" % (n, e)
        if k == "func":
            n = self.fresh()
            p = r.choice(["arg", "it", "q"])
            e = "func (%s) => %s %s %s" % (p, p, r.choice(["+", "*", "-"]), self.expr("int", 2))
            self.env[n] = "func1"
            return "let %s = %s;" % (n, e)
        if k == "assert":
            return 'assert {\n    ok = %s,\n    desc = %s,\n};' % (self.expr("bool"), self.strlit())
        if k == "stdimport":
            n = self.fresh()
            self.env[n] = "import"
            return 'let %s = import "%s";' % (n, r.choice(STDLIBS))
        if k == "constraint":
            n = self.fresh()
            self.env[n] = "int"
            form = r.choice(["range", "alt", "named"])
            if form == "range":
                return "let %s :: in 0..100000 = %s;" % (n, r.choice(["1", "80", "8080"]))
            if form == "alt":
                return "let %s :: 1 | 2 | 443 = %s;" % (n, r.choice(["1", "2", "443"]))
            c = self.fresh()
            return "constraint %s = in 1..65535;\nlet %s :: %s = %d;" % (c, n, c, r.choice([1, 80, 65535]))
        if k == "module":
            # a module body sees only `mod` and its own bindings
            n = self.fresh()
            inst = self.fresh()
            lit = lambda: str(r.choice([0, 1, 2, 7, 42, 8080]))
            arg = self.expr("int", 2)
            text = ("let %s = module {\n    arg = %s,\n} => {\n    let result = mod.arg + %s;\n};\n"
                    "let %s = %s{arg = %s};" % (n, lit(), lit(), inst, n, arg))
            self.env[n] = "module"
            self.env[inst] = "tuple"
            self.tfields[inst] = {"result": "int"}
            return text
        if k == "out" and not self.out_done and self.tfields:
            self.out_done = True
            return "out %s %s;" % (r.choice(["json", "yaml", "toml"]), r.choice(list(self.tfields)))
        return "%s;" % self.expr(r.choice(["int", "str", "bool"]))

    def layout(self, stmts, crlf):
        r = self.r
        out = []
        for s in stmts:
            if r.random() < 0.2 and "\"" not in s:
                # break lines before an operator: the line above then ends in an operand
                s = re.sub(r" (\+|-|\*|==|&&) ", lambda m: "\n    %s " % m.group(1), s, count=r.randrange(1, 3))
            if r.random() < 0.25:
                out.append(r.choice(COMMENTS))
            if r.random() < 0.15:
                out.append("")
            if r.random() < 0.15:
                s = s + " " + r.choice(COMMENTS)
            out.append(s)
        text = "\n".join(out)
        tail = r.choice(["\n", "\n", "", "\n\n", " "])
        text += tail
        if crlf:
            text = text.replace("\n", "\r\n")
        return text


EXPORT_V = {          # the exported binding `v` of a program, by a small type code
    0: "let v = 1;", 1: 'let v = "s";', 2: "let v = [1, 2];", 3: "let v = {a = 1};", 4: "let v = true;",
}


def program(rng, imports=(), vtype=None, n_stmts=None, crlf=None, uni=0.35):
    """A valid program.  imports: workspace document numbers it imports (as
    `let lK = import "dK.ucg";` followed by uses of lK.v).  Every program
    exports `v` (type code vtype) so that importers can depend on it."""
    g = ProgGen(rng, uni)
    stmts = []
    g.used.update(["v"] + ["l%d" % k for k in range(1, 10)] + ["z%d" % k for k in range(1, 10)] + ["y%d" % k for k in range(1, 10)])
    if vtype is None:
        vtype = rng.randrange(5)
    n = rng.randrange(1, 9) if n_stmts is None else n_stmts
    pre = rng.randrange(0, n + 1)
    for _ in range(pre):
        stmts.append(g.statement())
    stmts.append(EXPORT_V[vtype])
    for k in sorted(imports):
        stmts.append('let l%d = import "d%d.ucg";' % (k, k))
        use = rng.choice(["add", "add", "plain", "cmp"])
        if use == "add":
            stmts.append("let z%d = l%d.v + 1;" % (k, k))
        elif use == "cmp":
            stmts.append("let z%d = l%d.v == 1;" % (k, k))
        else:
            stmts.append("let z%d = l%d.v;" % (k, k))
            if rng.random() < 0.5:
                # a field of the alias of an imported value (it is a tuple for one export type in five): requests on
                # it are answered from the imported document's analysis
                stmts.append("let y%d = z%d.a;" % (k, k))
    for _ in range(n - pre):
        stmts.append(g.statement())
    if crlf is None:
        crlf = rng.random() < 0.3
    return g.layout(stmts, crlf)


TYPE_ERRORS = ['let bad = 1 + "s";', 'let bad = "s" + 1;', "let bad = [1] + 1;", "let bad = true + 1;",
               "let f0 = func (a) => a + 1;\nlet bad = f0(\"s\");", "let bad = {a = 1}.b;", "let bad = 1.a;",
               'let t0 = {a = 1};\nlet bad = t0.a + "é";', "let bad = nope + 1;", 'let bad :: in 1..5 = "s";',
               "let bad = not 1;", 'let bad = "é😀" + 1;   // ✓']


def type_error_program(rng, imports=()):
    text = program(rng, imports, crlf=False)
    lines = text.split("\n")
    lines.insert(rng.randrange(len(lines) + 1), rng.choice(TYPE_ERRORS))
    text = "\n".join(lines)
    if rng.random() < 0.3:
        text = text.replace("\n", "\r\n")
    return text


# --------------------------------------------------------------------------
# token mutation (Mutate.tla's alphabet: delete, duplicate, swap, replace)
# --------------------------------------------------------------------------

REPL = [";", "=", "(", ")", "{", "}", "[", "]", ",", ".", "..", "=>", "::", "|", "let", "import", "func",
        "module", "select", "assert", "out", "not", "in", "is", "NULL", "true", '"', '"x', "1", "1.5", "0:1",
        "%", "%%", "+", "@", "é", "😀", "//", "self", "mod", "env", "x", "include", "str", "convert", "fail",
        "TRACE", "map", "reduce", "cast", "\\", "'", "`", "#"]


def mutate(rng, text, n=None):
    toks = lex(text)
    idx = [i for i, t in enumerate(toks) if t[0] != "ws"]
    frs = [t[2] for t in toks]
    if not idx:
        return text + rng.choice(REPL)
    n = n or rng.randrange(1, 4)
    for _ in range(n):
        idx = [i for i, f in enumerate(frs) if f.strip() != ""]
        if not idx:
            break
        i = rng.choice(idx)
        op = rng.choice(["delete", "duplicate", "swap", "replace", "replace"])
        if op == "delete":
            frs[i] = ""
        elif op == "duplicate":
            frs[i] = frs[i] + " " + frs[i]
        elif op == "swap":
            j = rng.choice(idx)
            frs[i], frs[j] = frs[j], frs[i]
        else:
            frs[i] = rng.choice(REPL)
    return "".join(frs)


# --------------------------------------------------------------------------
# arbitrary UTF-8
# --------------------------------------------------------------------------

CLASSES = [
    list("abcxyzLETQ_"), list("0123456789"), list(';={}()[]"/\\.,:|&%@~!<>+-*\'`#$^?'), [" ", " ", "\t"],
    ["\n"], ["\r\n"], list("éßñüØ"), list("Ωλж"), list("€漢字✓→"), ["😀", "𝔘", "🇩🇪", "👩‍💻"], ["́", "​", "﻿"],
    ["\x00", "\x07", "\x1b", "\x7f"], ["let ", "import ", '"', "//", "func", "=> ", "select ", "NULL", "1.5", "0:3"],
    ["let x = 1;", 'let s = "é";', "{a = 1}", "[1, 2]", 'assert {ok = true, desc = "d"};'],
]
WEIGHTS = [6, 3, 6, 5, 3, 2, 3, 2, 3, 3, 1, 1, 4, 3]


def raw_utf8(rng):
    k = rng.choice([0, 1, 2, 5, 10, 20, 40, 80])
    if k == 0:
        return rng.choice(["", " ", "\n", "\r\n", "﻿", "\n\n\n"])
    out = []
    for _ in range(k):
        cl = rng.choices(CLASSES, WEIGHTS)[0]
        out.append(rng.choice(cl))
    return "".join(out)


def workspace_imports(text, ndocs):
    """Documents dK.ucg this text can import (conservative: any mention)."""
    return sorted({k for k in range(1, ndocs + 1) if ("d%d.ucg" % k) in text})
