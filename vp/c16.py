"""C16 — a file builds the same alone, in any batch, in any order, any number of times.

Build.tla is model-checked (BatchEqualsSolo, with op cache / value cache / shape cache /
out locks as the only state shared between the files of one invocation) over projects
of 2..3 files -- entry files with out, shared libraries, files that are both built and
imported, failing files -- in every permutation of the argument list, each invocation
run twice.  Every explored invocation is executed with the real binary twice:
`ucg build f1 f2 ...` in one process (and again), and one fresh process per file on a
pristine copy; per file success/failure, diagnostic class and artifact bytes must agree
between batch, solo and the specification; `ucg build -r <dir>` is compared with the
solo builds as well.  The cache/lock events of the batch executions are validated
against BuildTrace.tla."""
import json
import os
import random
import shutil
import time

from . import buildproj as B
from . import common as C

PID = "C16"
DEVS = {"OutLockNeverReset", "CreateBeforeConvert", "PushAfterCompletion", "RawPathKeys", "WalkerSkips"}


def art_view(lay, disk):
    """artifact set of the specification -> {path: descriptor}"""
    out = {}
    for a in disk:
        out[lay.artifact(a["af"], a["ext"])] = "%s@%d" % (a["c"], a["ci"]) if a["c"] == "out" else a["c"]
    return out


def obs_arts(lay, snap, solo_bytes):
    """artifact bytes -> the same descriptors, by comparison with what the solo builds wrote"""
    out = {}
    for p, b in snap.items():
        out[p] = solo_bytes.get((p, b), "other:%r" % b[:60])
    return out


def pred_view(lay, rnd, is_expect):
    files = []
    for pf in rnd["files"]:
        okay = pf["okay"] if is_expect else pf["res"] == "ok"
        clss = sorted(pf["clss"]) if is_expect else ([pf["cls"]] if pf["cls"] else [])
        files.append({"f": pf["f"], "okay": okay, "clss": clss, "arts": art_view(lay, pf["disk"])})
    return {"files": files, "exit": rnd["exit"], "arts": art_view(lay, rnd["disk"])}


def agrees(pv, po, after, solo_bytes, lay):
    why = []
    if po["crashed"]:
        return ["the process died: %s (status %s)" % (po["crashed"], po["rc"])]
    if len(po["files"]) != len(pv["files"]):
        return ["%d `Building` blocks for %d arguments" % (len(po["files"]), len(pv["files"]))]
    for e, o in zip(pv["files"], po["files"]):
        if o["okay"] != e["okay"]:
            why.append("%s: build %s, specification says %s" % (lay.nm(e["f"]), "ok" if o["okay"] else "failed (%s)" % o["msg"][:160],
                                                                "ok" if e["okay"] else "fails with %s" % e["clss"]))
        elif not e["okay"] and o["cls"] not in e["clss"]:
            why.append("%s: diagnostic class %s, specification says %s (%s)" % (lay.nm(e["f"]), o["cls"], e["clss"], o["msg"][:160]))
    if po["rc"] != pv["exit"]:
        why.append("exit status %s, specification says %s" % (po["rc"], pv["exit"]))
    got = obs_arts(lay, after, solo_bytes)
    want = dict(pv["arts"])
    # created-but-not-converted content (deviation) is whatever the converter managed to write
    for p, d in list(want.items()):
        if d == "empty" and p in got and not got[p].startswith(("out@", "pre")):
            got[p] = "empty"
    if got != want:
        why.append("artifacts after the invocation %s, specification says %s" % (got, want))
    return why


def run_case(job):
    idx, case, devcase, ucg, base, sd = job
    rng = random.Random(sd * 32452843 + idx)
    root = B.case_dir(base, idx)
    res = {"idx": idx, "ok": True, "fired": [], "events": [], "solo_mismatch": None}
    # --- one fresh process per file, each on a pristine copy: what "alone" means
    solo = {}
    solo_bytes = {}
    files = sorted(set(case["ord"]))
    lay0 = None
    for f in files:
        sroot = os.path.join(root, "solo%d" % f)
        os.makedirs(sroot)
        layf = B.materialise(case, sroot, random.Random(sd * 32452843 + idx))
        arg = layf.arg_for(f)
        obs = B.run_ucg(ucg, ["build", arg], layf.cwd(), os.path.join(sroot, "home"), timeout=15)
        po = B.project_build(obs, layf, [arg])
        snap = B.snapshot(layf)
        solo[f] = {"po": po, "snap": snap}
        for p, b in snap.items():
            # which out statement wrote these bytes: taken from the specification's solo prediction
            pass
    broot = os.path.join(root, "batch")
    os.makedirs(broot)
    lay = B.materialise(case, broot, random.Random(sd * 32452843 + idx))
    res["text"] = text_of(lay, case)
    # descriptor table: bytes the solo builds produced, labelled by the artifact descriptors the
    # specification gives for building that file alone
    exp1 = case["expect"][0]
    for pf in exp1["files"]:
        f = pf["f"]
        # artifacts the denotation says building f alone writes = those of `arts` in its disk that are "out"
        for a in pf["disk"]:
            if a["c"] == "out":
                p = lay.artifact(a["af"], a["ext"])
                if f in solo and p in solo[f]["snap"]:
                    solo_bytes.setdefault((p, solo[f]["snap"][p]), "out@%d" % a["ci"])
    for a in case["disk0"]:
        solo_bytes.setdefault((lay.artifact(a["af"], a["ext"]), B.PRE_BYTES), "pre")
    # --- the batch, twice
    args = [lay.arg_for(f) for f in case["ord"]]
    rounds = []
    before = B.snapshot(lay)
    for rn in range(case["repeat"]):
        obs = B.run_ucg(ucg, ["build"] + args, lay.cwd(), os.path.join(broot, "home"),
                        trace_file=os.path.join(broot, "trace.ndjson"), timeout=15)
        after = B.snapshot(lay)
        po = B.project_build(obs, lay, args)
        rounds.append({"po": po, "after": after, "text": obs.text})
        res["events"].append((dict(case, disk_now=abstract_disk(lay, before, solo_bytes)), B.abstract_events(lay, obs.trace),
                              po["crashed"]))
        before = after
    # --- batch against solo, observation against observation (the statement of C16 itself)
    mism = []
    for rn, r in enumerate(rounds):
        po = r["po"]
        if po["crashed"] or len(po["files"]) != len(args):
            mism.append("round %d: %s" % (rn + 1, po["crashed"] or "missing Building blocks"))
            continue
        for f, o in zip(case["ord"], po["files"]):
            s = solo[f]["po"]
            if s["crashed"] or not s["files"]:
                mism.append("solo build of %s: %s" % (lay.nm(f), s["crashed"]))
                continue
            sf = s["files"][0]
            if o["okay"] != sf["okay"] or o["cls"] != sf["cls"]:
                mism.append("round %d: %s %s in the batch, %s alone" % (
                    rn + 1, lay.nm(f), "ok" if o["okay"] else "fails (%s: %s)" % (o["cls"], o["msg"][:120]),
                    "ok" if sf["okay"] else "fails (%s)" % sf["cls"]))
        want = {}
        for f in case["ord"]:
            want.update(solo[f]["snap"])
        if r["after"] != want:
            mism.append("round %d: artifacts of the batch %s, of the solo builds %s" % (
                rn + 1, {k: v[:50] for k, v in r["after"].items()}, {k: v[:50] for k, v in want.items()}))
    # --- against the specification
    why = []
    for rn, r in enumerate(rounds):
        why += ["round %d: %s" % (rn + 1, w) for w in agrees(pred_view(lay, case["expect"][rn], True), r["po"], r["after"], solo_bytes, lay)]
    if why or mism:
        res["ok"] = False
        for dc in (devcase or []):
            if not dc["fired"]:
                continue
            if len(dc["got"]) != len(rounds):
                # the deviation predicts the process dies in an earlier round
                explained = dc["got"][-1]["exit"] == 134 and rounds[len(dc["got"]) - 1]["po"]["crashed"] == "abort"
            else:
                explained = True
                for rn, r in enumerate(rounds):
                    g = dc["got"][rn]
                    if g["exit"] == 134:
                        explained = explained and r["po"]["crashed"] == "abort"
                        break
                    w = agrees(pred_view(lay, g, False), r["po"], r["after"], solo_bytes, lay)
                    if w and "RawPathKeys" in dc["fired"] and r["po"]["crashed"] in ("abort", "timeout"):
                        w = []
                    explained = explained and not w
            if explained:
                res["fired"] = sorted(dc["fired"])
                break
        res["report"] = {"project": {lay.rel_file(f): open(lay.abs_file(f)).read() for f in range(1, lay.nf + 1)},
                         "invocation": ["ucg", "build"] + args, "repeated": case["repeat"],
                         "abstract": {k: case[k] for k in ("lay", "body", "cmd", "cwd", "ord", "repeat")},
                         "batch_vs_solo": mism, "batch_vs_specification": why,
                         "expected": [pred_view(lay, e, True) for e in case["expect"]],
                         "batch_output": [r["text"][:1500] for r in rounds],
                         "solo_output": {lay.nm(f): (solo[f]["po"]["files"][0]["msg"] if solo[f]["po"]["files"] else solo[f]["po"]["crashed"]) for f in files}}
    # --- `ucg build -r <dir>` on a pristine copy: every file of the directory, order chosen by the OS
    res["rec"] = None
    if idx % 4 == 0 and len(files) == lay.nf:
        rroot = os.path.join(root, "rec")
        os.makedirs(rroot)
        layr = B.materialise(case, rroot, random.Random(sd * 32452843 + idx))
        obs = B.run_ucg(ucg, ["build", "-r", "."], layr.cwd(), os.path.join(rroot, "home"), timeout=15)
        snap = B.snapshot(layr)
        want = {}
        anyfail = False
        for f in files:
            want.update(solo[f]["snap"])
            sf = solo[f]["po"]["files"]
            anyfail = anyfail or not sf or not sf[0]["okay"]
        rc_want = 1 if anyfail else 0
        okay = (obs.crashed is None and obs.rc == rc_want and snap == want)
        res["rec"] = okay
        if not okay and res["ok"]:
            # the same sharing, reached through the directory walk; only reported when the batch itself agreed
            res["rec_report"] = {"project": {layr.rel_file(f): open(layr.abs_file(f)).read() for f in range(1, layr.nf + 1)},
                                 "invocation": ["ucg", "build", "-r", "."], "exit": obs.rc, "exit_of_solo_builds": rc_want,
                                 "artifacts": {k: v[:60] for k, v in snap.items()},
                                 "artifacts_of_solo_builds": {k: v[:60] for k, v in want.items()}, "output": obs.text[:1500]}
    shutil.rmtree(root, ignore_errors=True)
    return res


def abstract_disk(lay, snap, solo_bytes):
    out = []
    for f in range(1, lay.nf + 1):
        for ext in sorted(set(B.EXT_OF)):
            p = lay.artifact(f, ext)
            if p in snap:
                d = solo_bytes.get((p, snap[p]), "empty")
                if d.startswith("out@"):
                    out.append({"af": f, "ext": ext, "c": "out", "ci": int(d[4:])})
                else:
                    out.append({"af": f, "ext": ext, "c": d if d in ("pre", "empty") else "empty", "ci": 0})
    return out


def text_of(lay, case):
    parts = []
    for f in range(1, lay.nf + 1):
        st = []
        for s in case["body"][f - 1]:
            if s["k"] == "imp":
                st.append("import %s@%s" % (lay.nm(s["tgt"]), s["pos"]))
            elif s["k"] == "out":
                st.append("out %s%s" % (B.FMTS[s["tgt"] - 1], "" if s["r"] == "ok" else "(inconvertible)"))
            else:
                st.append(s["k"])
        parts.append("%s:[%s]" % (lay.nm(f), ", ".join(st)))
    return " ".join(parts) + " ; build " + " ".join(lay.nm(f) for f in case["ord"]) + " x%d" % case["repeat"]


def nontrivial(case):
    """the batch shares at least one imported file (imported by two files of the batch, or
    built and imported)"""
    imported = {}
    for f in set(case["ord"]):
        for s in case["body"][f - 1]:
            if s["k"] == "imp":
                imported.setdefault(s["tgt"], set()).add(f)
    return len(case["ord"]) >= 2 and any(len(v) >= 2 or (t in case["ord"]) for t, v in imported.items())


def main(tier, replay=None):
    t0 = time.time()
    rep = B.reporter(PID)
    ucg = C.ensure_ucg()
    sd = C.seed()
    gd = C.gen_dir("c16")
    base = C.scratch_dir("c16")
    if replay:
        return do_replay(replay, ucg, base)
    cfgs = ["c16_q1", "c16_q2"] if tier == "quick" else ["c16_q1", "c16_q2", "c16_t1"]
    budget = 240 if tier == "quick" else 2500
    opendevs = B.open_deviations() & DEVS
    states = trans = 0
    cmds = []
    cases, devcases = {}, {}
    for cfg in cfgs:
        r, r2 = B.run_design_and_deviations(gd, cfg, opendevs, timeout=3000)
        cmds.append(r.cmd)
        if r.violation:
            raise C.ToolError("Build.tla (%s, Deviations = {}): invariant %s violated -- the design itself breaks the "
                              "property; inspect the specification.\n%s" % (cfg, r.violation, r.errtext[:3000]))
        C.require_tlc_ok(r, cfg)
        states += r.distinct
        trans += r.generated
        C.log("[c16] %s: %d states, %d invocations, %.0fs" % (cfg, r.distinct, len(r.replays), r.wall))
        for c in r.replays:
            cases.setdefault(B.case_key(c), c)
        if r2 is not None:
            C.require_tlc_ok(r2, cfg + " with deviations")
            cmds.append(r2.cmd)
            for c in r2.replays:
                devcases.setdefault(B.case_key(c), []).append(c)
    if tier == "thorough":
        # 4..6 files: sampled projects, sampled permutations, each invocation twice
        for nf, n in ((4, 500), (6, 300)):
            fs = ", ".join(str(i) for i in range(1, nf + 1))
            sc, sdv, st2, tr2 = B.sampled_cases(
                gd, "c16_%d" % nf, nf,
                "RandomSubset(%d, [1..%d -> [1..2 -> A16({%s})]])" % (n, nf, fs),
                "RandomSubset(4, PermsOf({%s}))" % fs,
                '{ [dir |-> << %s >>, nm |-> << %s >>] }' % (", ".join("0" for i in range(nf)),
                                                            ", ".join('"%s"' % "abcdefgh"[i] for i in range(nf))),
                "CmdBuild", "Cwd0", 2, opendevs, cmds)
            states += st2
            trans += tr2
            for k, c in sc.items():
                cases.setdefault(k, c)
            for k, v in sdv.items():
                devcases.setdefault(k, []).extend(v)
    keys = B.choose(cases, lambda k: nontrivial(cases[k]), len(cases), random.Random(sd))
    easy = [k for k in keys if not nontrivial(cases[k])]
    keys = easy[:budget // 20] + [k for k in keys if nontrivial(cases[k])] + easy[budget // 20:]
    chosen = []
    slow = 0
    for k in keys:
        if len(chosen) >= budget:
            break
        ds = devcases.get(k) or []
        if any(any(g["exit"] == 134 for g in d["got"]) or "RawPathKeys" in d["fired"] for d in ds):
            slow += 1
            if slow > (6 if tier == "quick" else 50):
                continue
        chosen.append(k)
    jobs = [(i, cases[k], devcases.get(k), ucg, base, sd) for i, k in enumerate(chosen)]
    cnt = {"all files build": 0, "a failing file in the batch": 0, "shared import": 0, "built and imported": 0,
           "built and imported, with out": 0, "three files": 0, "artifact written": 0, "same file twice": 0}
    for k in chosen:
        c = cases[k]
        fs = c["expect"][0]["files"]
        cnt["all files build"] += all(e["okay"] for e in fs)
        cnt["a failing file in the batch"] += any(not e["okay"] for e in fs) and any(e["okay"] for e in fs)
        imp = {}
        for f in set(c["ord"]):
            for s in c["body"][f - 1]:
                if s["k"] == "imp":
                    imp.setdefault(s["tgt"], set()).add(f)
        cnt["shared import"] += any(len(v) >= 2 for v in imp.values())
        bi = [t for t in imp if t in c["ord"]]
        cnt["built and imported"] += bool(bi)
        cnt["built and imported, with out"] += any(s["k"] == "out" for t in bi for s in c["body"][t - 1])
        cnt["three files"] += len(set(c["ord"])) == 3
        cnt["artifact written"] += bool(c["expect"][0]["disk"])
        cnt["same file twice"] += len(set(c["ord"])) < len(c["ord"])
    B.require_nonvacuous("c16", cnt)
    B.binding_demo(jobs)
    results = B.pool_map(run_case, jobs, workers=8)
    by_nf = {}
    nontriv = set()
    samples = []
    procs = 0
    recs = rec_ok = 0
    for (i, case, *_), res in zip(jobs, results):
        procs += case["repeat"] + len(set(case["ord"]))
        if res["ok"] or res["fired"]:
            for c2, evs, crashed in res["events"]:
                if not crashed and not ({"RawPathKeys", "PushAfterCompletion"} & set(res["fired"])):
                    by_nf.setdefault(case["nf"], []).append((c2, evs))
        if not res["ok"]:
            if res["fired"]:
                for d in res["fired"]:
                    rep.disagree(res["report"], key=[k for k, v in B.DEV_OF_KEY.items() if v == d][0])
            else:
                rep.disagree(res["report"], key=None)
        if res.get("rec") is not None:
            recs += 1
            procs += 1
            rec_ok += 1 if res["rec"] else 0
            if "rec_report" in res:
                rep.disagree(res["rec_report"], key=None)
        if nontrivial(case):
            nontriv.add(res["text"])
        if len(samples) < 6 and nontrivial(case) and i % 41 == 0:
            samples.append(res["text"])
    tv_runs = tv_events = 0
    if os.path.exists(os.path.join(C.SPEC, "BuildTrace.tla")):
        for nf, runs in sorted(by_nf.items()):
            runs = runs[: (300 if tier == "quick" else 3000)]
            if not any(evs for _, evs in runs):
                raise C.ToolError("no hook events recorded: is the ucg binary built with the `verif` feature?")
            okay, info = B.validate_traces(gd, runs, nf, opendevs, "c16_%d" % nf, timeout=1800)
            cmds.append(info.get("cmd", ""))
            if not okay:
                rep.disagree({"trace_validation": "BuildTrace.tla rejects a recorded `ucg build` execution", "info": info}, key=None)
            else:
                tv_runs += info["runs"]
                tv_events += info["events"]
                states += info.get("states", 0)
    code = rep.finish()
    shutil.rmtree(base, ignore_errors=True)
    if code == 0:
        shutil.rmtree(gd, ignore_errors=True)      # kept after a violation: the trace files are evidence
    if not samples:
        samples = [r["text"] for r in results[:3]]
    C.write_evidence(PID, tier, "model_checking", {
        "states": states, "transitions": trans,
        "traces_validated_against_impl": len(results) + tv_runs,
        "evaluations": procs,
        "distinct_nontrivial": len(nontriv),
        "rule": "Build.tla explores (a) all two-file projects of <= 2 statements per file, (b) all three-file projects of <= 1 "
                "statement per file (thorough: a three-level mix with <= 2 statements) over {import top|nested, out json, "
                "out toml of an inconvertible value, run-time error, type error}, every permutation of the argument list "
                "(and a repeated argument), each invocation run twice; a seeded sample, non-trivial first, is executed as "
                "a batch (twice), as one fresh process per file, and (every fourth) as `ucg build -r .`; non-trivial = the "
                "batch shares an imported file (imported twice, or built and imported); evaluations = ucg processes run",
        "samples": samples,
        "model_invocations_explored": len(cases),
        "recursive_builds_compared": recs, "recursive_builds_agreeing": rec_ok,
        "trace_events_validated": tv_events, "trace_runs_validated": tv_runs,
        "exhaustive": False,
        "exhaustive_note": "TLC enumerates the stated bounds completely; the binary sees a seeded sample",
        "checker_cmd": " ; ".join(c for c in cmds if c),
        "open_deviations": sorted(opendevs),
        "trusted_base": ["TLC", "vp/buildproj.py renderer and output parser", "the `verif` hooks of ucg (events only)"],
    }, time.time() - t0, violations=len(rep.violations),
        assumptions=["stderr is compared by diagnostic class per file (TRACE lines of imports already evaluated for an earlier "
                     "file of the batch legitimately do not repeat)",
                     "`ucg build -r` is compared with the solo builds on exit status and artifacts only (its file order is the "
                     "operating system's)"])
    return code


def do_replay(path, ucg, base):
    case = json.load(open(path))["case"]
    if "project" not in case or "abstract" not in case:
        print("replay %s: not a batch case" % path)
        return 2
    ab = case["abstract"]
    fake = {"nf": len(ab["body"]), "lay": ab["lay"], "body": ab["body"], "cmd": "build", "cwd": ab["cwd"], "ord": ab["ord"]}
    outcomes = {}
    for mode in ["batch"] + ["solo%d" % f for f in sorted(set(ab["ord"]))]:
        root = os.path.join(base, mode)
        lay = B.Layout(fake, root)
        for d in B.DIRS.values():
            os.makedirs(os.path.join(root, d), exist_ok=True)
        for rel, text in case["project"].items():
            with open(os.path.join(root, rel), "w") as fh:
                fh.write(text)
        fs = ab["ord"] if mode == "batch" else [int(mode[4:])]
        args = [lay.arg_for(f) for f in fs]
        obs = B.run_ucg(ucg, ["build"] + args, lay.cwd(), os.path.join(root, "home"), timeout=15)
        po = B.project_build(obs, lay, args)
        outcomes[mode] = {"files": {f: (o["okay"], o["cls"]) for f, o in zip(fs, po["files"])}, "crashed": po["crashed"],
                          "arts": B.snapshot(lay)}
    ok = not outcomes["batch"]["crashed"]
    want = {}
    for f in ab["ord"]:
        s = outcomes["solo%d" % f]
        want.update(s["arts"])
        if s["crashed"] or outcomes["batch"]["files"].get(f) != s["files"].get(f):
            ok = False
    if outcomes["batch"]["arts"] != want:
        ok = False
    print(json.dumps({m: {"files": {str(k): v for k, v in o["files"].items()}, "artifacts": sorted(o["arts"])} for m, o in outcomes.items()}, indent=1))
    print("replay %s: %s" % (path, "batch equals solo" if ok else "DISAGREES"))
    shutil.rmtree(base, ignore_errors=True)
    if not ok:
        print("VIOLATION property=%s replay=%s" % (PID, path))
    return 0 if ok else 1
