"""C06 — a `::` constraint on a let binding admits exactly the conforming values.

Constraint.tla is model-checked (the transcribed checker + VM against the rule of
the property statement, Deviations = {}), and every (constraint, value form)
pair its generator machine produces is replayed into the real code in three
spellings (inline, behind a `constraint` name, behind let-bound names): the
program `[constraint n = C;] let v :: C|n = V; let after = TRACE 1;` is written
to a file and built with the harness op `build` (type checker + VM, as
`ucg build` does).  The build must succeed iff the specification says the value
conforms; a rejection must carry a diagnostic and must not reach `after`; the
spellings must agree.  A seeded sample also goes through the `ucg` binary."""
import json
import os
import random
import shutil
import subprocess
import time

from . import common as C

PID = "C06"
SPELL = ["inline", "named", "let"]
DEVS = ("concat-shape-by-narrow", "copy-override-keeps-base-field")


# ---- program construction (mirrors Prog of Constraint.tla; pure syntax) ----

def _lit(v):
    return {"e": "val", "val": v}


def _slet(nm, pc, x):
    return {"s": "let", "nm": nm, "pc": pc, "x": x}


def _bound(ty, n):
    return {"t": "int", "i": n} if ty == "int" else {"t": "float", "h": n}


def _sym(n):
    return {"t": "sym", "nm": n}


def make_prog(con, vf, sp):
    if sp == "inline" or sp == "named":
        pc = []
        for a in con:
            if a["a"] == "shape":
                pc.append({"a": "shape", "x": a["x"]})
            else:
                pc.append({"a": "brange", "lob": [_bound(a["ty"], n) for n in a["lo"]],
                           "hib": [_bound(a["ty"], n) for n in a["hi"]]})
        if sp == "inline":
            pre = []
        else:
            pre = [{"s": "constraint", "nm": "n", "pc": pc}]
            pc = [{"a": "shape", "x": _sym("n")}]
    else:
        pre, pc = [], []
        for j, a in enumerate(con, 1):
            if a["a"] == "shape":
                pre.append(_slet("x%d" % j, [], _lit(a["x"])))
                pc.append({"a": "shape", "x": _sym("x%d" % j)})
            else:
                for n in a["lo"]:
                    pre.append(_slet("lo%d" % j, [], _lit(_bound(a["ty"], n))))
                for n in a["hi"]:
                    pre.append(_slet("hi%d" % j, [], _lit(_bound(a["ty"], n))))
                pc.append({"a": "brange", "lob": [_sym("lo%d" % j) for _ in a["lo"]],
                           "hib": [_sym("hi%d" % j) for _ in a["hi"]]})
    f = vf["f"]
    if f == "lit":
        vpre, x = [], _lit(vf["val"])
    elif f == "name":
        vpre, x = [_slet("w", [], _lit(vf["val"]))], _lit(_sym("w"))
    elif f == "add":
        vpre, x = [], {"e": "add", "l": _lit(vf["l"]), "r": _lit(vf["r"])}
    elif f == "copy":
        vpre, x = [_slet("t", [], _lit(vf["base"]))], {"e": "copy", "sel": "t", "flds": vf["flds"]}
    else:
        raise C.ToolError("unknown value form %r" % (vf,))
    return pre + vpre + [_slet("v", pc, x)]


# ---- rendering ---------------------------------------------------------------

class Layout:
    """Seeded layout choices; they never change the token sequence's meaning."""

    def __init__(self, rng):
        self.sep = rng.choice([", ", ",", ",\n  ", " , "])
        self.trail = rng.random() < 0.3
        self.eq = rng.choice([" = ", "=", " =\n  "])
        self.bar = rng.choice([" | ", "|", "\n  | "])
        self.cc = rng.choice([" :: ", "::", " ::\n  "])
        self.stmt = rng.choice(["\n", " ", "\n\n// next\n"])


def r_value(v, lo):
    t = v["t"]
    if t == "null":
        return "NULL"
    if t == "bool":
        return "true" if v["b"] else "false"
    if t == "int":
        return str(v["i"])
    if t == "float":
        return "%d.%d" % (v["h"] // 2, 5 * (v["h"] % 2))
    if t == "str":
        return '"%s"' % v["s"]
    if t == "sym":
        return v["nm"]
    if t == "list":
        inner = lo.sep.join(r_value(e, lo) for e in v["es"])
        return "[" + inner + ("," if lo.trail and v["es"] else "") + "]"
    if t == "tuple":
        inner = lo.sep.join("%s%s%s" % (f["nm"], lo.eq.replace("\n  ", " "), r_value(f["val"], lo))
                            for f in v["fs"])
        return "{" + inner + ("," if lo.trail and v["fs"] else "") + "}"
    raise C.ToolError("cannot render value %r" % (v,))


def r_expr(x, lo):
    if x["e"] == "val":
        return r_value(x["val"], lo)
    if x["e"] == "add":
        return "%s + %s" % (r_expr(x["l"], lo), r_expr(x["r"], lo))
    if x["e"] == "copy":
        return x["sel"] + r_value({"t": "tuple", "fs": x["flds"]}, lo)
    raise C.ToolError("cannot render expression %r" % (x,))


def r_arm(a, lo):
    if a["a"] == "shape":
        return r_value(a["x"], lo)
    return "in %s..%s" % ("".join(r_value(b, lo) for b in a["lob"]),
                          "".join(r_value(b, lo) for b in a["hib"]))


def r_stmt(s, lo):
    pc = lo.bar.join(r_arm(a, lo) for a in s["pc"])
    if s["s"] == "constraint":
        return "constraint %s%s%s;" % (s["nm"], lo.eq, pc)
    return "let %s%s%s%s;" % (s["nm"], (lo.cc + pc) if s["pc"] else "", lo.eq, r_expr(s["x"], lo))


def render(prog, lo):
    return lo.stmt.join([r_stmt(s, lo) for s in prog] + ["let after = TRACE 1;"]) + "\n"


# ---- projection of the observed value onto the specification's values --------

def same_value(spec, got):
    t = spec["t"]
    if t != got.get("t"):
        return False
    if t == "null":
        return True
    if t == "bool":
        return spec["b"] == got["b"]
    if t == "int":
        return spec["i"] == got["i"]
    if t == "float":
        return float(got["r"]) * 2 == spec["h"]
    if t == "str":
        return spec["s"] == got["s"]
    if t == "list":
        return len(spec["es"]) == len(got["es"]) and all(same_value(a, b) for a, b in zip(spec["es"], got["es"]))
    if t == "tuple":
        return (len(spec["fs"]) == len(got["fs"])
                and all(a["nm"] == b["nm"] and same_value(a["val"], b["val"]) for a, b in zip(spec["fs"], got["fs"])))
    return False


def nontrivial(case):
    """The verdict depends on more than the top-level type tag of the value."""
    vt = case["val"]["t"]
    for a in case["con"]:
        if (a["a"] == "shape" and a["x"]["t"] == vt) or (a["a"] == "range" and a["ty"] == vt):
            return True
    return False


# ---- worker --------------------------------------------------------------------

_WDIR = None
_WN = 0


def _wdir(base):
    global _WDIR
    if _WDIR is None:
        _WDIR = os.path.join(base, "w%d" % os.getpid())
        os.makedirs(_WDIR, exist_ok=True)
    return _WDIR


def observe(r):
    """-> (accepted | None for a crash, problems[], message)"""
    if "crash" in r:
        return None, ["crash:%s" % r["crash"]], r.get("msg", "")
    out = r["out"]
    traced = "TRACE" in r.get("stderr", "")
    if out["k"] == "ok":
        probs = []
        fs = {f["nm"]: f["val"] for f in out.get("val", {}).get("fs", [])}
        if not traced or fs.get("after") != {"t": "int", "i": 1}:
            probs.append("after-missing-on-accept")
        return True, probs, ""
    probs = []
    if not out.get("msg", "").strip():
        probs.append("empty-diagnostic")
    if traced:
        probs.append("after-reached-on-reject")
    return False, probs, out.get("msg", "")


def work(h, items):
    """items: (base dir, seed, flip, case json).  Runs in a worker process."""
    global _WN
    out = []
    reqs, meta, files = [], [], []
    for base, sd, flip, spells, cj in items:
        case = json.loads(cj)
        d = _wdir(base)
        rng = random.Random(sd)
        per = []
        for sp in spells:
            j = SPELL.index(sp)
            prog = make_prog(case["con"], case["vf"], sp)
            if case["progs"] and case["progs"][j] != prog:
                raise C.ToolError("renderer's program differs from Prog of Constraint.tla:\n%s\n%s"
                                  % (json.dumps(prog), json.dumps(case["progs"][j])))
            text = render(prog, Layout(rng))
            _WN += 1
            path = os.path.join(d, "p%d.ucg" % _WN)
            with open(path, "w") as f:
                f.write(text)
            files.append(path)
            reqs.append({"op": "build", "path": path, "fresh": False, "strict": True})
            per.append((sp, j, text))
        meta.append((case, flip, per))
    resps = iter(h.batch(reqs))
    for case, flip, per in meta:
        conforms = case["conforms"] != bool(flip)
        obs = {}
        builds = 0
        for sp, j, text in per:
            r = next(resps)
            builds += 1
            acc, probs, msg = observe(r)
            obs[sp] = acc
            info = {"fam": case["fam"], "con": case["con"], "vf": case["vf"], "val": case["val"],
                    "spelling": sp, "text": text, "conforms": conforms, "masked": case["mask"],
                    "code_predicted": case["code"][j], "observed_accept": acc, "diagnostic": msg[:400]}
            for p in probs:
                out.append(("bad", p, info))
            if acc is None:
                continue
            if acc:
                got = {f["nm"]: f["val"] for f in r["out"].get("val", {}).get("fs", [])}.get("v")
                if got is None or not same_value(case["val"], got):
                    out.append(("toolerr", "the value form does not denote the specification's value: %s -> %r"
                                % (text, got)))
            if not case["mask"] and acc != conforms:
                if case["dev"] and acc == case["code"][j] and not flip:
                    key = case["dev"]
                else:
                    key = "unexplained-%s-%s" % (case["fam"], "accept" if acc else "reject")
                out.append(("bad", key, info))
        if len(obs) > 1 and len({v for v in obs.values() if v is not None}) > 1:
            out.append(("bad", "spellings-disagree", {"fam": case["fam"], "con": case["con"], "vf": case["vf"],
                                                      "observed": obs, "texts": [t for _, _, t in per]}))
        out.append(("n", builds, 1 if nontrivial(case) else 0,
                    1 if (not case["mask"] and conforms) else 0))
    for p in files:
        try:
            os.unlink(p)
        except OSError:
            pass
    return out


class Pipeline:
    """Replays one family in a background thread while TLC enumerates the next."""

    def __init__(self, fn):
        import queue
        import threading
        self.fn = fn
        self.q = queue.Queue()
        self.err = None
        self.th = threading.Thread(target=self._run, daemon=True)
        self.th.start()

    def _run(self):
        while True:
            job = self.q.get()
            if job is None:
                return
            if self.err is None:
                try:
                    self.fn(*job)
                except BaseException as e:   # re-raised in the main thread
                    self.err = e

    def submit(self, *job):
        if self.err is not None:
            self.finish()
        self.q.put(job)

    def finish(self):
        self.q.put(None)
        self.th.join()
        if self.err is not None:
            raise self.err


# ---- the real binary -------------------------------------------------------------

def run_binary(ucg, base, samples):
    """samples: (case, spelling index, text).  Exit status 0 iff accepted."""
    d = os.path.join(base, "bin")
    home = os.path.join(base, "home")
    os.makedirs(d, exist_ok=True)
    os.makedirs(home, exist_ok=True)
    env = dict(os.environ)
    env["HOME"] = home
    env.pop("RUST_BACKTRACE", None)
    env.pop("UCG_VERIF_TRACE", None)
    procs = []
    for i, (case, j, text) in enumerate(samples):
        path = os.path.join(d, "s%d.ucg" % i)
        with open(path, "w") as f:
            f.write(text)
        procs.append((case, j, text, path))
    res = []
    import concurrent.futures as cf

    def one(x):
        case, j, text, path = x
        try:
            p = subprocess.run([ucg, "build", path], cwd=d, env=env, stdout=subprocess.PIPE,
                               stderr=subprocess.PIPE, text=True, timeout=60)
            return (case, j, text, p.returncode, p.stderr[-600:])
        except subprocess.TimeoutExpired:
            return (case, j, text, "timeout", "")
    with cf.ThreadPoolExecutor(max_workers=6) as ex:
        res = list(ex.map(one, procs))
    return res


# ---- replay of one recorded case ---------------------------------------------------

def do_replay(hp, path):
    rec = json.load(open(path))["case"]
    if "text" not in rec:      # a spellings-disagree record: the spellings are rebuilt and must agree
        base = C.scratch_dir("c06r")
        try:
            h = C.Harness(hp)
            accs = []
            for i, text in enumerate(rec["texts"]):
                f = os.path.join(base, "replay%d.ucg" % i)
                with open(f, "w") as fh:
                    fh.write(text)
                accs.append(observe(h.req({"op": "build", "path": f, "fresh": True, "strict": True}))[0])
            h.close()
        finally:
            shutil.rmtree(base, ignore_errors=True)
        ok = len(set(accs)) == 1
        print("replay %s: spellings build as %r -> %s" % (path, accs, "agree" if ok else "DISAGREE"))
        if not ok:
            print("VIOLATION property=%s replay=%s" % (PID, path))
        return 0 if ok else 1
    base = C.scratch_dir("c06r")
    try:
        f = os.path.join(base, "replay.ucg")
        with open(f, "w") as fh:
            fh.write(rec["text"])
        h = C.Harness(hp)
        r = h.req({"op": "build", "path": f, "fresh": True, "strict": True})
        h.close()
    finally:
        shutil.rmtree(base, ignore_errors=True)
    acc, probs, msg = observe(r)
    ok = acc == rec["conforms"] and not probs
    print("replay %s: specification says %s, the build %s%s -> %s" % (
        path, "conforms" if rec["conforms"] else "does not conform",
        {True: "succeeded", False: "failed", None: "crashed"}[acc],
        (" (" + msg.splitlines()[-1][:160] + ")") if msg else "",
        "agrees" if ok else "DISAGREES"))
    if not ok:
        print("VIOLATION property=%s replay=%s" % (PID, path))
    return 0 if ok else 1


# ---- main ------------------------------------------------------------------------------

def main(tier, replay=None):
    t0 = time.time()
    rep = C.Reporter(PID)
    hp = C.ensure_harness()
    if replay:
        return do_replay(hp, replay)
    sd = C.seed()
    suffix = "_thorough" if tier == "thorough" else ""
    fams = [("range", "Constraint_range", "int/float ranges closed and half-open x boundary values, every form"),
            ("rec", "Constraint_rec", "the recursive named constraint of the reference (xml_node pattern)"),
            ("alt", "Constraint_alt" + suffix, "alternations of 1..4 literals and ranges"),
            ("ex2", "Constraint_ex2" + suffix, "exemplars of depth <=2 over 3 field names x values in every form"),
            ("ex3", "Constraint_ex3" + suffix, "exemplars of depth 3 x values of depth <=3")]
    base = C.scratch_dir("c06")
    alter = int(os.environ.get("VERIF_C06_ALTER", "0") or 0)   # binding demo: flip one prediction
    states = trans = 0
    cmds, configs = [], []
    totals = {"builds": 0, "cases": 0, "nontrivial": 0, "conforming": 0, "masked": 0, "devcases": 0}
    samples = []
    bin_pool = []
    rng = random.Random(sd)
    keys = {}

    def consume(cfg, items):
        t1 = time.time()
        res = C.proc_map(hp, work, items, chunk=250, workers=max(2, min(12, C.NCPU - 4)), timeout=30.0)
        for x in res:
            if x[0] == "bad":
                keys[x[1]] = keys.get(x[1], 0) + 1
                rep.disagree(x[2], key=x[1])
            elif x[0] == "toolerr":
                raise C.ToolError(x[1])
            else:
                totals["builds"] += x[1]
                totals["cases"] += 1
                totals["nontrivial"] += x[2]
                totals["conforming"] += x[3]
        C.log("[c06] %s: %d pairs replayed in %.0fs" % (cfg, len(items), time.time() - t1))

    replayer = Pipeline(consume)
    try:
        for fam, cfg, what in fams:
            items = []

            def on(o, items=items, fam=fam):
                i = len(items)
                if o["mask"]:
                    totals["masked"] += 1
                if o["dev"]:
                    totals["devcases"] += 1
                flip = 0
                if alter and fam == "range" and i >= alter and not o["mask"] and not totals.get("altered"):
                    totals["altered"] = flip = 1
                if fam == "rec":
                    spells = ["named"]
                elif tier == "quick" and fam in ("alt", "ex2", "ex3"):
                    # quick: inline + one of the two indirect spellings, alternating (thorough: all three)
                    spells = ["inline", SPELL[1 + (i + sd) % 2]]
                else:
                    spells = SPELL
                cj = json.dumps(o, separators=(",", ":"))
                items.append((base, sd * 1000003 + i, flip, spells, cj))

            r = C.run_tlc("Constraint", cfg, workers=6, on_replay=on, timeout=5400, heap="8g")
            cmds.append(r.cmd)
            if r.violation:
                # DESIGN §3.7(4): the design (Deviations = {}) contradicts the rule inside the model.
                raise C.ToolError("Constraint.tla: invariant %s violated in %s with Deviations = {} — the "
                                  "transcription and the rule disagree in the model; triage before replay.\n%s"
                                  % (r.violation, cfg, r.errtext[:3000]))
            C.require_tlc_ok(r, cfg)
            if not items:
                raise C.ToolError("%s produced no case (vacuous)" % cfg)
            states += r.distinct or r.generated
            trans += r.generated
            configs.append("%s: %s — %d pairs" % (cfg, what, len(items)))
            C.log("[c06] %s: %d states, %d pairs, TLC %.0fs" % (cfg, r.distinct or r.generated, len(items), r.wall))
            # seeded picks for the evidence samples and for the real binary
            for it in rng.sample(items, min(len(items), 14 if tier == "quick" else 60)):
                bin_pool.append(it)
            replayer.submit(cfg, items)
        replayer.finish()

        # a seeded sample through the real binary (exit status)
        ucg = C.ensure_ucg()
        picks = []
        for b, s, flip, _sp, cj in bin_pool:
            case = json.loads(cj)
            if case["mask"]:
                continue
            spells = [1] if case["fam"] == "rec" else [rng.randrange(3)]
            for j in spells:
                text = render(make_prog(case["con"], case["vf"], SPELL[j]), Layout(random.Random(s + j)))
                picks.append((case, j, text))
        bin_runs = 0
        for case, j, text, rc, err in run_binary(ucg, base, picks):
            bin_runs += 1
            acc = rc == 0
            info = {"fam": case["fam"], "con": case["con"], "vf": case["vf"], "val": case["val"],
                    "spelling": SPELL[j], "text": text, "conforms": case["conforms"], "via": "ucg build",
                    "exit_status": rc, "stderr": err}
            if rc not in (0, 1):
                rep.disagree(info, key="binary-exit-%s" % rc)
            elif acc != case["conforms"]:
                key = case["dev"] if (case["dev"] and acc == case["code"][j]) else "unexplained-binary"
                rep.disagree(info, key=key)
            elif not acc and not err.strip():
                rep.disagree(info, key="empty-diagnostic")
            if len(samples) < 6 and (len(samples) % 2 == 0) == case["conforms"]:
                samples.append({"program": text, "spelling": SPELL[j], "specification": "conforms" if case["conforms"]
                                else "does not conform", "ucg_build_exit": rc})
    finally:
        shutil.rmtree(base, ignore_errors=True)

    # "literal or computed values of every type": the value forms of Constraint.tla are a literal, a let-bound name, a
    # sum and a copy - all of them typed by the static checker.  A value whose type the checker cannot see (the result of
    # an identity function, an element of a mixed list) reaches only the run-time check: fixed programs, same verdicts
    pdir = C.scratch_dir("c06p")
    hq = C.Harness(hp)
    try:
        for k, (text, conforms) in enumerate((
                ('let f = func (x) => x;\nlet y :: 0 = f(3);\n', True),
                ('let f = func (x) => x;\nlet y :: 0 = f("a");\n', False),
                ('let l = [1, "s"];\nlet y :: 0 = l.0;\n', True),
                ('let l = [1, "s"];\nlet y :: 0 = l.1;\n', False),
                ('let f = func (x) => x;\nlet y :: in 1..10 = f(11);\n', False),
                ('let f = func (x) => x;\nlet y :: "a" | in 1..3 = f("a");\n', True))):
            fpath = os.path.join(pdir, "p%d.ucg" % k)
            with open(fpath, "w") as fh:
                fh.write(text)
            r = hq.req({"op": "build", "path": fpath, "fresh": True, "strict": True})
            got = None if "crash" in r else (r["out"]["k"] == "ok")
            if got is None or got != conforms:
                rep.disagree({"leg": "computed-values", "text": text, "conforms": conforms, "builds": got,
                              "message": str(r.get("out", r))[:300]},
                             key="exemplar-not-checked-when-the-checker-cannot-type-the-value" if (got and not conforms)
                             else "computed-value-verdict")
    finally:
        hq.close()
        shutil.rmtree(pdir, ignore_errors=True)
    if keys:
        C.log("[c06] disagreements by key: %s" % json.dumps(keys, sort_keys=True))
    code = rep.finish()
    C.write_evidence(PID, tier, "model_checking", {
        "states": states, "transitions": trans,
        "traces_validated_against_impl": totals["builds"] + bin_runs,
        "evaluations": totals["builds"] + bin_runs,
        "distinct_nontrivial": totals["nontrivial"],
        "rule": "every (constraint, value form) pair of the generator machine of Constraint.tla is built in three "
                "spellings through FileBuilder::build (checker + VM); non-trivial = distinct pair whose value has "
                "the top-level type of the exemplar / of a range / of an alternative, so that the verdict depends "
                "on fields, element types, bounds or equality and not on the type tag alone",
        "pairs": totals["cases"], "pairs_conforming": totals["conforming"], "pairs_masked": totals["masked"],
        "pairs_where_a_recorded_deviation_predicts_a_disagreement": totals["devcases"],
        "builds_through_ucg_binary": bin_runs,
        "samples": samples,
        "exhaustive": True,
        "exhaustive_note": "every configuration is a complete enumeration of its bounded grammar; the run through "
                           "the ucg binary is a seeded sample",
        "checker_cmd": " ; ".join(cmds),
        "configs": configs,
        "known_findings_matched": sorted(rep.matched),
        "trusted_base": ["TLC", "vp/c06.py renderer (program construction cross-checked against Prog of "
                         "Constraint.tla in the range and rec families)", "harness op build"],
    }, time.time() - t0, violations=len(rep.violations),
        assumptions=["NULL against an exemplar is admitted at every depth (typechecking.md: NULL is compatible with "
                     "any constraint)",
                     "NULL against a range or an alternation is masked (statement and reference disagree)",
                     "a lone literal after `::` is an exemplar (an alternation needs `|`); NULL is not used as an "
                     "exemplar or inside one",
                     "tuple alternatives and tuple values list their fields in the same order (whether field order "
                     "matters for equality is left open)",
                     "the observable for `after` is `let after = TRACE 1;` (a failed build exposes no bindings)",
                     "numbers are non-negative (ucg has no negative literals); floats are multiples of 0.5",
                     "recursive named constraints: conformance as the reference describes it (each arm an "
                     "exemplar, checked statically at every depth)"])
    return code
