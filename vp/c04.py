"""C04 - no input makes the compiler crash or hang.

Model-checked core: NoPanicAtEnd / CleanAtEnd / NoFuel of VM.tla+Translate.tla on the Gen families (every
unwrap/unreachable/BUG-panic of translate.rs, vm.rs, runtime.rs is an explicit Panic(site) outcome of the model).
Replay: every text - generated programs (valid and ill-typed), the same with literals refined to arithmetic edge
values, Mutate.tla scripts applied to the token sequences of generated programs, of every .ucg file of the repository
and of the fuzz corpus, Lexer.tla simulation texts (random token-class sequences with random layout), the raw corpus -
goes through tokenize, parse, fmt (twice), translate, eval (strict and not), every converter on every resulting value,
and a checked file build; a sample goes through `ucg build` / `ucg fmt`."""
import glob
import json
import os
import random
import re
import shutil
import subprocess
import time

from . import common as C
from . import coreprog as P
from . import render as R
from . import c01

PID = "C04"

EDGE = ["9223372036854775807", "(0 - 9223372036854775807 - 1)", "(0 - 1)", "0", "1", "2", "9223372036854775806",
        "4611686018427387904", "(0 - 9223372036854775807)", "0.0", "1.0e308", "340282366920938463463374607431768211456"]
VOCAB = [";", "=", "(", "}", "let", '"x"']


def q(name, **over):
    for f in c01.QUICK:
        if f[0] == name:
            d = dict(f[1])
            d.update(over)
            return d
    raise KeyError(name)


QUICK = [("ops1", q("ops1"), None), ("arith", q("arith"), None), ("misc", q("misc"), None), ("cast", q("cast"), None),
         ("foppre", q("foppre"), None), ("fopbad", q("fopbad"), None), ("conlet", q("conlet"), None),
         ("sim", q("sim", Ill0="2"), (1500, 70))]
THOROUGH = QUICK[:-1] + [("data", q("data"), None), ("call", q("call"), None), ("select", q("select"), None),
                         ("moddef", q("moddef"), None), ("dotuse", q("dotuse"), None),
                         ("sim", q("sim", Ill0="2", MaxStmts="8"), (60000, 100))]

_DIR = None
_N = 0


def excluded(text):
    """the exclusions of the property: nesting deeper than 64, ranges longer than 10^6 (any long digit run next to a
    range is avoided wholesale: a mutated literal like 10000000 makes a legitimate multi-second range)"""
    if len(text.encode("utf-8", "replace")) > 4096:
        return True
    if re.search(r"\d{7,}", text) and ":" in text:
        return True
    depth = mx = 0
    for ch in text:
        if ch in "([{":
            depth += 1
            mx = max(mx, depth)
        elif ch in ")]}":
            depth -= 1
    return mx > 64


def pipeline(h, text, edge_ok=True):
    global _DIR, _N
    if _DIR is None:
        _DIR = C.scratch_dir("c04")
    _N += 1
    path = os.path.join(_DIR, "t%d_%d.ucg" % (os.getpid(), _N))
    r = h.req({"op": "pipeline", "src": text, "path": path}, timeout=30)
    if r.get("crash") == "timeout":
        # a loaded machine is not a hang: a time-out counts only when it reproduces with a generous limit
        r = h.req({"op": "pipeline", "src": text, "path": path}, timeout=180)
    for f in glob.glob(path[:-4] + ".*"):
        try:
            os.unlink(f)
        except OSError:
            pass
    if "crash" in r:            # the whole request died: abort / stack overflow / timeout
        return {"status": "violation", "key": "crash:%s" % r["crash"], "text": text, "detail": r}
    if r.get("crash_stage"):
        msg = str(r["stages"].get(r["crash_stage"]))
        return {"status": "violation", "key": "panic:%s:%s" % (r["crash_stage"], re.sub(r"\d+", "N", msg)[7:60]),
                "text": text, "detail": r["stages"]}
    bad = [k for k, v in r["stages"].items() if v == "err-empty"]
    if bad:
        return {"status": "violation", "key": "diagnostic-without-message:" + bad[0], "text": text, "detail": r["stages"]}
    return {"status": "ok", "stages": r["stages"]}


def work_gen(h, cases):
    """generated programs, plus the same program with its integer literals refined to edge values"""
    out = []
    for c in cases:
        try:
            text = R.program(c["prog"])
        except R.Unrenderable as e:
            out.append({"status": "skip", "why": str(e)})
            continue
        x = pipeline(h, text)
        if x["status"] == "ok":
            rng = random.Random(hash(text) & 0xFFFFFFF)
            ed = re.sub(r"(?<![\w.\"])\d+(?![\w.\"])", lambda m: rng.choice(EDGE) if rng.random() < 0.6 else m.group(0), text)
            if ed != text and not excluded(ed):
                y = pipeline(h, ed)
                if y["status"] != "ok":
                    x = y
        x["text"] = x.get("text", text)
        out.append(x)
    return out


def self_recursive_module(text):
    """the text instantiates a module through `mod.this`: the property excludes module self-recursion without a base
    case, and a token mutation of a shipped recursive module (modules_test.ucg: `mod.start != mod.end` -> `mod.let !=
    mod.end`) removes the base case without leaving a trace - stack exhaustion of such a text is not judged"""
    return re.search(r"\bmod\s*\.\s*this\b", text) is not None


def work_text(h, texts):
    out = []
    for t in texts:
        if excluded(t):
            out.append({"status": "skip", "why": "excluded by the property"})
            continue
        x = pipeline(h, t)
        if x["status"] == "violation" and x.get("key") in ("crash:abort", "crash:timeout") and self_recursive_module(t):
            x = {"status": "skip", "why": "excluded by the property: module self-recursion (base case lost to a mutation)"}
        x["text"] = x.get("text", t)
        out.append(x)
    return out


MAXI = 9223372036854775807
RANGE_PROBES = ["let x = %d:%d;" % (MAXI - 1, MAXI), "let x = %d:%d;" % (MAXI, MAXI), "let x = %d:2:%d;" % (MAXI - 5, MAXI),
                "let x = (0 - %d - 1):(0 - %d);" % (MAXI, MAXI), "let x = %d:%d:%d;" % (MAXI - 3, MAXI, MAXI),
                "let x = 0:%d:%d;" % (MAXI, MAXI), "let x = 5:1;", "let x = 1:0:5;", "let x = 1:(0 - 1):5;",
                "let l = %d:%d; let y = l.0 + 1;" % (MAXI - 1, MAXI), "let s = \"@\" %% (%d:%d);" % (MAXI - 2, MAXI)]


# A function cannot name itself, but it can be handed itself: evaluation then nests without end.  Eval.tla leaves these
# calls undescribed (Call: HigherOrder/HandsOn), so no generator produces them; they are probed as given texts.
SELF_APPLICATION_PROBES = [
    "let w = func (a) => a(a);\nlet d = w(w);\n",
    "let w = func (a, n) => a(a, n + 1);\nlet d = w(w, 0);\n",
    "let t = {f = func (s) => s.f(s)};\nlet d = t.f(t);\n",
    "let w = func (a) => a(a);\nlet l = map(w, [w]);\n",
]


def nested_item(depth):
    return '"x"' if depth == 0 else '{label = "n", subitems = [%s, "x"]}' % nested_item(depth - 1)


def probes_leg(hp, rep, stats):
    """Fixed edge inputs the generators do not reach: short ranges at the ends of the integer domain, and a
    recursive constraint applied to nested data (the checker's narrowing must terminate in reasonable time)."""
    h = C.Harness(hp, timeout=30)
    try:
        for t in RANGE_PROBES:
            x = pipeline(h, t)
            stats["probes"] = stats.get("probes", 0) + 1
            if x["status"] == "violation":
                rep.disagree({"leg": "probe", "text": t, "detail": x.get("detail")}, key=x.get("key"))
        for t in SELF_APPLICATION_PROBES:
            x = pipeline(h, t)
            stats["probes"] = stats.get("probes", 0) + 1
            if x["status"] == "violation":
                key = x.get("key")
                if key.startswith("crash:") and key != "crash:timeout":
                    key = "abort:function-handed-itself-recurses-until-the-stack-is-exhausted"
                rep.disagree({"leg": "probe", "text": t, "detail": x.get("detail")}, key=key)
        for depth in (2, 3, 5):
            t = ('constraint item = "" | {label = "", subitems = [item]};\nlet v :: item = %s;\n' % nested_item(depth))
            t0 = time.time()
            r = h.req({"op": "pipeline", "src": t, "path": os.path.join(C.scratch_dir("c04p"), "p.ucg")}, timeout=25)
            stats["probes"] = stats.get("probes", 0) + 1
            if r.get("crash") == "timeout":
                rep.disagree({"leg": "probe", "text": t, "what": "no answer within 25 s", "depth": depth},
                             key="hang:recursive-constraint-on-nested-data")
                break
            if "crash" in r or r.get("crash_stage"):
                rep.disagree({"leg": "probe", "text": t, "detail": r}, key="crash:recursive-constraint")
                break
        # nesting far below the 64 levels the property excludes: parse time must not explode
        for depth in (6, 9, 13):
            t = "let x = %s1%s;\n" % ("[" * depth, "]" * depth)
            r = h.req({"op": "parse", "src": t}, timeout=40)
            stats["probes"] = stats.get("probes", 0) + 1
            if r.get("crash") == "timeout":
                rep.disagree({"leg": "probe", "text": t, "what": "parse: no answer within 40 s", "depth": depth},
                             key="hang:parser-exponential-in-nesting-depth")
                break
            if "crash" in r:
                rep.disagree({"leg": "probe", "text": t, "detail": r}, key="crash:nested-literal")
                break
    finally:
        h.close()
        shutil.rmtree(os.path.join(C.BUILD, "scratch", "c04p-%d" % os.getpid()), ignore_errors=True)


def tok_text(t):
    if t["ty"] == "QUOTED":
        return R.str_lit(list(t["fr"]))
    if t["ty"] == "COMMENT":
        return "//" + t["fr"] + "\n"
    return t["fr"]


def mutated_texts(h, sources, scripts, rng, per_source):
    """Mutate.tla scripts applied to a window of each source's token sequence."""
    out = []
    ns = sorted(scripts)
    for src in sources:
        r = h.req({"op": "tokens", "src": src})
        if not r.get("ok"):
            continue
        toks = [t for t in r["toks"] if t["ty"] != "END"]
        if len(toks) < ns[0]:
            continue
        for _ in range(per_source):
            n = rng.choice([x for x in ns if x <= len(toks)])
            s = rng.choice(scripts[n])
            start = rng.randint(0, len(toks) - n)
            win = toks[start:start + n]
            new = [tok_text(win[x - 1]) if x > 0 else VOCAB[-x - 1] for x in s["seq"]]
            words = [tok_text(t) for t in toks[:start]] + new + [tok_text(t) for t in toks[start + n:]]
            sep = rng.choice([" ", " ", "\n", "  "])
            out.append(sep.join(words))
    return out


def lexer_texts(tier, seed):
    """random token-class sequences with random layout: behaviours of Lexer.tla's simulation configurations"""
    from . import c11
    texts = []
    tlcstates = 0
    for cfg, num, depth in (("Lexer_simtok", 60 if tier == "quick" else 1500, 400),
                            ("Lexer_simprog", 60 if tier == "quick" else 1500, 400)):
        tabs = {}
        cases = []

        def on(o):
            if "vocab" in o and not tabs:
                tabs.update(o)
            else:
                cases.append(o)
        r = C.run_tlc("Lexer", cfg, workers=4, simulate=num, depth=depth, timeout=900, heap="6g", on_replay=on)
        C.require_tlc_ok(r, cfg)
        tlcstates += r.generated
        for case in cases:
            raw = json.dumps(case, sort_keys=True)
            ref = c11.refinement(raw, seed)
            try:
                texts.append("".join(c11.spell(c11.abstract_text(case, tabs), ref)))
            except Exception:
                continue
    return texts, tlcstates


def repo_sources():
    out = []
    for pat in ("std/*.ucg", "std/tests/*.ucg", "integration_tests/*.ucg", "integration_tests/libs/*.ucg", "examples/*.ucg",
                "examples/*/*.ucg", "example_errors/*.ucg"):
        for f in sorted(glob.glob(os.path.join(C.REPO, pat))):
            try:
                out.append(open(f, encoding="utf-8").read())
            except Exception:
                pass
    return out


def corpus_sources(limit, rng):
    files = sorted(glob.glob(os.path.join(C.REPO, "fuzz/corpus/*/*")))
    rng.shuffle(files)
    out = []
    for f in files[:limit]:
        try:
            b = open(f, "rb").read()[:4096]
            out.append(b.decode("utf-8", "replace"))
        except Exception:
            pass
    return out


def binary_leg(texts, rng, n, rep, stats):
    ucg = C.ensure_ucg()
    d = C.scratch_dir("c04bin")
    home = os.path.join(d, "home")
    os.makedirs(home)
    env = {"HOME": home, "PATH": "/usr/bin:/bin"}
    if os.environ.get("VERIF_COVERAGE") and os.environ.get("LLVM_PROFILE_FILE"):      # development aid, see common._cargo_env
        env["LLVM_PROFILE_FILE"] = os.environ["LLVM_PROFILE_FILE"]
    try:
        for i, t in enumerate(rng.sample(texts, min(n, len(texts)))):
            src = os.path.join(d, "b%d.ucg" % i)
            with open(src, "w", encoding="utf-8") as f:
                f.write(t)
            for cmd in (["build", src], ["fmt", src]):
                try:
                    p = subprocess.run([ucg] + cmd, env=env, cwd=d, capture_output=True, timeout=30)
                except subprocess.TimeoutExpired:
                    rep.disagree({"leg": "binary", "cmd": cmd, "text": t, "what": "timeout"}, key="crash:timeout")
                    continue
                stats["binary_runs"] = stats.get("binary_runs", 0) + 1
                err = p.stderr.decode("utf-8", "replace")
                if p.returncode == -6 and "overflowed its stack" in err and self_recursive_module(t):
                    continue            # excluded by the property (see self_recursive_module)
                if p.returncode not in (0, 1) or "panicked at" in err:
                    rep.disagree({"leg": "binary", "cmd": cmd[0], "text": t, "exit": p.returncode, "stderr": err[:400]},
                                 key="crash:binary:%s" % cmd[0])
                elif p.returncode == 1 and not (err.strip() or p.stdout.strip()):
                    rep.disagree({"leg": "binary", "cmd": cmd[0], "text": t, "exit": 1}, key="diagnostic-without-message")
            for f in glob.glob(os.path.join(d, "b%d.*" % i)):
                os.unlink(f)
    finally:
        shutil.rmtree(d, ignore_errors=True)


RULE = ("model: NoPanicAtEnd, CleanAtEnd, NoFuel, Agreement on every Gen.tla program of the listed families (each "
        "unwrap / unreachable / BUG panic of translate.rs, vm.rs, runtime.rs is a Panic(site) outcome of the model). "
        "Replay under crash and time capture, through tokenize, parse, fmt (twice), translate, eval (strict and not), "
        "every converter on every resulting value and a checked file build: (a) every generated program and the same "
        "program with its integer literals refined to arithmetic edge values (i64 extremes, -1, 0, overflowing literals), "
        "(b) Mutate.tla scripts (delete/duplicate/swap/replace, <= 3 mutations) applied to the token sequences of "
        "generated programs, of every .ucg file of the repository and of the fuzz corpus, (c) Lexer.tla simulation texts "
        "(random token-class sequences with random layout, incl. non-ASCII, CR/LF, unterminated strings and comments), "
        "(d) the raw fuzz corpus; (e) a sample through the `ucg build` / `ucg fmt` binaries (exit 0 or 1, message on 1). "
        "Excluded as in the property: nesting > 64, long ranges, texts > 4 KiB. non-trivial = distinct text that reaches "
        "the evaluation stage or is rejected with a diagnostic after tokenizing")


def text_replay(h, case):
    x = pipeline(h, case["text"])
    x["text"] = case["text"]
    return x


def main(tier, replay=None):
    t0 = time.time()
    if replay:
        return c01.do_replay(PID, replay, work_gen, text_replay=text_replay)
    fams = QUICK if tier == "quick" else THOROUGH
    sd = C.seed()

    def after(rep, stats, okprogs):
        hp = C.ensure_harness()
        rng = random.Random(sd)
        # Mutate.tla scripts
        scripts = {}
        r1 = C.run_tlc("Mutate", "Mutate_mc", workers=4, timeout=300)
        C.require_tlc_ok(r1, "Mutate_mc")
        r2 = C.run_tlc("Mutate", "Mutate_sim", workers=1, simulate=10 ** 6, depth=3, timeout=180,
                       max_replays=30000 if tier == "quick" else 300000)
        C.require_tlc_ok(r2, "Mutate_sim")
        for o in r1.replays + r2.replays:
            scripts.setdefault(o["n"], []).append(o)
        gen_src = []
        for p in okprogs[:400 if tier == "quick" else 3000]:
            try:
                gen_src.append(R.program(p))
            except R.Unrenderable:
                pass
        repo = repo_sources()
        corpus = corpus_sources(150 if tier == "quick" else 1400, rng)
        h = C.Harness(hp)
        try:
            texts = mutated_texts(h, gen_src, scripts, rng, 2 if tier == "quick" else 6)
            texts += mutated_texts(h, repo, scripts, rng, 12 if tier == "quick" else 150)
            texts += mutated_texts(h, corpus, scripts, rng, 2 if tier == "quick" else 8)
        finally:
            h.close()
        stats["mutated_texts"] = len(texts)
        lex, lst = lexer_texts(tier, sd)
        stats["lexer_texts"] = len(lex)
        stats["lexer_states"] = lst
        texts += lex
        texts += corpus + repo
        res = C.proc_map(hp, work_text, texts, chunk=100, timeout=30)
        n_ok = 0
        reached = set()
        for t, x in zip(texts, res):
            if x["status"] == "violation":
                rep.disagree({"leg": "text", "text": x.get("text"), "detail": x.get("detail")}, key=x.get("key"))
            elif x["status"] == "ok":
                n_ok += 1
                st = x.get("stages", {})
                if st.get("tokens") == "ok":
                    reached.add(t)
        stats["texts_run"] = n_ok
        stats["texts_past_tokenizer"] = len(reached)
        probes_leg(hp, rep, stats)
        binary_leg(texts + gen_src, rng, 40 if tier == "quick" else 600, rep, stats)

    try:
        return c01.run(PID, tier, fams, t0, worker=work_gen, rule=RULE, after=after, level="exploration")
    finally:
        pass
