"""C20 — the language server survives any session and answers from the
current text only.

Lsp.tla (session machine: open documents, workspace index, outbox) is
model-checked for the design (Deviations = {}) and must give a counterexample
session for every named deviation; TLC's `-simulate` runs of the same machine
produce the abstract sessions (REPLAY lines: messages over document ids, text
ids, request kinds, position classes, with the outputs the specification
predicts).  This driver refines them (texts: generated programs, token-mutated
programs, arbitrary UTF-8; positions against the concrete text), drives a real
`ucg lsp` process per session over stdio, records the JSON-RPC traffic together
with what a fresh server publishes on the final texts and what the compiler
(harness parse / build) says about them, and has LspTrace.tla decide whether
the recording is a behaviour of the specification.  The only thing decided in
Python is geometry: every range of every response / diagnostic must lie inside
the document it refers to (UTF-16 code units per line)."""
import concurrent.futures as cf
import hashlib
import json
import os
import random
import re
import shutil
import threading
import time

from . import common as C
from . import c20gen as G
from .lspclient import LspServer, ServerGone, path_to_uri

PID = "C20"
NDOCS = 3
METHOD = {"hover": "textDocument/hover", "definition": "textDocument/definition",
          "completion": "textDocument/completion", "semanticTokens": "textDocument/semanticTokens/full",
          "workspaceSymbol": "workspace/symbol"}
DEVIATIONS = ["UnsavedInIndex", "CloseKeepsUnsaved", "ByteColumns"]
FENCE0 = 900000
T_DUE = 3.0        # silence after which a fence is sent to find out whether an output is missing
T_LONG = 60.0


class Interner:
    def __init__(self, first=1):
        self.m = {}
        self.rev = {}
        self.n = first
        self.lock = threading.Lock()

    def get(self, key):
        with self.lock:
            v = self.m.get(key)
            if v is None:
                v = self.n
                self.n += 1
                self.m[key] = v
                self.rev[v] = key
            return v


class Ctx:
    def __init__(self, ucg, harness, root):
        self.ucg = ucg
        self.harness = harness
        self.root = root
        self.home = os.path.join(root, "home")
        os.makedirs(self.home, exist_ok=True)
        self.texts = Interner()
        self.digests = Interner()
        self.lock = threading.Lock()
        self.parse_cache = {}
        self.build_cache = {}
        self.parser_msgs = set()
        self.tl = threading.local()
        self.bn = 0
        self.harnesses = []

    def h(self):
        x = getattr(self.tl, "h", None)
        if x is None:
            x = C.Harness(self.harness, timeout=15.0)
            self.tl.h = x
            with self.lock:
                self.harnesses.append(x)
        return x

    def close(self):
        for x in self.harnesses:
            x.close()

    # ---- the compiler as oracle (never the language server) ---------------
    def parse_oracle(self, text):
        with self.lock:
            r = self.parse_cache.get(text)
        if r is not None:
            return r
        x = self.h().req({"op": "parse", "src": text})
        if x.get("ok"):
            r = {"pok": True, "pl": 0, "pc": 0}
        elif "crash" in x:
            # the compiler's parser itself fell over: nothing to compare a position with
            r = {"pok": False, "pl": -1, "pc": -1, "crash": x.get("msg", "")}
        else:
            e = x.get("err", {})
            r = {"pok": False, "pl": int(e.get("ln", 0)), "pc": int(e.get("col", 0))}
            msg = e.get("msg", "")
            first = msg.split("\nCaused By:")[0]
            pre = "%s: " % e.get("etype", "ParseError")
            if first.startswith(pre):
                first = first[len(pre):]
            m = re.search(r" at (?:file: .*? )?line: %d column: %d$" % (r["pl"], r["pc"]), first)
            if m:
                first = first[:m.start()]
            r["msg"] = first
            with self.lock:
                self.parser_msgs.add(first)
        with self.lock:
            self.parse_cache[text] = r
        return r

    def build_oracle(self, disk_texts, d, text):
        """Does the compiler build `text` as document d next to the files on disk?"""
        deps = G.workspace_imports(text, NDOCS)
        key = (text,) if not deps else (text, d, tuple(sorted((k, disk_texts.get(k)) for k in deps)))
        with self.lock:
            r = self.build_cache.get(key)
            self.bn += 1
            n = self.bn
        if r is not None:
            return r
        bd = os.path.join(self.root, "b", str(n))
        os.makedirs(bd)
        try:
            for k, t in disk_texts.items():
                if t is not None and k != d:
                    write_text(os.path.join(bd, "d%d.ucg" % k), t)
            path = os.path.join(bd, "d%d.ucg" % d)
            write_text(path, text)
            x = self.h().req({"op": "build", "path": path, "strict": True, "cwd": bd, "fresh": False})
            r = (x.get("out") or {}).get("k") == "ok"
        finally:
            shutil.rmtree(bd, ignore_errors=True)
        with self.lock:
            self.build_cache[key] = r
        return r


def write_text(path, text):
    with open(path, "w", encoding="utf-8", newline="") as f:
        f.write(text)


# --------------------------------------------------------------------------
# refinement of an abstract session
# --------------------------------------------------------------------------

_CORPUS = None


def corpus():
    global _CORPUS
    if _CORPUS is None:
        out = []
        for sub in ("integration_tests", "std", "examples"):
            base = os.path.join(C.REPO, sub)
            for dp, dns, fns in os.walk(base):
                dns.sort()                      # same corpus order on every file system
                for fn in sorted(fns):
                    if fn.endswith(".ucg"):
                        try:
                            t = open(os.path.join(dp, fn), encoding="utf-8").read()
                        except Exception:
                            continue
                        if len(t) < 6000 and "\r" not in t:
                            out.append(t)
        _CORPUS = out or ["let x = 1;\n"]
    return _CORPUS


EDGE_TEXTS = [".foo;", ".", "..", ".foo.bar;\nlet x = 1;", "a..b;", ";", "", "(", ")", "let", "let x", "let x =", "x.",
              "x.y.", "x.y.;", "import", "import \"", "\"", "//", "{", "}", "{a", "{a =", "[", "]", ".0;", ".\"q\";",
              "let a = {b = 1};\na.;", "let a = {b = 1};\na.b.;", "=> .x", "func", "func (", "module", "select", "not",
              "a.\nb;", ".\nfoo;", "é.foo;", ".é;"]


def concrete_text(rng, imports, pool):
    """One concrete text for an abstract text id with the given workspace imports."""
    if pool == "cx":
        # counterexample replays: every import-free text exports `v` with a type of
        # its own (never int), every importer depends on it
        raise AssertionError
    p = rng.random()
    if imports:
        if p < 0.70:
            t = G.program(rng, imports)
        elif p < 0.80:
            t = G.type_error_program(rng, imports)
        else:
            t = G.mutate(rng, G.program(rng, imports))
    elif p < 0.05:
        # tiny texts that put an unusual token first or last (a selector dot with nothing before it, a lone
        # keyword, an unterminated string ...): positions 0:0 / 0:1 then sit next to the edge of the token list
        t = rng.choice(EDGE_TEXTS)
    elif p < 0.40:
        t = G.program(rng)
    elif p < 0.62:
        t = G.mutate(rng, G.program(rng))
    elif p < 0.72:
        t = G.type_error_program(rng)
    elif p < 0.92:
        t = G.raw_utf8(rng)
    elif p < 0.96:
        t = rng.choice(corpus())
    else:
        t = G.mutate(rng, rng.choice(corpus()))
    t = re.sub(r"\r(?!\n)", "\r\n", t)      # no bare CR (LSP and ucg count lines differently: don't-care)
    return t


def refine(abs_s, sno, seed, pool="random"):
    """abstract session (REPLAY case) -> concrete session."""
    rng = random.Random("%d/%d" % (seed, sno))
    nd = abs_s["ndocs"]
    imp = {t + 1: set(x) for t, x in enumerate(abs_s["imp"])}
    texts = {}
    free = sorted(t for t in imp if not imp[t])
    for t in sorted(imp):
        if pool == "cx":
            if imp[t]:
                lines = []
                for k in sorted(imp[t]):
                    lines += ['let l%d = import "d%d.ucg";' % (k, k), "let z%d = l%d.v + 1;" % (k, k)]
                texts[t] = "\n".join(lines) + "\n"
            else:
                texts[t] = G.EXPORT_V[1 + free.index(t) % 4] + "\n"
            continue
        for _ in range(20):
            x = concrete_text(rng, imp[t], pool)
            if set(G.workspace_imports(x, NDOCS)) <= imp[t]:
                break
        else:
            raise C.ToolError("could not generate a text with imports within %r" % (imp[t],))
        texts[t] = x
    disk = {d + 1: (texts[t] if t else None) for d, t in enumerate(abs_s["disk"])}
    for d in range(nd + 1, NDOCS + 1):
        disk[d] = None
    cur = {}
    msgs = []
    for m in abs_s["msgs"]:
        c = {"m": m["m"], "d": m["d"], "k": m["k"], "pc": m["pc"], "id": m["id"]}
        if m["m"] in ("open", "change"):
            c["texts"] = [texts[t] for t in m["ts"]]
            if c["texts"]:
                cur[m["d"]] = c["texts"][-1]
        elif m["m"] == "close":
            cur.pop(m["d"], None)
        elif m["m"] == "req" and m["k"] in ("hover", "definition", "completion"):
            base = cur.get(m["d"])
            if base is None:
                base = disk.get(m["d"]) or ""
            c["pos"] = list(G.position(rng, base, m["pc"]))
        msgs.append(c)
    return {"s": sno, "disk": disk, "msgs": msgs, "due": abs_s["due"], "outs": abs_s["outs"],
            "abstract": {"disk": abs_s["disk"], "imp": abs_s["imp"], "msgs": abs_s["msgs"]},
            "why": abs_s.get("why", "done")}


# --------------------------------------------------------------------------
# driving one session
# --------------------------------------------------------------------------

class Missing(Exception):
    pass


def panic_signature(err):
    m = re.search(r"panicked at (.*?)(?:\n|$)(.*?)(?:\n|$)", err, re.S)
    if m:
        sig = (m.group(1) + " " + m.group(2)).strip()
        sig = re.sub(r"\s+", " ", sig)
        return sig[:160]
    m = re.search(r"(stack overflow|lsp server error: .*)", err)
    if m:
        return m.group(1)[:160]
    return "no-message"


class Session:
    def __init__(self, ctx, cs):
        self.ctx = ctx
        self.cs = cs
        self.dir = os.path.join(ctx.root, "s%d" % cs["s"])
        self.ws = os.path.join(self.dir, "ws")
        self.ev = []            # recorded events (publish events carry _diags until assembly)
        self.problems = []      # (key, detail): geometry / liveness findings of the driver
        self.cur = {}           # document -> text the client has open
        self.reqinfo = {}       # json-rpc id -> (trace id, kind, doc)
        self.nfence = 0
        self.published = []     # (d, text) pairs a non-empty-text publish referred to
        self.nmsgs = 0
        self.srv = None
        self.nranges = {}       # source -> ranges checked

    def uri(self, d):
        return path_to_uri(os.path.join(self.ws, "d%d.ucg" % d))

    def doc_of_uri(self, uri):
        for d in range(1, NDOCS + 1):
            if uri == self.uri(d):
                return d
        return None

    def text_of_uri(self, uri):
        """The document a location refers to, as the client knows it: the open
        text, else the file, else nothing (an absent document is empty)."""
        d = self.doc_of_uri(uri)
        if d is not None:
            if d in self.cur:
                return self.cur[d]
            return self.cs["disk"].get(d) or ""
        if uri.startswith("file://"):
            from urllib.parse import unquote
            try:
                return open(unquote(uri[7:]), encoding="utf-8").read()
            except Exception:
                return ""
        return ""

    # ---- geometry ---------------------------------------------------------
    def check(self, source, uri, rng, extra=None):
        text = self.text_of_uri(uri)
        self.nranges[source] = self.nranges.get(source, 0) + 1
        cause = G.Doc(text).check_range(rng)
        if cause is not None:
            d = self.doc_of_uri(uri)
            if d is not None and d not in self.cur and not self.cs["disk"].get(d):
                cause = "closed-unsaved-doc"
            self.problems.append(("range-outside:%s:%s" % (source, cause),
                                  {"source": source, "range": rng, "doc": uri.rsplit("/", 1)[-1],
                                   "text": text[:400], "extra": extra}))

    def check_response(self, kind, d, res):
        if res is None:
            return
        if kind == "hover":
            if isinstance(res, dict) and res.get("range") is not None:
                self.check("hover", self.uri(d), res["range"])
        elif kind == "definition":
            locs = res if isinstance(res, list) else [res]
            for loc in locs:
                if isinstance(loc, dict) and "uri" in loc:
                    self.check("definition", loc["uri"], loc.get("range"))
                elif isinstance(loc, dict) and "targetUri" in loc:
                    self.check("definition", loc["targetUri"], loc.get("targetRange"))
        elif kind == "completion":
            items = res.get("items", []) if isinstance(res, dict) else res
            for it in items or []:
                te = it.get("textEdit")
                if isinstance(te, dict) and "range" in te:
                    self.check("completion", self.uri(d), te["range"])
        elif kind == "semanticTokens":
            data = (res or {}).get("data", [])
            line = ch = 0
            for i in range(0, len(data) - 4, 5):
                dl, ds, ln = data[i], data[i + 1], data[i + 2]
                line += dl
                ch = ch + ds if dl == 0 else ds
                self.check("semtok", self.uri(d),
                           {"start": {"line": line, "character": ch},
                            "end": {"line": line, "character": ch + ln}}, extra={"token": i // 5})
        elif kind == "workspaceSymbol":
            for sym in res or []:
                loc = sym.get("location") or {}
                if "uri" in loc and "range" in loc:
                    self.check("wsym", loc["uri"], loc["range"], extra={"name": sym.get("name")})

    # ---- recording ----------------------------------------------------------
    def on_message(self, m):
        if m.get("method") == "textDocument/publishDiagnostics":
            p = m.get("params", {})
            d = self.doc_of_uri(p.get("uri", ""))
            diags = p.get("diagnostics", [])
            canon = json.dumps(diags, sort_keys=True, ensure_ascii=False)
            dg = 0 if not diags else self.ctx.digests.get(canon)
            text = self.cur.get(d, "") if d is not None else ""
            doc = G.Doc(text)
            ds = []
            for x in diags:
                r = x.get("range", {})
                s = r.get("start", {})
                ln, col = doc.to_bytecol(s.get("line", -1), s.get("character", -1))
                ds.append({"rl": s.get("line", -1) + 1, "rc": s.get("character", -1) + 1, "ln": ln, "col": col,
                           "_msg": x.get("message", "")})
                self.check("diag", p.get("uri", ""), r, extra={"message": x.get("message", "")[:80]})
            self.ev.append({"ev": "publish", "d": d or 0, "dg": dg, "n": len(diags), "ds": ds,
                            "_diags": diags, "_text": text if d in self.cur else None})
            if d in self.cur:
                self.published.append((d, text))
        elif "method" not in m and "id" in m:
            tid, kind, d = self.reqinfo.get(m["id"], (999999, None, None))
            okay = "error" not in m
            self.ev.append({"ev": "resp", "id": tid, "okay": okay, "_result": m.get("result") if okay else m.get("error")})
            if okay and kind:
                try:
                    self.check_response(kind, d, m.get("result"))
                except Exception as e:
                    self.problems.append(("malformed-response:%s" % kind, {"error": str(e), "result": m.get("result")}))
        else:
            self.ev.append({"ev": "other", "_m": m})

    def send(self, c):
        srv = self.srv
        if c["m"] == "open":
            self.ev.append({"ev": "open", "d": c["d"], "_texts": c["texts"]})
            self.cur[c["d"]] = c["texts"][0]
            srv.notify("textDocument/didOpen", {"textDocument": {
                "uri": self.uri(c["d"]), "languageId": "ucg", "version": 1, "text": c["texts"][0]}})
        elif c["m"] == "change":
            self.ev.append({"ev": "change", "d": c["d"], "_texts": c["texts"]})
            if c["texts"]:
                self.cur[c["d"]] = c["texts"][-1]
            srv.notify("textDocument/didChange", {
                "textDocument": {"uri": self.uri(c["d"]), "version": 2 + self.nmsgs},
                "contentChanges": [{"text": t} for t in c["texts"]]})
        elif c["m"] == "close":
            self.ev.append({"ev": "close", "d": c["d"]})
            self.cur.pop(c["d"], None)
            srv.notify("textDocument/didClose", {"textDocument": {"uri": self.uri(c["d"])}})
        elif c["m"] == "req":
            k = c["k"]
            if k == "workspaceSymbol":
                params = {"query": c.get("query", "")}
            elif k == "semanticTokens":
                params = {"textDocument": {"uri": self.uri(c["d"])}}
            else:
                params = {"textDocument": {"uri": self.uri(c["d"])},
                          "position": {"line": c["pos"][0], "character": c["pos"][1]}}
            self.ev.append({"ev": "req", "id": c["id"], "k": k, "d": c["d"], "pc": c["pc"], "_pos": c.get("pos")})
            rid = srv.request(METHOD[k], params)
            self.reqinfo[rid] = (c["id"], k, c["d"])
            c["_rid"] = rid
        self.nmsgs += 1

    def fence(self):
        """workspace/symbol with a query nothing matches; recorded as what it is."""
        self.nfence += 1
        tid = FENCE0 + self.nfence
        self.ev.append({"ev": "req", "id": tid, "k": "workspaceSymbol", "d": 0, "pc": "none"})
        rid = self.srv.request(METHOD["workspaceSymbol"], {"query": "\u0001no-such-symbol\u0001"})
        self.reqinfo[rid] = (tid, "workspaceSymbol", 0)
        return rid

    def wait_due(self, pred):
        try:
            self.srv.wait_for(pred, timeout=T_DUE)
            return
        except ServerGone as g:
            if g.kind != "hang":
                raise
        rid = self.fence()
        isf = lambda m: "method" not in m and m.get("id") == rid
        m, _ = self.srv.wait_for(lambda m: pred(m) or isf(m), timeout=T_LONG)
        if isf(m):
            raise Missing()            # the fence was answered, the due output never came
        self.srv.wait_for(isf, timeout=T_LONG)

    def run(self):
        cs = self.cs
        os.makedirs(self.ws)
        for d, t in cs["disk"].items():
            if t is not None:
                write_text(os.path.join(self.ws, "d%d.ucg" % d), t)
        self.srv = LspServer(self.ctx.ucg, self.ws, self.ctx.home,
                             stderr_path=os.path.join(self.dir, "stderr.txt"), timeout=T_LONG)
        t0 = time.time()
        try:
            self.srv.start()
            self.srv.initialize()
            self.srv.on_message = self.on_message
            for i, c in enumerate(cs["msgs"]):
                self.send(c)
                due = cs["due"][i]
                for x in due:
                    if x["o"] == "publish":
                        u = self.uri(x["d"])
                        self.wait_due(lambda m, u=u: m.get("method") == "textDocument/publishDiagnostics"
                                      and m.get("params", {}).get("uri") == u)
                    else:
                        rid = c["_rid"]
                        self.wait_due(lambda m, rid=rid: "method" not in m and m.get("id") == rid)
                if not due:
                    rid = self.fence()
                    self.srv.wait_for(lambda m, rid=rid: "method" not in m and m.get("id") == rid, timeout=T_LONG)
            rid = self.fence()
            self.srv.wait_for(lambda m, rid=rid: "method" not in m and m.get("id") == rid, timeout=T_LONG)
            self.ev.append({"ev": "end", "alive": self.srv.alive()})
        except Missing:
            self.problems.append(("output-missing", {"after": self.nmsgs}))
        except ServerGone as g:
            err = self.srv.stderr_text()
            self.ev.append({"ev": g.kind})
            sig = panic_signature(err) if g.kind == "died" else "no-output"
            self.problems.append(("server-%s:%s" % (g.kind, sig),
                                  {"after_message": self.nmsgs, "stderr": err[-600:], "detail": g.detail}))
        finally:
            self.srv.on_message = None        # life-cycle traffic is not part of the session
            self.rc = self.srv.shutdown()
            self.wall = time.time() - t0
        return self

    # ---- fresh servers and the compiler ------------------------------------------
    def fresh_publish(self, d, text):
        srv = LspServer(self.ctx.ucg, self.ws, self.ctx.home, timeout=T_LONG)
        try:
            srv.start()
            srv.initialize()
            u = self.uri(d)
            srv.notify("textDocument/didOpen", {"textDocument": {"uri": u, "languageId": "ucg", "version": 1, "text": text}})
            m, _ = srv.wait_publish(u)
            return m["params"]["diagnostics"]
        except ServerGone as g:
            self.problems.append(("fresh-server-%s" % g.kind, {"doc": d, "text": text[:400]}))
            return None
        finally:
            srv.shutdown()

    def after(self, all_pairs):
        """fresh-server publishes and compiler verdicts for the texts this session published."""
        final = [(d, t) for d, t in sorted(self.cur.items())]
        pairs = []
        for p in (self.published if all_pairs else []) + final:
            if p not in pairs:
                pairs.append(p)
        self.fresh = []
        for d, t in pairs:
            diags = self.fresh_publish(d, t)
            if diags is not None:
                self.fresh.append((d, t, diags))
        self.oracle = []
        seen = set()
        for d, t in self.published + [(d, t) for d, t, _ in self.fresh]:
            if (d, t) in seen:
                continue
            seen.add((d, t))
            po = self.ctx.parse_oracle(t)
            bo = self.ctx.build_oracle(self.cs["disk"], d, t) if po["pok"] else False
            self.oracle.append((d, t, po, bo))
        return self


def run_one(ctx, cs, all_pairs):
    s = Session(ctx, cs)
    s.run()
    s.after(all_pairs)
    shutil.rmtree(s.dir, ignore_errors=True)
    return s


# --------------------------------------------------------------------------
# trace assembly and validation
# --------------------------------------------------------------------------

def diag_events(ctx, text, diags):
    doc = G.Doc(text)
    ds = []
    for x in diags:
        s = x.get("range", {}).get("start", {})
        ln, col = doc.to_bytecol(s.get("line", -1), s.get("character", -1))
        ds.append({"rl": s.get("line", -1) + 1, "rc": s.get("character", -1) + 1, "ln": ln, "col": col,
                   "syn": x.get("message", "") in ctx.parser_msgs})
    return ds


def assemble(ctx, s):
    """Events of one session, with global text ids and digests (no private fields)."""
    tid = ctx.texts.get
    used = set()
    out = []
    for d, t in s.cs["disk"].items():
        if t is not None:
            used.add(t)
    body = []
    for e in s.ev:
        e2 = {k: v for k, v in e.items() if not k.startswith("_")}
        if e["ev"] in ("open", "change"):
            e2["ts"] = [tid(t) for t in e["_texts"]]
            used.update(e["_texts"])
        if e["ev"] == "publish":
            e2["ds"] = [{"rl": x["rl"], "rc": x["rc"], "ln": x["ln"], "col": x["col"],
                         "syn": x["_msg"] in ctx.parser_msgs} for x in e["ds"]]
        if e["ev"] == "req" and e2.get("pc") in (None, ""):
            e2["pc"] = "none"
        body.append(e2)
    for d, t, _ in s.fresh:
        used.add(t)
    disk = [tid(s.cs["disk"][d]) if s.cs["disk"].get(d) is not None else 0 for d in range(1, NDOCS + 1)]
    out.append({"ev": "reset", "s": s.cs["s"], "disk": disk,
                "texts": [{"t": tid(t), "imp": G.workspace_imports(t, NDOCS)} for t in sorted(used, key=tid)]})
    for d, t, po, bo in s.oracle:
        out.append({"ev": "oracle", "d": d, "t": tid(t), "pok": po["pok"], "pl": po["pl"], "pc": po["pc"], "bok": bool(bo)})
    for d, t, diags in s.fresh:
        canon = json.dumps(diags, sort_keys=True, ensure_ascii=False)
        out.append({"ev": "fresh", "d": d, "t": tid(t), "dg": 0 if not diags else ctx.digests.get(canon),
                    "n": len(diags), "ds": diag_events(ctx, t, diags)})
    return out + body


def tla_set(xs):
    return "{" + ", ".join('"%s"' % x for x in xs) + "}"


def validate(gd, tag, sessions_events, devs, timeout=900):
    """Run LspTrace on the concatenated sessions.  Returns (flags by session,
    rejected: {session: info}, ...).  After a rejection the sessions behind the
    rejected one are validated by a new run (those before it were accepted);
    after 12 rejections in one chunk the rest is left unvalidated (reported)."""
    order = list(sessions_events)          # [(sno, events)]
    flags = {}
    rejected = {}
    mod = "MC_LspTrace_%s" % tag
    with open(os.path.join(gd, mod + ".tla"), "w") as f:
        f.write("---- MODULE %s ----\nEXTENDS LspTrace\nDevs == %s\nNone == {}\n====\n" % (mod, tla_set(devs)))
    with open(os.path.join(gd, mod + ".cfg"), "w") as f:
        f.write("CONSTANTS NDocs = %d ImpChoices <- None DiskChoices <- None MinMsgs = 1 MaxMsgs = 1000000\n"
                "MaxPending = 1000000 MaxOutbox = 1000000 MaxChanges = 1000000 ViewDepth = 2\n"
                "Deviations <- Devs EmitMode = \"none\"\n"
                "INIT TInit\nNEXT TNext\nCHECK_DEADLOCK FALSE\nINVARIANTS TraceInv Report\n"
                "POSTCONDITION Accepted\n" % NDOCS)
    cmds = []
    states = 0
    unvalidated = []
    for attempt in range(13):
        if not order:
            break
        if attempt == 12:
            unvalidated = [sno for sno, _ in order]
            break
        path = os.path.join(gd, "trace_%s.ndjson" % tag)
        lines = []
        index = []      # event number -> session
        for sno, evs in order:
            for e in evs:
                lines.append(json.dumps(e, ensure_ascii=True))
                index.append(sno)
        with open(path, "w") as f:
            f.write("\n".join(lines) + "\n")
        r = C.run_tlc(mod, mod, workers=1, dfs=True, gendir=gd, env_extra={"TRACE": path}, timeout=timeout,
                      heap="2g", keep_lines=True)
        cmds.append("TRACE=%s %s" % (path, r.cmd))
        states += r.distinct or r.generated
        rej = None
        for x in r.replays:
            if x.get("rejected"):
                rej = x
            elif "s" in x:
                flags[x["s"]] = x.get("flags", [])
        if r.violation:
            raise C.ToolError("LspTrace: invariant %s violated on a recorded trace — the trace machine "
                              "contradicts Lsp.tla\n%s" % (r.violation, r.errtext[:2000]))
        if rej is None:
            if not r.ok and r.errtext:
                raise C.ToolError("TLC failed on the trace %s:\n%s\n%s" % (path, r.errtext[:3000], r.cmd))
            break
        # which event was not matched: every event is one step, every client message one more (Handle)
        steps = rej["steps"]
        n = 0
        k = None
        for i, line in enumerate(lines):
            e = json.loads(line)
            need = 2 if e["ev"] in ("open", "change", "close", "req") else 1
            if n + need > steps:
                k = i
                break
            n += need
        if k is None:
            raise C.ToolError("LspTrace rejected the trace but consumed every event (%d steps)" % steps)
        sno = index[k]
        rejected[sno] = {"event_index": k, "event": json.loads(lines[k]),
                         "before": [json.loads(x) for x in lines[max(0, k - 4):k]]}
        pos = [i for i, (s, e) in enumerate(order) if s == sno][0]
        order = order[pos + 1:]
        flags.pop(sno, None)
    return flags, rejected, cmds, states, unvalidated


# --------------------------------------------------------------------------
# main
# --------------------------------------------------------------------------

def open_deviations():
    devs = []
    for f in C.load_findings(PID):
        d = f.get("deviation")
        if d in DEVIATIONS and d not in devs:
            devs.append(d)
    return devs


def shape_mismatch(s):
    """Observed outputs against the outputs Lsp.tla predicted for this session."""
    obs = [e for e in s.ev if e["ev"] in ("publish", "resp") and not (e["ev"] == "resp" and e["id"] >= FENCE0)]
    exp = s.cs["outs"]
    for i, x in enumerate(exp):
        if i >= len(obs):
            return {"at": i, "expected": x, "observed": None}
        o = obs[i]
        if x["o"] != o["ev"] or (x["o"] == "publish" and x["d"] != o["d"]) or (x["o"] == "resp" and x["id"] != o["id"]):
            return {"at": i, "expected": x, "observed": {k: v for k, v in o.items() if not k.startswith("_")}}
        if x["o"] == "publish" and x["dg"]["t"] == 0 and o["n"] != 0:
            return {"at": i, "expected": "empty diagnostics", "observed": o["n"]}
    if len(obs) > len(exp):
        return {"at": len(exp), "expected": None,
                "observed": {k: v for k, v in obs[len(exp)].items() if not k.startswith("_")}}
    return None


def case_of(s, extra):
    ev = []
    for e in s.ev:
        x = {k: v for k, v in e.items() if not k.startswith("_") or k in ("_pos",)}
        if "_texts" in e:
            x["texts"] = e["_texts"]
        if "_diags" in e:
            x["diagnostics"] = e["_diags"]
        ev.append(x)
    c = {"session": s.cs["s"], "why": s.cs["why"], "abstract": s.cs["abstract"],
         "concrete": {"disk": {str(k): v for k, v in s.cs["disk"].items()}, "msgs":
                      [{k: v for k, v in m.items() if not k.startswith("_")} for m in s.cs["msgs"]],
                      "due": s.cs["due"], "outs": s.cs["outs"]},
         "observed": ev,
         "fresh": [{"d": d, "text": t, "diagnostics": dg} for d, t, dg in s.fresh],
         "oracle": [{"d": d, "text": t[:300], "parse": po, "build": bo} for d, t, po, bo in s.oracle]}
    c.update(extra)
    return c


def run_model(tier):
    """The model-checking half.  Returns (abstract sessions, stats)."""
    st = {"states": 0, "transitions": 0, "cmds": [], "configs": []}

    def mc(cfg, what, workers=6, **kw):
        r = C.run_tlc("LspMC", cfg, workers=workers, timeout=3000, heap="6g", **kw)
        st["cmds"].append(r.cmd)
        st["states"] += r.distinct or r.generated
        st["transitions"] += r.generated
        st["configs"].append("%s: %d states, %.0fs" % (what, r.distinct or r.generated, r.wall))
        C.log("[c20] %s: %d distinct states, %d generated, %.0fs" % (what, r.distinct, r.generated, r.wall))
        return r

    # the design satisfies the property
    if tier == "quick":
        designs = [("Lsp_mcfull", "design, exhaustive without VIEW: 2 documents, 2 texts, every session of 2 messages"),
                   ("Lsp_mcq", "design, exhaustive: 3 documents, 4 texts, 4 disks, sessions of 6 messages")]
    else:
        designs = [("Lsp_mcfull3", "design, exhaustive without VIEW: 2 documents, 2 texts, every session of 3 messages"),
                   ("Lsp_mcsmall", "design, exhaustive: 2 documents, 3 texts, every disk, sessions of 4 messages, client 2 ahead"),
                   ("Lsp_mc", "design, exhaustive: 3 documents, 4 texts, 7 disks, sessions of 6 messages"),
                   ("Lsp_mcbig", "design, exhaustive: 3 documents, 4 texts, every acyclic disk (125 x 2 import tables), sessions of 5 messages")]
    demo = bool(os.environ.get("C20_DEMO"))
    if demo:
        # binding demonstration (self-check only): the design runs are skipped, few sessions
        C.log("[c20] DEMO mode: design model checking skipped")
        designs = []
    for cfg, what in designs:
        r = mc(cfg, what)
        if r.violation:
            raise C.ToolError("Lsp.tla with Deviations = {} violates %s (%s): the design model is wrong\n%s"
                              % (r.violation, cfg, r.errtext[:3000]))
        C.require_tlc_ok(r, what)
    # every named deviation breaks it: the counterexample is replayed below
    cxs = []
    for cfg, dev, inv in (("Lsp_devU", "UnsavedInIndex", "CxCurrentTextOnly"),
                          ("Lsp_devUC", "CloseKeepsUnsaved", "CxGhostFree")):
        # one worker: breadth-first, so always the same shortest counterexample
        r = mc(cfg, "deviation %s must violate %s" % (dev, inv[2:]), workers=1)
        if r.violation != inv or not r.replays:
            raise C.ToolError("deviation %s gave no counterexample to %s (%s): vacuous deviation\n%s"
                              % (dev, inv, cfg, r.errtext[:2000]))
        cx = min(r.replays, key=lambda x: (len(x["msgs"]), json.dumps(x["msgs"], sort_keys=True)))
        cx["dev"] = dev
        cxs.append(cx)
    # sessions
    per_worker = 4 if demo else 25 if tier == "quick" else 300
    r = mc("Lsp_sim", "simulation: 3 documents, 6 texts, sessions of 1..30 messages", simulate=per_worker, depth=100)
    if r.violation:
        raise C.ToolError("Lsp.tla with Deviations = {} violates %s in simulation\n%s" % (r.violation, r.errtext[:3000]))
    C.require_tlc_ok(r, "simulation")
    return r.replays, cxs, st


def definition_probes(ctx, rep):
    from .lspclient import LspServer, path_to_uri
    deep = "\n" * 9 + " " * 36
    for name, files, (line, ch) in (
            ("alias-of-imported-tuple", {"a.ucg": 'let b = import "b.ucg";\nlet t = b.q;\nlet z = t.r;\n',
                                         "b.ucg": deep + "let q = {r = 1};\n"}, (2, 10)),
            ("chain-through-two-imports", {"a.ucg": 'let b = import "b.ucg";\nlet z = b.q.r;\n',
                                           "b.ucg": 'let q = import "c.ucg";\n', "c.ucg": deep + "let r = 1;\n"}, (1, 12))):
        ws = os.path.join(C.scratch_dir("c20def"), name)
        os.makedirs(ws)
        for f, t in files.items():
            with open(os.path.join(ws, f), "w") as fh:
                fh.write(t)
        srv = LspServer(ctx.ucg, ws, ctx.home, timeout=30.0)
        try:
            srv.start()
            srv.initialize()
            uri = path_to_uri(os.path.join(ws, "a.ucg"))
            srv.notify("textDocument/didOpen", {"textDocument": {"uri": uri, "languageId": "ucg", "version": 1,
                                                                  "text": files["a.ucg"]}})
            rid = srv.request("textDocument/definition", {"textDocument": {"uri": uri},
                                                          "position": {"line": line, "character": ch}})
            m, _ = srv.wait_response(rid)
            res = m.get("result")
            for loc in (res if isinstance(res, list) else [res] if res else []):
                luri = loc.get("uri") or loc.get("targetUri")
                rng = loc.get("range") or loc.get("targetRange")
                fname = luri.rsplit("/", 1)[-1]
                cause = G.Doc(files.get(fname, "")).check_range(rng)
                if cause is not None:
                    rep.disagree({"leg": "definition-probe", "workspace": files, "request": {"line": line, "character": ch},
                                  "answer": loc, "cause": cause}, key="range-outside:definition:position-of-another-file")
        except Exception as e:
            rep.disagree({"leg": "definition-probe", "workspace": files, "error": repr(e)}, key="crash:definition-probe")
        finally:
            srv.kill()
            shutil.rmtree(os.path.dirname(ws), ignore_errors=True)


def main(tier, replay=None):
    t0 = time.time()
    rep = C.Reporter(PID)
    ucg = C.ensure_ucg()
    harness = C.ensure_harness()
    seed = C.seed()
    root = C.scratch_dir("c20")
    gd = C.gen_dir("c20")
    ctx = Ctx(ucg, harness, root)
    try:
        return _main(tier, replay, t0, rep, ctx, seed, gd)
    finally:
        ctx.close()
        shutil.rmtree(root, ignore_errors=True)
        shutil.rmtree(gd, ignore_errors=True)


def load_replay(path):
    case = json.load(open(path))["case"]
    cc = case["concrete"]
    cs = {"s": 1, "disk": {int(k): v for k, v in cc["disk"].items()}, "msgs": cc["msgs"], "due": cc["due"],
          "outs": cc["outs"], "abstract": case.get("abstract"), "why": case.get("why", "replay")}
    for d in range(1, NDOCS + 1):
        cs["disk"].setdefault(d, None)
    return cs


def judge(ctx, gd, sessions, devs, tag):
    """Validate recorded sessions; returns [(session, key, case)] disagreements and stats."""
    dis = []
    # parser messages must be known before `syn` is computed: oracles ran in Session.after
    evs = [(s.cs["s"], assemble(ctx, s)) for s in sessions]
    byno = {s.cs["s"]: s for s in sessions}
    # several TLC processes (one worker each) side by side; a chunk keeps its own `learned`
    nchunks = max(1, min(6, len(evs) // 25), -(-len(evs) // 200))
    chunks = [evs[i::nchunks] for i in range(nchunks)]
    allflags, allrej, cmds, states, unval = {}, {}, [], 0, []
    with cf.ThreadPoolExecutor(max_workers=min(6, nchunks)) as ex:
        futs = [ex.submit(validate, gd, "%s%d" % (tag, i), ch, devs) for i, ch in enumerate(chunks)]
        for f in futs:
            fl, rj, cm, stt, uv = f.result()
            unval += uv
            allflags.update(fl)
            allrej.update(rj)
            cmds += cm
            states += stt
    for sno, s in byno.items():
        keys = set()
        for key, detail in s.problems:
            if key not in keys:
                keys.add(key)
                dis.append((s, key, case_of(s, {"reason": key, "detail": detail})))
        if sno in allrej:
            info = allrej[sno]
            e = info["event"]
            # a session the driver already explained (death, missing output) is rejected for that reason
            if not any(k.startswith(("server-", "output-missing")) for k in keys):
                key = "trace-rejected:%s" % e.get("ev")
                dis.append((s, key, case_of(s, {"reason": "LspTrace.tla does not accept the recorded session",
                                                "rejected_at": info})))
        else:
            seen = set()
            for fl in allflags.get(sno, []):
                if fl["why"] == "SyntaxPosition":
                    key = "bytecol:syntax-position"
                else:
                    key = "history:%s" % fl["cause"]
                if key in seen:
                    continue
                seen.add(key)
                dis.append((s, key, case_of(s, {"reason": "design-level difference flagged by LspTrace.tla", "flag": fl})))
        mm = shape_mismatch(s)
        if mm is not None and sno not in allrej and not any(k.startswith(("server-", "output-missing")) for k in keys):
            dis.append((s, "outputs-differ-from-prediction", case_of(s, {"reason": "outputs differ from the REPLAY prediction", "mismatch": mm})))
    if unval:
        C.log("[c20] %d sessions left unvalidated after 12 rejections per chunk" % len(unval))
    accepted = [sno for sno in byno if sno not in allrej and sno not in unval]
    return dis, accepted, allflags, cmds, states


def _main(tier, replay, t0, rep, ctx, seed, gd):
    devs = open_deviations()
    demo = os.environ.get("C20_DEMO", "")
    if replay:
        cs = load_replay(replay)
        s = run_one(ctx, cs, True)
        dis, accepted, _, _, _ = judge(ctx, gd, [s], devs, "r")
        for _, key, case in dis:
            rep.disagree(case, key=key)
        bad = bool(rep.violations)
        print("replay %s: %s" % (replay, "DISAGREES (%s)" % ", ".join(sorted({k for k, _ in rep.violations}))
                                 if bad else "agrees with the specification"))
        for f in rep.findings:
            if f.get("key") in rep.matched:
                print("KNOWN-FINDING: property=%s key=%s %s" % (PID, f["key"], f.get("what", "")))
        if bad:
            print("VIOLATION property=%s replay=%s" % (PID, replay))
        return 1 if bad else 0

    C.log("[c20] open deviations (from known_findings.jsonl): %s" % (devs or "none"))
    abstract, cxs, st = run_model(tier)
    # ---- refine ----------------------------------------------------------
    sessions_cs = []
    sno = 0
    for cx in cxs:
        sno += 1
        cs = refine(cx, sno, seed, pool="cx")
        cs["why"] = "counterexample:%s" % cx["dev"]
        sessions_cs.append(cs)
    # TLC's workers print in any order: number the sessions in a canonical order, so that a
    # seed always refines the same abstract session to the same concrete one
    canon = {}
    for a in abstract:
        canon.setdefault(json.dumps([a["disk"], a["imp"], a["msgs"]], sort_keys=True), a)
    for key in sorted(canon):
        sno += 1
        sessions_cs.append(refine(canon[key], sno, seed))
    if demo == "predict":
        for cs in sessions_cs:
            pubs = [x for x in cs["outs"] if x["o"] == "publish"]
            if pubs and cs["why"] == "done":
                pubs[0]["d"] = pubs[0]["d"] % NDOCS + 1
                C.log("[c20] DEMO: altered the predicted document of one publish in session %d" % cs["s"])
                break
    # ---- drive -------------------------------------------------------------
    t1 = time.time()
    with cf.ThreadPoolExecutor(max_workers=6) as ex:
        futs = [ex.submit(run_one, ctx, cs, tier == "thorough" or cs["why"] != "done"
                          or any(G.workspace_imports(t, NDOCS) for m in cs["msgs"] for t in m.get("texts", [])))
                for cs in sessions_cs]
        sessions = [f.result() for f in futs]
    nmsg = sum(s.nmsgs for s in sessions)
    C.log("[c20] drove %d sessions (%d messages, %d fresh servers, %d compiler verdicts) in %.0fs"
          % (len(sessions), nmsg, sum(len(s.fresh) for s in sessions), sum(len(s.oracle) for s in sessions),
             time.time() - t1))
    if demo == "digest":
        for s in sessions:
            if s.fresh and s.cs["why"] == "done":
                d, t, diags = s.fresh[0]
                s.fresh[0] = (d, t, diags + [{"message": "demo", "range": {"start": {"line": 0, "character": 0},
                                                                          "end": {"line": 0, "character": 0}}}])
                C.log("[c20] DEMO: altered the diagnostics of one fresh-server publish in session %d" % s.cs["s"])
                break
    if demo == "drop":
        for s in sessions:
            ix = [i for i, e in enumerate(s.ev) if e["ev"] == "resp" and e["id"] < FENCE0]
            if ix and s.cs["why"] == "done":
                del s.ev[ix[0]]
                C.log("[c20] DEMO: deleted one response event of session %d" % s.cs["s"])
                break
    # ---- judge ---------------------------------------------------------------
    t2 = time.time()
    dis, accepted, flags, cmds, tstates = judge(ctx, gd, sessions, devs, "t")
    C.log("[c20] LspTrace: %d of %d sessions accepted, %d flagged, %.0fs"
          % (len(accepted), len(sessions), sum(1 for v in flags.values() if v), time.time() - t2))
    # counterexample replays: does the code exhibit the deviation the model names?
    cxnotes = []
    for s in sessions:
        if s.cs["why"].startswith("counterexample:"):
            dev = s.cs["why"].split(":", 1)[1]
            hit = [k for (x, k, _) in dis if x is s and k == "history:%s" % dev]
            for j, (x, k, case) in enumerate(dis):
                # with the deviation switched off the trace machine is the design: it rejects
                # the replayed counterexample instead of flagging it
                if x is s and k.startswith("trace-rejected:") and dev not in devs:
                    dis[j] = (x, "history:%s" % dev, case)
                    hit.append(k)
            cxnotes.append("%s: %s" % (dev, "exhibited by ucg lsp" if hit else "NOT exhibited by ucg lsp (the design holds here)"))
            C.log("[c20] counterexample of deviation %s replayed: %s" % (dev, cxnotes[-1]))
    # a disagreement no finding explains must reproduce (DESIGN 3.7.3)
    verdicts = []
    for s, key, case in dis:
        verdicts.append((s, key, case, rep.disagree(case, key=key)))
    unknown = [(s, key) for s, key, case, v in verdicts if v == "violation"]
    kc = {}
    for s, key, case, v in verdicts:
        kc[(key, v)] = kc.get((key, v), 0) + 1
    for (key, v), n in sorted(kc.items()):
        C.log("[c20] %-10s %-50s %d session(s)" % (v, key, n))
    checked = set()
    for s, key in unknown[:4]:
        if s.cs["s"] in checked or demo:
            continue
        checked.add(s.cs["s"])
        cs2 = dict(s.cs)
        cs2["msgs"] = [{k: v for k, v in m.items() if not k.startswith("_")} for m in s.cs["msgs"]]
        s2 = run_one(ctx, cs2, True)
        dis2, _, _, _, _ = judge(ctx, gd, [s2], devs, "v%d" % s.cs["s"])
        if key not in {k for _, k, _ in dis2}:
            raise C.ToolError("disagreement %s of session %d did not reproduce on a second run (got %r)"
                              % (key, s.cs["s"], sorted({k for _, k, _ in dis2})))
    # "every range it reports lies inside the document", for a definition that is found through the analysis of ANOTHER
    # document: the sessions above seldom ask for it (a field of the local alias of an imported tuple, a chain through
    # two imports), so two fixed workspaces do
    definition_probes(ctx, rep)
    code = rep.finish()
    # ---- evidence ------------------------------------------------------------
    def nontrivial(s):
        opened = set()
        for m in s.cs["msgs"]:
            if m["m"] in ("open", "change") and m.get("texts"):
                opened.add(m["d"])
            elif m["m"] == "close":
                opened.discard(m["d"])
            elif m["m"] == "req" and m["d"] in opened and len(s.cs["msgs"]) >= 3:
                return True
        return False
    distinct = {hashlib.sha1(json.dumps([s.cs["disk"], [{k: v for k, v in m.items() if not k.startswith("_")}
                                                      for m in s.cs["msgs"]]], sort_keys=True).encode()).hexdigest()
                for s in sessions if nontrivial(s)}
    samples = []
    for s in sessions:
        if len(samples) >= 4:
            break
        if nontrivial(s) and 4 <= len(s.cs["msgs"]) <= 9:
            def show(m):
                if m["m"] == "req":
                    return "%s(%s%s)" % (m["k"], "d%d" % m["d"] if m["d"] else "", "," + m["pc"] if m["pc"] != "none" else "")
                return "%s(d%d%s)" % (m["m"], m["d"], "," + "/".join("t%d" % t for t in m["ts"]) if m["m"] != "close" else "")
            a = s.cs["abstract"]
            tx = {}
            for am, cm in zip(a["msgs"], s.cs["msgs"]):
                for t, x in zip(am["ts"], cm.get("texts", [])):
                    tx["t%d" % t] = x[:120]
            samples.append({"session": [show(m) for m in a["msgs"]],
                            "disk": {"d%d" % (i + 1): "t%d" % t for i, t in enumerate(a["disk"]) if t},
                            "imports": {"t%d" % (i + 1): ["d%d" % d for d in x] for i, x in enumerate(a["imp"]) if x},
                            "texts": tx,
                            "positions": [m["pos"] for m in s.cs["msgs"] if m.get("pos")],
                            "events_recorded": len(s.ev),
                            "flags": sorted({f["why"] + ":" + f["cause"] for f in flags.get(s.cs["s"], [])})})
    classes = {}
    for s in sessions:
        for e in s.ev:
            classes[e["ev"]] = classes.get(e["ev"], 0) + 1
    C.write_evidence(PID, tier, "model_checking", {
        "states": st["states"] + tstates, "transitions": st["transitions"] + tstates,
        "traces_validated_against_impl": len(accepted),
        "evaluations": nmsg,
        "distinct_nontrivial": len(distinct),
        "rule": "sessions are behaviours of Lsp.tla drawn by TLC -simulate (1..30 messages, 3 documents, 6 text ids, "
                "import tables Imp6, every acyclic disk) plus the counterexample session of every named deviation; "
                "texts refined per seed to generated programs / token-mutated programs / type-error programs / arbitrary "
                "UTF-8 / repository .ucg files, positions per class against the current text; evaluations = client "
                "messages driven into real `ucg lsp` processes; non-trivial = distinct concrete session of >= 3 messages "
                "with a request on a document that is open at that moment",
        "samples": samples or [s.cs["abstract"]["msgs"] for s in sessions[:2]],
        "exhaustive": False,
        "exhaustive_note": "the design configurations (Lsp_mcsmall, Lsp_mc) are complete enumerations under VIEW; "
                           "the sessions that reach the implementation are sampled by simulation",
        "checker_cmd": " ; ".join(st["cmds"] + cmds[:2]),
        "configs": st["configs"],
        "sessions": len(sessions), "sessions_flagged": sum(1 for v in flags.values() if v),
        "fresh_servers": sum(len(s.fresh) for s in sessions),
        "compiler_verdicts": sum(len(s.oracle) for s in sessions),
        "event_counts": classes,
        "ranges_checked": {k: sum(s.nranges.get(k, 0) for s in sessions)
                           for k in sorted({k for s in sessions for k in s.nranges})},
        "open_deviations": devs,
        "deviation_counterexamples": cxnotes,
        "distinct_texts": ctx.texts.n - 1, "distinct_diagnostics_payloads": ctx.digests.n - 1,
        "trusted_base": ["TLC (tla2tools.jar) with the CommunityModules Json / IOUtils", "vp/lspclient.py (framing)",
                         "vp/c20gen.py (UTF-16 geometry of LSP positions, text generator)",
                         "harness parse/build (the compiler as oracle)"],
    }, time.time() - t0, violations=len(rep.violations), assumptions=[
        "malformed JSON-RPC, unknown methods and positions beyond 2^31-1 are outside the statement (not generated)",
        "texts contain no bare CR (LSP and ucg split lines differently there); CRLF and LF are generated",
        "a document never imports itself and the files on disk have no import cycle (language errors; with a cycle "
        "index_all depends on read_dir order)",
        "an analysis can depend on other documents only through `import \"dK.ucg\"` of a workspace document "
        "(imp[t] is taken from the concrete text, conservatively), to a nesting depth of ViewDepth = 2",
        "a diagnostic is called a syntax diagnostic when its message is one the compiler's parser produced for some "
        "text of this run (LSP diagnostics carry no error class)",
        "an absent document is an empty document for the range check (a zero range at 0:0 lies inside it)",
        "the disk does not change during a session (the statement lists no save / file-change notification)",
    ])
    return code
