"""C05 helpers: refinement of the abstract ASTs of spec/Fmt.tla to concrete ones,
rendering of an AST to ucg text in a seeded random layout (redundant parentheses,
line breaks, indentation, trailing commas, quoted field names, comments), an
independent scanner for comments / statement extents, and normal forms for
comparing ASTs (positions and field-name quoting dropped, Grouped nodes KEPT).
Orchestration only: no rule of the property lives here."""
import random
import re
from fractions import Fraction

# ---------------------------------------------------------------------------
# refinement: character-class atoms -> characters
# ---------------------------------------------------------------------------
NA2 = ["é", "ñ", "ß", "Ω", "ж"]
NA3 = ["☃", "中", "€", "あ"]
NA4 = ["😀", "𝄞", "𐍈"]
FIXED = {"LF": "\n", "CR": "\r", "TAB": "\t", "DQ": '"', "BS": "\\"}


class Refine:
    def __init__(self, rng):
        self.m = dict(FIXED)
        self.m["NA2"] = rng.choice(NA2)
        self.m["NA3"] = rng.choice(NA3)
        self.m["NA4"] = rng.choice(NA4)

    def s(self, chars):
        if isinstance(chars, str):
            return chars
        return "".join(self.m.get(c, c) for c in chars)


def concretize(x, rf):
    """Spec AST (names / strings as atom lists) -> the same AST with python strings."""
    if isinstance(x, list):
        return [concretize(y, rf) for y in x]
    if not isinstance(x, dict):
        return x
    out = {}
    for k, v in x.items():
        if k in ("nm", "fn", "sel") and isinstance(v, (list, str)) and x.get("t") != "float":
            out[k] = rf.s(v)
        elif k in ("tpl", "path"):
            out[k] = rf.s(v)
        elif k == "s" and isinstance(v, list):
            out[k] = rf.s(v)               # string value
        else:
            out[k] = concretize(v, rf)
    return out


def float_value(v):
    if "cls" in v:
        return 1e20 if v["cls"] == "big" else 2.0 ** -30
    return v["fn"] / float(2 ** v["fk"])


def float_texts(v):
    """Spellings of a float literal that read as exactly this value."""
    if "cls" in v:
        if v["cls"] == "big":
            return ["100000000000000000000.0", "100000000000000000000.00"]
        return ["0.000000000931322574615478515625", ".000000000931322574615478515625"]
    f = Fraction(v["fn"], 2 ** v["fk"])
    ip = f.numerator // f.denominator
    rest = f - ip
    digits = ""
    while rest:
        rest *= 10
        d = rest.numerator // rest.denominator
        digits += str(d)
        rest -= d
    outs = ["%d.%s" % (ip, digits or "0"), "%d.%s0" % (ip, digits or "0")]
    if ip == 0 and digits:
        outs.append("." + digits)
    return outs


# ---------------------------------------------------------------------------
# Gen.tla AST -> the AST shape of Fmt.tla
# ---------------------------------------------------------------------------
def _tpl_of_parts(parts, conv):
    from . import render as R
    chars = []
    for p in parts:
        if p["pk"] == "s":
            chars += R.tpl_escape(p["s"])
        else:
            t = R.expr(p["x"])
            chars += ["@", "{"] + list(t) + ["}"]
    return "".join(chars)


def from_gen(x):
    """Programs emitted by Gen.tla (vp/render.py shape) -> Fmt.tla shape, concrete."""
    from . import render as R
    if isinstance(x, list):
        return [from_gen(y) for y in x]
    if not isinstance(x, dict):
        return x
    if "s" in x and "e" not in x and isinstance(x.get("s"), str) and "x" in x:
        o = {"s": x["s"], "x": from_gen(x["x"])}
        if x["s"] == "let":
            o["nm"] = R.nm(x["nm"])
            o["con"] = []
        if x["s"] == "out":
            o["fmt"] = x["fmt"]
        return o
    k = x.get("e")

    def flds(fs):
        return [{"nm": R.nm(f["nm"]), "q": False, "con": [], "ex": from_gen(f["ex"])} for f in fs]
    if k == "lit":
        v = dict(x["v"])
        if v["t"] == "str":
            v["s"] = "".join(v["s"])
        return {"e": "lit", "v": v}
    if k == "sym":
        return {"e": "sym", "nm": R.nm(x["nm"])}
    if k in ("tuple",):
        return {"e": "tuple", "flds": flds(x["flds"])}
    if k == "list":
        return {"e": "list", "xs": from_gen(x["xs"])}
    if k in ("not", "fail", "trace", "grp"):
        return {"e": k, "x": from_gen(x["x"])}
    if k == "cast":
        return {"e": "cast", "ty": x["ty"], "x": from_gen(x["x"])}
    if k == "call":
        return {"e": "call", "fn": R.nm(x["fn"]), "args": from_gen(x["args"])}
    if k == "copy":
        return {"e": "copy", "sel": R.nm(x["sel"]), "flds": flds(x["flds"])}
    if k == "range":
        return {"e": "range", "lo": from_gen(x["lo"]), "step": from_gen(x["step"]), "hi": from_gen(x["hi"])}
    if k == "func":
        return {"e": "func", "ps": [{"nm": R.nm(p), "con": []} for p in x["ps"]], "body": from_gen(x["body"])}
    if k == "select":
        return {"e": "select", "x": from_gen(x["x"]), "dflt": from_gen(x["dflt"]), "flds": flds(x["flds"])}
    if k == "fop":
        return {"e": "fop", "kind": x["kind"], "fn": from_gen(x["fn"]), "acc": from_gen(x["acc"]),
                "tgt": from_gen(x["tgt"])}
    if k == "module":
        return {"e": "module", "ps": flds(x["ps"]), "out": from_gen(x["out"]), "outcon": [],
                "body": from_gen(x["body"])}
    if k == "fmt":
        if x["form"] == "list":
            return {"e": "fmt", "form": "list", "tpl": "".join(x["tpl"]), "args": from_gen(x["args"])}
        return {"e": "fmt", "form": "single", "tpl": _tpl_of_parts(x["parts"], from_gen),
                "args": from_gen(x["args"])}
    if k == "bin":
        return {"e": "bin", "op": x["op"], "l": from_gen(x["l"]), "r": from_gen(x["r"])}
    raise ValueError("Gen ast kind %r" % k)


LEVEL = {"eq": 1, "ne": 1, "ge": 1, "le": 1, "lt": 1, "gt": 1, "re": 1, "nre": 1, "in": 2, "is": 2,
         "add": 3, "sub": 3, "mul": 4, "div": 4, "mod": 4, "and": 5, "or": 5, "dot": 6}
SPELL = {"eq": "==", "ne": "!=", "ge": ">=", "le": "<=", "lt": "<", "gt": ">", "re": "~",
         "nre": "!~", "in": "in", "is": "is", "add": "+", "sub": "-", "mul": "*", "div": "/",
         "mod": "%%", "and": "&&", "or": "||", "dot": "."}
GREEDY = ("not", "fail", "trace", "convert", "func")


def ends_greedy(e):
    k = e["e"]
    return (k in GREEDY or (k == "fmt" and e["form"] == "single")
            or (k == "bin" and ends_greedy(e["r"])))


def left_end(e):
    while e["e"] in ("bin", "range"):
        e = e["l"] if e["e"] == "bin" else e["lo"]
    return e


def make_parseable(e):
    """Gen builds trees freely; the text of a tree the parser cannot produce needs
    parentheses, i.e. Grouped nodes.  Insert them (as AST nodes) exactly where the
    grammar demands, so that the result is a tree the parser does produce."""
    if isinstance(e, list):
        return [make_parseable(x) for x in e]
    if not isinstance(e, dict):
        return e
    e = {k: make_parseable(v) for k, v in e.items()}
    k = e.get("e")

    def grp(x):
        return {"e": "grp", "x": x}
    if k == "bin":
        op, l, r = e["op"], e["l"], e["r"]
        if ends_greedy(l) or (l["e"] == "bin" and LEVEL[l["op"]] < LEVEL[op]):
            l = grp(l)
        if r["e"] == "bin" and LEVEL[r["op"]] <= LEVEL[op]:
            r = grp(r)
        if op == "dot":
            if l["e"] == "range" or (l["e"] == "lit" and l["v"]["t"] in ("int", "float")):
                l = grp(l)
            if (l["e"] == "bin" and l["op"] == "dot" and l["r"]["e"] == "lit" and l["r"]["v"]["t"] == "int"
                    and r["e"] == "lit" and r["v"]["t"] == "int"):
                l = grp(l)
            if not (r["e"] in ("sym", "grp", "call", "copy") or (r["e"] == "lit" and r["v"]["t"] in ("str", "int"))):
                r = grp(r)
        e["l"], e["r"] = l, r
    elif k == "range":
        for f in ("lo", "hi"):
            if e[f]["e"] not in ("lit", "sym", "grp"):
                e[f] = grp(e[f])
        e["step"] = [s if s["e"] in ("lit", "sym", "grp") else grp(s) for s in e["step"]]
    elif k == "fmt" and e["form"] == "single":
        if left_end(e["args"][0])["e"] == "grp":
            raise Unrenderable("single-form format argument starts with a parenthesis")
    return e


class Unrenderable(Exception):
    pass


# ---------------------------------------------------------------------------
# AST -> tokens
# ---------------------------------------------------------------------------
KEYWORDS = {"select", "in", "is", "not", "let", "out", "constraint", "convert", "assert", "fail", "TRACE",
            "func", "module", "import", "include", "as", "map", "filter", "reduce"}
WORD_RE = re.compile(r"^[A-Za-z][A-Za-z0-9_-]*$")


def lexes_as_word(nm):
    """May the renderer write this field name without quotes?  (conservative)"""
    return bool(WORD_RE.match(nm)) and not nm.startswith(("NULL", "true", "false")) or nm in ("true", "false")


def str_token(s, rng, plain):
    out = ['"']
    for c in s:
        if c == '"':
            out.append('\\"')
        elif c == "\\":
            out.append("\\\\")
        elif c == "\n":
            out.append("\\n" if plain or rng.random() < 0.5 else "\n")
        elif c == "\t":
            out.append("\\t" if plain or rng.random() < 0.5 else "\t")
        elif c == "\r":
            out.append("\\r")
        elif not plain and c not in "nrt" and c.isascii() and rng.random() < 0.03:
            out.append("\\" + c)          # a superfluous escape reads as the character
        else:
            out.append(c)
    out.append('"')
    return "".join(out)


class Style:
    """Seeded layout decisions.  plain=True gives the least surprising rendering
    (no extra parentheses, no comments) used where the canonical text is predicted."""

    def __init__(self, rng, plain=False, parens=0.0, quote=0.0, trail=0.0):
        self.rng = rng
        self.plain = plain
        self.parens = parens
        self.quote = quote
        self.trail = trail

    def coin(self, p):
        return (not self.plain or p >= 1.0) and self.rng.random() < p


def T(text, kind):
    return {"t": text, "k": kind}


def group_depth(e):
    """deepest nesting of Grouped nodes in an AST"""
    if isinstance(e, list):
        return max([group_depth(x) for x in e] or [0])
    if not isinstance(e, dict):
        return 0
    d = max([group_depth(v) for v in e.values()] or [0])
    return d + 1 if e.get("e") == "grp" else d


class Emitter:
    """expr()/stmt() return (tokens, ast') where ast' is the input AST plus the
    Grouped nodes of the redundant parentheses that were written."""

    def __init__(self, style):
        self.st = style

    def word(self, w):
        return T(w, "w")

    def maybe_group(self, toks, ast, allowed=True):
        # the parser's time grows about 4x per level of nested parentheses (8 levels ~ 1 s in a debug
        # build): keep redundant parentheses shallow
        if allowed and self.st.coin(self.st.parens) and group_depth(ast) < 3:
            return [T("(", "p")] + toks + [T(")", "p")], {"e": "grp", "x": ast}
        return toks, ast

    def lit(self, v):
        t = v["t"]
        if t == "null":
            return [T("NULL", "w")]
        if t == "bool":
            return [T("true" if v["b"] else "false", "w")]
        if t == "int":
            if v["i"] < 0:
                raise Unrenderable("negative int literal")
            s = str(v["i"])
            if self.st.coin(0.05):
                s = "0" + s
            return [T(s, "n")]
        if t == "float":
            if "cls" not in v and v["fn"] < 0:
                raise Unrenderable("negative float literal")
            opts = float_texts(v)
            return [T(opts[0] if self.st.plain else self.st.rng.choice(opts), "n")]
        if t == "str":
            return [T(str_token(v["s"], self.st.rng, self.st.plain), "s")]
        raise Unrenderable("literal " + t)

    def name(self, f):
        nm = f["nm"]
        if lexes_as_word(nm) and not (f.get("q") and self.st.plain) and not self.st.coin(self.st.quote):
            return T(nm, "w")
        return T(str_token(nm, self.st.rng, True), "s")

    def con(self, c):
        if not c:
            return [], []
        t, a = self.expr(c[0], group=False)
        return [T("::", "p")] + t, [a]

    def fields(self, flds, allow_empty=True):
        toks = [T("{", "p")]
        out = []
        for j, f in enumerate(flds):
            if j:
                toks.append(T(",", "p"))
            ct, ca = self.con(f.get("con") or [])
            et, ea = self.expr(f["ex"])
            toks += [self.name(f)] + ct + [T("=", "p")] + et
            out.append({"nm": f["nm"], "q": f.get("q", False), "con": ca, "ex": ea})
        if flds and self.st.coin(self.st.trail):
            toks.append(T(",", "p"))
        toks.append(T("}", "p"))
        return toks, out

    def seq(self, xs, trailing=True):
        toks, out = [], []
        for j, x in enumerate(xs):
            if j:
                toks.append(T(",", "p"))
            t, a = self.expr(x)
            toks += t
            out.append(a)
        if xs and trailing and self.st.coin(self.st.trail):
            toks.append(T(",", "p"))
        return toks, out

    def expr(self, e, group=True):
        toks, ast = self._expr(e)
        return self.maybe_group(toks, ast, group)

    def _expr(self, e):
        k = e["e"]
        P = lambda s: T(s, "p")
        if k == "lit":
            return self.lit(e["v"]), e
        if k == "sym":
            return [T(e["nm"], "w")], e
        if k == "grp":
            t, a = self.expr(e["x"])
            return [P("(")] + t + [P(")")], {"e": "grp", "x": a}
        if k == "tuple":
            t, a = self.fields(e["flds"])
            return t, {"e": "tuple", "flds": a}
        if k == "list":
            t, a = self.seq(e["xs"])
            return [P("[")] + t + [P("]")], {"e": "list", "xs": a}
        if k in ("not", "fail", "trace"):
            t, a = self.expr(e["x"])
            return [T({"not": "not", "fail": "fail", "trace": "TRACE"}[k], "w")] + t, {"e": k, "x": a}
        if k == "convert":
            t, a = self.expr(e["x"])
            return [T("convert", "w"), T(e["fmt"], "w")] + t, {"e": k, "fmt": e["fmt"], "x": a}
        if k == "cast":
            t, a = self.expr(e["x"])
            return [T(e["ty"], "w"), P("(")] + t + [P(")")], {"e": k, "ty": e["ty"], "x": a}
        if k == "call":
            t, a = self.seq(e["args"])
            return [T(e["fn"], "w"), P("(")] + t + [P(")")], {"e": k, "fn": e["fn"], "args": a}
        if k == "copy":
            t, a = self.fields(e["flds"])
            return [T(e["sel"], "w")] + t, {"e": k, "sel": e["sel"], "flds": a}
        if k == "range":
            def part(x):
                # range parts are simple values or groups: extra parentheses always fit
                return self.expr(x)
            lt, la = part(e["lo"])
            toks = lt + [P(":")]
            st = []
            for s in e["step"]:
                t, a = part(s)
                toks += t + [P(":")]
                st.append(a)
            ht, ha = part(e["hi"])
            return toks + ht, {"e": k, "lo": la, "step": st, "hi": ha}
        if k == "func":
            toks = [T("func", "w"), P("(")]
            ps = []
            for j, p in enumerate(e["ps"]):
                if j:
                    toks.append(P(","))
                ct, ca = self.con(p.get("con") or [])
                toks += [T(p["nm"], "w")] + ct
                ps.append({"nm": p["nm"], "con": ca})
            bt, ba = self.expr(e["body"])
            return toks + [P(")"), P("=>")] + bt, {"e": k, "ps": ps, "body": ba}
        if k == "select":
            xt, xa = self.expr(e["x"])
            toks = [T("select", "w"), P("(")] + xt
            d = []
            for x in e["dflt"]:
                t, a = self.expr(x)
                toks += [P(",")] + t
                d.append(a)
            if d and self.st.coin(self.st.trail):      # `select (v,)` without a default is not in the grammar
                toks.append(P(","))
            ft, fa = self.fields(e["flds"])
            return toks + [P(")"), P("=>")] + ft, {"e": k, "x": xa, "dflt": d, "flds": fa}
        if k == "fop":
            ft, fa = self.expr(e["fn"])
            toks = [T(e["kind"], "w"), P("(")] + ft
            acc = []
            for x in e["acc"]:
                t, a = self.expr(x)
                toks += [P(",")] + t
                acc.append(a)
            tt, ta = self.expr(e["tgt"])
            toks += [P(",")] + tt
            if self.st.coin(self.st.trail):
                toks.append(P(","))
            return toks + [P(")")], {"e": k, "kind": e["kind"], "fn": fa, "acc": acc, "tgt": ta}
        if k == "module":
            pt, pa = self.fields(e["ps"])
            toks = [T("module", "w")] + pt + [P("=>")]
            out, oc = [], []
            if e["out"]:
                ot, oa = self.expr(e["out"][0])
                ct, oc = self.con(e.get("outcon") or [])
                toks += [P("(")] + ot + ct + [P(")")]
                out = [oa]
            toks.append(P("{"))
            body = []
            for s in e["body"]:
                t, a = self.stmt(s)
                toks += t
                body.append(a)
            return toks + [P("}")], {"e": k, "ps": pa, "out": out, "outcon": oc, "body": body}
        if k == "fmt":
            toks = [T(str_token(e["tpl"], self.st.rng, True), "s"), P("%")]
            if e["form"] == "list":
                t, a = self.seq(e["args"], trailing=False)
                return toks + [P("(")] + t + [P(")")], {"e": k, "form": "list", "tpl": e["tpl"], "args": a}
            t, a = self.expr(e["args"][0], group=False)     # `% (x)` would be the list form
            if t[0]["t"] == "(":
                raise Unrenderable("single-form argument starts with a parenthesis")
            return toks + t, {"e": k, "form": "single", "tpl": e["tpl"], "args": [a]}
        if k == "import":
            return [T("import", "w"), T(str_token(e["path"], self.st.rng, True), "s")], e
        if k == "include":
            return [T("include", "w"), T(e["ty"], "w"), T(str_token(e["path"], self.st.rng, True), "s")], e
        if k == "constraint":
            toks, arms = [], []
            for j, a in enumerate(e["arms"]):
                if j:
                    toks.append(P("|"))
                if a["a"] == "range":
                    toks.append(T("in", "w"))
                    lo, hi = [], []
                    for x in a["lo"]:
                        t, y = self.expr(x, group=False)
                        toks += t
                        lo.append(y)
                    toks.append(P(".."))
                    for x in a["hi"]:
                        t, y = self.expr(x, group=False)
                        toks += t
                        hi.append(y)
                    arms.append({"a": "range", "lo": lo, "hi": hi})
                else:
                    t, y = self.expr(a["x"], group=False)
                    toks += t
                    arms.append({"a": "shape", "x": y})
            return toks, {"e": k, "arms": arms}
        if k == "bin":
            op = e["op"]
            # the operands are written as they are: the AST is parser-producible, so no
            # parentheses are NEEDED; redundant ones come from expr()
            lt, la = self.expr(e["l"], group=(op != "dot" or e["l"]["e"] not in ("lit",)))
            rt, ra = self.expr(e["r"])
            if ends_greedy(la) and la["e"] != "grp":
                raise Unrenderable("greedy form on the left of an operator")
            return lt + [T(SPELL[op], "w" if op in ("in", "is") else "o")] + rt, {"e": k, "op": op, "l": la, "r": ra}
        raise Unrenderable("expression kind %r" % k)

    def stmt(self, s):
        k = s["s"]
        P = lambda x: T(x, "p")
        if k == "let":
            ct, ca = self.con(s.get("con") or [])
            t, a = self.expr(s["x"])
            return ([T("let", "w"), T(s["nm"], "w")] + ct + [P("=")] + t + [P(";")],
                    {"s": k, "nm": s["nm"], "con": ca, "x": a})
        if k == "expr":
            t, a = self.expr(s["x"])
            return t + [P(";")], {"s": k, "x": a}
        if k == "assert":
            t, a = self.expr(s["x"])
            return [T("assert", "w")] + t + [P(";")], {"s": k, "x": a}
        if k == "out":
            t, a = self.expr(s["x"])
            return [T("out", "w"), T(s["fmt"], "w")] + t + [P(";")], {"s": k, "fmt": s["fmt"], "x": a}
        if k == "constraint":
            t, a = self.expr(s["x"], group=False)
            return [T("constraint", "w"), T(s["nm"], "w"), P("=")] + t + [P(";")], {"s": k, "nm": s["nm"], "x": a}
        raise Unrenderable("statement kind %r" % k)


# ---------------------------------------------------------------------------
# tokens -> text
# ---------------------------------------------------------------------------
COMMENT_BODIES = ["c%d", " c%d", "  two blanks c%d", " trailing blanks c%d   ", "/ third slash c%d", " has \"quotes\" c%d",
                  " // nested c%d", " ünï ☃ c%d", " ends in backslash c%d \\", "\tc%d", " let x = 1; c%d", " c%d */ /*"]
BLANK_BODIES = ["", " ", "   "]
OPEN = {"(", "[", "{"}
CLOSE = {")", "]", "}", ",", ";"}


def glue_ok(a, b):
    """May tokens a b be written without white space between them?  (conservative)"""
    kw_a = a["k"] == "w" and a["t"] in KEYWORDS and a["t"] not in ("map", "filter", "reduce")
    if a["t"] in OPEN or a["t"] == ",":
        return True
    if b["t"] in CLOSE:
        return not kw_a
    if b["t"] in OPEN:
        return a["k"] == "w" and not kw_a
    return False


def layout(toks, rng, mode, comments=0.0, blank=0.0, glued=0.0, max_comments=6):
    """-> (text, [comment record]).  mode: 'line' (one statement per line, usual
    spacing), 'compact', 'airy'.  A comment record: {text, glued, blank, own}."""
    out = []
    cms = []
    depth = 0

    def body():
        k = len(cms) + 1
        if rng.random() < blank:
            return rng.choice(BLANK_BODIES), True
        return rng.choice(COMMENT_BODIES) % k, False

    def add(txt, b, g, own):
        cms.append({"text": txt, "glued": g, "blank": b, "own": own})

    def trailing(prev):
        """a comment behind prev on its line; returns the text up to and including the line end"""
        kw = prev is not None and prev["k"] == "w" and prev["t"] in KEYWORDS
        g = False
        if prev is None:
            sep = ""
        elif kw:
            g = rng.random() < glued
            sep = "" if g else rng.choice([" ", "  ", "\t"])
        elif prev["t"].endswith("/") or prev["t"] == "%":
            sep = " "
        else:
            sep = rng.choice([" ", "", "  ", "\t"])
        txt, b = body()
        add(txt, b, g, prev is None)
        return sep + "//" + txt + "\n"

    def own_lines():
        ind = " " * rng.choice([0, 0, 2, 4, 7])
        parts = []
        for j in range(rng.choice([1, 1, 1, 2, 3])):
            if len(cms) >= max_comments:
                break
            if j and rng.random() < 0.15:
                parts.append("\n")
            txt, b = body()
            add(txt, b, False, True)
            parts.append((ind if rng.random() < 0.5 else "") + "//" + txt + "\n")
        return "".join(parts)

    def want():
        return comments > 0 and len(cms) < max_comments and rng.random() < comments

    prev = None
    for t in toks:
        if t["t"] in (")", "]", "}"):
            depth = max(0, depth - 1)
        if prev is None:
            if want():
                out.append(own_lines())
        else:
            stmt_break = prev["t"] == ";" and depth == 0
            if mode == "line":
                ws = "\n" if stmt_break else ("" if glue_ok(prev, t) or "." in (prev["t"], t["t"]) else " ")
            elif mode == "compact":
                ws = "" if glue_ok(prev, t) and rng.random() < 0.7 else rng.choice([" ", " ", "  ", "\t"])
                if stmt_break and rng.random() < 0.5:
                    ws = "\n"
            else:
                r = rng.random()
                if r < 0.35 or (stmt_break and r < 0.8):
                    ws = (rng.choice(["", "", " "]) + "\n" * rng.choice([1, 1, 2])
                          + " " * (rng.choice([0, 2, 4]) * min(depth, 3) + rng.choice([0, 0, 1])))
                elif r < 0.45 and glue_ok(prev, t):
                    ws = ""
                else:
                    ws = rng.choice([" ", " ", "  ", "\t", " \t "])
            if want():
                r = rng.random()
                ind = " " * rng.choice([0, 2, 4])
                if r < 0.4:
                    ws = trailing(prev) + ind
                elif r < 0.8:
                    ws = (ws if "\n" in ws else rng.choice(["", " "]) + "\n") + own_lines() + ind
                    if not ws.endswith(("\n", " ")) and False:
                        ws += " "
                else:
                    ws = trailing(prev) + own_lines() + ind
            out.append(ws)
        out.append(t["t"])
        if t["t"] in OPEN:
            depth += 1
        prev = t
    # behind the last token
    tail = "\n"
    if want():
        r = rng.random()
        if r < 0.4:
            tail = trailing(prev)
        elif r < 0.8:
            tail = "\n" + own_lines()
        else:
            tail = trailing(prev) + own_lines()
        if rng.random() < 0.2 and tail.endswith("\n"):
            tail = tail[:-1]                      # last comment without a line end
    out.append(tail)
    return "".join(out), cms


# ---------------------------------------------------------------------------
# independent scanner: comments, statement extents
# ---------------------------------------------------------------------------
def scan(text):
    """-> dict(comments=[{text, line, own}], stmts=[(first_line, last_line)], ok=bool).
    Knows only: string literals ("...", backslash escapes the next character),
    `//` comments to the end of the line, brackets, `;`.  `own` = nothing but
    blanks before the comment on its line."""
    i, n = 0, len(text)
    line = 1
    depth = 0
    comments = []
    stmts = []
    start = None
    line_has_code = False
    ok = True
    while i < n:
        c = text[i]
        if c == "\n":
            line += 1
            line_has_code = False
            i += 1
            continue
        if c in " \t\r":
            i += 1
            continue
        if c == "/" and text.startswith("//", i):
            j = text.find("\n", i)
            if j < 0:
                j = n
            body = text[i + 2:j]
            if body.endswith("\r"):
                body = body[:-1]
            comments.append({"text": body, "line": line, "own": not line_has_code})
            i = j
            continue
        line_has_code = True
        if start is None:
            start = line
        if c == '"':
            i += 1
            while i < n and text[i] != '"':
                if text[i] == "\\":
                    i += 1
                if i < n and text[i] == "\n":
                    line += 1
                i += 1
            if i >= n:
                ok = False
            i += 1
            continue
        if c in "([{":
            depth += 1
        elif c in ")]}":
            depth -= 1
        elif c == ";" and depth == 0:
            stmts.append((start, line))
            start = None
        i += 1
    if start is not None or depth != 0:
        ok = False
    return {"comments": comments, "stmts": stmts, "ok": ok}


def comment_texts(sc):
    return [c["text"].strip() for c in sc["comments"]]


def comments_between_statements(sc):
    """Every comment on a line of its own and outside every (top-level) statement."""
    for c in sc["comments"]:
        if not c["own"]:
            return False
        for a, b in sc["stmts"]:
            if a <= c["line"] <= b:
                return False
    return True


# ---------------------------------------------------------------------------
# normal forms (Grouped kept, quoting and positions dropped)
# ---------------------------------------------------------------------------
def nv_spec(v):
    t = v["t"]
    if t == "null":
        return ("null",)
    if t == "bool":
        return ("bool", v["b"])
    if t == "int":
        return ("int", v["i"])
    if t == "float":
        return ("float", float_value(v))
    if t == "str":
        return ("str", v["s"])
    raise ValueError(t)


def nv_impl(v):
    from . import render as R
    t = v["t"]
    if t == "null":
        return ("null",)
    if t == "bool":
        return ("bool", v["b"])
    if t == "int":
        return ("int", v["i"])
    if t == "float":
        return ("float", R.float_from_bits(v["bits"]))
    if t == "str":
        return ("str", v["s"])
    raise ValueError(t)


def _norm(e, impl):
    if isinstance(e, list):
        return tuple(_norm(x, impl) for x in e)
    N = lambda x: _norm(x, impl)
    nm = (lambda x: x["nm"]) if impl else (lambda x: x)
    if "e" not in e:
        s = e["s"]
        if s == "let":
            return ("let", e["nm"], N(e.get("con") or []), N(e["x"]))
        if s == "out":
            return ("out", e["fmt"], N(e["x"]))
        if s == "constraint":
            return ("constraint", e["nm"], N(e["x"]))
        return (s, N(e["x"]))
    k = e["e"]

    def flds(fs):
        return tuple((f["nm"], N(f.get("con") or []), N(f["ex"])) for f in fs)
    if k == "lit":
        return ("lit", nv_impl(e["val"]) if impl else nv_spec(e["v"]))
    if k == "sym":
        return ("sym", e["nm"])
    if k == "tuple":
        return ("tuple", flds(e["flds"]))
    if k == "list":
        return ("list", N(e["xs"]))
    if k in ("not", "fail", "trace", "grp"):
        return (k, N(e["x"]))
    if k == "convert":
        return (k, e["fmt"], N(e["x"]))
    if k == "cast":
        return (k, e["ty"], N(e["x"]))
    if k == "call":
        return (k, nm(e["fn"]), N(e["args"]))
    if k == "copy":
        return (k, nm(e["sel"]), flds(e["flds"]))
    if k == "range":
        return (k, N(e["lo"]), N(e["step"]), N(e["hi"]))
    if k == "func":
        return (k, tuple((p["nm"], N(p.get("con") or [])) for p in e["ps"]), N(e["body"]))
    if k == "select":
        return (k, N(e["x"]), N(e["dflt"]), flds(e["flds"]))
    if k == "fop":
        return (k, e["kind"], N(e["fn"]), N(e["acc"]), N(e["tgt"]))
    if k == "module":
        return (k, flds(e["ps"]), N(e["out"]), N(e.get("outcon") or []), N(e["body"]))
    if k == "fmt":
        return (k, e["form"], e["tpl"], N(e["args"]))
    if k == "import":
        return (k, e["path"])
    if k == "include":
        return (k, e["ty"], e["path"])
    if k == "constraint":
        return (k, tuple(("range", N(a["lo"]), N(a["hi"])) if a["a"] == "range" else ("shape", N(a["x"]))
                         for a in e["arms"]))
    if k == "bin":
        return (k, e["op"], N(e["l"]), N(e["r"]))
    raise ValueError("ast kind %r" % k)


def norm_spec(prog):
    return _norm(prog, False)


def norm_impl(stmts):
    return _norm(stmts, True)
