"""C14 — `out` writes one artifact: right name, same bytes as `convert`, all or nothing.

Build.tla (OutLock / OutCreate / OutWriteOk / OutWriteFail) is model-checked:
OneArtifact, SecondOutIsError, AllOrNothing over every registered converter x
{convertible, inconvertible} x {no artifact, pre-existing artifact} x {0,1,2(,3)}
out statements, each invocation repeated.  Every explored project is materialised
with seeded values for its out statements and built with the real `ucg build`;
directory listing before/after, artifact bytes (against the string `convert <fmt>
<value>` evaluates to in ucg itself -- that IS the property), diagnostic class and
exit status are compared with the prediction; the out_lock/out_create/out_done
events of the same executions are validated against BuildTrace.tla."""
import json
import os
import random
import shutil
import time

from . import buildproj as B
from . import common as C

PID = "C14"
DEVS = {"CreateBeforeConvert", "OutLockNeverReset"}

# candidate values per converter; each is classified at start-up by evaluating
# `convert <fmt> <value>` in ucg (harness op eval)
COMMON = ['{name = "x", port = 8080}', '{a = "s p a c e", b = true, c = 1.5}', '{l = ["a", "b"], t = {k = "v"}}',
          '{u = "ünï", e = ""}', '"just a string"', '[1, 2, 3]', '7', '{}', '{n = NULL}', 'NULL', '[NULL]',
          '{deep = {deeper = {deepest = [1, {x = "y"}]}}}']
POOL = {
    "json": COMMON, "yaml": COMMON, "yamlmulti": COMMON + ['[{a = 1}, {b = 2}]'],
    "toml": COMMON + ['{t = {a = NULL}}', '{l = [NULL]}'],
    "env": COMMON + ['{A = "b", N = 1}'],
    "flags": COMMON + ['{port = 80, v = NULL, dir = ["a", "b"]}', '"s"', '[{a = 1}]'],
    "exec": ['{command = "echo", args = ["a", {flag = "v"}], env = {A = "b"}}', '{command = "true"}',
             '{command = "x", args = []}', '1', '[1]', '"s"', '{command = 1}', '{command = "x", args = [1]}',
             '{command = "x", args = "y"}', '{command = "x", env = 1}', '{args = ["a"]}', '{}', 'NULL',
             '{command = "x", extra = 1, more = 2, andmore = 3}'],
    "xml": ['{root = {name = "top", attrs = {id = "1"}, children = [{text = "hi"}, {name = "c"}]}}',
            '{version = "1.1", root = {name = "r"}}', '{root = {name = "a", children = ["txt"]}}',
            '1', '[1]', '"s"', '{a = 1}', '{root = 1}', '{root = {attrs = 1, name = "x"}}', '{root = {name = 1}}',
            'NULL', '{}', '{root = {name = "a", children = 1}}'],
}


def classify_pools(hp, rng):
    """-> {fmt: {"ok": [(value text, bytes)], "bad": [value text]}} by asking ucg's own convert."""
    h = C.Harness(hp)
    convs = h.req({"op": "converters"}).get("converters")
    if not convs:
        raise C.ToolError("harness op `converters` gave nothing")
    registered = {c["name"]: c["ext"] for c in convs}
    pools = {}
    for fmt, vals in POOL.items():
        if fmt not in registered:
            continue
        ok, bad = [], []
        for v in vals:
            r = h.req({"op": "eval", "src": "let s = convert %s %s;" % (fmt, v), "fresh": True})
            if "crash" in r:
                continue      # a crash of convert is C04's subject, not usable here
            out = r.get("out", {})
            if out.get("k") == "ok":
                s = [f for f in out["val"]["fs"] if "".join(f["nm"]) == "s"]
                if not s or s[0]["val"].get("t") != "str":
                    raise C.ToolError("eval of convert did not bind a string: %r" % (r,))
                ok.append((v, "".join(s[0]["val"]["s"]).encode("utf-8")))
            else:
                bad.append(v)
        pools[fmt] = {"ok": ok, "bad": bad}
    h.close()
    return registered, pools


def disk_view(lay, arts, values):
    """expected artifacts -> {relative path: bytes}"""
    out = {}
    for a in arts:
        path = lay.artifact(a["af"], a["ext"])
        # "empty" = created, conversion not completed: whatever the converter managed to write
        out[path] = B.PRE_BYTES if a["c"] == "pre" else (None if a["c"] == "empty" else values[a["ci"]][2])
    return out


def same_disk(got, want):
    if sorted(got) != sorted(want):
        return False
    for k, v in want.items():
        if v is None:
            if got[k] == B.PRE_BYTES:
                return False
        elif got[k] != v:
            return False
    return True


def run_case(job):
    idx, case, devcase, ucg, base, sd, pools = job
    rng = random.Random(sd * 104729 + idx)
    root = B.case_dir(base, idx)
    body = case["body"][0]
    values = {}
    for i, s in enumerate(body, 1):
        if s["k"] == "out":
            fmt = B.FMTS[s["tgt"] - 1]
            if s["r"] == "ok":
                v, bts = rng.choice(pools[fmt]["ok"])
            else:
                v, bts = rng.choice(pools[fmt]["bad"]), None
            values[i] = (fmt, v, bts)
    lay = B.materialise(case, root, rng, out_values={i: (f, v) for i, (f, v, _) in values.items()})
    arg = lay.arg_for(1)
    res = {"idx": idx, "ok": True, "events": [], "fired": [],
           "text": "%s ; pre=%s ; x%d" % (" ".join("out %s %s;" % (values[i][0], values[i][1]) if s["k"] == "out" else s["k"]
                                                    for i, s in enumerate(body, 1)), case["pre"], case["repeat"])}
    before = B.snapshot(lay)
    rounds = []
    for rn in range(case["repeat"]):
        obs = B.run_ucg(ucg, ["build", arg], lay.cwd(), os.path.join(root, "home"),
                        trace_file=os.path.join(root, "trace.ndjson"))
        after = B.snapshot(lay)
        po = B.project_build(obs, lay, [arg])
        rounds.append({"obs": obs, "po": po, "before": before, "after": after})
        res["events"].append((dict(case, disk_now=_abstract_disk(lay, before, values)), B.abstract_events(lay, obs.trace)))
        before = after

    def agrees(pred_rounds, is_expect):
        why = []
        for rn, (pr, ob) in enumerate(zip(pred_rounds, rounds)):
            po = ob["po"]
            if po["crashed"]:
                why.append("round %d: process %s" % (rn + 1, po["crashed"]))
                continue
            pf = pr["files"][0]
            okay = pf["okay"] if is_expect else pf["res"] == "ok"
            clss = pf["clss"] if is_expect else ([pf["cls"]] if pf["cls"] else [])
            if len(po["files"]) != 1:
                why.append("round %d: no `Building` block" % (rn + 1))
                continue
            of = po["files"][0]
            if of["okay"] != okay:
                why.append("round %d: build %s, specification says %s" % (rn + 1, "ok" if of["okay"] else "failed", "ok" if okay else "fails"))
            elif not okay and of["cls"] not in clss:
                why.append("round %d: diagnostic class %s, specification says %s (%s)" % (rn + 1, of["cls"], clss, of["msg"][:200]))
            if po["rc"] != pr["exit"]:
                why.append("round %d: exit status %s, specification says %s" % (rn + 1, po["rc"], pr["exit"]))
            want = disk_view(lay, pr["disk"], values)
            if not same_disk(ob["after"], want):
                # a second out is an error; whether the first one's artifact stays is left open by C14
                if is_expect and clss == ["TwoOuts"] and ob["after"] == ob["before"]:
                    continue
                why.append("round %d: artifacts %s, specification says %s" % (
                    rn + 1, {k: v[:80] for k, v in ob["after"].items()}, {k: (v[:80] if v is not None else None) for k, v in want.items()}))
        return why

    why = agrees(case["expect"], True)
    if why:
        res["ok"] = False
        res["fired"] = []
        for dc in (devcase or []):
            if dc["fired"] and not agrees(dc["got"], False):
                res["fired"] = sorted(dc["fired"])
                break
        res["report"] = {"file": open(lay.abs_file(1)).read(), "invocation": ["ucg", "build", arg],
                         "pre_existing": sorted(B.snapshot(lay)) if False else [lay.artifact(a["af"], a["ext"]) for a in case["disk0"]],
                         "abstract": {k: case[k] for k in ("lay", "body", "cmd", "cwd", "ord", "pre", "repeat")},
                         "values": {str(i): [f, v] for i, (f, v, _) in values.items()},
                         "expected": case["expect"], "why": why,
                         "output": [r["obs"].text[:1500] for r in rounds],
                         "listing_after": [{k: v.decode("utf-8", "replace")[:200] for k, v in r["after"].items()} for r in rounds]}
    shutil.rmtree(root, ignore_errors=True)
    return res


def _abstract_disk(lay, snap, values):
    """the disk a run starts on, in the vocabulary of Build.tla (for the trace specification)"""
    out = []
    for f in range(1, lay.nf + 1):
        for ext in sorted(set(B.EXT_OF)):
            p = lay.artifact(f, ext)
            if p in snap:
                b = snap[p]
                ci = [i for i, (_, _, bts) in values.items() if bts is not None and bts == b and B.EXT_OF[B.FMTS.index(values[i][0])] == ext]
                if b == B.PRE_BYTES:
                    out.append({"af": f, "ext": ext, "c": "pre", "ci": 0})
                elif ci:
                    out.append({"af": f, "ext": ext, "c": "out", "ci": ci[0]})
                else:
                    out.append({"af": f, "ext": ext, "c": "empty", "ci": 0})
    return out


def nontrivial(case):
    return any(s["k"] == "out" for s in case["body"][0])


def main(tier, replay=None):
    t0 = time.time()
    rep = B.reporter(PID)
    ucg = C.ensure_ucg()
    hp = C.ensure_harness()
    sd = C.seed()
    gd = C.gen_dir("c14")
    base = C.scratch_dir("c14")
    registered, pools = classify_pools(hp, random.Random(sd))
    # the published table of Build.tla against what is registered
    table = dict(zip(B.FMTS, B.EXT_OF))
    for name in registered:
        if name not in table:
            raise C.ToolError("converter %r is registered but unknown to Build.tla (Fmts/ExtOf): extend the table" % name)
    for name in table:
        if name not in registered:
            raise C.ToolError("converter %r of Build.tla is not registered in ucg" % name)
    for fmt in B.FMTS:
        if not pools[fmt]["ok"]:
            raise C.ToolError("no convertible value left in the pool of %s" % fmt)
    failable = {B.FMTS[i - 1] for i in (4, 5, 7, 8)}
    for fmt in failable:
        if not pools[fmt]["bad"]:
            raise C.ToolError("no inconvertible value left in the pool of %s" % fmt)
    if replay:
        return do_replay(replay, ucg, base, pools)
    cfgs = ["c14_q1"] if tier == "quick" else ["c14_q1", "c14_t1"]
    budget = 450 if tier == "quick" else 3000
    opendevs = B.open_deviations() & DEVS
    states = trans = 0
    cmds = []
    cases, devcases = {}, {}
    for cfg in cfgs:
        r, r2 = B.run_design_and_deviations(gd, cfg, opendevs, timeout=3000)
        cmds.append(r.cmd)
        if r.violation:
            raise C.ToolError("Build.tla (%s, Deviations = {}): invariant %s violated -- the design itself breaks the "
                              "property; inspect the specification.\n%s" % (cfg, r.violation, r.errtext[:3000]))
        C.require_tlc_ok(r, cfg)
        states += r.distinct
        trans += r.generated
        C.log("[c14] %s: %d states, %d projects, %.0fs" % (cfg, r.distinct, len(r.replays), r.wall))
        for c in r.replays:
            cases.setdefault(B.case_key(c), c)
        if r2 is not None:
            C.require_tlc_ok(r2, cfg + " with deviations")
            cmds.append(r2.cmd)
            for c in r2.replays:
                devcases.setdefault(B.case_key(c), []).append(c)
    chosen = B.choose(cases, lambda k: nontrivial(cases[k]), budget, random.Random(sd))
    jobs = [(i, cases[k], devcases.get(k), ucg, base, sd, pools) for i, k in enumerate(chosen)]
    cnt = {"one artifact written": 0, "inconvertible value": 0, "second out": 0, "no out": 0, "pre-existing artifact": 0,
           "pre-existing artifact and failed conversion": 0}
    for fm in B.FMTS:
        cnt["out " + fm] = 0
    for k in chosen:
        c = cases[k]
        e = c["expect"][0]["files"][0]
        outs = [s for s in c["body"][0] if s["k"] == "out"]
        cnt["one artifact written"] += e["okay"] and len(outs) == 1
        cnt["inconvertible value"] += "Convert" in e["clss"]
        cnt["second out"] += "TwoOuts" in e["clss"]
        cnt["no out"] += not outs
        cnt["pre-existing artifact"] += c["pre"] == "all" and bool(outs)
        cnt["pre-existing artifact and failed conversion"] += c["pre"] == "all" and "Convert" in e["clss"]
        for s in outs:
            cnt["out " + B.FMTS[s["tgt"] - 1]] += 1
    B.require_nonvacuous("c14", cnt)
    B.binding_demo(jobs)
    results = B.pool_map(run_case, jobs, workers=8)
    trace_runs = []
    nontriv = set()
    samples = []
    builds = 0
    for (i, case, *_), res in zip(jobs, results):
        builds += case["repeat"]
        if res["ok"] or res["fired"]:
            trace_runs += res["events"]
        if not res["ok"]:
            if res["fired"]:
                for d in res["fired"]:
                    rep.disagree(res["report"], key=[k for k, v in B.DEV_OF_KEY.items() if v == d][0])
            else:
                rep.disagree(res["report"], key=None)
        if nontrivial(case):
            nontriv.add(res["text"])
        if len(samples) < 6 and i % 53 == 0:
            samples.append(res["text"])
    tv_runs = tv_events = 0
    if os.path.exists(os.path.join(C.SPEC, "BuildTrace.tla")) and trace_runs:
        if not any(evs for _, evs in trace_runs):
            raise C.ToolError("no hook events recorded: is the ucg binary built with the `verif` feature?")
        okay, info = B.validate_traces(gd, trace_runs[: (500 if tier == "quick" else 5000)], 1, opendevs, "c14")
        cmds.append(info.get("cmd", ""))
        if not okay:
            rep.disagree({"trace_validation": "BuildTrace.tla rejects a recorded `ucg build` execution", "info": info}, key=None)
        else:
            tv_runs, tv_events = info["runs"], info["events"]
            states += info.get("states", 0)
    code = rep.finish()
    shutil.rmtree(base, ignore_errors=True)
    if code == 0:
        shutil.rmtree(gd, ignore_errors=True)      # kept after a violation: the trace files are evidence
    C.write_evidence(PID, tier, "model_checking", {
        "states": states, "transitions": trans,
        "traces_validated_against_impl": builds + tv_runs,
        "evaluations": builds,
        "distinct_nontrivial": len(nontriv),
        "rule": "Build.tla explores every one-file project of <= 2 (thorough 3) statements over {out <converter> "
                "convertible|inconvertible, run-time error} x {no artifact, pre-existing artifact}, each built twice; "
                "values for the out statements are drawn (seeded) from per-converter pools classified by ucg's own "
                "`convert`; non-trivial = at least one out statement; distinct by rendered file + disk state",
        "samples": samples,
        "model_projects_explored": len(cases),
        "converters": registered,
        "pool_sizes": {f: [len(p["ok"]), len(p["bad"])] for f, p in pools.items()},
        "trace_events_validated": tv_events, "trace_runs_validated": tv_runs,
        "exhaustive": False,
        "exhaustive_note": "TLC enumerates the stated bound completely; the binary sees a seeded sample of it",
        "checker_cmd": " ; ".join(c for c in cmds if c),
        "open_deviations": sorted(opendevs),
        "trusted_base": ["TLC", "vp/buildproj.py renderer and output parser", "harness op eval (the string `convert` binds)",
                         "the `verif` hooks of ucg (events only)"],
    }, time.time() - t0, violations=len(rep.violations),
        assumptions=["whether the artifact of the FIRST out statement is left behind when a second out statement fails "
                     "the build is left open by C14: both are accepted",
                     "the extension table is the published one (statements.md / converters.md / `ucg converters`), "
                     "transcribed in Build.tla ExtOf",
                     "convertibility of a value is decided by ucg's own `convert` expression (the property compares out "
                     "with convert); whether convert's output is valid for the format is C03/C08/C12's subject"])
    return code


def do_replay(path, ucg, base, pools):
    case = json.load(open(path))["case"]
    if "file" not in case:
        print("replay %s: not a project case" % path)
        return 2
    root = B.case_dir(base, 0)
    ab = case["abstract"]
    fake = {"nf": 1, "lay": ab["lay"], "body": ab["body"], "cmd": "build", "cwd": ab["cwd"], "ord": ab["ord"], "disk0": []}
    lay = B.Layout(fake, root)
    for d in B.DIRS.values():
        os.makedirs(os.path.join(root, d), exist_ok=True)
    with open(lay.abs_file(1), "w") as fh:
        fh.write(case["file"])
    for p in case["pre_existing"]:
        with open(os.path.join(root, p), "wb") as fh:
            fh.write(B.PRE_BYTES)
    ok = True
    for rn, exp in enumerate(case["expected"]):
        before = B.snapshot(lay)
        obs = B.run_ucg(ucg, ["build", lay.arg_for(1)], lay.cwd(), os.path.join(root, "home"))
        after = B.snapshot(lay)
        po = B.project_build(obs, lay, [lay.arg_for(1)])
        pf = exp["files"][0]
        of = po["files"][0] if po["files"] else {"okay": None, "cls": "?"}
        print("round %d: exit %s (spec %s), build %s (spec %s), artifacts %s" % (
            rn + 1, po["rc"], exp["exit"], of["okay"], pf["okay"], {k: v[:60] for k, v in after.items()}))
        if po["crashed"] or po["rc"] != exp["exit"] or of["okay"] != pf["okay"]:
            ok = False
        if not pf["okay"] and pf["clss"] != ["TwoOuts"] and after != before:
            ok = False
        want_paths = sorted(lay.artifact(a["af"], a["ext"]) for a in exp["disk"])
        if sorted(after) != want_paths and not (pf["clss"] == ["TwoOuts"] and after == before):
            ok = False
    print("replay %s: %s" % (path, "agrees with the specification" if ok else "DISAGREES"))
    shutil.rmtree(base, ignore_errors=True)
    if not ok:
        print("VIOLATION property=%s replay=%s" % (PID, path))
    return 0 if ok else 1
