"""Entry point: python3 -m vp.run <Cxx> quick|thorough [--replay file]"""
import importlib
import os
import sys
import traceback

from . import common as C


def _term(*_a):
    raise SystemExit(2)


def main(argv):
    import signal
    signal.signal(signal.SIGTERM, _term)
    if not argv:
        print("usage: check <Cxx> quick|thorough [--replay file]", file=sys.stderr)
        return 2
    pid = argv[0].upper()
    tier = C.tier_from_argv(argv[1:])
    replay = None
    if "--replay" in argv:
        i = argv.index("--replay")
        if i + 1 >= len(argv) or not os.path.exists(argv[i + 1]):
            print("TOOL-ERROR %s: --replay needs the path of an existing replay file" % pid, file=sys.stderr)
            return 2
        replay = argv[i + 1]
    try:
        mod = importlib.import_module("vp." + pid.lower())
    except Exception as e:      # a broken driver is a tool error, never a verdict
        traceback.print_exc()
        print("TOOL-ERROR %s: driver does not load: %s" % (pid, e), file=sys.stderr)
        return 2
    try:
        return mod.main(tier, replay)
    except C.ToolError as e:
        print("TOOL-ERROR %s: %s" % (pid, e), file=sys.stderr)
        return 2
    except Exception:
        traceback.print_exc()
        return 2


if __name__ == "__main__":
    sys.exit(main(sys.argv[1:]))
