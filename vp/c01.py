"""C01 — compiled evaluation equals the language's definitional semantics."""
import os
import time

from . import common as C
from . import coreprog as P

PID = "C01"

# family -> (constant overrides, simulate?, depth)
QUICK = [
    ("ops1", {"Fam": "<- FamOps", "LitPool": "<- LitsSmall", "Names": "<- Names2", "MaxN": "3", "MaxStmts": "1"}, None),
    ("ops2", {"Fam": "<- FamOps", "LitPool": "<- Lits3", "Names": "<- Names2", "BinOps": "<- OpsFew", "MaxN": "3",
              "MaxStmts": "2"}, None),
    ("arith", {"Fam": "<- FamOps", "LitPool": "<- LitsInt", "Names": "<- Names1", "BinOps": "<- OpsArith", "MaxN": "5",
               "MaxD": "3", "MaxStmts": "1"}, None),
    ("nums", {"Fam": "<- FamOps", "LitPool": "<- LitsNum", "Names": "<- Names1", "BinOps": "<- OpsNum",
              "MaxN": "3", "MaxStmts": "1"}, None),
    ("bools", {"Fam": "<- FamOps", "LitPool": "<- LitsBool", "Names": "<- Names1", "BinOps": "<- OpsBoolEq",
               "MaxN": "5", "MaxD": "3", "MaxStmts": "1", "Ill0": "1"}, None),
    ("data", {"Fam": "<- FamData", "LitPool": "<- Lits2", "Names": "<- Names1", "BinOps": "<- Ops2",
              "TyNames": "<- TySome", "Prelude": "<- PreData", "MaxN": "3", "MaxStmts": "1"}, None),
    ("strs", {"Fam": "<- FamOps", "LitPool": "<- LitsStr2", "Names": "<- Names1", "BinOps": "<- OpsStr", "MaxN": "5",
              "MaxD": "3", "MaxStmts": "1"}, None),
    ("select", {"Fam": "<- FamSelect", "LitPool": "<- LitsSel", "Names": "<- Names1", "BinOps": "<- Ops2",
                "MaxN": "4", "MaxStk": "4", "MaxStmts": "1"}, None),
    ("call", {"Fam": "<- FamCallPre", "LitPool": "<- Lits3", "Names": "<- Names1", "BinOps": "<- OpsFew",
              "Prelude": "<- PreFunc", "MaxN": "4", "MaxStk": "3", "MaxStmts": "1"}, None),
    ("foppre", {"Fam": "<- FamFopPre", "LitPool": "<- Lits2", "Names": "<- Names1", "Prelude": "<- PreFop",
                "MaxN": "5", "MaxStk": "3", "MaxStmts": "1"}, None),      # 5 nodes: the smallest that holds a reduce
    ("conlet", {"Fam": "<- FamCon", "LitPool": "<- LitsCon", "Names": "<- Names2", "ConPool": "<- Cons1",
                "MaxN": "1", "MaxStk": "1", "MaxStmts": "2"}, None),      # let name :: constraint = value
    ("funcbody", {"Fam": "<- FamFuncBody", "LitPool": "<- Lits2", "Names": "<- Names2", "SigPool": "<- Sigs2",
                  "BinOps": "<- OpsFew", "MaxN": "4", "MaxStk": "2", "MaxCtx": "2", "MaxStmts": "2"}, None),   # define, then call
    ("fopbad", {"Fam": "<- FamFopPre", "LitPool": "<- Lits1", "Names": "<- Names1", "Prelude": "<- PreFopBad",
                "MaxN": "5", "MaxStk": "3", "MaxStmts": "1"}, None),    # callbacks whose answers map / filter cannot use
    ("copyparam", {"Fam": "<- FamSelUse", "LitPool": "<- Lits1", "Names": "<- Names1", "BinOps": "<- Ops1",
                   "FldNames": "<- Flds2", "Prelude": "<- PreCopyFn", "MaxN": "4", "MaxStk": "2", "MaxStmts": "1"}, None),
    ("shadowuse", {"Fam": "<- FamOps", "LitPool": "<- LitsSA", "Names": "<- Names1", "BinOps": "<- Ops1",
                   "Prelude": "<- PreShadowUse", "MaxN": "3", "MaxStk": "2", "MaxStmts": "1"}, None),
    ("shadowuse2", {"Fam": "<- FamOps", "LitPool": "<- LitsSA", "Names": "<- Names1", "BinOps": "<- Ops1",
                    "Prelude": "<- PreShadowUse2", "MaxN": "3", "MaxStk": "2", "MaxStmts": "1"}, None),
    ("moduse", {"Fam": "<- FamModUse", "LitPool": "<- Lits2", "Names": "<- Names1", "BinOps": "<- Ops1",
                "FldNames": "<- FldsP", "CastTys": "<- CastsIS", "Prelude": "<- PreMod", "MaxN": "4", "MaxStk": "2",
                "MaxStmts": "1"}, None),         # the instance of a module as an operand
    ("cmpdata", {"Fam": "<- FamCmpData", "LitPool": "<- Lits2", "Names": "<- Names1", "BinOps": "<- OpsEqNe",
                 "FldNames": "<- Flds2", "MaxN": "5", "MaxStk": "2", "MaxStmts": "1"}, None),   # == / != of lists and tuples
    ("funcsel", {"Fam": "<- FamFuncSel", "LitPool": "<- Lits1", "Names": "<- Names2", "SigPool": "<- SigsTup",
                 "BinOps": "<- Ops1", "FldNames": "<- Flds2", "MaxN": "7", "MaxD": "4", "MaxStk": "2", "MaxCtx": "2",
                 "MaxStmts": "2"}, None),        # bodies that select fields / elements of a parameter
    ("funcshadow", {"Fam": "<- FamFuncBody", "LitPool": "<- Lits2", "Names": "<- NamesBC", "SigPool": "<- Sigs2",
                    "BinOps": "<- Ops2", "Prelude": "<- PreShadow", "MaxN": "4", "MaxStk": "2", "MaxCtx": "2",
                    "MaxStmts": "2"}, None),     # parameters named like earlier bindings of another type
    ("misc", {"Fam": "<- FamMisc", "LitPool": "<- LitsFmt", "Names": "<- Names1", "BinOps": "<- Ops2",
              "TyNames": "<- TySome", "MaxN": "3", "MaxStk": "3", "MaxStmts": "1"}, None),
    ("cast", {"Fam": "<- FamCast", "LitPool": "<- LitsCast", "Names": "<- Names1", "BinOps": "<- Ops2",
              "MaxN": "3", "MaxStmts": "1"}, None),
    ("castdot", {"Fam": "<- FamCastDot", "LitPool": "<- Lits2", "Names": "<- Names1", "Prelude": "<- PreData",
                 "KeyPool": "<- Keys", "MaxN": "4", "MaxStk": "3", "MaxStmts": "1"}, None),
    ("moddef", {"Fam": "<- FamModDef", "LitPool": "<- Lits2", "Names": "<- Names2", "BinOps": "<- Ops2",
                "FldNames": "<- Flds2", "MaxN": "5", "MaxStk": "2", "MaxCtx": "2", "MaxStmts": "2",
                "MaxModStmts": "1"}, None),
    ("dotuse", {"Fam": "<- FamDotUse", "LitPool": "<- Lits2", "Names": "<- Names1", "BinOps": "<- Ops2",
                "Prelude": "<- PreDot", "MaxN": "4", "MaxStk": "3", "MaxStmts": "1"}, None),
    ("sim", {"Fam": "<- FamSim", "LitPool": "<- LitsMix", "Names": "<- NamesTop", "BinOps": "<- OpsAll", "ConPool": "<- Cons1",
             "Prelude": "<- PreSim", "MaxN": "9", "MaxD": "5", "MaxStk": "4", "MaxCtx": "3", "MaxStmts": "4",
             "MaxModStmts": "2", "Ill0": "1"}, (1500, 70)),
    # --no-strict: a missing field or index is NULL instead of a failure (machines and reference with Strict = FALSE)
    ("data-ns", {"Fam": "<- FamData", "LitPool": "<- Lits2", "Names": "<- Names1", "BinOps": "<- Ops2",
                 "TyNames": "<- TySome", "Prelude": "<- PreData", "MaxN": "3", "MaxStmts": "1", "Strict": "FALSE"}, None),
    ("sim-ns", {"Fam": "<- FamSim", "LitPool": "<- LitsMix", "Names": "<- NamesTop", "BinOps": "<- OpsAll", "ConPool": "<- Cons1",
                "Prelude": "<- PreSim", "MaxN": "9", "MaxD": "5", "MaxStk": "4", "MaxCtx": "3", "MaxStmts": "4",
                "MaxModStmts": "2", "Ill0": "1", "Strict": "FALSE"}, (700, 70)),
]



def work(h, cases):
    return [P.replay_case(h, c) for c in cases]


def work_nostrict(h, cases):
    return [P.replay_case(h, c, strict=False) for c in cases]


NOSTRICT = {"data-ns": work_nostrict, "sim-ns": work_nostrict}


def work_prefix(h, cases):
    return [P.replay_prefixes(h, c) for c in cases]


def run(pid, tier, families, t0, extra_assume=(), level="model_checking", strict=True, worker=None, rule=None,
        text=None, worker_for=None, after=None):
    rep = C.Reporter(pid)
    if pid != "C01":
        # the recorded deviations of the VM from the reference (C01's findings) surface in every check that
        # replays Gen programs; they are the same findings, not new ones
        rep.findings += [f for f in C.load_findings("C01") if str(f.get("key", "")).startswith("dev:")]
    hp = C.ensure_harness()
    gd = C.gen_dir(pid.lower())
    mod = P.write_mc_module(gd)
    states = trans = 0
    cmds = []
    stats = {"cases": 0, "ok": 0, "known": 0, "skip": 0, "violation": 0}
    samples = []
    nontriv = set()
    constructs = {}
    okprogs = []     # a sample of programs the reference evaluates successfully (used by follow-up legs)
    only = os.environ.get("VERIF_ONLY")
    for name, over, sim in families:
        if only and name not in only.split(","):
            continue
        P.write_cfg(gd, name, over)
        buf = []
        ncases = [0]

        def flush():
            """replay the buffered cases (bounded memory: TLC simply waits on its pipe meanwhile)"""
            cases, buf[:] = list(buf), []
            if not cases:
                return
            res = C.proc_map(hp, (worker_for or {}).get(name) or worker or work, cases, chunk=300)
            for c, x in zip(cases, res):
                stats["cases"] += 1
                if c["expect"]["k"] in ("ok", "fail") and len(okprogs) < 6000 and stats["cases"] % 5 == 0:
                    okprogs.append(c["prog"])
                st = x["status"]
                if st == "toolerr":
                    raise C.ToolError("renderer/parser mismatch: %r" % (x,))
                stats[st] = stats.get(st, 0) + 1
                if st == "known":
                    for d in c["devs"]:
                        rep.disagree({"family": name, "text": x.get("text"), "detail": x.get("detail"),
                                      "prog": c["prog"], "tlc_case": c}, key="dev:" + d)
                if st == "violation":
                    rep.disagree({"family": name, "text": x.get("text"), "detail": x.get("detail"),
                                  "kind": x.get("kind"), "prog": c["prog"], "tlc_case": c}, key=x.get("key"))
                if st in ("ok", "known") and len(c["ops"]) >= 6:
                    nontriv.add(hash(x.get("text")))
                if st == "ok" and len(samples) < 6 and len(c["ops"]) >= 8 and (stats["cases"] % 97 == 1):
                    samples.append({"family": name, "text": x["text"], "expect": P._show_spec(c["expect"])})

        feats = set()

        def on_case(c):
            buf.append(c)
            ncases[0] += 1
            if ncases[0] <= 200000:
                features(c["prog"][c.get("npre", 0):], feats)       # the generated statements follow the prelude
            if len(buf) >= 20000:
                flush()

        r = C.run_tlc(mod, name, workers=8, gendir=gd, timeout=900 if tier == "quick" else 5400, heap="12g",
                      simulate=sim[0] if sim else None, depth=sim[1] if sim else None,
                      max_replays=(sim[0] * 6 if sim else None),     # a simulation is stopped once it has given enough
                      on_replay=on_case)
        cmds.append(r.cmd)
        if r.violation:
            from . import render as R
            for d in r.disagree[:3]:
                try:
                    C.log("[model] program on which VM.tla and Eval.tla part ways:\n" + R.program(d["prog"])
                          + "  Eval: %s\n  VM:   %s" % (P._show_spec(d["expect"]), P._show_spec(d["vm"])))
                except Exception as e:
                    C.log("[model] disagreement (unrenderable: %s): %r" % (e, d))
            raise C.ToolError("model-level violation of %s in family %s (DESIGN §3.7(4)): the design machine and "
                              "the reference disagree in the model; triage the TLC counterexample:\n%s"
                              % (r.violation, name, r.errtext[-300:]))
        C.require_tlc_ok(r, name)
        states += r.distinct or r.generated
        trans += r.generated
        C.log("[%s] %s: %d states, %d cases, %.0fs" % (pid, name, r.distinct or r.generated, ncases[0], r.wall))
        flush()
        missing = sorted(f for a in family_actions(over.get("Fam", P.BASE_CONSTS["Fam"])) for f in EXPECTED.get(a, [])
                         if f not in feats)
        constructs[name] = {"produced": sorted(feats), "enabled_but_never_produced": missing}
        # leaves and statements depend on what is in scope (a family without prelude and with one statement has no
        # variable to mention): reported in the evidence, not an error
        missing = [f for f in missing if f not in SOFT]
        # without an ill-typed budget some constructs cannot occur at all (`not` over numbers, `fail`): evidence only
        if missing and not sim and ncases[0] > 0 and over.get("Ill0", P.BASE_CONSTS["Ill0"]) != "0":
            raise C.ToolError("family %s enables %s but no generated program contains it: the budgets "
                              "(MaxN/MaxStk/MaxD/MaxStmts) are too small for its smallest term - the family is vacuous "
                              "for that construct" % (name, missing))
    if after:
        try:
            after(rep, stats, okprogs)
        except TypeError:
            after(rep, stats)
    import collections
    kc = collections.Counter(k for k, _ in rep.violations)
    if kc:
        C.log("[%s] disagreement keys: %r" % (pid, dict(kc)))
    code = rep.finish()
    C.write_evidence(pid, tier, level, {
        "states": states, "transitions": trans,
        "traces_validated_against_impl": stats["ok"] + stats.get("known", 0),
        "evaluations": stats["cases"], "distinct_nontrivial": len(nontriv),
        "rule": rule or "programs = behaviours of Gen.tla (typed by evaluation against Eval.tla, bounded ill-typed budget); each is "
                "checked in the model (Agreement of VM(Translate(p)) with Eval(p), NoPanic, CleanAtEnd, PrefixStable) and "
                "replayed: rendered text must parse back to the generated AST, FileBuilder::eval_string must give the "
                "predicted outcome and values, AST::translate must emit the predicted op sequence with the predicted "
                "statement positions; non-trivial = distinct program compiling to >= 6 ops",
        "samples": samples or [{"note": "no sample matched the sampling rule"}],
        "stats": stats, "families": [f[0] for f in families], "constructs_per_family": constructs,
        "checker_cmd": " ; ".join(cmds)[:4000],
        "exhaustive": all(f[2] is None for f in families),
        "trusted_base": ["TLC 1.8.0", "vp/render.py", "vp/coreprog.py", "harness projections"],
    }, time.time() - t0, violations=len(rep.violations), assumptions=list(extra_assume))
    return code


# ---------------------------------------------------------------------------
# ./check Cxx --replay <file>: one recorded disagreement against the current tree
# ---------------------------------------------------------------------------
def do_replay(pid, path, worker, worker_for=None, text_replay=None):
    """The replay files of the Gen-based checks carry the generator's case (program, predictions): the worker that
    judged it judges it again.  Disagreements of the other legs carry a text (text_replay judges it) or cannot be
    replayed one by one (recorded VM traces, binary runs under a random environment): exit status 2 says so."""
    import json
    blob = json.load(open(path))
    case = blob.get("case", {})
    hp = C.ensure_harness()
    h = C.Harness(hp)
    try:
        if "tlc_case" in case:
            w = (worker_for or {}).get(case.get("family")) or worker
            x = w(h, [case["tlc_case"]])[0]
        elif text_replay and case.get("text") is not None and case.get("leg") in ("text", "probe", "syntax"):
            x = text_replay(h, case)
        else:
            raise C.ToolError("this disagreement (leg %r) cannot be replayed on its own: run the check again"
                              % case.get("leg"))
    finally:
        h.close()
    st = x.get("status")
    known = C.load_findings(pid) + ([f for f in C.load_findings("C01") if str(f.get("key", "")).startswith("dev:")]
                                    if pid != "C01" else [])
    if st == "violation" and any(f.get("key") == x.get("key") for f in known):
        print("replay %s: disagrees as the recorded finding says" % path)
        print("KNOWN-FINDING: property=%s key=%s" % (pid, x.get("key")))
        return 0
    if st == "violation":
        print("replay %s: DISAGREES (%s)\n%s" % (path, x.get("key"), (x.get("text") or "")[:2000]))
        print(str(x.get("detail"))[:1500])
        print("VIOLATION property=%s replay=%s" % (pid, path))
        return 1
    print("replay %s: %s" % (path, {"ok": "agrees with the specification", "known": "a recorded deviation (known finding)",
                                    "skip": "nothing to judge: " + str(x.get("why"))}.get(st, st)))
    return 0


# ---------------------------------------------------------------------------
# which constructs a family actually produced (vacuity guard: an enabled generator action whose smallest term does
# not fit the family's budgets is silently never taken - the foppre family once contained no reduce)
# ---------------------------------------------------------------------------
def features(x, out):
    if isinstance(x, list):
        for y in x:
            features(y, out)
        return
    if not isinstance(x, dict):
        return
    if "s" in x and isinstance(x["s"], str):
        out.add("s:" + x["s"])
    e = x.get("e")
    if isinstance(e, str):
        out.add("e:" + e)
        if e == "fop":
            out.add("fop:" + x["kind"])
        if e == "bin":
            out.add("bin:" + x["op"])
            if x["op"] == "dot" and isinstance(x.get("r"), dict):
                if x["r"].get("e") == "call":
                    out.add("dotcall")
                if x["r"].get("e") == "copy":
                    out.add("dotcopy")
        if e == "fmt":
            out.add("fmt:" + x.get("form", ""))
    for v in x.values():
        if isinstance(v, (dict, list)):
            features(v, out)


EXPECTED = {"fop": ["fop:map", "fop:filter", "fop:reduce"], "call": ["e:call"], "select": ["e:select"], "range": ["e:range"],
            "cast": ["e:cast"], "func": ["e:func"], "module": ["e:module"], "copy": ["e:copy"], "list": ["e:list"],
            "tuple": ["e:tuple"], "conlet": ["s:clet"], "exprstmt": ["s:expr"], "fmt": ["fmt:list"], "fmt1": ["fmt:single"],
            "not": ["e:not"], "trace": ["e:trace"], "fail": ["e:fail"], "is": ["bin:is"], "inname": ["bin:in"],
            "dot": ["bin:dot"], "bin": ["e:bin"], "dotcall": ["dotcall"], "dotcopy": ["dotcopy"], "let": ["s:let"],
            "lit": ["e:lit"], "var": ["e:sym"]}
SOFT = {"e:sym", "e:lit", "s:let", "e:bin", "bin:dot", "e:call", "s:expr"}
_FAMS = None


def family_actions(fam_ref):
    """the set of generator actions a family enables: `<- FamX` looked up in spec/MC_Gen.tla"""
    global _FAMS
    if _FAMS is None:
        import re
        _FAMS = {}
        for m in re.finditer(r"^(Fam\w+) == \{([^}]*)\}", open(os.path.join(C.SPEC, "MC_Gen.tla")).read(), re.M):
            _FAMS[m.group(1)] = set(re.findall(r'"(\w+)"', m.group(2)))
    return _FAMS.get(fam_ref.replace("<-", "").strip(), set())


def trace_leg(tier, rep, stats, okprogs, gd_tag="c01t"):
    """impl -> spec: recorded executions of the real VM must be behaviours of VM.tla (VMTrace.tla)"""
    from . import render as R
    hp = C.ensure_harness()
    import copy
    import random
    texts = []
    pool = list(okprogs)
    random.Random(C.seed()).shuffle(pool)
    for p in pool[:300 if tier == "quick" else 3000]:
        try:
            texts.append(R.program(p))
        except R.Unrenderable:
            pass
    h = C.Harness(hp)
    try:
        recorded = P.record_traces(h, texts)
    finally:
        h.close()
    gd = C.gen_dir(gd_tag)
    # binding demonstration (DESIGN §7.1): one logged field altered / one event removed must be rejected
    demo = [x for x in recorded if sum(1 for r in x[1] if r["ev"] == "op") >= 4][:1]
    if demo:
        bad1 = copy.deepcopy(demo[0])
        ops = [r for r in bad1[1] if r["ev"] == "op"]
        ops[len(ops) // 2]["sl"] += 1
        bad2 = copy.deepcopy(demo[0])
        victim = [i for i, r in enumerate(bad2[1]) if r["ev"] == "op"][2]
        del bad2[1][victim]
        for name, bad in (("altered stack length", bad1), ("removed event", bad2)):
            _, rj, _ = P.validate_traces([bad], gd)
            if not rj:
                raise C.ToolError("VMTrace.tla accepted a corrupted trace (%s): the trace specification is vacuous" % name)
        stats["vm_trace_binding_demo"] = "corrupted traces rejected (altered sl; removed event)"
    n, rejections, states = P.validate_traces(recorded, gd)
    stats["vm_traces_recorded"] = len(recorded)
    stats["vm_traces_accepted"] = n
    stats["vm_trace_events"] = sum(len(r) for _, r in recorded)
    stats["vm_trace_states"] = states
    for r in rejections:
        rep.disagree({"leg": "vmtrace", "text": r["text"], "detail": r["reject"]}, key="vmtrace-rejected")


THOROUGH = [
    ("ops1", {"Fam": "<- FamOps", "LitPool": "<- LitsSmall", "Names": "<- Names2", "MaxN": "4", "MaxStmts": "1"}, None),
    ("ops2", {"Fam": "<- FamOps", "LitPool": "<- Lits3", "Names": "<- Names2", "BinOps": "<- OpsAll", "MaxN": "3",
              "MaxStmts": "2"}, None),
    ("arith", {"Fam": "<- FamOps", "LitPool": "<- LitsInt", "Names": "<- Names1", "BinOps": "<- OpsArith", "MaxN": "7",
               "MaxD": "4", "MaxStmts": "1"}, None),
    ("nums", {"Fam": "<- FamOps", "LitPool": "<- LitsNum", "Names": "<- Names1", "BinOps": "<- OpsNum",
              "MaxN": "5", "MaxStmts": "1"}, None),
    ("bools", {"Fam": "<- FamOps", "LitPool": "<- LitsBool", "Names": "<- Names1", "BinOps": "<- OpsBoolEq",
               "MaxN": "7", "MaxD": "4", "MaxStmts": "1", "Ill0": "1"}, None),
    ("data", {"Fam": "<- FamData", "LitPool": "<- Lits3", "Names": "<- Names1", "BinOps": "<- Ops2",
              "TyNames": "<- TyAll", "Prelude": "<- PreData", "MaxN": "4", "MaxStmts": "1"}, None),
    ("select", {"Fam": "<- FamSelect", "LitPool": "<- LitsSel", "Names": "<- Names1", "BinOps": "<- Ops2",
                "MaxN": "5", "MaxStk": "4", "MaxStmts": "1"}, None),
    ("call", {"Fam": "<- FamCallPre", "LitPool": "<- Lits3", "Names": "<- Names1", "BinOps": "<- OpsFew",
              "Prelude": "<- PreFunc", "MaxN": "5", "MaxStk": "3", "MaxStmts": "1"}, None),
    ("foppre", {"Fam": "<- FamFopPre", "LitPool": "<- Lits3", "Names": "<- Names1", "Prelude": "<- PreFop",
                "MaxN": "5", "MaxStk": "3", "MaxStmts": "1"}, None),
    ("conlet", {"Fam": "<- FamCon", "LitPool": "<- LitsCon", "Names": "<- Names3", "ConPool": "<- Cons1",
                "MaxN": "1", "MaxStk": "1", "MaxStmts": "3"}, None),
    ("misc", {"Fam": "<- FamMisc", "LitPool": "<- LitsFmt", "Names": "<- Names1", "BinOps": "<- Ops2",
              "TyNames": "<- TySome", "MaxN": "4", "MaxStk": "3", "MaxStmts": "1"}, None),
    ("cast", {"Fam": "<- FamCast", "LitPool": "<- LitsCast", "Names": "<- Names1", "BinOps": "<- Ops2",
              "MaxN": "4", "MaxStmts": "1"}, None),
    ("moddef", {"Fam": "<- FamModDef", "LitPool": "<- Lits2", "Names": "<- Names2", "BinOps": "<- Ops2",
                "FldNames": "<- Flds2", "MaxN": "6", "MaxStk": "2", "MaxCtx": "2", "MaxStmts": "2",
                "MaxModStmts": "1"}, None),
    ("dotuse", {"Fam": "<- FamDotUse", "LitPool": "<- Lits2", "Names": "<- Names1", "BinOps": "<- Ops2",
                "Prelude": "<- PreDot", "MaxN": "5", "MaxStk": "3", "MaxStmts": "1"}, None),
    ("sim", {"Fam": "<- FamSim", "LitPool": "<- LitsMix", "Names": "<- NamesTop", "BinOps": "<- OpsAll", "ConPool": "<- Cons1",
             "Prelude": "<- PreSim", "MaxN": "12", "MaxD": "6", "MaxStk": "4", "MaxCtx": "3", "MaxStmts": "12",
             "MaxModStmts": "2", "Ill0": "2"}, (60000, 160)),
]


# the thorough tier is a superset: every quick family it does not enlarge runs as it is
_enlarged = {f[0] for f in THOROUGH}
THOROUGH = ([f for f in THOROUGH if f[2] is None]
            + [f for f in QUICK if f[0] not in _enlarged and f[0] not in NOSTRICT and f[2] is None]
            + [f for f in THOROUGH if f[2] is not None])


def main(tier, replay=None):
    t0 = time.time()
    if replay:
        return do_replay(PID, replay, work, worker_for=NOSTRICT)
    fams = QUICK if tier == "quick" else THOROUGH
    if tier != "quick":
        fams = fams + [f for f in QUICK if f[0] in NOSTRICT]
    return run(PID, tier, fams, t0, worker_for=NOSTRICT,
               after=lambda rep, stats, okprogs: trace_leg(tier, rep, stats, okprogs))
