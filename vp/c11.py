"""C11 — tokens carry their exact text and location; layout does not matter.

spec/Lexer.tla is model-checked (the ordered alternation of tokenizer/mod.rs,
transcribed, against maximal munch with recomputed positions: PosTruth, Progress,
Monotone, LongestOp, Layout, AlgEqualsRef) and every input TLC explores is replayed into
ucglib::tokenizer::tokenize through the harness: the (typ, fragment, offset, line,
column) list must be the one RefLex predicts.  String bodies are additionally
evaluated (`let s = "<body>";`) and the value compared with Decode(body) byte for
byte; simulated programs are additionally parsed under the drawn layout and under
the plain one-space layout and must give the same AST modulo positions.

Python here only spells abstract characters (classes U2/U3/U4 refined to concrete
characters per case, seeded), ships requests, and compares with the prediction."""
import collections
import concurrent.futures as cf
import hashlib
import json
import os
import time
import zlib

from . import common as C

PID = "C11"
KEY_BYTECHARS = "string-literal-utf8-bytes-pushed-as-chars"

# ---- refinement of abstract characters --------------------------------------
SPECIAL = {"SP": " ", "TAB": "\t", "LF": "\n", "CR": "\r", "FF": "\x0c", "DQ": '"', "BS": "\\"}
# 2-byte pool contains characters whose continuation byte is 0x85 / 0xA0 (white space when a
# byte is misread as a char) and the two real 2-byte white-space characters U+0085, U+00A0
POOL = {
    "U2": ["\u00e9", "\u00df", "\u00e0", "\u00c5", "\u03a9", "\u0436", "\u0085", "\u00a0", "\u00a2", "\u07ff"],
    "U3": ["\u20ac", "\u4e2d", "\u2030", "\u0939", "\u2028", "\ufeff", "\u0800", "\uffee"],
    "U4": ["\U0001f600", "\U0001d11e", "\U00010348", "\U0010ffff", "\U00020000"],
}
for _k, _w in (("U2", 2), ("U3", 3), ("U4", 4)):
    assert all(len(c.encode("utf-8")) == _w for c in POOL[_k])


def mangle(c):
    """what a character becomes when each of its UTF-8 bytes is pushed as a char"""
    return c.encode("utf-8").decode("latin-1")


def refinement(raw, seed):
    h = (zlib.crc32(raw.encode()) ^ (seed * 2654435761)) & 0xffffffff
    m = dict(SPECIAL)
    for j, k in enumerate(("U2", "U3", "U4")):
        c = POOL[k][(h >> (8 * j)) % len(POOL[k])]
        m[k] = c
        m["X" + k[1]] = mangle(c)
    return m


def spell(chars, ref):
    return [ref.get(c, c) for c in chars]


# ---- one case ------------------------------------------------------------------

def abstract_text(case, tabs):
    if case["md"] == "bodies":
        return ["DQ"] + case["b"] + ["DQ"]
    out = []
    for sep, t in case["i"]:
        for a in sep:
            out.extend(tabs["atoms"][a - 1])
        out.extend(tabs["vocab"][t - 1])
    for a in case["po"]:
        out.extend(tabs["atoms"][a - 1])
    return out


def plain_layout(case, tabs):
    out = []
    for _, t in case["i"]:
        if out:
            out.append("SP")
        out.extend(tabs["vocab"][t - 1])
    return out


def expected_tokens(case, conc, ref, devdecs=None):
    """RefLex's prediction, spelled: [(ty, fragment, off, ln, (col, ccol))]"""
    exp = []
    q = 0
    for e in case["x"]:
        ty, idx, n, off, ln, col, ccol = e[:7]
        if ty == "QUOTED":
            dec = e[7] if devdecs is None else devdecs[q]
            q += 1
            fr = "".join(spell(dec, ref))
        else:
            fr = "".join(conc[idx - 1:idx - 1 + n])
        exp.append((ty, fr, off, ln, (col, ccol)))
    return exp


def same_tokens(exp, obs):
    if len(exp) != len(obs):
        return False
    for (ty, fr, off, ln, cols), o in zip(exp, obs):
        if o.get("ty") != ty or o.get("fr") != fr or o.get("off") != off or o.get("ln") != ln \
                or o.get("col") not in cols:
            return False
    return True


def position_check(src, toks):
    """Generic: every token really is where it says (runs on every tokenizer answer)."""
    b = src.encode("utf-8")
    last = -1
    for o in toks:
        off, fr, ty = o["off"], o["fr"], o["ty"]
        if off > len(b) or off <= last:
            return "offset %d out of order/range" % off
        last = off
        if ty == "QUOTED":
            if b[off:off + 1] != b'"':
                return "string token at %d does not start at a quote" % off
        elif ty != "END":
            fb = fr.encode("utf-8")
            if b[off:off + len(fb)] != fb:
                return "fragment %r is not the text at offset %d" % (fr, off)
        ln = 1 + b.count(b"\n", 0, off)
        bol = b.rfind(b"\n", 0, off) + 1
        colb = off - bol + 1
        colc = len(b[bol:off].decode("utf-8", "replace")) + 1
        if o["ln"] != ln or o["col"] not in (colb, colc):
            return "token at offset %d reports %d:%d, is at %d:%d" % (off, o["ln"], o["col"], ln, colb)
    return None


def nontrivial(case):
    if case["r"] != "ok":
        return True
    real = [e for e in case["x"] if e[0] != "END"]
    if len(real) >= 2:
        return True
    if len(real) == 1 and real[0][0] == "QUOTED":
        dec = real[0][7]
        return len(dec) + 2 != real[0][2] or any(c in POOL for c in dec)   # an escape / a non-ASCII class
    return False


def safe_batch(h, reqs, max_crashes=3):
    """h.batch, but a code under test that crashes on everything costs a few process
    starts per chunk, not one per request: after max_crashes the rest is left None."""
    out = [None] * len(reqs)
    i = crashes = 0
    while i < len(reqs) and crashes < max_crashes:
        r = h.req({"op": "batch", "reqs": reqs[i:]}, timeout=h.timeout + 0.02 * (len(reqs) - i))
        if "resps" not in r:
            # the process died / hung somewhere in the batch: find the culprit one by one
            while i < len(reqs) and crashes < max_crashes:
                out[i] = h.req(reqs[i])
                i += 1
                if "crash" in out[i - 1]:
                    crashes += 1
                    break
            continue
        for x in r["resps"]:
            if x.get("skipped"):
                break
            if "toolerr" in x:
                raise C.ToolError("harness: " + str(x["toolerr"]))
            out[i] = x
            i += 1
            if "crash" in x:
                crashes += 1
        if r.get("restart"):
            try:
                h.p.wait(timeout=5)
            except Exception:
                pass
            h._kill()
            h.restarts += 1
    return out


def work(h, payload):
    """Worker process: replay a chunk of raw REPLAY payloads."""
    tabs, raws, seed, alter = payload
    cases = []
    reqs = []
    for raw in raws:
        case = C.parse_replay_payload(raw)
        ref = refinement(raw, seed)
        conc = spell(abstract_text(case, tabs), ref)
        src = "".join(conc)
        slots = {"tok": len(reqs)}
        reqs.append({"op": "tokens", "src": src})
        if case["md"] == "prog" and case["lay"]:
            slots["parse"] = len(reqs)
            reqs.append({"op": "parse", "src": src})
            reqs.append({"op": "parse", "src": "".join(spell(plain_layout(case, tabs), ref))})
        if case["md"] == "bodies" and case["r"] == "ok" and len(case["x"]) == 2 \
                and case["x"][0][0] == "QUOTED" and case["x"][0][2] == len(conc):
            # the whole input is one string literal (not a literal followed by a comment)
            slots["eval"] = len(reqs)
            reqs.append({"op": "eval", "src": "let s = " + src + ";"})
        cases.append((case, ref, conc, src, slots))
    resps = safe_batch(h, reqs)
    st = collections.Counter()
    bad, known, samples, hashes = [], [], [], []
    altered = not alter
    for n, (case, ref, conc, src, slots) in enumerate(cases):
        st["cases"] += 1
        st["md:" + case["md"]] += 1
        r = resps[slots["tok"]]
        if r is None:
            st["not_run_after_crashes"] += 1
            continue
        st["requests"] += 1
        desc = {"kind": "tokens", "mode": case["md"], "src": src, "abstract": case}
        exp = expected_tokens(case, conc, ref)
        if not altered and case["r"] == "ok" and not case["mk"]:   # binding demonstration (VERIF_C11_ALTER)
            ty, fr, off, ln, cols = exp[-1]
            exp[-1] = (ty, fr, off + 1, ln, cols)
            altered = True
        desc["expect"] = {"r": case["r"], "toks": [list(e[:4]) + [list(e[4])] for e in exp]}
        if nontrivial(case):
            hashes.append(int.from_bytes(hashlib.blake2b(src.encode("utf-8"), digest_size=8).digest(), "big"))
        if "crash" in r:
            desc["obs"] = r
            bad.append(("tokenizer-crash", desc))
            continue
        if r.get("ok"):
            why = position_check(src, r["toks"])
            st["position_checked_tokens"] += len(r["toks"])
            if why:
                desc["obs"] = r["toks"]
                desc["why"] = why
                bad.append((None, desc))
                continue
        if case.get("lay"):
            st["layout_applies"] += 1
        if case["mk"]:
            st["masked"] += 1        # don't-care: true/false/NULL glued to symbol characters
            continue
        if case["r"] != "ok":
            st["predicted_reject"] += 1
            if r.get("ok"):
                desc["obs"] = r["toks"]
                desc["why"] = "the reference rejects this input, the tokenizer accepts it"
                bad.append((None, desc))
            continue
        if not r.get("ok"):
            desc["obs"] = r.get("err")
            desc["why"] = "the tokenizer rejects an input the reference lexes"
            bad.append((None, desc))
            continue
        st["tokens_compared"] += len(exp)
        if not same_tokens(exp, r["toks"]):
            desc["obs"] = r["toks"]
            if "xd" in case and same_tokens(expected_tokens(case, conc, ref, case["xd"]), r["toks"]):
                known.append((KEY_BYTECHARS, desc))
            else:
                bad.append((None, desc))
            continue
        st["agree"] += 1
        if len(samples) < 2 and nontrivial(case) and (n % 97 == 0 or case["md"] != "toks"):
            samples.append({"mode": case["md"], "src": src, "predicted": desc["expect"]["toks"]})
        if "parse" in slots:
            a, b = resps[slots["parse"]], resps[slots["parse"] + 1]
            if a is None or b is None:
                st["not_run_after_crashes"] += 1
                continue
            st["requests"] += 2
            pd = {"kind": "parse", "mode": "prog", "src": src, "plain": reqs[slots["parse"] + 1]["src"]}
            if "crash" in a or "crash" in b:
                pd["obs"] = [a, b]
                bad.append(("parser-crash", pd))
            elif bool(a.get("ok")) != bool(b.get("ok")) or (a.get("ok") and a["stmts"] != b["stmts"]):
                pd["obs"] = [a.get("stmts", a.get("err")), b.get("stmts", b.get("err"))]
                pd["why"] = "the layout changes what is parsed"
                bad.append((None, pd))
            elif a.get("ok"):
                st["parsed_same_ast"] += 1
                st["parsed_stmts"] += len(a["stmts"])
            else:
                st["parse_rejected_both"] += 1
        if "eval" in slots:
            v = resps[slots["eval"]]
            if v is None:
                st["not_run_after_crashes"] += 1
                continue
            st["requests"] += 1
            if "crash" in v:
                bad.append(("evaluation-crash", {"kind": "eval", "mode": "bodies", "src": reqs[slots["eval"]]["src"],
                                                 "expect": exp[0][1], "obs": v, "abstract": case}))
                continue
            want = exp[0][1]
            got = None
            try:
                if v["out"]["k"] == "ok":
                    got = v["out"]["val"]["fs"][0]["val"]["s"]
            except Exception:
                got = None
            if got == want:
                st["evaluated_same_value"] += 1
            else:
                ed = {"kind": "eval", "mode": "bodies", "src": reqs[slots["eval"]]["src"], "expect": want,
                      "obs": got if got is not None else v, "abstract": case}
                if "xd" in case and got == "".join(spell(case["xd"][0], ref)):
                    known.append((KEY_BYTECHARS, ed))
                else:
                    bad.append((None, ed))
    return {"st": dict(st), "bad": bad[:20], "nbad": len(bad), "known": known[:3], "nknown": len(known),
            "samples": samples, "hashes": hashes}


# ---- streaming TLC output into the worker pool --------------------------------

class Stream:
    def __init__(self, hp, seed, nproc, chunk):
        self.ex = cf.ProcessPoolExecutor(max_workers=nproc, initializer=C._proc_init, initargs=(hp, 20.0))
        self.nproc, self.chunk, self.seed = nproc, chunk, seed
        self.pending = collections.deque()
        self.buf = []
        self.tabs = None
        self.st = collections.Counter()
        self.bad, self.known, self.samples = [], [], []
        self.nknown = 0
        self.hashes = set()
        self.alter = bool(os.environ.get("VERIF_C11_ALTER"))

    def on_raw(self, raw):
        if self.tabs is None:
            self.tabs = C.parse_replay_payload(raw)
            if "vocab" not in self.tabs:
                raise C.ToolError("Lexer.tla did not print its tables first")
            return
        if raw.startswith('{\\"vocab'):
            return
        self.buf.append(raw)
        if len(self.buf) >= self.chunk:
            self.flush()

    def flush(self):
        if self.buf:
            self.pending.append(self.ex.submit(C._proc_call, (work, (self.tabs, self.buf, self.seed, self.alter))))
            self.alter = False
            self.buf = []
        while len(self.pending) > 3 * self.nproc:
            self.collect(self.pending.popleft())

    def collect(self, fut):
        status, res = fut.result()
        if status != "ok":
            raise C.ToolError(res)
        self.st.update(res["st"])
        self.st["nbad"] += res["nbad"]
        self.bad.extend(res["bad"][:max(0, 20 - len(self.bad))])
        self.nknown += res["nknown"]
        self.known.extend(res["known"][:max(0, 5 - len(self.known))])
        for smp in res["samples"]:      # a few per generator mode, for the evidence
            if sum(1 for x in self.samples if x["mode"] == smp["mode"]) < 3:
                self.samples.append(smp)
        self.hashes.update(res["hashes"])

    def end_run(self):
        self.flush()
        while self.pending:
            self.collect(self.pending.popleft())
        self.tabs = None

    def close(self):
        self.ex.shutdown()


# ---- replay of one stored case -------------------------------------------------

def replay_case(h, case):
    """Re-run one stored case; True iff the code agrees with the stored prediction."""
    if case["kind"] == "tokens":
        r = h.req({"op": "tokens", "src": case["src"]})
        exp = [(t[0], t[1], t[2], t[3], tuple(t[4])) for t in case["expect"]["toks"]]
        if "crash" in r:
            return False
        if case.get("abstract", {}).get("mk"):
            return not (r.get("ok") and position_check(case["src"], r["toks"]))
        if case["expect"]["r"] != "ok":
            return not r.get("ok")
        return bool(r.get("ok")) and same_tokens(exp, r["toks"]) and not position_check(case["src"], r["toks"])
    if case["kind"] == "parse":
        a = h.req({"op": "parse", "src": case["src"]})
        b = h.req({"op": "parse", "src": case["plain"]})
        return "crash" not in a and "crash" not in b and bool(a.get("ok")) == bool(b.get("ok")) \
            and a.get("stmts") == b.get("stmts")
    if case["kind"] == "eval":
        v = h.req({"op": "eval", "src": case["src"]})
        try:
            return v["out"]["val"]["fs"][0]["val"]["s"] == case["expect"]
        except Exception:
            return False
    raise C.ToolError("unknown kind of case %r" % case.get("kind"))


def do_replay(hp, path):
    case = json.load(open(path))["case"]
    h = C.Harness(hp, timeout=60.0)
    try:
        ok = replay_case(h, case)
    finally:
        h.close()
    print("replay %s: %s" % (path, "agrees with the specification" if ok else "DISAGREES"))
    if not ok:
        print("VIOLATION property=%s replay=%s" % (PID, path))
    return 0 if ok else 1


# ---- main ----------------------------------------------------------------------

ASSUMPTIONS = [
    "token set = the documented one (31 punctuation/operator tokens, words, digit runs, quoted strings, "
    "// comments); an input with a character outside it, or an unterminated string, is predicted to be rejected",
    "don't-care: `true`/`false`/`NULL` directly followed by symbol characters (the statement does not say which "
    "way they split) - such inputs only get the generic position check",
    "don't-care: juxtaposed tokens that maximal munch merges (let+x, = + =, / + /) are predicted as merged; "
    "layout invariance is only claimed for non-empty separators, for juxtaposition where the longest token at "
    "the start of `ab` is `a`, and not for a comment glued to `/` (that is a comment from the first slash)",
    "don't-care: on a line with multi-byte characters before the token the byte-based and the character-based "
    "column are both accepted (offset and line are exact)",
    "keyword recognisers that require and swallow following white space/comment are not observable in the "
    "token stream (the bareword recogniser yields the same token) and are not distinguished",
    "character classes U2/U3/U4 are refined to one concrete character each per case (seeded); the reference "
    "only uses class membership and byte width",
]


def main(tier, replay=None):
    t0 = time.time()
    hp = C.ensure_harness()
    if replay:
        return do_replay(hp, replay)
    rep = C.Reporter(PID)
    sd = C.seed()
    quick = tier == "quick"
    # (config, simulate num per TLC worker, depth, what)
    runs = [
        ("Lexer_pairs", None, None, "exhaustive: all single tokens and pairs of the 71-token vocabulary x "
                                    "{none, SP, LF, CRLF, TAB, comment} x {-, trailing comment}; tokenizer machine stepwise"),
        ("Lexer_bodies4", None, None, "exhaustive: all string bodies of length <= 4 over a 12-character alphabet "
                                      "(a n r t \\ \" @ SP LF, 2/3/4-byte UTF-8)"),
        ("Lexer_simtok", 40 if quick else 500, 400, "simulation: random token sequences <= 40 with random layout "
                                                     "(SP TAB FF LF CRLF, comments ended by LF/CRLF/end of input)"),
        ("Lexer_simprog", 40 if quick else 500, 400, "simulation: random programs (38 statement forms) <= ~40 tokens "
                                                      "with random layout"),
        ("Lexer_simstr", 300 if quick else 20000, 60, "simulation: random string bodies <= 16 over 21 weighted characters"),
    ]
    if not quick:
        runs.insert(1, ("Lexer_triples", None, None, "exhaustive: all triples of the 71-token vocabulary x "
                                                     "{none, SP, LF, comment}^2"))
        runs.insert(3, ("Lexer_bodies5", None, None, "exhaustive: all string bodies of length <= 5"))
    tw = 6
    S = Stream(hp, sd, nproc=max(2, min(10, C.NCPU - tw)), chunk=400)
    states = trans = 0
    cmds, per_run = [], []
    complete = True
    try:
        for cfg, num, depth, what in runs:
            before = S.st["cases"] + len(S.buf)
            r = C.run_tlc("Lexer", cfg, workers=tw, simulate=num, depth=depth, timeout=3 * 3600,
                          heap="8g", on_raw=S.on_raw)
            S.end_run()
            cmds.append(r.cmd)
            if r.violation:
                # DESIGN 3.7(4): a model-internal disagreement is not a verdict about ucg
                raise C.ToolError("Lexer.tla: %s violated in %s - the transcribed tokenizer and the reference "
                                  "disagree inside the model.\n%s" % (r.violation, cfg, r.errtext[:3000]))
            C.require_tlc_ok(r, cfg)
            n = S.st["cases"] - before
            states += r.distinct or r.generated
            trans += r.generated
            per_run.append({"config": cfg, "what": what, "states": r.distinct or r.generated,
                            "inputs_replayed": n, "tlc_wall_s": round(r.wall, 1)})
            C.log("[c11] %s: %d states, %d inputs replayed, TLC %.0fs" % (cfg, r.distinct or r.generated, n, r.wall))
            if n == 0:
                raise C.ToolError("vacuous: %s emitted no input" % cfg)
    finally:
        S.close()
    st = S.st
    # vacuity of the driver's own legs
    for k in ("masked", "predicted_reject", "layout_applies", "parsed_same_ast", "evaluated_same_value",
              "tokens_compared", "position_checked_tokens"):
        if st[k] == 0 and not (st["nbad"] or S.nknown):
            raise C.ToolError("vacuous: no case exercised %r" % k)

    # binding demonstration: one agreed prediction, altered, must be noticed by the comparator
    demo = None
    if S.samples:
        smp = S.samples[0]
        h = C.Harness(hp)
        r = h.req({"op": "tokens", "src": smp["src"]})
        h.close()
        exp = [(t[0], t[1], t[2], t[3], tuple(t[4])) for t in smp["predicted"]]
        alt = list(exp)
        ty, fr, off, ln, cols = alt[-1]
        alt[-1] = (ty, fr, off, ln + 1, cols)
        demo = {"src": smp["src"], "altered": "line of the last token + 1",
                "unaltered_agrees": bool(r.get("ok")) and same_tokens(exp, r["toks"]),
                "altered_rejected": not same_tokens(alt, r.get("toks", []))}
        if not (demo["unaltered_agrees"] and demo["altered_rejected"]) and not st["nbad"]:
            raise C.ToolError("binding demonstration failed: %r" % demo)

    # DESIGN 3.7(3): a disagreement counts once it reproduces on a second, unhurried run
    if S.bad:
        h = C.Harness(hp, timeout=60.0)
        try:
            for key, case in S.bad:
                if replay_case(h, case):
                    raise C.ToolError("a disagreement did not reproduce (environmental?): %s"
                                      % json.dumps(case, ensure_ascii=False)[:1500])
        finally:
            h.close()
    for key, case in S.bad:
        rep.disagree(case, key=key)
    for key, case in S.known:
        rep.disagree(case, key=key)
    for _ in range(max(0, S.nknown - len(S.known))):
        rep.disagree(None, key=KEY_BYTECHARS)
    extra_bad = st["nbad"] - len(S.bad)
    code = rep.finish()
    if extra_bad > 0:
        C.log("(%d further disagreements not listed)" % extra_bad)
    samples = S.samples
    C.write_evidence(PID, tier, "model_checking", {
        "states": states, "transitions": trans,
        "traces_validated_against_impl": st["cases"],
        "evaluations": st["requests"],
        "distinct_nontrivial": len(S.hashes),
        "rule": "every input TLC explores (REPLAY line = abstract input + the token list RefLex predicts) is spelled "
                "and tokenized by ucglib::tokenizer::tokenize; programs are also parsed under two layouts, single "
                "string literals also evaluated; non-trivial = distinct spelled input that is predicted to be "
                "rejected, or has >= 2 tokens, or is one string literal with an escape or a non-ASCII character",
        "samples": samples,
        "exhaustive": True,
        "exhaustive_note": "the pairs/triples/bodies configurations are complete enumerations of their bound; the "
                           "three simulation configurations sample",
        "checker_cmd": " ; ".join(cmds),
        "configs": per_run,
        "counts": {k: st[k] for k in sorted(st) if k not in ("cases", "requests")},
        "known_finding_cases": S.nknown,
        "binding_demo": demo,
        "invariants": ["PosTruth", "Progress", "Monotone", "LongestOp", "Layout", "AlgEqualsRef"],
        "trusted_base": ["TLC 2.x (tla2tools 1.8.0)", "vp/c11.py spelling of abstract characters and comparison",
                         "harness token/AST/value projection (harness/src/proj.rs)"],
    }, time.time() - t0, violations=len(rep.violations), assumptions=ASSUMPTIONS)
    return code
