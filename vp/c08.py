"""C08 — shell-facing output delivers every value as one unaltered word.

spec/Shell.tla holds (1) the word parser of a POSIX shell as a state machine over
characters, (2) the two escaping helpers and the env / flags / exec converters
transcribed clause by clause, (3) the words the property says must arrive and
(4) a generator machine for the quantifier domain.  TLC checks OneWord and
EveryScalarOnceInOrder exhaustively and prints one REPLAY case per string / tuple
with the predicted words.

This driver binds that to the code:
  * the REAL converters are run through the harness (`convert`) on every case;
  * (a) the produced text is evaluated by /bin/sh (dash) and bash — env output
    sourced and the variables dumped, flags through `set -- <text>`, exec scripts
    sourced with `exec` aliased to an argv-dumping function — and the observed
    words must be the predicted ones;
  * (b) the same text is read by the shell machine (spec/ShellTrace.tla), which
    must reach the predicted words with expansions = 0;
  * (c) where the shell machine claims a definite reading of a text and a real
    shell reads it differently, the *model* is wrong: tool error, not a verdict.
    The machine is additionally validated against both shells on raw strings.
Python only renders, batches, projects observations and compares."""
import json
import os
import random
import re
import shutil
import subprocess
import time

from . import common as C

PID = "C08"
ALPHABET = ["'", '"', "\\", "$", "`", " ", "\n", "*", "a"]
VARPOOL = ["V", "A", "Bb", "C", "Dd", "E", "Ff", "G", "Hh", "I"]   # every variable name a case assigns
CONVS = ("env", "flags", "exec")
STRICT_LINE = "set -euo pipefail\n"
DASH_STRICT_LINE = "set -eu\n"          # dash has no `pipefail`; the script declares bash


def _fast_unescape(s):
    # TLC's string escapes (\" \\ \n \t \r \f) are JSON's
    try:
        return json.loads('"' + s + '"')
    except ValueError:
        return _SLOW_UNESCAPE(s)


_SLOW_UNESCAPE = C._unescape_tla
C._unescape_tla = _fast_unescape     # this process only: 10^5 REPLAY lines of ~1 kB


# ---- characters <-> atoms of the specification ------------------------------

def atom(ch):
    o = ord(ch)
    if 0x20 <= o <= 0x7E or ch in "\n\t":
        return ch
    return "U+%04X" % o


def unatom(a):
    return a if len(a) == 1 else chr(int(a[2:], 16))


def atoms(s):
    return [atom(c) for c in s]


def unatoms(a):
    if isinstance(a, str):
        return a
    if isinstance(a, dict):      # ToJson of an empty sequence
        return ""
    return "".join(unatom(x) for x in a)


def _seq(x):
    return [] if isinstance(x, dict) and not x else x


def norm_cmds(cs):
    return [[unatoms(w) for w in _seq(c)] for c in _seq(cs)]


def norm_val(v):
    t = v["t"]
    if t == "str":
        return {"t": "str", "s": unatoms(v["s"])}
    if t == "list":
        return {"t": "list", "es": [norm_val(e) for e in _seq(v["es"])]}
    if t == "tuple":
        return {"t": "tuple", "fs": [{"nm": unatoms(f["nm"]), "val": norm_val(f["val"])} for f in _seq(v["fs"])]}
    return v


# ---- the seeded family: random Unicode strings <= 40 characters -------------

_UNI = [(0xA0, 0xFF), (0x100, 0x17F), (0x370, 0x3FF), (0x400, 0x4FF), (0x590, 0x5FF), (0x600, 0x6FF),
        (0x300, 0x36F), (0x2000, 0x206F), (0x3000, 0x303F), (0x4E00, 0x9FFF), (0xAC00, 0xD7A3),
        (0xFE00, 0xFE0F), (0xFF00, 0xFFEF), (0x1F300, 0x1F64F), (0x1F900, 0x1F9FF), (0x20000, 0x2A6DF),
        (0xE000, 0xE0FF), (0x1, 0x1F), (0x7F, 0x9F), (0xFFF0, 0xFFFD), (0x10FFF0, 0x10FFFF)]
_ASCII_SPECIAL = list("'\"\\$` \n*") + list(";|&<>()#~{}!?[]=:%^,+-.@_") + ["\t", "\r"]
_PLAIN = list("a0123456789")


def random_unicode_strings(rng, n):
    """Characters outside the shell's special sets are the class whose representative
    in the exhaustive alphabet is `a`; here they are arbitrary Unicode scalar values
    (no NUL, no surrogates).  ASCII letters other than `a` and the slash are left out on
    purpose: a string that escapes its quotes (a defect the check exists to find) must not
    be able to spell a command or a path outside the scratch directory."""
    out = []
    for _ in range(n):
        ln = rng.randint(1, 40)
        cs = []
        for _ in range(ln):
            r = rng.random()
            if r < 0.35:
                cs.append(rng.choice(_ASCII_SPECIAL))
            elif r < 0.45:
                cs.append(rng.choice(_PLAIN))
            else:
                lo, hi = rng.choice(_UNI)
                cs.append(chr(rng.randint(lo, hi)))
        out.append("".join(cs))
    return out


# ---- real converters ---------------------------------------------------------

def work_convert(h, chunk):
    import base64
    resps = h.batch([{"op": "convert", "fmt": conv, "val": val} for conv, val in chunk])
    out = []
    for r in resps:
        if "crash" in r:
            out.append(("crash", r.get("msg", "")))
        elif r.get("ok"):
            out.append(("ok", base64.b64decode(r["bytes_b64"]).decode("utf-8", "surrogateescape")))
        else:
            out.append(("err", r.get("err", "")))
    return out


# ---- real shells -------------------------------------------------------------

def _header():
    dump = " ".join('"${%s+s}" "${%s-}"' % (v, v) for v in VARPOOL)
    return ("[ -n \"${BASH_VERSION-}\" ] && shopt -s expand_aliases\n"
            "__vars() { printf 'V\\0'; printf '%s\\0' " + dump + "; }\n"
            "__args() { printf 'W\\0%s\\0' \"$#\"; [ \"$#\" -eq 0 ] || printf '%s\\0' \"$@\"; }\n"
            "__execdump() { __args \"$@\"; __vars; }\n"
            "alias exec=__execdump\n")


def shell_script(entries, shell, isolated=False):
    """entries: [(id, conv, text)].  Every text is sourced in its own subshell from a
    here-document with a quoted delimiter (taken literally by the shell).  isolated:
    every subshell writes through its own pipe into /bin/cat, so that the next text is
    only evaluated when nothing the previous one started can write any more."""
    parts = [_header()]
    for n, (iid, conv, text) in enumerate(entries):
        if conv == "exec" and shell == "dash":
            text = text.replace(STRICT_LINE, DASH_STRICT_LINE, 1)
        if conv in ("flags", "raw"):
            text = "set -- " + text
        # no line of the text may start with the first letter of the delimiter (dash 0.5.12
        # loses a byte >= 0x80 that follows a partial match of the delimiter at a line start)
        starts = {ln[:1] for ln in text.split("\n")}
        first = next((ch for ch in "QZXJKWYqzxjkwy0123456789" if ch not in starts), None)
        if first is None:
            raise C.ToolError("no here-document delimiter available for %r" % text[:80])
        delim = "%sC08_EOF_%d" % (first, n)
        tail = {"env": "__vars", "flags": "__args \"$@\"", "raw": "__args \"$@\"", "exec": ":"}[conv]
        sub = "( . /dev/stdin <<'%s'\n%s\n%s\n%s )" % (delim, text, delim, tail)
        if isolated:
            parts.append("printf '\\0B\\0%%s\\0' %d\n( %s\nprintf '\\0E\\0%%s\\0' \"$?\" ) | /bin/cat\n" % (iid, sub))
        else:
            parts.append("printf '\\0B\\0%%s\\0' %d\n%s\nprintf '\\0E\\0%%s\\0' \"$?\"\n" % (iid, sub))
    return "".join(parts)


def parse_shell_output(out):
    """-> ({id: observation}, anomaly).  Framing: NUL B NUL id NUL [W NUL n NUL arg NUL ...]
    [V NUL (flag NUL value NUL)*] NUL E NUL status NUL.  Anything else is junk and is
    attributed to the record it appears in (or after)."""
    toks = out.split(b"\0")
    res = {}
    i = 0
    n = len(toks) - 1          # the last token is what follows the final NUL
    nv = 2 * len(VARPOOL)
    dec = lambda b: b.decode("utf-8", "surrogateescape")
    last = None
    anomaly = False
    while i < n:
        if toks[i] != b"B" or i + 1 >= n or not toks[i + 1].isdigit():
            if toks[i] != b"":
                anomaly = True
                if last is not None:
                    last["junk"] = True
            i += 1
            continue
        iid = int(toks[i + 1])
        i += 2
        rec = {"st": None}
        while i < n:
            t = toks[i]
            if t == b"W" and "args" not in rec and i + 1 < n and toks[i + 1].isdigit():
                k = int(toks[i + 1])
                rec["args"] = [dec(x) for x in toks[i + 2:i + 2 + k]]
                i += 2 + k
            elif t == b"V" and "vars" not in rec:
                vals = toks[i + 1:i + 1 + nv]
                rec["vars"] = {VARPOOL[j]: dec(vals[2 * j + 1]) for j in range(len(VARPOOL))
                               if 2 * j + 1 < len(vals) and vals[2 * j] == b"s"}
                i += 1 + nv
            elif t == b"E" and i + 1 < n and toks[i + 1].isdigit():
                rec["st"] = int(toks[i + 1])
                i += 2
                break
            elif t == b"":
                i += 1
            else:
                rec["junk"] = True
                anomaly = True
                i += 1
        if rec["st"] is None:
            anomaly = True
        if iid in res:
            anomaly = True
            rec["junk"] = True
        res[iid] = rec
        last = rec
    return res, anomaly


def _run_shell(scr, shell, entries, isolated):
    path = os.path.join(scr, "run-%d-%d-%s.sh" % (os.getpid(), entries[0][0], shell))
    with open(path, "w", encoding="utf-8", errors="surrogateescape") as f:
        f.write(shell_script(entries, shell, isolated))
    exe = "/bin/sh" if shell == "dash" else shutil.which("bash", path="/usr/bin:/bin:/usr/local/bin")
    env = {"PATH": os.path.join(scr, "bin"), "HOME": os.path.join(scr, "cwd"), "a": "EXPANDED",
           "LC_ALL": "C.UTF-8"}
    try:
        p = subprocess.run([exe, path], cwd=os.path.join(scr, "cwd"), env=env, stdin=subprocess.DEVNULL,
                           stdout=subprocess.PIPE, stderr=subprocess.DEVNULL, timeout=900)
    except subprocess.TimeoutExpired:
        raise C.ToolError("%s did not finish a batch of %d texts" % (shell, len(entries)))
    finally:
        os.unlink(path)
    return parse_shell_output(p.stdout)


def work_shell(_h, chunk):
    """chunk: [(scratch, shell, id, conv, text)] -> [(id, shell, observation)]"""
    out = []
    by = {}
    for scr, shell, iid, conv, text in chunk:
        by.setdefault((scr, shell), []).append((iid, conv, text))
    for (scr, shell), entries in by.items():
        obs, anomaly = _run_shell(scr, shell, entries, False)
        if anomaly or len(obs) != len(entries):
            # something a text started wrote outside its own record: evaluate one at a time
            obs, _ = _run_shell(scr, shell, entries, True)
        for iid, _, _ in entries:
            out.append((iid, shell, obs.get(iid, {"st": None, "lost": True})))
    return out


def make_scratch():
    scr = C.scratch_dir("c08")
    os.makedirs(os.path.join(scr, "bin"))
    cwd = os.path.join(scr, "cwd")
    os.makedirs(cwd)
    for name in ("zz1", "ab", "a b", "aa"):      # so that an unquoted glob is visible
        open(os.path.join(cwd, name), "w").close()
    return scr


# ---- projections: what a shell observation can show of a command list -------

_NAME = re.compile(r"^([A-Za-z_][A-Za-z0-9_]*)=(.*)$", re.S)


def _assign(cmd):
    if len(cmd) != 1:
        return None
    m = _NAME.match(cmd[0])
    if not m or m.group(1) not in VARPOOL:
        return None
    return m.group(1), m.group(2)


def view(conv, cmds):
    """The observable part of a command list under the evaluation scheme of `conv`,
    or None when the scheme cannot show it (then no claim is compared)."""
    if conv == "env":
        d = {}
        for c in cmds:
            a = _assign(c)
            if a is None:
                return None
            d[a[0]] = a[1]
        return {"vars": d}
    if conv == "flags":
        if len(cmds) > 1:
            return None
        return {"args": list(cmds[0]) if cmds else []}
    if conv == "raw":
        if len(cmds) != 1 or cmds[0][:2] != ["set", "--"]:
            return None
        return {"args": list(cmds[0][2:])}
    if conv == "exec":
        if len(cmds) < 2 or cmds[0] != ["set", "-euo", "pipefail"] or not cmds[-1] or cmds[-1][0] != "exec":
            return None
        d = {}
        for c in cmds[1:-1]:
            a = _assign(c)
            if a is None:
                return None
            d[a[0]] = a[1]
        return {"args": list(cmds[-1][1:]), "vars": d}
    return None


def obs_view(conv, o):
    if o.get("junk") or o.get("lost"):
        return {"bad": "output framing lost"}
    if conv == "env":
        return {"vars": o["vars"]} if "vars" in o and o.get("st") == 0 else {"bad": "status %r" % o.get("st")}
    if conv in ("flags", "raw"):
        return {"args": o["args"]} if "args" in o and o.get("st") == 0 else {"bad": "status %r" % o.get("st")}
    if "args" in o and "vars" in o and o.get("st") == 0:
        return {"args": o["args"], "vars": o["vars"]}
    return {"bad": "status %r" % o.get("st")}


# ---- TLC runs ----------------------------------------------------------------

def run_generator(tier, extras, gd, workers):
    path = os.path.join(gd, "extra.ndjson")
    with open(path, "w") as f:
        for s in extras:
            f.write(json.dumps({"s": atoms(s)}) + "\n")
    with open(os.path.join(gd, "MC_Shell.tla"), "w") as f:
        f.write("---- MODULE MC_Shell ----\nEXTENDS Shell, IOUtils\n"
                "ExtraStrings == LET r == ndJsonDeserialize(IOEnv.C08_EXTRA) IN [i \\in 1..Len(r) |-> r[i].s]\n"
                "====\n")
    with open(os.path.join(gd, "gen.cfg"), "w") as f:
        f.write("CONSTANTS Deviations = {} MaxLen = 5 MaxFields = 5 Extra <- ExtraStrings NTexts = 0 TextOf <- NoTextOf MachineLen = 0 MachineRaw = 0\n"
                "INIT GenInit\nNEXT GenNext\nCHECK_DEADLOCK FALSE\n"
                "INVARIANTS HelpersOneWord OneWord EveryScalarOnceInOrder Emit\n")
    return C.run_tlc("MC_Shell", "gen", workers=workers, gendir=gd, timeout=3000, heap="6g",
                     env_extra={"C08_EXTRA": path}, coverage=(tier == "thorough"), keep_lines=True)


def run_machine_mc(workers):
    return C.run_tlc("Shell", "Shell_machine", workers=workers, timeout=1200, coverage=True, keep_lines=True)


MACHINE_ACTIONS = ["PlainOpenSingle", "PlainOpenDouble", "PlainBackslash", "PlainBlank", "PlainNewline",
                   "PlainExpand", "PlainGlob", "PlainOperator", "PlainComment", "PlainTilde", "PlainBrace",
                   "PlainAssignSep", "PlainChar", "SingleClose", "SingleChar", "DoubleClose", "DoubleBackslash",
                   "DoubleExpand", "DoubleChar", "DqEscSpecial", "DqEscNewline", "DqEscOther", "EscNewline",
                   "EscChar", "CommentEnd", "CommentChar", "EndOfInput"]
# what correct converter output must exercise when the real texts are read by the machine
TRACE_ACTIONS = ["PlainOpenSingle", "PlainOpenDouble", "PlainBackslash", "PlainBlank", "PlainNewline",
                 "PlainComment", "PlainAssignSep", "PlainChar", "SingleClose", "SingleChar", "DoubleClose",
                 "DoubleBackslash", "DoubleChar", "DqEscSpecial", "EscChar", "CommentEnd", "CommentChar",
                 "EndOfInput"]


def action_counts(res):
    cov = {}
    for line in res.lines:
        m = re.match(r"^<(\w+) line \d+, col \d+ to line \d+, col \d+ of module \w+>: (\d+):(\d+)", line)
        if m:
            cov[m.group(1)] = max(cov.get(m.group(1), 0), int(m.group(3)))
    return cov


def require_actions(cov, names, what):
    missing = [a for a in names if cov.get(a, 0) == 0]
    if missing:
        raise C.ToolError("vacuous: %s never took %s" % (what, ", ".join(missing)))


def run_trace(items, gd, workers, coverage, chunk=60000):
    """items: [(id, text, want_cmds)] -> ({id: {same, exp, complete, cmds}}, summed TLC result).
    One TLC run per `chunk` texts (one initial state per text)."""
    out = {}
    total = C.TlcResult()
    total.cmd = ""
    total.cov = {}
    for k in range(0, len(items), chunk):
        part = items[k:k + chunk]
        path = os.path.join(gd, "trace.ndjson")
        with open(path, "w") as f:
            for iid, text, want in part:
                f.write(json.dumps({"i": iid, "text": atoms(text),
                                    "want": [[atoms(w) for w in c] for c in want]}) + "\n")
        got = {}

        def on(o):
            got[o["i"]] = o
        r = C.run_tlc("ShellTrace", "ShellTrace", workers=workers, timeout=3000, heap="8g",
                      env_extra={"C08_TRACE": path}, on_replay=on, coverage=coverage, keep_lines=True)
        C.require_tlc_ok(r, "ShellTrace over %d recorded texts" % len(part))
        if len(got) != len(part):
            raise C.ToolError("ShellTrace reported %d of %d texts" % (len(got), len(part)))
        os.unlink(path)
        out.update(got)
        total.distinct += r.distinct
        total.generated += r.generated
        for a, n in action_counts(r).items():
            total.cov[a] = total.cov.get(a, 0) + n
        total.cmd = total.cmd or (r.cmd + "  (C08_TRACE=<recorded texts>, %d run(s))" % ((len(items) + chunk - 1) // chunk))
    return out, total


# ---- the check -----------------------------------------------------------------

def select_cases(cases, tier, rng):
    """quick: every string of length <= 4, a seeded sample of length 5, every seeded
    Unicode string, every tuple of <= 4 fields and a seeded sample of 5-field tuples.
    thorough: everything TLC emitted."""
    if tier == "thorough":
        return cases, "all emitted cases"
    n5 = int(os.environ.get("C08_QUICK_LEN5", "4000"))
    t5 = int(os.environ.get("C08_QUICK_TUP5", "1500"))
    keep, l5, tup5 = [], [], []
    for c in cases:
        if c["fam"] == "str":
            (l5 if (c["x"] == 0 and len(c["s"]) == 5) else keep).append(c)
        else:
            (tup5 if len(c["kinds"]) == 5 else keep).append(c)
    l5.sort(key=lambda c: c["s"])
    tup5.sort(key=lambda c: c["kinds"])
    keep += rng.sample(l5, min(n5, len(l5)))
    keep += rng.sample(tup5, min(t5, len(tup5)))
    return keep, ("all strings of length <= 4 (7381), %d of the 59049 strings of length 5 (seeded), every seeded "
                  "Unicode string, all tuples of <= 4 fields (2801), %d of the 16807 tuples of 5 fields (seeded)"
                  % (min(n5, len(l5)), min(t5, len(tup5))))


def evaluate(hp, scr, gd, cases, workers, do_raw=True, coverage=False):
    """cases: normalised REPLAY cases.  Returns (items, raw_items, trace_result)."""
    items = []
    for ci, c in enumerate(cases):
        for conv in CONVS:
            items.append({"id": len(items), "ci": ci, "conv": conv, "val": c[conv]["val"],
                          "pred": c[conv]["pred"], "alts": c[conv].get("alts", [])})
    t0 = time.time()
    conv_out = C.proc_map(hp, work_convert, [(it["conv"], it["val"]) for it in items], chunk=1500, workers=workers)
    for it, (st, text) in zip(items, conv_out):
        it["cst"] = st
        it["text"] = text if st == "ok" else None
        it["cerr"] = text if st != "ok" else None
    C.log("[c08] %d conversions by the real converters in %.0fs" % (len(items), time.time() - t0))

    raw_items = []
    if do_raw:
        for ci, c in enumerate(cases):
            if c["fam"] == "str" and c["x"] == 0 and c["raw"]["clean"]:
                v = view("raw", c["raw"]["pred"])
                if v is not None:
                    raw_items.append({"id": len(items) + len(raw_items), "ci": ci, "conv": "raw",
                                      "text": c["s"], "want": v})

    t0 = time.time()
    jobs = []
    for shell in ("dash", "bash"):
        for it in items:
            if it["text"] is not None:
                jobs.append((scr, shell, it["id"], it["conv"], it["text"]))
        for it in raw_items:
            jobs.append((scr, shell, it["id"], "raw", it["text"]))
    res = C.proc_map(None, work_shell, jobs, chunk=1200, workers=workers)
    byid = {}
    for iid, shell, o in res:
        byid.setdefault(iid, {})[shell] = o
    for it in items + raw_items:
        it["obs"] = byid.get(it["id"], {})
    C.log("[c08] %d shell evaluations (dash, bash) in %.0fs" % (len(jobs), time.time() - t0))

    t0 = time.time()
    tr, tres = run_trace([(it["id"], it["text"], it["pred"]) for it in items if it["text"] is not None], gd, workers, coverage)
    for it in items:
        if it["text"] is not None:
            o = tr[it["id"]]
            it["model"] = {"same": bool(o["same"]), "exp": o["exp"], "complete": bool(o["complete"]),
                           "cmds": it["pred"] if o["same"] else norm_cmds(o["cmds"])}
    C.log("[c08] shell machine read %d real texts (%d states) in %.0fs" % (len(tr), tres.distinct, time.time() - t0))
    return items, raw_items, tres


def judge(items, raw_items, cases, rep):
    """Returns (number of texts in agreement, set of non-trivial texts)."""
    agree = 0
    for it in raw_items:          # (c) the shell machine against the real shells, raw strings
        for sh in ("dash", "bash"):
            ov = obs_view("raw", it["obs"].get(sh, {"lost": True}))
            if ov != it["want"]:
                raise C.ToolError("Shell.tla reads `set -- %r` as %r with nothing expanded, %s reads %r: the shell "
                                  "machine is wrong (model error, not a verdict)" % (it["text"], it["want"], sh, ov))
    for it in items:
        c = cases[it["ci"]]
        conv = it["conv"]
        desc = {"family": c["fam"], "input": c["s"] if c["fam"] == "str" else c["kinds"], "converter": conv,
                "value": it["val"], "predicted_words": it["pred"]}
        if it["cst"] != "ok":
            desc["converter_outcome"] = {"status": it["cst"], "msg": it["cerr"]}
            rep.disagree(desc, key="%s:converter-%s" % (conv, it["cst"]))
            continue
        m = it["model"]
        want = view(conv, it["pred"])
        if want is None:
            raise C.ToolError("prediction %r of the specification cannot be observed under the %s scheme" % (it["pred"], conv))
        ovs = {sh: obs_view(conv, it["obs"].get(sh, {"lost": True})) for sh in ("dash", "bash")}
        # (c) a definite reading by the model must be what the shells see
        if m["exp"] == 0 and m["complete"]:
            mv = view(conv, m["cmds"])
            if mv is not None:
                for sh in ("dash", "bash"):
                    if ovs[sh] != mv:
                        raise C.ToolError("Shell.tla reads %r as %r with nothing expanded, %s reads %r: the shell "
                                          "machine is wrong (model error, not a verdict)" % (it["text"], mv, sh, ovs[sh]))
        shells_ok = all(ovs[sh] == want for sh in ovs)
        model_ok = m["same"] and m["exp"] == 0 and m["complete"]
        if shells_ok and model_ok:
            agree += 1
            continue
        desc.update({"text": it["text"], "shell_machine": m, "dash": ovs["dash"], "bash": ovs["bash"],
                     "failed": [n for n, ok in (("real shells", shells_ok), ("shell machine", model_ok)) if not ok]})
        keys = None
        for alt in it["alts"]:
            if not alt["devs"]:
                continue
            ap = norm_cmds(alt["pred"])
            av = view(conv, ap)
            if m["cmds"] == ap and av is not None and all(ovs[sh] == av for sh in ovs):
                keys = list(alt["devs"])
                break
        if keys:
            desc["matches_named_deviation"] = keys
            for k in keys:
                rep.disagree(desc, key="%s:%s" % (conv, k))
        else:
            why = "expansion" if m["exp"] > 0 else ("unterminated" if not m["complete"] else "words")
            rep.disagree(desc, key="%s:%s" % (conv, why))
    return agree


def nontrivial(c):
    """A string case is non-trivial when it contains at least one character that is
    special to the shell; a tuple case when a skipped field (NULL, list, tuple) is
    followed by a scalar field."""
    if c["fam"] == "str":
        return any(ch in "'\"\\$` \n*;|&<>()#~{}?[\t" for ch in c["s"])
    ks = c["kinds"]
    return any(k in ("null", "list", "tuple") and any(k2 in ("str", "int", "float", "bool") for k2 in ks[i + 1:])
               for i, k in enumerate(ks))


def load_cases(res):
    cases = []
    for o in res.replays:
        c = {"fam": o["fam"]}
        if o["fam"] == "str":
            c["x"] = o["x"]
            c["s"] = unatoms(o["s"])
            c["raw"] = {"clean": bool(o["raw"]["clean"]), "pred": norm_cmds(o["raw"]["pred"])}
        else:
            c["kinds"] = list(_seq(o["kinds"]))
        for conv in CONVS:
            d = {"val": norm_val(o[conv]["val"]), "pred": norm_cmds(o[conv]["pred"])}
            if "alts" in o[conv]:
                d["alts"] = [{"devs": list(_seq(a["devs"])), "pred": a["pred"]} for a in _seq(o[conv]["alts"])]
            c[conv] = d
        cases.append(c)
    return cases


def do_replay(hp, path, workers):
    blob = json.load(open(path))
    d = blob["case"]
    conv = d["converter"]
    case = {"fam": d["family"], "x": 1, "s": d["input"] if d["family"] == "str" else "", "kinds": d["input"],
            "raw": {"clean": False, "pred": []}}
    for cv in CONVS:      # only the recorded conversion matters; the others repeat it
        case[cv] = {"val": d["value"], "pred": d["predicted_words"], "alts": []}
    scr = make_scratch()
    gd = C.gen_dir("c08")
    try:
        items, _, _ = evaluate(hp, scr, gd, [case], workers, do_raw=False)
    finally:
        shutil.rmtree(scr, ignore_errors=True)
        shutil.rmtree(gd, ignore_errors=True)
    it = [x for x in items if x["conv"] == conv][0]
    if it["cst"] != "ok":
        print("replay %s: converter %s (%s)" % (path, it["cst"], it["cerr"]))
        print("VIOLATION property=%s replay=%s" % (PID, path))
        return 1
    want = view(conv, it["pred"])
    ovs = {sh: obs_view(conv, it["obs"].get(sh, {"lost": True})) for sh in ("dash", "bash")}
    m = it["model"]
    ok = all(ovs[sh] == want for sh in ovs) and m["same"] and m["exp"] == 0 and m["complete"]
    print("text written by the %s converter: %r" % (conv, it["text"]))
    print("predicted: %r\ndash: %r\nbash: %r\nshell machine: %r" % (want, ovs["dash"], ovs["bash"], m))
    print("replay %s: %s" % (path, "agrees with the specification" if ok else "DISAGREES"))
    if not ok:
        print("VIOLATION property=%s replay=%s" % (PID, path))
    return 0 if ok else 1


def main(tier, replay=None):
    t0 = time.time()
    workers = min(6, max(2, C.NCPU - 2))
    hp = C.ensure_harness()
    if os.path.realpath("/bin/sh").split("/")[-1] != "dash":
        raise C.ToolError("/bin/sh is not dash here")
    if replay:
        return do_replay(hp, replay, workers)
    rep = C.Reporter(PID)
    sd = C.seed()
    rng = random.Random(sd * 7919 + 8)
    n_extra = int(os.environ.get("C08_EXTRA_N", "1500" if tier == "quick" else "6000"))
    extras = random_unicode_strings(rng, n_extra)

    gd = C.gen_dir("c08")
    scr = make_scratch()
    cmds = []
    try:
        # 1. the design, exhaustively: OneWord / EveryScalarOnceInOrder with Deviations = {}
        g = run_generator(tier, extras, gd, workers)
        cmds.append(g.cmd)
        if g.violation:
            raise C.ToolError("Shell.tla: invariant %s fails for the converters as designed (Deviations = {}): the "
                              "transcription and the shell machine disagree in the model; inspect before replaying.\n%s"
                              % (g.violation, g.errtext[:3000]))
        C.require_tlc_ok(g, "Shell.tla generator")
        if tier == "thorough":
            require_actions(action_counts(g), ["AddChar", "AddField"], "the generator")
        cases = load_cases(g)
        g.replays = []
        n_str = sum(1 for c in cases if c["fam"] == "str" and c["x"] == 0)
        n_tup = sum(1 for c in cases if c["fam"] == "tup")
        C.log("[c08] Shell.tla: %d states; OneWord on %d strings (+%d seeded Unicode), EveryScalarOnceInOrder on %d "
              "tuples, %.0fs" % (g.distinct, n_str, len(extras), n_tup, g.wall))
        if n_str != sum(9 ** k for k in range(6)) or n_tup != sum(7 ** k for k in range(6)):
            raise C.ToolError("generator emitted %d strings / %d tuples" % (n_str, n_tup))

        # 2. the stepwise machine equals Parse and takes every action (vacuity)
        mm = run_machine_mc(workers)
        cmds.append(mm.cmd)
        if mm.violation:
            raise C.ToolError("Shell.tla machine configuration: %s violated\n%s" % (mm.violation, mm.errtext[:2000]))
        C.require_tlc_ok(mm, "Shell.tla machine configuration")
        mcov = action_counts(mm)
        require_actions(mcov, MACHINE_ACTIONS, "the shell machine (Shell_machine.cfg)")

        # 3. the real converters, the real shells, and the machine on the real text
        chosen, how = select_cases(cases, tier, rng)
        if os.environ.get("C08_DEMO_ALTER"):      # binding demonstration: falsify one prediction
            victim = next(c for c in chosen if c["fam"] == "str" and c["s"] == "a a")
            victim["flags"]["pred"] = [["-x", "a", "a", "--yy", "a a", "--yy", "a a"]]
        items, raw_items, tres = evaluate(hp, scr, gd, chosen, workers, coverage=(tier == "thorough"))
        cmds.append(tres.cmd)
        tcov = tres.cov
        if tier == "thorough":
            require_actions(tcov, TRACE_ACTIONS, "ShellTrace over the recorded texts")
        agree = judge(items, raw_items, chosen, rep)
    finally:
        shutil.rmtree(scr, ignore_errors=True)
        shutil.rmtree(gd, ignore_errors=True)

    hist = {}
    for k, _ in rep.violations:
        hist[k] = hist.get(k, 0) + 1
    for k, v in rep.matched.items():
        hist["known " + k] = len(v)
    C.log("[c08] %d texts agree; disagreements by key: %s" % (agree, hist or "none"))
    rep.violations.sort(key=lambda kv: len(json.dumps(kv[1])))      # smallest witnesses first
    code = rep.finish()
    nt = set()
    for it in items:
        c = chosen[it["ci"]]
        if nontrivial(c) and it["text"] is not None:
            nt.add(it["text"])
    srng = random.Random(sd)
    samples = []
    for fam, pick in (("str", lambda c: c["x"] == 0 and len(c["s"]) >= 4 and nontrivial(c)),
                      ("str", lambda c: c["x"] > 0), ("tup", lambda c: nontrivial(c))):
        pool = [it for it in items if chosen[it["ci"]]["fam"] == fam and pick(chosen[it["ci"]]) and it["text"]]
        for it in srng.sample(pool, min(2, len(pool))):
            c = chosen[it["ci"]]
            samples.append({"input": c["s"] if fam == "str" else c["kinds"], "converter": it["conv"],
                            "text_written_by_ucg": it["text"], "predicted_words": it["pred"],
                            "dash": obs_view(it["conv"], it["obs"].get("dash", {})),
                            "bash": obs_view(it["conv"], it["obs"].get("bash", {})),
                            "shell_machine": {k: it["model"][k] for k in ("same", "exp", "complete")}})
    n_texts = sum(1 for it in items if it["text"] is not None)
    C.write_evidence(PID, tier, "model_checking", {
        "states": g.distinct + mm.distinct + tres.distinct,
        "transitions": g.generated + mm.generated + tres.generated,
        "traces_validated_against_impl": n_texts,
        "evaluations": 2 * (n_texts + len(raw_items)),
        "distinct_nontrivial": len(nt),
        "rule": "Shell.tla enumerates all %d strings of length <= 5 over {' \" \\ $ ` space newline * a} and all %d "
                "tuples of <= 5 fields over {str,int,float,bool,NULL,list,tuple} and checks OneWord / "
                "EveryScalarOnceInOrder on each (plus %d seeded random Unicode strings <= 40 chars).  Replayed "
                "through the real converters, dash, bash and the shell machine in this run: %s.  Each string is "
                "converted three times (env {V=s}; flags {x=s, yy=[s,s]}; exec {env={E=s}, command=s, "
                "args=[s,{k=s}]}) which covers the six positions; each tuple by env, flags and as an exec "
                "argument.  A text counts as non-trivial when its string contains a character special to the "
                "shell, or its tuple has a skipped field (NULL, list, tuple) before a scalar one; "
                "distinct_nontrivial counts distinct converter outputs of such cases."
                % (n_str, n_tup, len(extras), how),
        "samples": samples,
        "exhaustive": True,
        "exhaustive_note": "the model check of the design (Shell.tla, Deviations = {}) is a complete enumeration of the "
                           "stated bound in both tiers; the replay into the real code covers the whole bound in the "
                           "thorough tier and the subset named in `rule` in the quick tier",
        "cases_replayed": len(chosen),
        "texts_in_agreement": agree,
        "raw_strings_model_vs_shells": len(raw_items),
        "machine_action_counts": {"Shell_machine.cfg (every run)": {a: mcov.get(a, 0) for a in MACHINE_ACTIONS},
                                  "ShellTrace on the real texts (thorough tier only)":
                                      {a: tcov.get(a, 0) for a in MACHINE_ACTIONS} if tcov else "not collected"},
        "checker_cmd": " ; ".join(cmds),
        "trusted_base": ["TLC (tla2tools 1.8.0)", "/bin/sh = dash 0.5.12, bash 5.2 as the deciding environment",
                         "here-documents with a quoted delimiter deliver a text to the shell unaltered",
                         "vp/c08.py batching, NUL-framed dump parsing and projection of observations",
                         "harness op `convert` (Val built from JSON)"],
    }, time.time() - t0, violations=len(rep.violations), assumptions=[
        "numbers and booleans are compared through the text Rust's Display prints for 41..49, -2..-8, d.5, true/false",
        "flags: a NULL field prints the flag name only and a list field one flag per item (flags_help.txt); lists "
        "hold strings only (NULL or nested items inside a list are left open and not generated)",
        "names are plain identifiers chosen by the check (V, A, Bb, ...); escaping of names is not part of C08",
        "exec scripts declare bash and start with `set -euo pipefail`; for dash, which has no pipefail, exactly that "
        "line is replaced by `set -eu` before sourcing; `exec` is aliased to a function that dumps its arguments and "
        "the assigned variables (export of the assignments is not part of C08)",
        "flags output is evaluated as `set -- <text>`; shells run with an empty PATH in a scratch directory holding "
        "decoy files (zz1, ab, 'a b', aa) and a=EXPANDED in the environment so that an expansion would be visible",
        "strings contain no NUL; the seeded strings contain no ASCII letter other than `a` and no `/`",
        "order of env assignments is established by the shell machine reading the real text; the real shells "
        "confirm the final value of every variable",
    ])
    return code
