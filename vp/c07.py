"""C07 - the static checker never rejects a program that evaluates successfully."""
import os
import re
import shutil
import time

from . import common as C
from . import coreprog as P
from . import render as R
from . import c01

PID = "C07"

WT = {"Ill0": "0"}


def fam(name, over, sim=None):
    d = dict(over)
    d.update(WT)
    return (name, d, sim)


def q(name):
    for f in c01.QUICK:
        if f[0] == name:
            return dict(f[1])
    raise KeyError(name)


QUICK = [
    fam("ops1", q("ops1")), fam("nums", q("nums")), fam("data", q("data")), fam("select", q("select")),
    fam("call", q("call")), fam("foppre", q("foppre")), fam("misc", q("misc")), fam("cast", q("cast")), fam("castdot", q("castdot")),
    fam("moddef", q("moddef")), fam("dotuse", q("dotuse")), fam("conlet", q("conlet")), fam("funcbody", q("funcbody")), fam("funcsel", q("funcsel")), fam("cmpdata", q("cmpdata")), fam("moduse", q("moduse")), fam("copyparam", q("copyparam")), fam("shadowuse", q("shadowuse")), fam("shadowuse2", q("shadowuse2")), fam("funcshadow", q("funcshadow")), fam("sim", q("sim"), (2500, 70)),
]
THOROUGH = QUICK[:-1] + [fam("sim", q("sim"), (60000, 80))]

_DIR = None


def classify(msg):
    """A specific signature of a checker rejection (known findings are keyed by it)."""
    m = re.search(r"Type error: (.*?)(?: at |$)", msg.replace("\n", " "))
    t = m.group(1) if m else msg[:80]
    t = re.split(r" but got|, got | got:", t)[0]
    t = re.sub(r"\{[^}]*\}|\[[^\]]*\]|\"[^\"]*\"|\d+", "_", t)
    t = re.sub(r"'[^']*'", "'_'", t)
    t = re.sub(r"compatible with \w+", "compatible with _", t)
    return "checker:" + t.strip()[:70]


def mentions(x, e, op=None):
    """does the program contain an expression of kind e (with operator op)?"""
    if isinstance(x, list):
        return any(mentions(y, e, op) for y in x)
    if isinstance(x, dict):
        if x.get("e") == e and (op is None or x.get("op") == op):
            return True
        return any(mentions(v, e, op) for v in x.values() if isinstance(v, (dict, list)))
    return False


def returns_parameter_in_a_container(prog):
    """some function's body is a list or tuple literal that mentions one of its parameters, and a top-level binding
    has that parameter's name"""
    tops = {"".join(s["nm"]) for s in prog if s.get("s") == "let"}
    for s in prog:
        x = s.get("x") or {}
        if x.get("e") == "func" and x["body"].get("e") in ("list", "tuple"):
            ps = {"".join(p) for p in x["ps"]}
            if ps & tops and any(mentions_sym(x["body"], p) for p in ps & tops):
                return True
    return False


def mentions_sym(x, name):
    if isinstance(x, list):
        return any(mentions_sym(y, name) for y in x)
    if isinstance(x, dict):
        if x.get("e") == "sym" and "".join(x["nm"]) == name:
            return True
        return any(mentions_sym(v, name) for v in x.values() if isinstance(v, (dict, list)))
    return False


def copies_a_parameter(prog):
    """some function body copies one of the function's own parameters (t{b = 2})"""
    found = []

    def walk(x, ps):
        if isinstance(x, list):
            for y in x:
                walk(y, ps)
        elif isinstance(x, dict):
            if x.get("e") == "func":
                walk(x["body"], ["".join(p) for p in x["ps"]])
                return
            if x.get("e") == "copy" and "".join(x["sel"]) in ps:
                found.append(True)
            for v in x.values():
                if isinstance(v, (dict, list)):
                    walk(v, ps)
    walk(prog, [])
    return bool(found)


def selects_two_fields_of_a_parameter(prog):
    """some function body selects two different fields of one of its parameters (t.a ... t.b)"""
    found = []

    def sel(x, ps, acc):
        if isinstance(x, list):
            for y in x:
                sel(y, ps, acc)
        elif isinstance(x, dict):
            if x.get("e") == "func":
                inner = {}
                sel(x["body"], ["".join(p) for p in x["ps"]], inner)
                if any(len(v) >= 2 for v in inner.values()):
                    found.append(True)
                return
            if x.get("e") == "bin" and x.get("op") == "dot" and x["l"].get("e") == "sym" and "".join(x["l"]["nm"]) in ps:
                r = x["r"]
                name = "".join(r["nm"]) if r.get("e") == "sym" else ("".join(r["v"]["s"]) if r.get("e") == "lit" and r["v"]["t"] == "str" else None)
                if name is not None:
                    acc.setdefault("".join(x["l"]["nm"]), set()).add(name)
            for v in x.values():
                if isinstance(v, (dict, list)):
                    sel(v, ps, acc)
    sel(prog, [], {})
    return bool(found)


def strip_pkg_text(v):
    if v[0] == "str":
        return ("str", v[1].replace("pkg = <Func>,", ""))
    if v[0] == "tuple":
        return ("tuple", tuple((n, strip_pkg_text(x)) for n, x in v[1]))
    if v[0] == "list":
        return ("list", tuple(strip_pkg_text(x) for x in v[1]))
    return v


def strip_pkg(v):
    """`mod.pkg` exists only for modules declared in a file (reference, "Module builtin bindings"): drop it
    where it sits next to `this`, so that a file build and an evaluation of the same text stay comparable."""
    if v[0] == "tuple":
        names = [n for n, _ in v[1]]
        return ("tuple", tuple((n, strip_pkg(x)) for n, x in v[1] if not (n == "pkg" and "this" in names)))
    if v[0] == "list":
        return ("list", tuple(strip_pkg(x) for x in v[1]))
    return v


def work(h, cases):
    global _DIR
    if _DIR is None:
        _DIR = C.scratch_dir("c07")
    out = []
    for n, c in enumerate(cases):
        if c["expect"]["k"] != "ok" or c.get("clean") not in ("clean", "union"):
            out.append({"status": "skip", "why": "not a clean, successfully evaluating program"})
            continue
        try:
            text = R.program(c["prog"])
        except R.Unrenderable as e:
            out.append({"status": "skip", "why": str(e)})
            continue
        path = os.path.join(_DIR, "p%d_%d.ucg" % (os.getpid(), n + 1000 * (id(cases) % 100000)))
        with open(path, "w") as f:
            f.write(text)
        ev, bd = h.batch([{"op": "eval", "src": text, "strict": True},
                          {"op": "build", "path": path, "strict": True, "fresh": False}])
        os.unlink(path)
        eo = P.observed_outcome(ev)
        bo = P.observed_outcome(bd)
        if bo[0] == "ok":
            bo = ("ok", {n: strip_pkg_text(strip_pkg(v)) for n, v in bo[1].items()})
        if eo[0] == "crash" or bo[0] == "crash":
            out.append({"status": "violation", "key": "crash", "text": text, "kind": "crash",
                        "detail": {"eval": eo, "build": bo}})
            continue
        if eo[0] != "ok":
            # the unchecked evaluation itself fails although the reference says it succeeds: C01's subject
            devs = c.get("devs") or []
            out.append({"status": "skip", "why": "unchecked evaluation fails (C01 decides)", "text": text})
            continue
        if bo[0] != "ok":
            key = "checker:select-of-mixed-types" if c.get("clean") == "union" else classify(bo[1])
            if "not found in tuple" in bo[1] and selects_two_fields_of_a_parameter(c["prog"]):
                key = "checker:parameter-pinned-to-its-first-selected-field"
            if key == "checker:No candidate type has field '_'" and copies_a_parameter(c["prog"]):
                key = "checker:field-added-by-a-copy-of-an-untyped-parameter"      # a repaired defect (fixed finding)
            if key.startswith("checker:Expected") and returns_parameter_in_a_container(c["prog"]):
                key = "checker:parameter-returned-inside-a-container-leaks-into-the-caller"
            if key == "checker:Incompatible List Shapes" and not mentions(c["prog"], "bin", "add"):
                key += " (no + in the program)"     # the recorded finding is about list concatenation
            out.append({"status": "violation", "key": key, "text": text, "kind": "rejected",
                        "detail": {"build_error": bo[1][:400]}})
            continue
        want = dict(eo[1])
        if bo[1] != want:
            out.append({"status": "violation", "key": "values-differ", "text": text, "kind": "values",
                        "detail": {"eval": repr(eo[1])[:500], "build": repr(bo[1])[:500]}})
            continue
        if P.agrees(c["expect"], bo) is False and not (c.get("devs")):
            out.append({"status": "violation", "key": "value", "text": text, "kind": "value",
                        "detail": {"build": repr(bo[1])[:500], "expected": P._show_spec(c["expect"])}})
            continue
        out.append({"status": "ok", "text": text})
    return out


RULE = ("programs = behaviours of Gen.tla with NO ill-typed join (Ill0 = 0) that the reference semantics (Eval.tla) "
        "evaluates to completion; each is evaluated without the checker (FileBuilder::eval_string) and built as a file "
        "(FileBuilder::build: type checker first): when the former succeeds the latter must succeed with identical "
        "bindings, which must also equal the specification's values; non-trivial = distinct program compiling to >= 6 ops")


def main(tier, replay=None):
    t0 = time.time()
    if replay:
        return c01.do_replay(PID, replay, work)
    fams = QUICK if tier == "quick" else THOROUGH
    try:
        return c01.run(PID, tier, fams, t0, worker=work, rule=RULE, level="model_checking")
    finally:
        shutil.rmtree(os.path.join(C.BUILD, "scratch"), ignore_errors=True) if False else None
