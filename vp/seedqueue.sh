#!/bin/bash
# processes every complete /tmp/seeded/<Cxx>-<n>/ (has meta.json + patch.diff) once; results in /verif/.build/seedresults/
mkdir -p /verif/.build/seedresults
while true; do
  did=0
  for d in /tmp/seeded/C*-*; do
    [ -f "$d/meta.json" ] && [ -f "$d/patch.diff" ] || continue
    id=$(basename $d)
    out=/verif/.build/seedresults/$id.txt
    [ -f "$out" ] && continue
    # let the author finish writing (expected.txt / demo)
    sleep 5
    prop=${id%%-*}
    /verif/vp/seedrun.sh $d $prop > $out.tmp 2>&1
    mv $out.tmp $out
    did=1
  done
  [ -f /verif/.build/seedresults/STOP ] && exit 0
  [ $did = 0 ] && sleep 60
done
