"""Development aid: python3 -m vp.size <family-name> [k=v ...]  -> state/program count of a C01 family."""
import sys
from . import common as C, coreprog as P
from . import c01

def main():
    name = sys.argv[1]
    over = {}
    for f in c01.QUICK + getattr(c01, "THOROUGH", []):
        if f[0] == name:
            over = dict(f[1])
    for a in sys.argv[2:]:
        k, v = a.split("=", 1)
        over[k] = v
    gd = C.gen_dir("size")
    mod = P.write_mc_module(gd)
    P.write_cfg(gd, "s", over, invs=["NoFuel"])
    r = C.run_tlc(mod, "s", workers=6, gendir=gd, timeout=int(over.pop("_t", "90")), keep_lines=True)
    print(name, "generated", r.generated, "distinct", r.distinct, "ok", r.ok, "%.0fs" % r.wall)
    if not r.ok:
        print(r.errtext[:1500])
        print("\n".join(l for l in r.lines if l.startswith("Progress"))[-600:])

main()
