"""Writes /verif/MANIFEST.json from the table below (python3 -m vp.manifest)."""
import json
import os

from . import common as C

HOOK_COMMITS = []  # filled from git below

CHECKS = {
    "C01": dict(
        category="model_checking",
        text="Eval.tla (the language reference as a big-step evaluator), Translate.tla (translate.rs arm by arm, jump "
             "patching in closed form) and VM.tla (vm.rs/runtime.rs one step per opcode, nested VMs as frames, every "
             "unwrap/unreachable as an explicit Panic outcome) are model-checked for Agreement (VM(Translate(p)) ends as "
             "Eval(p) says), NoPanic, CleanAtEnd and PrefixStable over the programs of Gen.tla - a generator machine that "
             "types terms by evaluating them against the reference and admits a bounded number of ill-typed joins: "
             "exhaustive construct families (operators, arithmetic, numbers, booleans with short-circuit, tuples/lists/"
             "selectors/copy/self/in/is, select, calls, map/filter/reduce incl. callbacks that answer NULL or fail late, "
             "format/range/cast/fail/TRACE, casts of selected elements, regex operators on literal patterns, module "
             "definition+instantiation, function bodies met at a later call, annotated lets `let x :: constraint = v` "
             "with ranges, exact alternatives and examples) plus a simulation of the full grammar; the constructs each "
             "family really produced are measured and an enabled but never produced construct is a tool error. Every explored program is replayed: the "
             "rendered text must parse back to the generated AST, FileBuilder::eval_string must give the predicted "
             "success/failure and values, AST::translate must emit the predicted op sequence op for op with the "
             "predicted statement positions. impl->spec: a sample of executions is recorded by the `verif` hooks (one "
             "event before every dispatched opcode with pointer, nesting depth, stack length and top of stack; one per "
             "binding_push) and must be a behaviour of VM.tla (VMTrace.tla; a corrupted trace is shown to be rejected on "
             "every run). Deviations of the code from the reference are named (VM.tla devs) and matched against known "
             "findings.",
        design_ref="DESIGN.md §4.1-§4.3, §5/C01",
        note="Trusted: TLC, vp/render.py (checked on every case by parsing back), harness projections. Assumptions read "
             "off the code where the reference is silent are listed in the evidence. Float division/modulus, regex, "
             "comparison of function values are outside the modelled domain (never generated).",
        technique="TLA+ specs (Eval/Translate/VM/Gen) model-checked and simulated with TLC; spec->impl replay of every "
                  "explored program (values, op sequences, op positions); impl->spec trace validation of recorded VM "
                  "executions (VMTrace.tla)",
    ),
    "C02": dict(
        category="model_checking",
        text="Precedence.tla: the precedence climber of parse/precedence.rs, transcribed loop by loop, is "
             "model-checked against the grouping the published table defines (the table is parsed from "
             "expressions.md on every run) for ALL chains of 1..4 (thorough 5) of the 18 operators and all "
             "chains of <=3 operators with parenthesised sub-chains; every explored chain is then replayed into "
             "ucglib::parse::parse (plain, fully parenthesised along the reference, contrary parentheses; "
             "simulated chains <=10 with compound operands) and the Binary tree compared with the predicted one. "
             "Exhaustive in the stated bound, so a grouping error on any chain of that size cannot pass. Chains of up to 6 (thorough 7) operators over one operator per published level extend the exhaustive bound where only the interleaving of levels matters.",
        design_ref="DESIGN.md §4.4, §5/C02",
        note="Trusted: TLC, the renderer/tree comparison in vp/c02.py, the AST projection of the harness. "
             "Operands are symbols or self-delimiting compound forms.",
        technique="TLA+ spec (Precedence.tla) model-checked with TLC; spec->impl replay of every explored chain",
    ),
    "C03": dict(
        category="model_checking",
        text="DataModel.tla: reference Representable/Denote/Expect (which JSON/YAML/TOML document(s) a value denotes, or "
             "ERROR: constraint anywhere, NULL in TOML, non-table TOML top level, non-finite float in JSON; yamlmulti = "
             "one document per list item) and the converters of convert/{json,yaml,yamlmulti,toml}.rs transcribed at "
             "document level with named deviations. TLC checks ExpectWellFormed (ToDoc total), ErrorIffUnrepresentable, "
             "RoundTrip and ConvAgrees (Deviations={}) over a generator machine of value trees: exhaustive <=4 nodes/"
             "depth 3 over 32 leaf classes and a <=5 nodes shape family; simulation to depth 5. Every tree is refined "
             "(seeded member per class; ints 0/small/2^53+1/i64 extremes, 8 float classes, 12 string classes, 4 key "
             "classes) and converted by the real code via three routes (ConverterRegistry on a built Val; convert+out "
             "programs through eval_string; ucg binary sample). Bytes are decoded by Python json (strict), PyYAML's "
             "pure-Python parser with the YAML 1.2 core schema, tomllib, and compared with the predicted documents: "
             "nesting, order, key set, strings, bool/null, numbers as exact rationals, document count; predicted ERROR "
             "must be an error with no output.",
        design_ref="DESIGN.md §4.10, §5/C03, §6",
        note="Trusted: TLC, vp/datamodel.py tables and comparator, the three Python decoders, harness Val construction. "
             "Not decided by the spec: byte-level validity (delegated to the decoders). Don't-cares: non-finite floats in "
             "YAML/TOML; YAML 1.1-only re-typing; unique keys. Leaf classes are sampled per seed; structure is "
             "exhaustive within the bound.",
        technique="TLA+ spec (DataModel.tla) model-checked with TLC; spec->impl replay of every explored value tree "
                  "through three routes; independent decoders as byte-level environment",
    ),
    "C04": dict(
        category="exploration",
        text="Exploration with a model-checked core. Core: every unwrap()/unreachable!()/panic!(\"BUG\") of translate.rs, "
             "vm.rs and runtime.rs is an explicit Panic(site) outcome of Translate.tla/VM.tla; NoPanicAtEnd, CleanAtEnd, "
             "NoFuel and Agreement are model-checked on every Gen.tla program of the C04 families (operators, arithmetic, "
             "format incl. placeholder/argument mismatches, casts of composites, wrong arity, map/filter/reduce, simulated "
             "full grammar with two ill-typed joins). Exploration: every text goes, under crash and time capture, through "
             "tokenize, parse, fmt (twice), translate, eval (strict and not), every converter on every resulting value and a "
             "checked file build - generated programs, the same with integer literals refined to arithmetic edge values "
             "(i64 extremes, overflowing literals), Mutate.tla scripts (delete/duplicate/swap/replace a token, <= 3 "
             "mutations) applied to the token sequences of generated programs, every .ucg file of the repository and the "
             "fuzz corpus, Lexer.tla simulation texts (random token-class sequences with random layout, non-ASCII, CR/LF, "
             "unterminated strings and comments), the raw corpus - and a sample through the `ucg build` / `ucg fmt` "
             "binaries (exit 0 or 1, a message on 1). Every other check's replay runs under the same capture.",
        design_ref="DESIGN.md §5/C04, §6",
        note="For raw text the oracle is `returns`, which no model strengthens: the level claimed is exploration. "
             "Excluded as in the property: nesting > 64, ranges > 10^6 (any 7-digit literal next to a range is avoided), "
             "texts > 4 KiB. Trusted: TLC, the harness's per-stage catch_unwind and the 20 s watchdog.",
        technique="TLA+ specs (Translate/VM panic sites model-checked; Mutate.tla and Lexer.tla as input generators) "
                  "explored with TLC; replay of every text through all stages under crash/time capture",
    ),
    "C05": dict(
        category="model_checking",
        text="Fmt.tla part (a): Canon, the text AstPrinter::render writes for a comment-free AST as a character sequence, "
             "one clause per arm of ast/printer/mod.rs, with named deviations; TLC checks Injective (Canon(a)=Canon(b) => "
             "Same(a,b), Same ignoring field-name quoting) and Relexes (every literal / bare name reads back as itself) "
             "over an exhaustively enumerated bounded AST domain (all literal classes incl. integral/1e20/2^-30 floats, "
             "every escape, non-ASCII, 12 field-name classes, ranges with step, constraints, all statement kinds, one "
             "level of every form, a second level one compound child at a time). Part (b): the comment placer as a "
             "machine (tokenizer grouping keyed by last line, pending stack, render_missed_comments one loop iteration "
             "per step, tail flush, second pass) over all line layouts (<=5 lines/3 statements/3 comments quick, <=6/4/4 "
             "thorough, plus comment-text, glued-comment and lookahead variants): EachOnce, InOrder, BeforeLaterCode, "
             "FixedPoint. Every AST (and every C01-generator program, for which FmtGiven.tla computes Canon) is rendered "
             "in 4 (8) seeded layouts - redundant parentheses, line breaks, trailing commas, quoted names, comments in "
             "every gap incl. blank and keyword-glued ones - and taken through parse, fmt, parse(fmt), fmt(fmt) of the "
             "real code: both parses must equal the SPEC's tree, comments (independent scanner) must be the inserted "
             "ones in order, fmt(fmt)=fmt when every comment sits alone between statements; every placer layout is "
             "realised as a program; all shipped .ucg files; a sample through ucg fmt / ucg fmt -w.",
        design_ref="DESIGN.md §4.6, §5/C05, §11.7",
        note="Trusted: TLC, vp/fmtlay.py (renderer, scanner, normal forms; checked on every case by parsing back), harness "
             "AST projection, Rust's shortest round-trip float printing. Layout is not demanded by the property: the "
             "predicted canonical text / interleaving only bind the model (a mismatch there is a tool error). Fixed point "
             "demanded only for comments outside every top-level statement. Shipped files use the parser as its own "
             "reference.",
        technique="TLA+ spec (Fmt.tla, FmtGiven.tla) model-checked with TLC; spec->impl replay of every explored AST in "
                  "seeded layouts and of sampled placer layouts; fixed repository inputs; binary sample",
    ),
    "C06": dict(
        category="model_checking",
        text="Constraint.tla: Admit (the checker's narrow/derive_shape and the VM's BuildConstraint/CheckConstraint/"
             "Val::equal with the parser's single-arm unwrap, transcribed as a checker fold and a VM fold over statement "
             "lists) = Conforms (the rule of the statement) over every (constraint, value form) pair of the bounded "
             "grammar with Deviations={}: primitive, tuple and list exemplars nested to depth 2 (thorough 3), int/float "
             "ranges closed and half-open with boundary values, alternations of 1..4 literals and ranges, recursive named "
             "constraints. Each pair is built in inline / named / let-bound spelling through FileBuilder::build (type "
             "checker + VM) and a seeded sample through `ucg build`; acceptance must equal Conforms, a rejection must "
             "carry a diagnostic and stop the build, spellings must agree.",
        design_ref="DESIGN.md §4.7, §5/C06",
        note="Trusted: TLC, the program renderer in vp/c06.py, harness build op. Don't-cares: NULL against a range or "
             "alternation; NULL not used as an exemplar. Open finding copy-override-keeps-base-field (pinned by a unit "
             "test of the repository).",
        technique="TLA+ spec (Constraint.tla) model-checked exhaustively with TLC; spec->impl replay of every pair",
    ),
    "C07": dict(
        category="model_checking",
        text="Eval.tla is the oracle for `evaluates to completion`: Gen.tla produces programs with NO ill-typed join, "
             "tracks for every term whether it is hereditarily clean (no hidden error in dead code, boolean operands of "
             "&& / ||) and emits only clean programs the reference evaluates successfully - operators, tuples/lists/"
             "selectors incl. calls and copies through tuple fields, copy, select, calls, module instantiation, "
             "map/filter/reduce over lists, tuples and strings, format, range, casts (exhaustive families + simulation of "
             "the whole fragment). Agreement of VM.tla with Eval.tla is model-checked on the same programs. Replay: "
             "FileBuilder::eval_string (no checker) and FileBuilder::build on a file (checker first): when the former "
             "succeeds the latter must succeed with identical bindings, equal to the specification's values. A rejection "
             "is keyed by the checker's message class (or by the recorded select-of-mixed-types finding). Families added after the seeding rounds: function bodies selecting fields of a parameter, parameters named like earlier bindings of another type, == / != between small lists and tuples, module instances as operands, annotated lets.",
        design_ref="DESIGN.md §4.1-§4.3, §5/C07, §6",
        note="Trusted: TLC, vp/render.py, harness eval/build projections. The checker itself is not modelled (Shapes.tla is "
             "a growth item): the specification decides which programs are in the quantifier and what they evaluate to; "
             "the property is decided by replay. `mod.pkg` (present only in file builds) is masked.",
        technique="TLA+ specs (Gen/Eval/VM) model-checked and simulated with TLC as the oracle for the quantifier domain; "
                  "spec->impl replay (eval_string vs build)",
    ),
    "C08": dict(
        category="model_checking",
        text="Shell.tla: a POSIX shell's word parser as a character-level state machine, the two escaping helpers and "
             "the env/flags/exec converters transcribed clause by clause, and the words the property says must arrive. "
             "TLC checks OneWord for ALL 66,430 strings <=5 over {' \" \\ $ ` space newline * a} in the six positions and "
             "EveryScalarOnceInOrder for all 19,608 tuples <=5 fields over {str,int,float,bool,NULL,list,tuple}, plus "
             "seeded Unicode strings <=40. Every replayed case runs the real converters; the text is evaluated by dash "
             "and bash (words must be the predicted ones) and read by the same shell machine (ShellTrace.tla: predicted "
             "words, expansions = 0), so a different but correct quoting style is re-verified, not compared textually. "
             "Exhaustive in the bound in the model; replay exhaustive in thorough, <=4 plus seeded samples in quick.",
        design_ref="DESIGN.md §4.9, §5/C08, §8.2",
        note="Trusted: TLC, dash 0.5.12 and bash 5.2, quoted here-documents, the NUL-framed dump and projection in "
             "vp/c08.py, harness op convert. Names are plain identifiers; exec's `set -euo pipefail` line replaced by "
             "`set -eu` for dash. Model and shell disagreement is exit 2, never a verdict.",
        technique="TLA+ spec (Shell.tla) model-checked with TLC; impl->spec validation of real converter output by the "
                  "shell machine (ShellTrace.tla); /bin/sh and bash as independent environment",
    ),
    "C09": dict(
        category="model_checking",
        text="Build.tla: the build session at the code's grain (op/value/shape caches, static import resolution as a "
             "sub-machine, the link work list, per-VM import stacks, rewrite of relative paths, out locks, assertion "
             "collector, artifacts on disk; paths as component sequences with path.rs normalisation) with named deviations "
             "for every recorded defect. With Deviations = {} TLC checks ResolveRelToFile, EvalOnce, EvalOrder, SameValue "
             "and CycleIsDiagnostic over all two-file projects with 7 syntactic positions x 3 spellings x 3 layouts x 3 "
             "working directories and all import graphs on 3 files incl. cyclic ones (thorough: 4 files, sampled 6/8). "
             "Replay: the projects are materialised and built with the ucg binary from every working directory (outcome, "
             "diagnostic class, artifact tree, TRACE sequence, no crash, byte identity across cwds); the import / ops-cache "
             "/ shape-cache / static-cycle events recorded by the `verif` hooks are validated against BuildTrace.tla. Added after the seeding rounds: an eighth syntactic position (inside a format string's @{...}), sibling files whose names begin with `std`, and a share of the build budget per configuration and outcome class.",
        design_ref="DESIGN.md §4.8, §5/C09, §8.2, §11.7",
        note="Trusted: TLC, the project renderer in vp/buildproj.py (static visibility re-checked by the shape_cache "
             "events), the ucg binary's exit status/stderr classes. Resource-exhaustion runs are excluded from step-by-step "
             "comparison.",
        technique="TLA+ spec (Build.tla) model-checked with TLC; spec->impl replay through the ucg binary; impl->spec trace validation of recorded build-session events (BuildTrace.tla)",
    ),
    "C10": dict(
        category="model_checking",
        text="Gen/Eval/Translate/VM with scope probes: programs in which a module body refers to a binding of the "
             "enclosing file, a top-level expression refers to a parameter name or `item`, a function body refers to a "
             "name bound only later, a name is rebound, a reserved word is bound, parameters coincide with outer bindings. "
             "Checked in the model for every generated program: PrefixStable (every prefix's bindings reappear unchanged), "
             "Agreement with the reference (closures over the definition-time scope, module isolation), NoPanic; "
             "BindMonotone is an action property of VM.tla's main frame. Replayed: the whole program and EVERY proper "
             "prefix are evaluated by FileBuilder::eval_string; each binding a prefix makes must be present and equal in "
             "the whole program and equal to the specification's prediction; rebinding / reserved words / leaked names "
             "must fail as predicted. Recorded executions (opcode and binding_push events) are validated against VM.tla "
             "by VMTrace.tla: each bind event must agree with the model's symbol table of the frame it writes to. Reserved words are the reference's list (compared with reference/_index.md on every run); annotated lets and constraint statements bind once as well.",
        design_ref="DESIGN.md §4.1-§4.3, §5/C10",
        note="Trusted: TLC, vp/render.py, harness eval projection. Reserved words: the list of vm.rs reserved_words plus "
             "`env`, written into Eval.tla. The rebind family is exhaustive in its bound, the scope families and the "
             "full grammar are simulated.",
        technique="TLA+ specs (Gen/Eval/VM) model-checked and simulated with TLC; spec->impl replay of every program and "
                  "each of its prefixes",
    ),
    "C11": dict(
        category="model_checking",
        text="Lexer.tla: the tokenizer of tokenizer/mod.rs (the ordered either! alternation, escapequoted, "
             "keyword/comment/whitespace recognisers, the byte-wise offset/line/column cursor, the tokenize "
             "loop), transcribed one call of `token` per step, is model-checked against maximal munch over the "
             "documented token set with positions recomputed from the prefix (PosTruth, Progress, Monotone, "
             "LongestOp, Layout, AlgEqualsRef) for ALL pairs (thorough: all triples) of a 71-token vocabulary "
             "x separators {none, SP, LF, CRLF, TAB, comment} and ALL string bodies <= 4 (5) over 12 characters "
             "with every escape form and 2/3/4-byte UTF-8; random sequences/programs <= 40 tokens with random "
             "layout are simulated. Every explored input is replayed into ucglib::tokenizer::tokenize and the "
             "(typ, fragment, offset, line, column) list compared with the predicted one; programs are parsed "
             "under two layouts (same AST), string literals evaluated (value = Decode(body) byte for byte).",
        design_ref="DESIGN.md §4.5, §5/C11, Appendix A Tokenizer",
        note="Trusted: TLC, the spelling of abstract characters and the comparison in vp/c11.py, the harness "
             "projection. Don't-cares: true/false/NULL glued to symbol characters; byte- or character-based "
             "columns after multi-byte text; a comment glued to `/`. Triples use 4 of the 6 separators.",
        technique="TLA+ spec (Lexer.tla) model-checked and simulated with TLC; spec->impl replay of every explored input",
    ),
    "C12": dict(
        category="model_checking",
        text="Xml.tla: reference XmlDoc/Expect (the infoset a document tuple denotes: element name, attribute set, "
             "namespaces in scope, children in order with adjacent text merged, or ERROR for every malformed kind the "
             "statement lists) and xml.rs transcribed clause by clause down to the events handed to the xml-rs EventWriter "
             "(Write) plus what a parser reads from that writer's bytes (Read), with named deviations. TLC checks "
             "XmlDocTotal, ErrorIffMalformed, ConvAgrees (Deviations={}) and TagFormSame (std/xml.ucg tag/doc denote the "
             "same infoset) over a generator machine of document tuples driven by 88 named features: exhaustive <=4 nodes/"
             "depth 3/<=3 children; all namespace combinations over <=3 elements; version x encoding x standalone x "
             "non-ASCII; all feature pairs on <=2 nodes; simulation to depth 4, <=4 children, <=12 nodes. Every document is "
             "refined (seeded member per string class and position: markup characters, white space, arbitrary Unicode, CR, "
             "TAB, forbidden characters; prefixes/URIs per document) and converted by the real code via ConverterRegistry "
             "on a built Val and, for a third of the ASCII refinements, via convert xml / out xml programs written with the "
             "std/xml.ucg constructors; the bytes are read by expat (raw) and ElementTree (namespace-aware) and compared "
             "with the predicted infoset; predicted ERROR must be an error.",
        design_ref="DESIGN.md §4.10, §5/C12, §6, §11.7",
        note="Trusted: TLC, vp/xmlmodel.py tables/projection/comparator, expat 2.5 + ElementTree, harness Val "
             "construction. Byte-level well-formedness is delegated to the parser. Don't-cares: indentation white space, "
             "redundant xmlns, the declaration's content, forbidden characters under version 1.1, {text=NULL}, non-boolean "
             "standalone. String classes are sampled per seed; structure is exhaustive within the bounds.",
        technique="TLA+ spec (Xml.tla) model-checked and simulated with TLC; spec->impl replay of every explored document "
                  "through two routes; expat/ElementTree as independent byte-level environment",
    ),
    "C13": dict(
        category="model_checking",
        text="Build.tla (test invocation): VerdictIffAsserts, ExitIffFail, EachAssertOnce and BatchEqualsSolo are "
             "model-checked over runs of 1..3 *_test.ucg files with <=3 statements over {ok, fail, malformed assert, "
             "run-time error, type error} in every order incl. a repeated file (thorough: 3 x <=2 exhaustively, sampled 4 "
             "files x 8 statements). Replay through `ucg test`: per-file Pass/Fail/Err lines, the summary, the assertion "
             "log by marker (each assertion exactly once) and the exit status; the `assert` events (index, okay, wellformed) "
             "are validated against BuildTrace.tla. The log of a file that does not build is compared as well (the assertions evaluated before the error).",
        design_ref="DESIGN.md §4.8, §5/C13, §11.7",
        note="Trusted: TLC, vp/buildproj.py, the ucg binary's output format. No log is compared for files whose build "
             "fails; the running number of an assertion is a don't-care.",
        technique="TLA+ spec (Build.tla) model-checked with TLC; spec->impl replay through the ucg binary; impl->spec trace validation of recorded build-session events (BuildTrace.tla)",
    ),
    "C14": dict(
        category="model_checking",
        text="Build.tla (OutLock/OutCreate/OutWriteOk/OutWriteFail): OneArtifact, SecondOutIsError and AllOrNothing are "
             "model-checked over every registered converter (cross-checked with the harness `converters` op) x convertible / "
             "inconvertible values x pre-existing artifact or not x 0..2 (thorough 3) out statements, each built twice. "
             "Replay with the ucg binary in a scratch directory: listing before/after, artifact bytes against the string the "
             "same build binds for `convert <fmt> <value>`, exit status and diagnostic class; the out_lock / out_create / "
             "out_done events are validated against BuildTrace.tla.",
        design_ref="DESIGN.md §4.8, §5/C14, §11.7",
        note="Trusted: TLC, vp/buildproj.py, harness eval for the convert string. Whether the first artifact stays after a "
             "second-out error is accepted either way.",
        technique="TLA+ spec (Build.tla) model-checked with TLC; spec->impl replay through the ucg binary; impl->spec trace validation of recorded build-session events (BuildTrace.tla)",
    ),
    "C15": dict(
        category="model_checking",
        text="DataModel.tla: FromDoc (ints stay ints, other numbers floats; TOML has no null), the importers transcribed "
             "with deviations, and the include hook as an outcome table over 8 types x {empty, malformed, text, binary, "
             "missing}; TLC checks RoundTrip, ImportAgrees and IncludeAgrees (Deviations={}). Every abstract document "
             "(<=3/<=4 nodes exhaustive, simulation depth 5) is serialised independently of ucg (json.dumps styles, own "
             "YAML and TOML emitters), cross-checked with the independent decoder, included through `let v = include <t> "
             "\"f\";` via FileBuilder::build, and the bound Val (int/float distinct, float bits) compared with the "
             "prediction. Two damaged variants per file: rejected by the decoder => must be a build error. The include "
             "table covers str/b64/b64urlsafe (Python base64), empty, binary, missing files and unknown types.",
        design_ref="DESIGN.md §4.10, §5/C15, §6",
        note="Trusted: TLC, the emitters (every file is cross-checked), Python json/tomllib/base64, PyYAML under YAML 1.1 "
             "and 1.2 core schema, harness Val projection. Variants outside the subset on which the decoders agree are "
             "counted in the evidence, not judged. Key order is not compared.",
        technique="TLA+ spec (DataModel.tla) model-checked with TLC; spec->impl replay of every explored document and of "
                  "the include table; independent encoders and decoders as environment",
    ),
    "C16": dict(
        category="model_checking",
        text="Build.tla: BatchEqualsSolo (outcome, diagnostic class and artifact content of every file equal what `Solo(f)`, "
             "a cache-free denotation, gives) is model-checked over projects of 2 x <=2 and 3 x <=1 files (entry files with "
             "out, shared libraries, files both built and imported, failing files; thorough: a 3-level mix and sampled 4-/6-"
             "file projects), every permutation of the argument list, each invocation run twice. Replay: each sampled case "
             "as a batch (twice), as one fresh process per file on pristine copies, every fourth also as `ucg build -r .`; "
             "per-file outcome, diagnostic class and artifact bytes are compared between batch and solo and with the "
             "specification; the cache and lock events are validated against BuildTrace.tla.",
        design_ref="DESIGN.md §4.8, §5/C16, §11.7",
        note="Trusted: TLC, vp/buildproj.py, the ucg binary's exit status/stderr classes.",
        technique="TLA+ spec (Build.tla) model-checked with TLC; spec->impl replay through the ucg binary; impl->spec trace validation of recorded build-session events (BuildTrace.tla)",
    ),
    "C17": dict(
        category="model_checking",
        text="Gen.tla plants exactly one fault per program (an ill-typed join, unknown or leaked name, missing field/index, "
             "unhandled select, failed cast, fail, wrong arity, at any nesting position incl. function and module bodies) "
             "and records the statement; Translate.tla copies statement positions onto every op where translate.rs copies "
             "a Position and VM.tla propagates them through the stack and the VIA decoration of nested VMs, so the op "
             "positions the real translator emits are checked against the model on every C01 replay. For C17 each program "
             "is laid out over several lines and FileBuilder::eval_string's diagnostic parsed: the primary line must lie "
             "in the faulty statement's span (or, for a fault planted in a call, that statement must be listed under VIA), "
             "a fault in a body run from a later statement must list that statement under VIA, and inserting 1..3 "
             "unrelated statements before the fault must move the line by exactly that much and keep the column. Syntax "
             "faults are Mutate.tla scripts (delete/duplicate/swap/replace a token) confined to one statement: the parse "
             "error must lie in that statement or at the first token after it. Families added after two seeding rounds "
             "and a coverage pass: reduce over late-failing targets, function bodies met at a later call, a module "
             "instance as an operand, callbacks whose answers map cannot use, failing annotated lets; a failure without "
             "a planted fault takes its statement from VM.tla's blame.",
        design_ref="DESIGN.md §3.4, §4.3, §4.13, §5/C17, §11.5, §11.8",
        note="Trusted: TLC, vp/render.py and the line layout in vp/c17.py, the harness. Element positions inside list values "
             "are abstracted to the list's position in VM.tla, so the Blame verdict is taken on the real diagnostic, not on "
             "the model's. Open finding: positions inside @{...} are relative to the template.",
        technique="TLA+ specs (Gen with fault bookkeeping, Translate/VM positions, Mutate) explored with TLC; spec->impl "
                  "replay of every faulty program under two layouts",
    ),
    "C18": dict(
        category="model_checking",
        text="Eval.tla / VM.tla with a process environment (EnvVars) under both Strict values: env.NAME for set and unset "
             "names, a tuple field and a selector named env, `let env = ...` (rejected by the parser, modelled as "
             "ParserRejects). Agreement is model-checked exhaustively over the env families of Gen.tla. Replay: every "
             "program through FileBuilder::eval_string with the specification's environment plus a planted secret (value / "
             "failure in strict mode / NULL otherwise, no diagnostic contains the secret, the diagnostic of a lone unset "
             "read names the variable), and seeded random environments of 0..20 variables (names over [A-Za-z0-9_], values "
             "arbitrary Unicode) through the `ucg [--no-strict] build` binary under exactly that environment: the artifact "
             "of `out json {v = env.NAME}` must hold the exact value, an unset name must fail naming the variable (strict) "
             "or give null, stderr must not contain the secret. Every fifth random environment is also written out whole (`out json {all = env}`) and must equal the process environment exactly.",
        design_ref="DESIGN.md §5/C18",
        note="Trusted: TLC, vp/render.py, the harness, Python json. Names that are not ucg symbols are selected in quoted "
             "form. NUL cannot occur in an environment value.",
        technique="TLA+ specs (Gen/Eval/VM with EnvVars, Strict) model-checked with TLC; spec->impl replay through the "
                  "library and the ucg binary under controlled environments",
    ),
    "C19": dict(
        category="model_checking",
        text="Stdlib.tla: reference definitions (written from the doc comments, docsite and std/tests) on TLA+ sequences for "
             "lists.len/reverse/head/tail/enumerate/zip/slice/str_join, tuples.fields/values/iter/strip_nulls/has_fields, "
             "strings.len/chars/split_on/split_at/substr/parse_int, functional.maybe and schema.shaped/any/all/base_type_of, "
             "each yielding the set of admissible outcomes (value, must-fail, documented don't-care); the algebraic laws of "
             "the statement (reverse involution/length, |zip|=min, slice inclusive, join(split(s,sep),sep)=s, substr/split_at "
             "concatenation, i64 edge of parse_int, shaped reflexive/monotone ...) are TLC invariants over a generator "
             "machine of calls: exhaustive for lists <=4 over 3 ids with all index pairs incl. boundaries, tuples <=3 incl. "
             "NULL, strings <=4 over 4 characters, separators 1-2 (thorough: +1), simulation to 12/8/20. Every call is "
             "refined (mixed-type values, ASCII+Unicode characters, plain/quoted names; seeded), bound in generated files "
             "importing std/*.ucg, built with FileBuilder::build (strict) and compared with the prediction; a sample also "
             "through `ucg build` + out json. Growth step: std/*.ucg are parsed by the harness, converted to Eval.tla's AST "
             "and EVALUATED BY Eval.tla INSIDE TLC against the same reference (StdlibSrc.tla).",
        design_ref="DESIGN.md §4.11, §5/C19",
        note="Trusted: TLC, renderer/refinement/comparison in vp/c19.py, AST conversion in vp/stdsrc.py, harness build/parse, "
             "python json. Don't-cares: reversed slice range, split_at/substr outside 0..len, parse_int without a leading "
             "digit, partial-vs-exact matching of list elements in shaped; str_join on str/int/bool items only.",
        technique="TLA+ reference spec (Stdlib.tla) with laws model-checked and simulated by TLC; spec->impl replay of every "
                  "generated call; std sources evaluated by Eval.tla inside TLC (StdlibSrc.tla)",
    ),
    "C20": dict(
        category="model_checking",
        text="Lsp.tla: the session machine of `ucg lsp` (open documents, workspace index, in-flight messages, outbox; "
             "one action per main_loop iteration; Diag(text, environment) uninterpreted) is model-checked for the design "
             "(Deviations = {}): Alive, EveryRequestAnsweredOnceInOrder, PublishAfterSync, CloseClears, CurrentTextOnly, "
             "GhostFree and the action property HandleMeetsDue, exhaustively for <=3 documents, <=4 text ids, sessions "
             "<=6, and every named deviation must give a TLC counterexample session. TLC -simulate draws sessions of "
             "1..30 messages, refined per seed to generated / token-mutated / type-error programs, arbitrary UTF-8 "
             "(non-ASCII, CRLF) and repo .ucg files, with positions per class; each is driven into a real `ucg lsp` "
             "process over stdio and the recorded JSON-RPC traffic - plus what a brand-new server publishes on the same "
             "text and what the compiler's parser/build says - is accepted or rejected by LspTrace.tla. The driver checks "
             "that every range of every response / diagnostic lies inside the document it refers to.",
        design_ref="DESIGN.md §4.12, §2.6, §5/C20, §8.2",
        note="Trusted: TLC + CommunityModules Json/IOUtils, vp/lspclient.py framing, the UTF-16 geometry and text "
             "generator in vp/c20gen.py, harness parse/build as the compiler oracle. Sessions reaching the code are "
             "sampled (simulation), the design is exhaustive in the stated bound. Open findings are switched on as "
             "deviations in the trace machine and reported as KNOWN-FINDING.",
        technique="TLA+ spec (Lsp.tla) model-checked and simulated with TLC; impl->spec trace validation of recorded "
                  "JSON-RPC sessions (LspTrace.tla)",
    ),
}

NOT_YET = {}


def main():
    import subprocess
    props = [json.loads(l) for l in open(os.path.join(C.VERIF, "properties.jsonl"))]
    ids = [p["id"] for p in props]
    commits = subprocess.run(["git", "-C", C.REPO, "log", "--format=%H %s"], capture_output=True,
                             text=True).stdout.splitlines()
    hooks = [c.split()[0] for c in commits if " verif hooks:" in c]
    checks = []
    for pid in ids:
        if pid not in CHECKS:
            continue
        c = CHECKS[pid]
        checks.append({
            "property_id": pid,
            "quick_cmd": "./check %s quick" % pid,
            "thorough_cmd": "./check %s thorough" % pid,
            "evidence_file": "/verif/evidence/%s.json" % pid,
            "replay_cmd_template": "./check %s --replay {path}" % pid,
            "engine": "tlc+replay",
            "level_claimed": {"category": c["category"], "text": c["text"], "design_ref": c["design_ref"]},
            "level_note": c["note"],
            "technique": c["technique"],
        })
    na = []
    for pid in ids:
        if pid not in CHECKS:
            na.append({"property_id": pid,
                       "reason": NOT_YET.get(pid, "not claimed yet: specification and binding for this property "
                                                  "are still under construction (see DESIGN.md §5)")})
    m = {
        "version": 1,
        "setup_cmd": "./setup.sh",
        "hooks": {
            "guard": "cargo feature `verif` (cfg(feature = \"verif\"))",
            "enable": "cargo build --features verif (the harness crate enables it through its feature `hooks`)",
            "baseline_off_cmd": "cd /repo && cargo test --workspace --no-fail-fast --offline",
            "source_commits": hooks,
            "add_only": True,
        },
        "engines": [
            {"name": "tlc+replay", "path": "/verif/check",
             "serves_properties": [c["property_id"] for c in checks],
             "kind_free_text": "explicit TLA+ specifications (spec/*.tla) checked with TLC; behaviours emitted by "
                               "TLC are replayed into ucglib / the ucg binary through /verif/harness, and traces "
                               "recorded by the `verif` hooks are validated against the trace specifications"},
        ],
        "checks": checks,
        "not_applicable": na,
        "notes": "Entry point ./check <id> quick|thorough [--replay file]; exit 0 held, 1 VIOLATION, 2 tool error. "
                 "known_findings.jsonl lists recorded defects (open) and repaired ones (fixed); KNOWN_FINDINGS.txt is the same list in the line format `fixed: property=<id> <commit> <what>` / `open: property=<id> key=<key> <what>` (generated by python3 -m vp.findings_txt, never written by a check). seeded/ holds the independently seeded changes and the sub-agents' reports (DESIGN 11.6-11.9).",
    }
    with open(os.path.join(C.VERIF, "MANIFEST.json"), "w") as f:
        json.dump(m, f, indent=1)
        f.write("\n")


if __name__ == "__main__":
    main()
