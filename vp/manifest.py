"""Writes /verif/MANIFEST.json from the table below (python3 -m vp.manifest)."""
import json
import os

from . import common as C

HOOK_COMMITS = []  # filled from git below

CHECKS = {
    "C02": dict(
        category="model_checking",
        text="Precedence.tla: the precedence climber of parse/precedence.rs, transcribed loop by loop, is "
             "model-checked against the grouping the published table defines (the table is parsed from "
             "expressions.md on every run) for ALL chains of 1..4 (thorough 5) of the 18 operators and all "
             "chains of <=3 operators with parenthesised sub-chains; every explored chain is then replayed into "
             "ucglib::parse::parse (plain, fully parenthesised along the reference, contrary parentheses; "
             "simulated chains <=10 with compound operands) and the Binary tree compared with the predicted one. "
             "Exhaustive in the stated bound, so a grouping error on any chain of that size cannot pass.",
        design_ref="DESIGN.md §4.4, §5/C02",
        note="Trusted: TLC, the renderer/tree comparison in vp/c02.py, the AST projection of the harness. "
             "Operands are symbols or self-delimiting compound forms.",
        technique="TLA+ spec (Precedence.tla) model-checked with TLC; spec->impl replay of every explored chain",
    ),
}

NOT_YET = {}


def main():
    import subprocess
    props = [json.loads(l) for l in open(os.path.join(C.VERIF, "properties.jsonl"))]
    ids = [p["id"] for p in props]
    commits = subprocess.run(["git", "-C", C.REPO, "log", "--format=%H %s"], capture_output=True,
                             text=True).stdout.splitlines()
    hooks = [c.split()[0] for c in commits if " verif hooks:" in c]
    checks = []
    for pid in ids:
        if pid not in CHECKS:
            continue
        c = CHECKS[pid]
        checks.append({
            "property_id": pid,
            "quick_cmd": "./check %s quick" % pid,
            "thorough_cmd": "./check %s thorough" % pid,
            "evidence_file": "/verif/evidence/%s.json" % pid,
            "replay_cmd_template": "./check %s --replay {path}" % pid,
            "engine": "tlc+replay",
            "level_claimed": {"category": c["category"], "text": c["text"], "design_ref": c["design_ref"]},
            "level_note": c["note"],
            "technique": c["technique"],
        })
    na = []
    for pid in ids:
        if pid not in CHECKS:
            na.append({"property_id": pid,
                       "reason": NOT_YET.get(pid, "not claimed yet: specification and binding for this property "
                                                  "are still under construction (see DESIGN.md §5)")})
    m = {
        "version": 1,
        "setup_cmd": "./setup.sh",
        "hooks": {
            "guard": "cargo feature `verif` (cfg(feature = \"verif\"))",
            "enable": "cargo build --features verif (the harness crate enables it through its feature `hooks`)",
            "baseline_off_cmd": "cd /repo && cargo test --workspace --no-fail-fast --offline",
            "source_commits": hooks,
            "add_only": True,
        },
        "engines": [
            {"name": "tlc+replay", "path": "/verif/check",
             "serves_properties": [c["property_id"] for c in checks],
             "kind_free_text": "explicit TLA+ specifications (spec/*.tla) checked with TLC; behaviours emitted by "
                               "TLC are replayed into ucglib / the ucg binary through /verif/harness, and traces "
                               "recorded by the `verif` hooks are validated against the trace specifications"},
        ],
        "checks": checks,
        "not_applicable": na,
        "notes": "Entry point ./check <id> quick|thorough [--replay file]; exit 0 held, 1 VIOLATION, 2 tool error. "
                 "known_findings.jsonl lists recorded defects (open) and repaired ones (fixed).",
    }
    with open(os.path.join(C.VERIF, "MANIFEST.json"), "w") as f:
        json.dump(m, f, indent=1)
        f.write("\n")


if __name__ == "__main__":
    main()
