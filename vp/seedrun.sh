#!/bin/bash
# vp/seedrun.sh <seed-dir> <Cxx> [more check ids...]  : apply a seeded change to the scratch worktree, run the quick
# check(s) against it, print the exit status(es), revert.  Never touches /repo.
set -u
SEED="$1"; shift
WT=/tmp/mut-core
BD=/tmp/mut-core-build
HEAD=$(git -C /repo rev-parse HEAD)
git -C $WT checkout -q -- . && git -C $WT clean -fdq && git -C $WT checkout -q --detach $HEAD || exit 2
git -C $WT apply "$SEED/patch.diff" || { echo "patch does not apply"; exit 2; }
for P in "$@"; do
  start=$(date +%s)
  (cd /verif && VERIF_REPO=$WT VERIF_BUILD=$BD timeout 2400 ./check $P quick > $BD/seed-$P.log 2>&1)
  rc=$?
  echo "$(basename $SEED) $P exit=$rc $(( $(date +%s) - start ))s  $(grep -c '^VIOLATION' $BD/seed-$P.log) violation lines; $(grep '^TOOL-ERROR' $BD/seed-$P.log | head -1 | cut -c1-150)"
done
git -C $WT checkout -q -- . && git -C $WT clean -fdq
