"""Shared orchestration: paths, builds, TLC runs, harness client, evidence,
known findings, violation reporting.  Python stdlib only."""
import fcntl
import hashlib
import json
import os
import queue
import re
import shutil
import subprocess
import sys
import threading
import time

VERIF = os.path.dirname(os.path.dirname(os.path.abspath(__file__)))
REPO = os.environ.get("VERIF_REPO", "/repo")
# A scratch copy of the repository (mutant / seeded-change testing) is checked with
#   VERIF_REPO=/tmp/wt VERIF_BUILD=/tmp/wt-build ./check Cxx quick
# which keeps its build output, evidence and replay files away from the real ones.
ALT = REPO != "/repo" or bool(os.environ.get("VERIF_BUILD"))     # own build output, evidence, replays
BUILD = os.environ.get("VERIF_BUILD") or os.path.join(VERIF, ".build")
if ALT and not os.environ.get("VERIF_BUILD"):
    BUILD = os.path.join(VERIF, ".build", "alt-" + hashlib.sha1(REPO.encode()).hexdigest()[:8])
SPEC = os.path.join(VERIF, "spec")
EVID = os.path.join(BUILD, "evidence") if ALT else os.path.join(VERIF, "evidence")
REPLAYS = os.path.join(BUILD, "replays") if ALT else os.path.join(VERIF, "replays")
NCPU = os.cpu_count() or 4


def _die_with_parent():
    """preexec_fn: the child gets SIGKILL when this process dies (no orphaned TLC / harness)."""
    try:
        import ctypes
        import signal
        ctypes.CDLL("libc.so.6").prctl(1, signal.SIGKILL)
    except Exception:
        pass


class ToolError(Exception):
    """Anything that is not a verdict about the property (exit status 2)."""


def log(*a):
    print(*a, file=sys.stderr, flush=True)


def seed():
    try:
        return int(os.environ.get("VERIF_SEED", "1"))
    except ValueError:
        return 1


# --------------------------------------------------------------------------
# builds
# --------------------------------------------------------------------------

class _Lock:
    def __init__(self, name):
        os.makedirs(BUILD, exist_ok=True)
        self.path = os.path.join(BUILD, name)

    def __enter__(self):
        self.f = open(self.path, "w")
        fcntl.flock(self.f, fcntl.LOCK_EX)
        return self

    def __exit__(self, *a):
        fcntl.flock(self.f, fcntl.LOCK_UN)
        self.f.close()


def _cargo_env():
    env = dict(os.environ)
    env["CARGO_NET_OFFLINE"] = "true"
    env.pop("RUST_BACKTRACE", None)
    env.pop("RUSTFLAGS", None)
    if os.environ.get("VERIF_COVERAGE"):
        # development aid (docs/BUILDING.md): source coverage of zaphar/ucg under the checks, to find what no check reaches;
        # used with VERIF_BUILD=<scratch dir> and LLVM_PROFILE_FILE, never in a registered command
        env["RUSTFLAGS"] = "-C instrument-coverage -C llvm-args=-runtime-counter-relocation"
        env["RUSTUP_TOOLCHAIN"] = "nightly"
        env.pop("LLVM_PROFILE_FILE", None)        # instrumented proc-macros inside rustc must not write (continuous mode crashes it)
    return env


def _write_if_changed(path, text):
    if not os.path.exists(path) or open(path).read() != text:
        with open(path, "w") as f:
            f.write(text)


def ensure_harness():
    """Build the harness against /repo's working tree (incremental)."""
    hdir = os.path.join(VERIF, "harness")
    if ALT:
        # private copy of the harness crate pointing at the scratch repository
        src = hdir
        hdir = os.path.join(BUILD, "harness-src")
        os.makedirs(os.path.join(hdir, ".cargo"), exist_ok=True)
        shutil.rmtree(os.path.join(hdir, "src"), ignore_errors=True)
        shutil.copytree(os.path.join(src, "src"), os.path.join(hdir, "src"))
        toml = open(os.path.join(src, "Cargo.toml")).read().replace('path = "/repo"', 'path = "%s"' % REPO)
        _write_if_changed(os.path.join(hdir, "Cargo.toml"), toml)
        _write_if_changed(os.path.join(hdir, ".cargo", "config.toml"),
                          '[net]\noffline = true\n\n[build]\ntarget-dir = "%s"\n' % os.path.join(BUILD, "harness"))
    with _Lock("cargo.lock"):
        lock_src = os.path.join(REPO, "Cargo.lock")
        lock_dst = os.path.join(hdir, "Cargo.lock")
        if (not os.path.exists(lock_dst)
                or open(lock_src, "rb").read() != open(lock_dst, "rb").read()):
            # the harness adds no crate of its own: ucg's lock file is complete
            shutil.copyfile(lock_src, lock_dst)
        t0 = time.time()
        p = subprocess.run(
            ["cargo", "build", "--offline", "--features", "hooks"],
            cwd=hdir, env=_cargo_env(), stdout=subprocess.PIPE, stderr=subprocess.STDOUT, text=True)
        if p.returncode != 0:
            raise ToolError("harness build failed:\n" + p.stdout[-4000:])
        log("[build] harness ok in %.1fs" % (time.time() - t0))
    return os.path.join(BUILD, "harness", "debug", "ucg-verif-harness")


def ensure_ucg():
    """Build the hook-enabled ucg binary from /repo's working tree."""
    tdir = os.path.join(BUILD, "ucg")
    with _Lock("cargo.lock"):
        t0 = time.time()
        p = subprocess.run(
            ["cargo", "build", "--offline", "--manifest-path", os.path.join(REPO, "Cargo.toml"),
             "--features", "verif", "--target-dir", tdir, "--bin", "ucg",
             "--config", "profile.dev.opt-level=1", "--config", "profile.dev.debug=false"],
            env=_cargo_env(), stdout=subprocess.PIPE, stderr=subprocess.STDOUT, text=True)
        if p.returncode != 0:
            raise ToolError("ucg build failed:\n" + p.stdout[-4000:])
        log("[build] ucg ok in %.1fs" % (time.time() - t0))
    return os.path.join(tdir, "debug", "ucg")


def scratch_dir(tag):
    d = os.path.join(BUILD, "scratch", "%s-%d" % (tag, os.getpid()))
    shutil.rmtree(d, ignore_errors=True)
    os.makedirs(d)
    return d


# --------------------------------------------------------------------------
# harness client
# --------------------------------------------------------------------------

class Harness:
    """One harness process.  A crash / hang of the code under test is data."""

    def __init__(self, path, timeout=10.0):
        self.path = path
        self.timeout = timeout
        self.p = None
        self.n = 0
        self.restarts = 0

    def _start(self):
        env = dict(os.environ)
        env.pop("RUST_BACKTRACE", None)
        self.p = subprocess.Popen([self.path], stdin=subprocess.PIPE, stdout=subprocess.PIPE,
                                  stderr=subprocess.DEVNULL, env=env, preexec_fn=_die_with_parent)

    def _kill(self):
        if self.p is not None:
            try:
                self.p.kill()
                self.p.wait()
            except Exception:
                pass
            self.p = None

    def req(self, obj, timeout=None):
        """One request.  With the default limit, a time-out is tried once more with a generous limit: on a loaded
        machine (other checks, TLC with 8 workers) a 10 s silence is not a hang; only a reproduced one is reported."""
        r = self._req(obj, timeout)
        if timeout is None and r.get("crash") == "timeout":
            r = self._req(obj, max(120.0, 12 * self.timeout))
        return r

    def _req(self, obj, timeout=None):
        if self.p is None or self.p.poll() is not None:
            self._start()
        self.n += 1
        obj = dict(obj)
        obj["id"] = self.n
        line = (json.dumps(obj) + "\n").encode()
        result = {}

        def work():
            try:
                self.p.stdin.write(line)
                self.p.stdin.flush()
                out = self.p.stdout.readline()
                result["out"] = out
            except Exception as e:  # broken pipe = the process died
                result["exc"] = e

        th = threading.Thread(target=work, daemon=True)
        th.start()
        th.join(timeout or self.timeout)
        if th.is_alive():
            self._kill()
            self.restarts += 1
            th.join(1)
            return {"crash": "timeout", "msg": "no answer within %.0fs" % (timeout or self.timeout)}
        out = result.get("out")
        if not out:
            rc = None
            try:
                rc = self.p.wait(timeout=5)
            except Exception:
                pass
            self._kill()
            self.restarts += 1
            return {"crash": "abort", "msg": "harness process died (status %r)" % (rc,)}
        try:
            resp = json.loads(out)
        except Exception as e:
            self._kill()
            raise ToolError("harness returned garbage: %r (%s)" % (out[:200], e))
        if "toolerr" in resp:
            raise ToolError("harness: " + str(resp["toolerr"]))
        if "crash" in resp:
            # the harness leaves after reporting a panic; restart lazily
            try:
                self.p.wait(timeout=5)
            except Exception:
                pass
            self._kill()
            self.restarts += 1
        return resp

    def batch(self, reqs, timeout=None):
        """Several requests in one round trip.  A crash inside the batch is
        attributed to the right item; a dead process makes us retry one by one."""
        if not reqs:
            return []
        r = self.req({"op": "batch", "reqs": reqs}, timeout=timeout or (self.timeout + 0.02 * len(reqs)))
        if "resps" in r:
            resps = r["resps"]
            if r.get("restart"):
                try:
                    self.p.wait(timeout=5)
                except Exception:
                    pass
                self._kill()
                self.restarts += 1
            out = []
            for q, x in zip(reqs, resps):
                if x.get("skipped"):
                    x = self.req(q)
                if "toolerr" in x:
                    raise ToolError("harness: " + str(x["toolerr"]))
                out.append(x)
            return out
        # whole batch lost (abort / timeout): find the culprit individually
        return [self.req(q) for q in reqs]

    def close(self):
        if self.p is not None:
            try:
                self.p.stdin.close()
                self.p.wait(timeout=5)
            except Exception:
                self._kill()
            self.p = None


def pmap(harness_path, items, fn, workers=None, timeout=10.0):
    """Apply fn(harness, item) to every item on a pool of harness processes.
    Returns results in order."""
    workers = workers or max(2, min(12, NCPU - 2))
    items = list(items)
    out = [None] * len(items)
    q = queue.Queue()
    for i, it in enumerate(items):
        q.put((i, it))
    errs = []

    def run():
        h = Harness(harness_path, timeout)
        try:
            while True:
                try:
                    i, it = q.get_nowait()
                except queue.Empty:
                    return
                try:
                    out[i] = fn(h, it)
                except ToolError as e:
                    errs.append(e)
                    return
                except Exception as e:  # programming error in a driver
                    import traceback
                    errs.append(ToolError("driver error: %s\n%s" % (e, traceback.format_exc())))
                    return
        finally:
            h.close()

    ths = [threading.Thread(target=run, daemon=True) for _ in range(min(workers, max(1, len(items))))]
    for t in ths:
        t.start()
    for t in ths:
        t.join()
    if errs:
        raise errs[0]
    return out


_WH = None
_WH_ARGS = None


def _proc_init(harness_path, timeout):
    global _WH, _WH_ARGS
    _WH_ARGS = (harness_path, timeout)
    _WH = Harness(harness_path, timeout) if harness_path else None


def _proc_call(args):
    func, chunk = args
    try:
        return ("ok", func(_WH, chunk))
    except ToolError as e:
        return ("toolerr", str(e))
    except Exception as e:
        import traceback
        return ("toolerr", "driver error: %s\n%s" % (e, traceback.format_exc()))


def proc_map(harness_path, func, items, chunk=500, workers=None, timeout=10.0):
    """func(harness, list_of_items) -> list of results, run on a pool of worker
    *processes* (each with its own harness process).  func must be a module-level
    function.  Results are concatenated in order."""
    import concurrent.futures as cf
    items = list(items)
    if not items:
        return []
    workers = workers or max(2, min(12, NCPU - 2))
    chunks = [items[i:i + chunk] for i in range(0, len(items), chunk)]
    out = []
    with cf.ProcessPoolExecutor(max_workers=min(workers, len(chunks)), initializer=_proc_init,
                                initargs=(harness_path, timeout)) as ex:
        for status, res in ex.map(_proc_call, [(func, c) for c in chunks]):
            if status != "ok":
                raise ToolError(res)
            out.extend(res)
    return out


# --------------------------------------------------------------------------
# TLC
# --------------------------------------------------------------------------

_REPLAY_RE = re.compile(r'^<<"REPLAY", "(.*)">>$')
_DISAGREE_RE = re.compile(r'^<<"DISAGREE", "(.*)">>$')


def _unescape_tla(s):
    out = []
    i = 0
    while i < len(s):
        c = s[i]
        if c == "\\" and i + 1 < len(s):
            n = s[i + 1]
            if n == "n":
                out.append("\n")
            elif n == "t":
                out.append("\t")
            elif n == "r":
                out.append("\r")
            elif n == "f":
                out.append("\f")
            else:
                out.append(n)
            i += 2
        else:
            out.append(c)
            i += 1
    return "".join(out)


def parse_replay_payload(raw):
    """The JSON object of one REPLAY line, from the raw payload given to on_raw."""
    return json.loads(_unescape_tla(raw))


class TlcResult:
    def __init__(self):
        self.replays = []
        self.generated = 0
        self.distinct = 0
        self.ok = False
        self.violation = None   # name of violated invariant / property
        self.errtext = ""
        self.cmd = ""
        self.wall = 0.0
        self.coverage = {}
        self.lines = []
        self.disagree = []


def run_tlc(module, cfg=None, workers=8, simulate=None, depth=None, timeout=1800,
            env_extra=None, dfs=False, keep_lines=False, on_replay=None, coverage=False,
            heap="4g", seed_=None, gendir=None, on_raw=None, max_replays=None):
    """Run TLC on spec/<module>.tla with spec/<cfg>.cfg.  REPLAY lines are parsed
    (JSON) and collected or streamed to on_replay.  With on_raw the payload of each
    REPLAY line is handed over unparsed (parse it with parse_replay_payload, e.g. in
    worker processes, when millions of lines make the parsing the bottleneck)."""
    cfg = cfg or module
    run_id = "%s-%s-%d" % (module, cfg, os.getpid())
    meta = os.path.join(BUILD, "tlc", run_id)
    shutil.rmtree(meta, ignore_errors=True)
    os.makedirs(meta, exist_ok=True)
    # java.io.tmpdir: TLC unpacks its standard modules into a fresh tlc-* directory per run and leaves it behind
    cmd = ["java", "-XX:+UseParallelGC", "-Xmx" + heap, "-Xss512m", "-DTLA-Library=" + SPEC, "-Djava.io.tmpdir=" + meta]
    if dfs:
        cmd.append("-Dtlc2.tool.queue.IStateQueue=StateDeque")
    cmd += ["-cp", "/opt/veriftools/tla/tla2tools.jar:/opt/veriftools/tla/CommunityModules-deps.jar",
            "tlc2.TLC"]
    cmd = _tlc_base(cmd)
    cmd += ["-workers", str(workers), "-metadir", meta, "-cleanup", "-noGenerateSpecTE",
            "-config", cfg + ".cfg"]
    s = seed_ if seed_ is not None else seed()
    if simulate:
        cmd += ["-simulate", "num=%d" % simulate, "-seed", str(s)]
        if depth:
            cmd += ["-depth", str(depth)]
    if coverage:
        cmd += ["-coverage", "1"]
    cmd += [module + ".tla"]
    env = dict(os.environ)
    if env_extra:
        env.update(env_extra)
    res = TlcResult()
    res.cmd = " ".join(cmd)
    t0 = time.time()
    p = subprocess.Popen(cmd, cwd=gendir or SPEC, env=env, stdout=subprocess.PIPE, stderr=subprocess.STDOUT,
                         text=True, errors="replace", preexec_fn=_die_with_parent)
    timer = threading.Timer(timeout, p.kill)
    timer.start()
    errlines = []
    in_err = False
    nrep = 0
    stopped = False
    try:
        for line in p.stdout:
            line = line.rstrip("\n")
            m = _REPLAY_RE.match(line)
            if m and on_raw:
                on_raw(m.group(1))
                continue
            if m:
                try:
                    obj = json.loads(_unescape_tla(m.group(1)))
                except Exception as e:
                    raise ToolError("unparsable REPLAY line: %s (%s)" % (line[:300], e))
                if on_replay:
                    on_replay(obj)
                else:
                    res.replays.append(obj)
                nrep += 1
                if max_replays and nrep >= max_replays:
                    stopped = True       # enough cases: stop the (unbounded) simulation
                    p.kill()
                    break
                continue
            m = _DISAGREE_RE.match(line)
            if m:
                try:
                    res.disagree.append(json.loads(_unescape_tla(m.group(1))))
                except Exception:
                    res.disagree.append({"raw": line[:2000]})
                continue
            if keep_lines:
                res.lines.append(line)
            m = re.search(r"(\d+) states generated, (\d+) distinct states found", line)
            if m:
                res.generated = int(m.group(1))
                res.distinct = int(m.group(2))
            m = re.search(r"The number of states generated: (\d+)", line)
            if m:
                res.generated = int(m.group(1))
            if "Model checking completed. No error has been found" in line:
                res.ok = True
            if simulate and "Simulation using seed" in line:
                pass
            m = re.search(r"Invariant (\S+) is violated", line)
            if m:
                res.violation = m.group(1)
            m = re.search(r"Action property (\S+) is violated", line)
            if m:
                res.violation = m.group(1)
            if line.startswith("Error:") or in_err:
                in_err = True
                errlines.append(line)
                if len(errlines) > 200:
                    in_err = False
    finally:
        timer.cancel()
        if p.poll() is None and sys.exc_info()[0] is not None:
            p.kill()
        rc = p.wait()
    res.wall = time.time() - t0
    res.errtext = "\n".join(errlines)
    shutil.rmtree(meta, ignore_errors=True)
    if simulate and (rc == 0 or stopped) and not errlines:
        res.ok = True
    if rc != 0 and not res.violation and not errlines:
        res.errtext = "TLC exit status %d (timeout %ds?)" % (rc, timeout)
    res.rc = rc
    return res


def gen_dir(tag):
    d = os.path.join(BUILD, "gen", "%s-%d" % (tag, os.getpid()))
    shutil.rmtree(d, ignore_errors=True)
    os.makedirs(d)
    return d


def _tlc_base(cmd):
    """Use the same class path the `tlc` wrapper uses."""
    wrapper = shutil.which("tlc")
    cp = None
    if wrapper:
        try:
            txt = open(wrapper).read()
            m = re.search(r"-cp\s+(\S+)", txt)
            if m:
                cp = m.group(1).strip('"')
        except Exception:
            pass
    if cp:
        i = cmd.index("-cp")
        cmd[i + 1] = cp
    return cmd


def require_tlc_ok(res, what):
    if res.violation:
        return
    if not res.ok:
        raise ToolError("TLC failed on %s: %s\n%s" % (what, res.errtext[:3000], res.cmd))


# --------------------------------------------------------------------------
# evidence, findings, violations
# --------------------------------------------------------------------------

def write_evidence(pid, tier, level, coverage, wall, violations=0, assumptions=None):
    os.makedirs(EVID, exist_ok=True)
    ev = {
        "property_id": pid,
        "tier": tier,
        "seed": seed(),
        "level": level,
        "coverage": coverage,
        "assumptions": assumptions or [],
        "wall_s": round(wall, 2),
        "violations": violations,
    }
    tmp = os.path.join(EVID, pid + ".json.tmp")
    with open(tmp, "w") as f:
        json.dump(ev, f, indent=1, ensure_ascii=False)
        f.write("\n")
    os.replace(tmp, os.path.join(EVID, pid + ".json"))


def load_findings(pid):
    # VERIF_FINDINGS: another findings file (trying out a fix diff on a scratch copy of the repository)
    path = os.environ.get("VERIF_FINDINGS") or os.path.join(VERIF, "known_findings.jsonl")
    out = []
    if os.path.exists(path):
        for line in open(path):
            line = line.strip()
            if not line or line.startswith("#"):
                continue
            d = json.loads(line)
            if d.get("property") == pid and d.get("status") == "open":
                out.append(d)
    return out


class Reporter:
    """Collects disagreements, matches them against known findings, prints the
    interface lines, and decides the exit status."""

    def __init__(self, pid):
        self.pid = pid
        self.findings = load_findings(pid)
        self.matched = {}
        self.violations = []
        shutil.rmtree(os.path.join(REPLAYS, pid), ignore_errors=True)   # replay files of earlier runs

    def disagree(self, case, key=None):
        """case: JSON-serialisable description.  key: the specific signature of
        this disagreement (compared with the `key` of open findings)."""
        for f in self.findings:
            if key is not None and f.get("key") == key:
                self.matched.setdefault(key, []).append(case)
                return "known"
        self.violations.append((key, case))
        return "violation"

    def finish(self):
        for f in self.findings:
            k = f.get("key")
            if k in self.matched:
                print("KNOWN-FINDING: property=%s key=%s %s (%d case(s) this run)" % (
                    self.pid, k, f.get("what", ""), len(self.matched[k])), flush=True)
        if not self.violations:
            return 0
        d = os.path.join(REPLAYS, self.pid)
        os.makedirs(d, exist_ok=True)
        seen = set()
        for key, case in self.violations[:5]:
            blob = json.dumps({"property": self.pid, "key": key, "case": case}, indent=1,
                              ensure_ascii=False, sort_keys=True)
            h = hashlib.sha1(blob.encode()).hexdigest()[:12]
            if h in seen:
                continue
            seen.add(h)
            path = os.path.join(d, h + ".json")
            with open(path, "w") as f:
                f.write(blob + "\n")
            print("VIOLATION property=%s replay=%s" % (self.pid, path), flush=True)
        if len(self.violations) > 5:
            log("(%d further violations not written)" % (len(self.violations) - 5))
        return 1


def tier_from_argv(argv):
    t = os.environ.get("VERIF_TIER")
    for a in argv:
        if a in ("quick", "thorough"):
            t = a
    return t or "quick"
